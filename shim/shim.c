/* LD_PRELOAD interposer for the real breadlog binary (correspondence harness H2).
 *
 *   VSHIM_LOG    file to append the trace to
 *   VSHIM_ROOTS  ':'-separated absolute directory prefixes that are "tracked"
 *   VSHIM_PLAN   ','-separated  <k>=<action>  applied to the k-th tracked operation (1-based):
 *                  fail:<errno>   do not perform, return -1 / errno
 *                  sig:<signo>    raise(signo) in the calling thread, then perform
 *                  killb          SIGKILL the process before performing
 *                  killa          perform, then SIGKILL the process
 *
 * Trace lines:   "<k> <op> <ret> <errno> <detail...>"   for tracked operations (counted)
 *                "X <op> <detail...>"                     for mutating operations that are
 *                                                         NOT tracked (outside the roots)
 * Writes to fd 1 / 2 are never traced.  The shim logs with raw syscalls only.
 */
#define _GNU_SOURCE
#include <dlfcn.h>
#include <errno.h>
#include <fcntl.h>
#include <signal.h>
#include <stdarg.h>
#include <stdio.h>
#include <stdlib.h>
#include <string.h>
#include <sys/stat.h>
#include <sys/syscall.h>
#include <sys/types.h>
#include <unistd.h>
#include <dirent.h>
#include <pthread.h>

#define MAXFD 4096
#define MAXPLAN 64

static int log_fd = -1;
static char *roots[16];
static int nroots = 0;
static volatile long counter = 0;
static char *fdpath[MAXFD];
static DIR *dirs[256];
static char *dirpath[256];
static pthread_mutex_t mu = PTHREAD_MUTEX_INITIALIZER;

struct plan_item { long k; int action; int arg; };   /* action: 1 fail 2 sig 3 killb 4 killa */
static struct plan_item plan[MAXPLAN];
static int nplan = 0;
static int inited = 0;

static void raw_log(const char *fmt, ...)
{
    if (log_fd < 0) return;
    char buf[4608];
    va_list ap;
    va_start(ap, fmt);
    int n = vsnprintf(buf, sizeof buf - 1, fmt, ap);
    va_end(ap);
    if (n < 0) return;
    if (n > (int)sizeof buf - 2) n = sizeof buf - 2;
    buf[n++] = '\n';
    syscall(SYS_write, log_fd, buf, n);
}

static void init(void)
{
    if (inited) return;
    inited = 1;
    const char *lp = getenv("VSHIM_LOG");
    if (lp) {
        int fd = syscall(SYS_openat, AT_FDCWD, lp, O_WRONLY | O_CREAT | O_APPEND | O_CLOEXEC, 0644);
        if (fd >= 0) {
            int hi = syscall(SYS_fcntl, fd, F_DUPFD_CLOEXEC, 1000);
            if (hi >= 0) { syscall(SYS_close, fd); log_fd = hi; } else log_fd = fd;
        }
    }
    const char *r = getenv("VSHIM_ROOTS");
    if (r) {
        char *copy = strdup(r), *save = NULL;
        for (char *t = strtok_r(copy, ":", &save); t && nroots < 16; t = strtok_r(NULL, ":", &save))
            roots[nroots++] = t;
    }
    const char *p = getenv("VSHIM_PLAN");
    if (p) {
        char *copy = strdup(p), *save = NULL;
        for (char *t = strtok_r(copy, ",", &save); t && nplan < MAXPLAN; t = strtok_r(NULL, ",", &save)) {
            char *eq = strchr(t, '=');
            if (!eq) continue;
            *eq = 0;
            plan[nplan].k = atol(t);
            char *a = eq + 1;
            if (!strncmp(a, "fail:", 5)) { plan[nplan].action = 1; plan[nplan].arg = atoi(a + 5); }
            else if (!strncmp(a, "sig:", 4)) { plan[nplan].action = 2; plan[nplan].arg = atoi(a + 4); }
            else if (!strcmp(a, "killb")) plan[nplan].action = 3;
            else if (!strcmp(a, "killa")) plan[nplan].action = 4;
            else continue;
            nplan++;
        }
    }
}

__attribute__((constructor)) static void ctor(void) { init(); }

/* absolute, lexically normalised copy of a path */
static void absolutise(int dirfd, const char *path, char *out, size_t n)
{
    char tmp[4096];
    if (path[0] == '/') snprintf(tmp, sizeof tmp, "%s", path);
    else {
        char base[2048] = "";
        if (dirfd == AT_FDCWD || dirfd < 0 || dirfd >= MAXFD || !fdpath[dirfd]) {
            if (syscall(SYS_getcwd, base, sizeof base) < 0) base[0] = 0;
        } else snprintf(base, sizeof base, "%s", fdpath[dirfd]);
        snprintf(tmp, sizeof tmp, "%s/%s", base, path);
    }
    /* normalise . and .. and // */
    char *parts[256]; int np = 0;
    char *save = NULL;
    for (char *t = strtok_r(tmp, "/", &save); t; t = strtok_r(NULL, "/", &save)) {
        if (!strcmp(t, ".") || !*t) continue;
        if (!strcmp(t, "..")) { if (np > 0) np--; continue; }
        if (np < 256) parts[np++] = t;
    }
    size_t o = 0;
    if (np == 0) { snprintf(out, n, "/"); return; }
    for (int i = 0; i < np; i++) o += snprintf(out + o, o < n ? n - o : 0, "/%s", parts[i]);
}

static int tracked_path(const char *abs)
{
    for (int i = 0; i < nroots; i++) {
        size_t l = strlen(roots[i]);
        if (!strncmp(abs, roots[i], l) && (abs[l] == 0 || abs[l] == '/')) return 1;
    }
    return 0;
}

/* returns the index of this tracked operation and applies the "before" part of its plan.
 * *fail_errno is set (non-zero) when the operation must fail; *kill_after when it must be
 * followed by SIGKILL. */
static long begin_op(int *fail_errno, int *kill_after)
{
    long k = __sync_add_and_fetch(&counter, 1);
    *fail_errno = 0; *kill_after = 0;
    for (int i = 0; i < nplan; i++) {
        if (plan[i].k != k) continue;
        switch (plan[i].action) {
        case 1: *fail_errno = plan[i].arg; break;
        case 2: raw_log("S %ld signal %d", k, plan[i].arg); raise(plan[i].arg); break;
        case 3: raw_log("K %ld killb", k); syscall(SYS_kill, syscall(SYS_getpid), SIGKILL); break;
        case 4: *kill_after = 1; break;
        }
    }
    return k;
}

static void end_op(long k, int kill_after)
{
    if (kill_after) { raw_log("K %ld killa", k); syscall(SYS_kill, syscall(SYS_getpid), SIGKILL); }
}

#define REAL(name) static __typeof__(name) *real = NULL; if (!real) real = dlsym(RTLD_NEXT, #name); init();

static void set_fd(int fd, const char *abs)
{
    if (fd >= 0 && fd < MAXFD) {
        pthread_mutex_lock(&mu);
        free(fdpath[fd]);
        fdpath[fd] = abs ? strdup(abs) : NULL;
        pthread_mutex_unlock(&mu);
    }
}

static const char *flagstr(int flags, char *buf)
{
    int acc = flags & O_ACCMODE;
    snprintf(buf, 32, "%s%s%s%s%s", acc == O_RDONLY ? "r" : acc == O_WRONLY ? "w" : "rw",
             (flags & O_CREAT) ? "+creat" : "", (flags & O_TRUNC) ? "+trunc" : "",
             (flags & O_APPEND) ? "+append" : "", (flags & O_DIRECTORY) ? "+dir" : "");
    return buf;
}

static int mutating_flags(int flags)
{
    return (flags & O_ACCMODE) != O_RDONLY || (flags & (O_CREAT | O_TRUNC));
}

static int open_common(int dirfd, const char *path, int flags, mode_t mode, int (*do_open)(int, const char *, int, mode_t))
{
    char abs[4096], fb[32];
    absolutise(dirfd, path, abs, sizeof abs);
    if (!tracked_path(abs)) {
        int fd = do_open(dirfd, path, flags, mode);
        if (mutating_flags(flags) && strncmp(abs, "/dev/", 5) && strncmp(abs, "/proc/", 6))
            raw_log("X open %s %s ret=%d", flagstr(flags, fb), abs, fd);
        return fd;
    }
    int fe, ka;
    long k = begin_op(&fe, &ka);
    int fd;
    if (fe) { errno = fe; fd = -1; }
    else fd = do_open(dirfd, path, flags, mode);
    int e = errno;
    raw_log("%ld open %d %d %s %s", k, fd, fd < 0 ? e : 0, flagstr(flags, fb), abs);
    if (fd >= 0) set_fd(fd, abs);
    end_op(k, ka);
    errno = e;
    return fd;
}

static int real_openat_fn(int dirfd, const char *path, int flags, mode_t mode)
{
    static int (*real)(int, const char *, int, ...) = NULL;
    if (!real) real = dlsym(RTLD_NEXT, "openat64");
    return real(dirfd, path, flags, mode);
}

int open(const char *path, int flags, ...)
{
    init();
    mode_t mode = 0;
    if (flags & (O_CREAT | __O_TMPFILE)) { va_list ap; va_start(ap, flags); mode = va_arg(ap, mode_t); va_end(ap); }
    return open_common(AT_FDCWD, path, flags, mode, real_openat_fn);
}
int open64(const char *path, int flags, ...)
{
    init();
    mode_t mode = 0;
    if (flags & (O_CREAT | __O_TMPFILE)) { va_list ap; va_start(ap, flags); mode = va_arg(ap, mode_t); va_end(ap); }
    return open_common(AT_FDCWD, path, flags, mode, real_openat_fn);
}
int openat(int dirfd, const char *path, int flags, ...)
{
    init();
    mode_t mode = 0;
    if (flags & (O_CREAT | __O_TMPFILE)) { va_list ap; va_start(ap, flags); mode = va_arg(ap, mode_t); va_end(ap); }
    return open_common(dirfd, path, flags, mode, real_openat_fn);
}
int openat64(int dirfd, const char *path, int flags, ...)
{
    init();
    mode_t mode = 0;
    if (flags & (O_CREAT | __O_TMPFILE)) { va_list ap; va_start(ap, flags); mode = va_arg(ap, mode_t); va_end(ap); }
    return open_common(dirfd, path, flags, mode, real_openat_fn);
}
int creat(const char *path, mode_t mode)
{
    init();
    return open_common(AT_FDCWD, path, O_CREAT | O_WRONLY | O_TRUNC, mode, real_openat_fn);
}
int creat64(const char *path, mode_t mode)
{
    init();
    return open_common(AT_FDCWD, path, O_CREAT | O_WRONLY | O_TRUNC, mode, real_openat_fn);
}

static char *fd_tracked(int fd)
{
    if (fd < 0 || fd >= MAXFD) return NULL;
    return fdpath[fd];
}

ssize_t write(int fd, const void *buf, size_t n)
{
    REAL(write);
    char *p = fd_tracked(fd);
    if (!p) {
        ssize_t r = real(fd, buf, n);
        if (fd > 2 && fd != log_fd) {
            /* untracked write: report unless it is an eventfd / pipe / socket (runtime wake-ups) */
            struct stat st;
            if (syscall(SYS_fstat, fd, &st) == 0 && (S_ISREG(st.st_mode) || S_ISDIR(st.st_mode)))
                raw_log("X write fd=%d n=%zu ret=%zd", fd, n, r);
        }
        return r;
    }
    int fe, ka;
    long k = begin_op(&fe, &ka);
    ssize_t r;
    if (fe) { errno = fe; r = -1; } else r = real(fd, buf, n);
    int e = errno;
    raw_log("%ld write %zd %d %zu %s", k, r, r < 0 ? e : 0, n, p);
    end_op(k, ka);
    errno = e;
    return r;
}

ssize_t read(int fd, void *buf, size_t n)
{
    REAL(read);
    char *p = fd_tracked(fd);
    if (!p) return real(fd, buf, n);
    int fe, ka;
    long k = begin_op(&fe, &ka);
    ssize_t r;
    if (fe) { errno = fe; r = -1; } else r = real(fd, buf, n);
    int e = errno;
    raw_log("%ld read %zd %d %zu %s", k, r, r < 0 ? e : 0, n, p);
    end_op(k, ka);
    errno = e;
    return r;
}

int close(int fd)
{
    REAL(close);
    char *p = fd_tracked(fd);
    if (fd == log_fd) { errno = EBADF; return -1; }
    if (!p) return real(fd);
    int fe, ka;
    long k = begin_op(&fe, &ka);
    (void)fe;                       /* close is never made to fail: the fd would leak */
    int r = real(fd);
    int e = errno;
    raw_log("%ld close %d %d %s", k, r, r < 0 ? e : 0, p);
    set_fd(fd, NULL);
    end_op(k, ka);
    errno = e;
    return r;
}

#define SYNC_LIKE(fname)                                                         \
    int fname(int fd)                                                            \
    {                                                                            \
        REAL(fname);                                                             \
        char *p = fd_tracked(fd);                                                \
        if (!p) return real(fd);                                                 \
        int fe, ka;                                                              \
        long k = begin_op(&fe, &ka);                                             \
        int r;                                                                   \
        if (fe) { errno = fe; r = -1; } else r = real(fd);                       \
        int e = errno;                                                           \
        raw_log("%ld " #fname " %d %d %s", k, r, r < 0 ? e : 0, p);              \
        end_op(k, ka);                                                           \
        errno = e;                                                               \
        return r;                                                                \
    }
SYNC_LIKE(fsync)
SYNC_LIKE(fdatasync)

int ftruncate(int fd, off_t len)
{
    REAL(ftruncate);
    char *p = fd_tracked(fd);
    if (!p) { int r = real(fd, len); raw_log("X ftruncate fd=%d ret=%d", fd, r); return r; }
    int fe, ka;
    long k = begin_op(&fe, &ka);
    int r;
    if (fe) { errno = fe; r = -1; } else r = real(fd, len);
    int e = errno;
    raw_log("%ld ftruncate %d %d %ld %s", k, r, r < 0 ? e : 0, (long)len, p);
    end_op(k, ka);
    errno = e;
    return r;
}
int ftruncate64(int fd, off_t len) { return ftruncate(fd, len); }

/* two-path operations */
static int two_path(const char *op, int fd1, const char *a, int fd2, const char *b, int (*doit)(int, const char *, int, const char *))
{
    char aa[4096], bb[4096];
    absolutise(fd1, a, aa, sizeof aa);
    absolutise(fd2, b, bb, sizeof bb);
    if (!tracked_path(aa) && !tracked_path(bb)) {
        int r = doit(fd1, a, fd2, b);
        raw_log("X %s %s %s ret=%d", op, aa, bb, r);
        return r;
    }
    int fe, ka;
    long k = begin_op(&fe, &ka);
    int r;
    if (fe) { errno = fe; r = -1; } else r = doit(fd1, a, fd2, b);
    int e = errno;
    raw_log("%ld %s %d %d %s %s", k, op, r, r < 0 ? e : 0, aa, bb);
    end_op(k, ka);
    errno = e;
    return r;
}

static int do_rename(int f1, const char *a, int f2, const char *b)
{
    static int (*real)(int, const char *, int, const char *) = NULL;
    if (!real) real = dlsym(RTLD_NEXT, "renameat");
    return real(f1, a, f2, b);
}
int rename(const char *a, const char *b) { init(); return two_path("rename", AT_FDCWD, a, AT_FDCWD, b, do_rename); }
int renameat(int f1, const char *a, int f2, const char *b) { init(); return two_path("rename", f1, a, f2, b, do_rename); }
int renameat2(int f1, const char *a, int f2, const char *b, unsigned int flags)
{
    (void)flags;
    init();
    return two_path("rename", f1, a, f2, b, do_rename);
}
static int do_link(int f1, const char *a, int f2, const char *b)
{
    static int (*real)(int, const char *, int, const char *, int) = NULL;
    if (!real) real = dlsym(RTLD_NEXT, "linkat");
    return real(f1, a, f2, b, 0);
}
int link(const char *a, const char *b) { init(); return two_path("link", AT_FDCWD, a, AT_FDCWD, b, do_link); }
/* one-path mutating operations */
static int one_path(const char *op, int dirfd, const char *a, long arg, int (*doit)(int, const char *, long))
{
    char aa[4096];
    absolutise(dirfd, a, aa, sizeof aa);
    if (!tracked_path(aa)) {
        int r = doit(dirfd, a, arg);
        raw_log("X %s %s ret=%d", op, aa, r);
        return r;
    }
    int fe, ka;
    long k = begin_op(&fe, &ka);
    int r;
    if (fe) { errno = fe; r = -1; } else r = doit(dirfd, a, arg);
    int e = errno;
    raw_log("%ld %s %d %d %s", k, op, r, r < 0 ? e : 0, aa);
    end_op(k, ka);
    errno = e;
    return r;
}
static int do_unlink(int d, const char *a, long flags)
{
    static int (*real)(int, const char *, int) = NULL;
    if (!real) real = dlsym(RTLD_NEXT, "unlinkat");
    return real(d, a, (int)flags);
}
int unlink(const char *a) { init(); return one_path("unlink", AT_FDCWD, a, 0, do_unlink); }
int unlinkat(int d, const char *a, int flags) { init(); return one_path((flags & AT_REMOVEDIR) ? "rmdir" : "unlink", d, a, flags, do_unlink); }
int rmdir(const char *a) { init(); return one_path("rmdir", AT_FDCWD, a, AT_REMOVEDIR, do_unlink); }
static int do_mkdir(int d, const char *a, long mode)
{
    static int (*real)(int, const char *, mode_t) = NULL;
    if (!real) real = dlsym(RTLD_NEXT, "mkdirat");
    return real(d, a, (mode_t)mode);
}
int mkdir(const char *a, mode_t m) { init(); return one_path("mkdir", AT_FDCWD, a, m, do_mkdir); }
int mkdirat(int d, const char *a, mode_t m) { init(); return one_path("mkdir", d, a, m, do_mkdir); }
static int do_chmod(int d, const char *a, long mode)
{
    static int (*real)(int, const char *, mode_t, int) = NULL;
    if (!real) real = dlsym(RTLD_NEXT, "fchmodat");
    return real(d, a, (mode_t)mode, 0);
}
int chmod(const char *a, mode_t m) { init(); return one_path("chmod", AT_FDCWD, a, m, do_chmod); }
static int do_truncate(int d, const char *a, long len)
{
    static int (*real)(const char *, off_t) = NULL;
    (void)d;
    if (!real) real = dlsym(RTLD_NEXT, "truncate");
    return real(a, (off_t)len);
}
int truncate(const char *a, off_t len) { init(); return one_path("truncate", AT_FDCWD, a, len, do_truncate); }
static const char *symlink_target;
static int do_symlink(int d, const char *a, long unused)
{
    static int (*real)(const char *, int, const char *) = NULL;
    (void)unused;
    if (!real) real = dlsym(RTLD_NEXT, "symlinkat");
    return real(symlink_target, d, a);
}
int symlink(const char *target, const char *linkpath) { init(); symlink_target = target; return one_path("symlink", AT_FDCWD, linkpath, 0, do_symlink); }
int truncate64(const char *a, off_t len) { init(); return one_path("truncate", AT_FDCWD, a, len, do_truncate); }

int fchmod(int fd, mode_t m)
{
    REAL(fchmod);
    char *p = fd_tracked(fd);
    int r = real(fd, m);
    raw_log("X fchmod fd=%d %s ret=%d", fd, p ? p : "?", r);
    return r;
}

/* metadata and directory listing: counted (so that signals / kills can be placed during
 * discovery) but can also be made to fail */
int statx(int dirfd, const char *path, int flags, unsigned int mask, struct statx *buf)
{
    REAL(statx);
    char aa[4096];
    if (path && path[0]) absolutise(dirfd, path, aa, sizeof aa);
    else snprintf(aa, sizeof aa, "%s", fd_tracked(dirfd) ? fd_tracked(dirfd) : "?");
    if (!tracked_path(aa)) return real(dirfd, path, flags, mask, buf);
    int fe, ka;
    long k = begin_op(&fe, &ka);
    int r;
    if (fe) { errno = fe; r = -1; } else r = real(dirfd, path, flags, mask, buf);
    int e = errno;
    raw_log("%ld stat %d %d %s", k, r, r < 0 ? e : 0, aa);
    end_op(k, ka);
    errno = e;
    return r;
}

DIR *opendir(const char *path)
{
    REAL(opendir);
    char aa[4096];
    absolutise(AT_FDCWD, path, aa, sizeof aa);
    if (!tracked_path(aa)) return real(path);
    int fe, ka;
    long k = begin_op(&fe, &ka);
    DIR *d;
    if (fe) { errno = fe; d = NULL; } else d = real(path);
    int e = errno;
    raw_log("%ld opendir %d %d %s", k, d ? 0 : -1, d ? 0 : e, aa);
    if (d) {
        pthread_mutex_lock(&mu);
        for (int i = 0; i < 256; i++) if (!dirs[i]) { dirs[i] = d; dirpath[i] = strdup(aa); break; }
        pthread_mutex_unlock(&mu);
    }
    end_op(k, ka);
    errno = e;
    return d;
}

static const char *dir_of(DIR *d)
{
    for (int i = 0; i < 256; i++) if (dirs[i] == d) return dirpath[i];
    return NULL;
}

struct dirent64 *readdir64(DIR *d)
{
    REAL(readdir64);
    const char *p = dir_of(d);
    if (!p) return real(d);
    int fe, ka;
    long k = begin_op(&fe, &ka);
    struct dirent64 *r;
    if (fe) { errno = fe; r = NULL; } else { errno = 0; r = real(d); }
    int e = errno;
    raw_log("%ld readdir %d %d %s %s", k, r ? 0 : -1, e, p, r ? r->d_name : "-");
    end_op(k, ka);
    errno = e;
    return r;
}

int closedir(DIR *d)
{
    REAL(closedir);
    pthread_mutex_lock(&mu);
    for (int i = 0; i < 256; i++) if (dirs[i] == d) { dirs[i] = NULL; free(dirpath[i]); dirpath[i] = NULL; }
    pthread_mutex_unlock(&mu);
    return real(d);
}
