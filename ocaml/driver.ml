(* Model runner: same line protocol as harness/hookcli, answered by the extracted model. *)
open Model

let rec pos_of_int (i : int) : positive =
  if i = 1 then XH
  else if i land 1 = 0 then XO (pos_of_int (i lsr 1))
  else XI (pos_of_int (i lsr 1))
let n_of_int (i : int) : n = if i = 0 then N0 else Npos (pos_of_int i)
let rec int_of_pos (p : positive) : int =
  match p with XH -> 1 | XO q -> 2 * int_of_pos q | XI q -> 2 * int_of_pos q + 1
let int_of_n (x : n) : int = match x with N0 -> 0 | Npos p -> int_of_pos p

let unhex (s : string) : string =
  let n = String.length s / 2 in
  String.init n (fun i -> Char.chr (int_of_string ("0x" ^ String.sub s (2 * i) 2)))

let hex (s : string) : string =
  String.concat "" (List.map (fun c -> Printf.sprintf "%02x" (Char.code c)) (List.of_seq (String.to_seq s)))

(* UTF-8 -> scalar values (input is valid UTF-8 by construction) *)
let decode (s : string) : n list =
  let len = String.length s in
  let rec go i acc =
    if i >= len then List.rev acc
    else
      let b = Char.code s.[i] in
      if b < 0x80 then go (i + 1) (n_of_int b :: acc)
      else if b < 0xE0 then
        go (i + 2) (n_of_int (((b land 0x1F) lsl 6) lor (Char.code s.[i + 1] land 0x3F)) :: acc)
      else if b < 0xF0 then
        go (i + 3)
          (n_of_int (((b land 0x0F) lsl 12) lor ((Char.code s.[i + 1] land 0x3F) lsl 6)
                     lor (Char.code s.[i + 2] land 0x3F)) :: acc)
      else
        go (i + 4)
          (n_of_int (((b land 0x07) lsl 18) lor ((Char.code s.[i + 1] land 0x3F) lsl 12)
                     lor ((Char.code s.[i + 2] land 0x3F) lsl 6)
                     lor (Char.code s.[i + 3] land 0x3F)) :: acc)
  in
  go 0 []

let encode (t : n list) : string =
  let b = Buffer.create 64 in
  List.iter (fun c -> Buffer.add_utf_8_uchar b (Uchar.of_int (int_of_n c))) t;
  Buffer.contents b

let str_of_chars (l : char list) : string = String.of_seq (List.to_seq l)

let rec dump (b : Buffer.t) (t : ptree) : unit =
  match t with
  | Node (r, s, e, kids) ->
      Buffer.add_string b (Printf.sprintf "(%s %d %d" (str_of_chars r) (int_of_n s) (int_of_n e));
      List.iter (fun k -> Buffer.add_char b ' '; dump b k) kids;
      Buffer.add_char b ')'

let parse_macros (s : string) : (n list * n list) list =
  if s = "" then []
  else
    List.map
      (fun m ->
        match String.index_opt m '=' with
        | None -> (decode m, [])
        | Some i -> (decode (String.sub m 0 i), decode (String.sub m (i + 1) (String.length m - i - 1))))
      (String.split_on_char ',' s)

let kind_name = function
  | KUnknown -> "Unknown"
  | KString -> "String"
  | KStructuredPreExisting -> "StructuredPreExisting"
  | KStructuredNew -> "StructuredNew"

let handle (line : string) : string =
  let f = Array.of_list (String.split_on_char '\t' line) in
  match f.(0) with
  | "tree" -> (
      match parse_file (decode (unhex f.(1))) with
      | Fail -> "tree FAIL"
      | Diverge -> "tree DIVERGE"
      | Ok (_, toks) ->
          let b = Buffer.create 256 in
          List.iteri (fun i t -> if i > 0 then Buffer.add_char b ' '; dump b t) toks;
          "tree " ^ Buffer.contents b)
  | "entries" -> (
      let cfg = { cfg_structured = (f.(1) = "1"); cfg_macros = parse_macros f.(2) } in
      match find cfg (decode (unhex f.(3))) with
      | Panic -> "entries PANIC"
      | Hang -> "entries HANG"
      | Done es ->
          let b = Buffer.create 256 in
          Buffer.add_string b (Printf.sprintf "entries %d" (List.length es));
          List.iter
            (fun e ->
              Buffer.add_string b
                (Printf.sprintf " ; %d %d %d %s %s %d %s %s" (int_of_n e.e_pos) (int_of_n e.e_line)
                   (int_of_n e.e_col)
                   (match e.e_ref with None -> "none" | Some r -> string_of_int (int_of_n r))
                   (kind_name e.e_kind)
                   (if usable e then 1 else 0)
                   (hex (encode (insertable the_params e (n_of_int 7))))
                   (hex (encode e.e_name))))
            es;
          Buffer.contents b)
  | "extract" -> (
      match extract_reference the_params (decode (unhex f.(1))) with
      | None -> "extract none"
      | Some v -> Printf.sprintf "extract %d" (int_of_n v))
  | "directive" -> (
      let pos = n_of_int (int_of_string f.(1)) in
      let code = decode (unhex f.(3)) in
      let re = the_params.p_comment_re in
      match
        ( directive_check the_params the_params.p_ignore code pos re,
          directive_check the_params the_params.p_no_kvp code pos re )
      with
      | Some a, Some b -> Printf.sprintf "directive %d %d" (if a then 1 else 0) (if b then 1 else 0)
      | _ -> "directive PANIC")
  | "linecol" -> (
      let pos = n_of_int (int_of_string f.(1)) in
      match line_col (decode (unhex f.(2))) pos with
      | None -> "linecol none"
      | Some (l, c) -> Printf.sprintf "linecol %d %d" (int_of_n l) (int_of_n c))
  | _ -> "ERR unknown command"

let () =
  try
    while true do
      let line = input_line stdin in
      if line <> "" then print_endline (handle line)
    done
  with End_of_file -> ()
