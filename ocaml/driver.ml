(* Model runner: same line protocol as harness/hookcli, answered by the extracted model. *)
open Model

let rec pos_of_int (i : int) : positive =
  if i = 1 then XH
  else if i land 1 = 0 then XO (pos_of_int (i lsr 1))
  else XI (pos_of_int (i lsr 1))
let n_of_int (i : int) : n = if i = 0 then N0 else Npos (pos_of_int i)
let rec int_of_pos (p : positive) : int =
  match p with XH -> 1 | XO q -> 2 * int_of_pos q | XI q -> 2 * int_of_pos q + 1
let int_of_n (x : n) : int = match x with N0 -> 0 | Npos p -> int_of_pos p

let unhex (s : string) : string =
  let n = String.length s / 2 in
  String.init n (fun i -> Char.chr (int_of_string ("0x" ^ String.sub s (2 * i) 2)))

let hex (s : string) : string =
  String.concat "" (List.map (fun c -> Printf.sprintf "%02x" (Char.code c)) (List.of_seq (String.to_seq s)))

(* UTF-8 -> scalar values (input is valid UTF-8 by construction) *)
let decode (s : string) : n list =
  let len = String.length s in
  let rec go i acc =
    if i >= len then List.rev acc
    else
      let b = Char.code s.[i] in
      if b < 0x80 then go (i + 1) (n_of_int b :: acc)
      else if b < 0xE0 then
        go (i + 2) (n_of_int (((b land 0x1F) lsl 6) lor (Char.code s.[i + 1] land 0x3F)) :: acc)
      else if b < 0xF0 then
        go (i + 3)
          (n_of_int (((b land 0x0F) lsl 12) lor ((Char.code s.[i + 1] land 0x3F) lsl 6)
                     lor (Char.code s.[i + 2] land 0x3F)) :: acc)
      else
        go (i + 4)
          (n_of_int (((b land 0x07) lsl 18) lor ((Char.code s.[i + 1] land 0x3F) lsl 12)
                     lor ((Char.code s.[i + 2] land 0x3F) lsl 6)
                     lor (Char.code s.[i + 3] land 0x3F)) :: acc)
  in
  go 0 []

let encode (t : n list) : string =
  let b = Buffer.create 64 in
  List.iter (fun c -> Buffer.add_utf_8_uchar b (Uchar.of_int (int_of_n c))) t;
  Buffer.contents b

let str_of_chars (l : char list) : string = String.of_seq (List.to_seq l)

let rec dump (b : Buffer.t) (t : ptree) : unit =
  match t with
  | Node (r, s, e, kids) ->
      Buffer.add_string b (Printf.sprintf "(%s %d %d" (str_of_chars r) (int_of_n s) (int_of_n e));
      List.iter (fun k -> Buffer.add_char b ' '; dump b k) kids;
      Buffer.add_char b ')'

let parse_macros (s : string) : (n list * n list) list =
  if s = "" then []
  else
    List.map
      (fun m ->
        match String.index_opt m '=' with
        | None -> (decode m, [])
        | Some i -> (decode (String.sub m 0 i), decode (String.sub m (i + 1) (String.length m - i - 1))))
      (String.split_on_char ',' s)

let kind_name = function
  | KUnknown -> "Unknown"
  | KString -> "String"
  | KStructuredPreExisting -> "StructuredPreExisting"
  | KStructuredNew -> "StructuredNew"

(* bytes of a file as the model sees them *)
let bytes_of_string (s : string) : n list =
  List.map (fun c -> n_of_int (Char.code c)) (List.of_seq (String.to_seq s))
let string_of_bytes (b : n list) : string =
  String.of_seq (List.to_seq (List.map (fun x -> Char.chr (int_of_n x)) b))

let rec nat_of_int (i : int) : nat = if i <= 0 then O else S (nat_of_int (i - 1))
let rec int_of_nat (x : nat) : int = match x with O -> 0 | S y -> 1 + int_of_nat y

let opt_nat (s : string) : nat option = if s = "-" then None else Some (nat_of_int (int_of_string s))
let int_set (s : string) : int list =
  if s = "" || s = "-" then [] else List.map int_of_string (String.split_on_char ',' s)

let eff_str (e : eff) : string =
  match e with
  | ECreateTmp f -> Printf.sprintf "C%d" (int_of_nat f)
  | EWriteTmp (f, bs) -> Printf.sprintf "W%d:%d" (int_of_nat f) (List.length bs)
  | ERename f -> Printf.sprintf "R%d" (int_of_nat f)
  | EUnlinkTmp f -> Printf.sprintf "U%d" (int_of_nat f)
  | ELockTrunc -> "LT"
  | ELockWrite n -> Printf.sprintf "LW%d" (int_of_n n)

let lock_str (l : lockst) : string =
  match l with LAbsent -> "A" | LCorrupt -> "C" | LValid n -> Printf.sprintf "V%d" (int_of_n n)

(* run <mode> <structured> <use_cache> <macros> <lock> <stop1> <stop2> <rfail1> <rfail2> <faults>
       <lockfault> <crash> <disc> <files...>
   faults: i:C | i:R | i:W<k>, comma separated;  crash: - | k | k:<hex partial>;  disc: ok|err *)
let run_cmd (f : string array) : string =
  let mode = f.(1) in
  let cfg = { cfg_structured = (f.(2) = "1"); cfg_macros = parse_macros f.(4) } in
  let rc = { rc_cfg = cfg; rc_use_cache = (f.(3) = "1") } in
  let lk =
    if f.(5) = "A" then LAbsent else if f.(5) = "C" then LCorrupt
    else LValid (n_of_int (int_of_string (String.sub f.(5) 1 (String.length f.(5) - 1)))) in
  let rf1 = int_set f.(8) and rf2 = int_set f.(9) in
  let faults =
    if f.(10) = "" || f.(10) = "-" then []
    else
      List.map
        (fun s ->
          match String.split_on_char ':' s with
          | [ i; k ] ->
              ( int_of_string i,
                if k = "C" then FCreate else if k = "R" then FRename
                else FWrite (nat_of_int (int_of_string (String.sub k 1 (String.length k - 1)))) )
          | _ -> failwith "fault")
        (String.split_on_char ',' f.(10)) in
  let o =
    { o_stop1 = opt_nat f.(6); o_stop2 = opt_nat f.(7);
      o_rfail1 = (fun i -> List.mem (int_of_nat i) rf1);
      o_rfail2 = (fun i -> List.mem (int_of_nat i) rf2);
      o_fault = (fun i -> match List.assoc_opt (int_of_nat i) faults with Some x -> x | None -> FNone);
      o_lock_fault = (if f.(11) = "open" then LkOpenFails else if f.(11) = "write" then LkWriteFails else LkOk) } in
  let files = ref [] in
  for i = 14 to Array.length f - 1 do
    files := bytes_of_string (unhex f.(i)) :: !files
  done;
  let files = List.rev !files in
  let disc = if f.(13) = "err" then None else Some files in
  let out =
    if mode = "check" then run_check find rc disc o
    else run_edit the_params find c_START_REFERENCE_ID rc disc lk o in
  let w0 = { w_src = files; w_tmp = []; w_lock = lk } in
  let wf = apply_effs w0 out.ro_effs in
  let b = Buffer.create 1024 in
  Buffer.add_string b
    (Printf.sprintf "run exit=%s total=%s"
       (match out.ro_exit with XOk -> "OK" | XErr -> "ERR" | XPanic -> "PANIC" | XHang -> "HANG")
       (match out.ro_total with None -> "none" | Some t -> string_of_int (int_of_n t)));
  Buffer.add_string b " ids=";
  Buffer.add_string b
    (String.concat ";"
       (List.map
          (fun ((fi, pos), id) -> Printf.sprintf "%d:%d:%d" (int_of_nat fi) (int_of_n pos) (int_of_n id))
          out.ro_ids));
  Buffer.add_string b " reports=";
  Buffer.add_string b
    (String.concat ";"
       (List.map
          (fun r ->
            match r with
            | RMissing (fi, l, c) -> Printf.sprintf "M:%d:%d:%d" (int_of_nat fi) (int_of_n l) (int_of_n c)
            | RUnusable (fi, l, c) -> Printf.sprintf "U:%d:%d:%d" (int_of_nat fi) (int_of_n l) (int_of_n c))
          out.ro_reports));
  Buffer.add_string b (" effs=" ^ String.concat "," (List.map eff_str out.ro_effs));
  Buffer.add_string b (" lock=" ^ lock_str wf.w_lock);
  Buffer.add_string b (Printf.sprintf " tmp=%d" (List.length wf.w_tmp));
  Buffer.add_string b (" src=" ^ String.concat "," (List.map (fun x -> hex (string_of_bytes x)) wf.w_src));
  (if f.(12) <> "-" then
     let k, partial =
       match String.split_on_char ':' f.(12) with
       | [ k ] -> (int_of_string k, None)
       | [ k; p ] -> (int_of_string k, Some (bytes_of_string (unhex p)))
       | _ -> failwith "crash" in
     let wk = crash_world w0 out.ro_effs (nat_of_int k) partial in
     Buffer.add_string b (" clock=" ^ lock_str wk.w_lock);
     Buffer.add_string b (" csrc=" ^ String.concat "," (List.map (fun x -> hex (string_of_bytes x)) wk.w_src)));
  Buffer.contents b

(* finder <exts comma separated hex> <tree>   tree tokens separated by spaces:
     F<hexname>  regular file   L<hexname>  symlink   D<hexname> ... U   directory
   answer: the selected paths (components hex, joined by /), in listing order, separated by spaces *)
let finder_cmd (f : string array) : string =
  let exts = if f.(1) = "-" then [] else List.map (fun h -> decode (unhex h)) (String.split_on_char ',' f.(1)) in
  let toks = List.filter (fun s -> s <> "") (String.split_on_char ' ' f.(2)) in
  let rec parse_list toks : fslist * string list =
    match toks with
    | [] -> (FNil, [])
    | "U" :: rest -> (FNil, rest)
    | t :: rest ->
        let nm = decode (unhex (String.sub t 1 (String.length t - 1))) in
        if t.[0] = 'F' then
          let (more, rest') = parse_list rest in (FCons (nm, FFile [], more), rest')
        else if t.[0] = 'L' then
          let (more, rest') = parse_list rest in (FCons (nm, FSymlink, more), rest')
        else
          let (inner, rest1) = parse_list rest in
          let (more, rest2) = parse_list rest1 in
          (FCons (nm, FDir inner, more), rest2) in
  let (es, _) = parse_list toks in
  match find_files exts (FDir es) with
  | None -> "finder ERR"
  | Some l ->
      "finder " ^ String.concat " "
        (List.map (fun (p, _) -> String.concat "/" (List.map (fun c -> hex (encode c)) p)) l)

let handle (line : string) : string =
  let f = Array.of_list (String.split_on_char '\t' line) in
  match f.(0) with
  | "tree" -> (
      match parse_file (decode (unhex f.(1))) with
      | Fail -> "tree FAIL"
      | Diverge -> "tree DIVERGE"
      | Ok (_, toks) ->
          let b = Buffer.create 256 in
          List.iteri (fun i t -> if i > 0 then Buffer.add_char b ' '; dump b t) toks;
          "tree " ^ Buffer.contents b)
  | "entries" -> (
      let cfg = { cfg_structured = (f.(1) = "1"); cfg_macros = parse_macros f.(2) } in
      match find cfg (decode (unhex f.(3))) with
      | Panic -> "entries PANIC"
      | Hang -> "entries HANG"
      | Done es ->
          let b = Buffer.create 256 in
          Buffer.add_string b (Printf.sprintf "entries %d" (List.length es));
          List.iter
            (fun e ->
              Buffer.add_string b
                (Printf.sprintf " ; %d %d %d %s %s %d %s %s" (int_of_n e.e_pos) (int_of_n e.e_line)
                   (int_of_n e.e_col)
                   (match e.e_ref with None -> "none" | Some r -> string_of_int (int_of_n r))
                   (kind_name e.e_kind)
                   (if usable e then 1 else 0)
                   (hex (encode (insertable the_params e (n_of_int 7))))
                   (hex (encode e.e_name))))
            es;
          Buffer.contents b)
  | "docregex" -> (
      match captures re_documented (decode (unhex f.(2))) with
      | None -> "docregex none"
      | Some c -> (
          let one = Npos XH in
          match (get_cap c N0, get_cap c one) with
          | Some (a, b), Some (x, y) ->
              Printf.sprintf "docregex %d %d %d %d" (int_of_n a) (int_of_n b) (int_of_n x) (int_of_n y)
          | Some (a, b), None -> Printf.sprintf "docregex %d %d - -" (int_of_n a) (int_of_n b)
          | None, _ -> "docregex PANIC"))
  | "extract" -> (
      match extract_reference the_params (decode (unhex f.(1))) with
      | None -> "extract none"
      | Some v -> Printf.sprintf "extract %d" (int_of_n v))
  | "directive" -> (
      let pos = n_of_int (int_of_string f.(1)) in
      let code = decode (unhex f.(3)) in
      let re = the_params.p_comment_re in
      match
        ( directive_check the_params the_params.p_ignore code pos re,
          directive_check the_params the_params.p_no_kvp code pos re )
      with
      | Some a, Some b -> Printf.sprintf "directive %d %d" (if a then 1 else 0) (if b then 1 else 0)
      | _ -> "directive PANIC")
  | "linecol" -> (
      let pos = n_of_int (int_of_string f.(1)) in
      match line_col (decode (unhex f.(2))) pos with
      | None -> "linecol none"
      | Some (l, c) -> Printf.sprintf "linecol %d %d" (int_of_n l) (int_of_n c))
  | "run" -> run_cmd f
  | "lockread" -> (
      match lock_read (decode (unhex f.(1))) with
      | RValid n -> Printf.sprintf "lock V%d" (int_of_n n)
      | RCorrupt -> "lock C"
      | RUnknown -> "lock U")
  | "locktext" -> "locktext " ^ hex (encode (lock_text (n_of_int (int_of_string f.(1)))))
  | "finder" -> finder_cmd f
  | _ -> "ERR unknown command"

let () =
  try
    while true do
      let line = input_line stdin in
      if line <> "" then print_endline (handle line)
    done
  with End_of_file -> ()
