import sys,re,subprocess
# usage: dbg.py file line  -> compile up to given line then Show.
f,line=sys.argv[1],int(sys.argv[2])
src=open(f).read().split('\n')
tmp='/verif/coq/theories/Proofs/Dbg_tmp.v'
open(tmp,'w').write('\n'.join(src[:line])+'\nShow.\nAbort.\n')
r=subprocess.run(['coqc','-noglob','-Q','/verif/coq/theories','Breadlog',tmp],capture_output=True,text=True)
out=r.stdout+r.stderr; i=out.rfind("============================"); n=int(sys.argv[3]) if len(sys.argv)>3 else 3000; print(out[max(0,i-n):i+n] if "-h" not in sys.argv else out[:n])
import os
for e in ('.vo','.vok','.vos','.glob'):
    try: os.remove(tmp[:-2]+e)
    except: pass
os.remove(tmp)
