#!/usr/bin/env python3
"""Renders a token list as a Coq term of the canonical file language of Proofs/FileSpec.v
(used to write the non-vacuity examples; not part of any check)."""
import sys

def nl(bs):
    return "[" + ";".join(str(c) for c in bs) + "]"

def cps(s):
    return [ord(c) for c in s]

def lay(ws="", groups=()):
    gs = []
    for kind, text, after in groups:
        gs.append("(%s %s, %s)" % ("CLine" if kind == "//" else "CBlock", nl(cps(text)), nl(cps(after))))
    return "(%s, [%s])" % (nl(cps(ws)), ";".join(gs))

def qname(s):
    c0 = s[0]; rest = s[1:]
    s0 = rest.startswith("::")
    if s0: rest = rest[2:]
    us = []
    i = 0
    while i < len(rest):
        d = rest[i]; i += 1
        sep = rest[i:i+2] == "::"
        if sep: i += 2
        us.append("(%d, %s)" % (ord(d), "true" if sep else "false"))
    return "(mkQ %d %s [%s])" % (ord(c0), "true" if s0 else "false", ";".join(us))

def munits(msg):
    out = []; i = 0
    while i < len(msg):
        if msg[i] == "\\":
            out.append("MEsc %d" % ord(msg[i+1])); i += 2
        else:
            out.append("MChar %d" % ord(msg[i])); i += 1
    return "[" + ";".join(out) + "]"

def items(toks):
    """toks: list of (lay, item) with item = ('stmt', name, lay, msg) | ('name', s) | ('char', c)"""
    out = []
    for l, it in toks:
        if it[0] == "stmt":
            t = "IStmt %s %s %s" % (qname(it[1]), it[2], munits(it[3]))
        elif it[0] == "stmta":
            t = "IStmtA %s %s" % (qname(it[1]), it[2])
        elif it[0] == "name":
            t = "IName %s" % qname(it[1])
        else:
            t = "IChar %d" % ord(it[1])
        out.append("(%s, %s)" % (l, t))
    return "[" + ";\n   ".join(out) + "]"


def ident(sx):
    return "(mkId %d %s)" % (ord(sx[0]), nl(cps(sx[1:])))

def first(v):
    """v: ('d', '123') | ('i', 'name') | ('s', 'text')"""
    if v[0] == "d":
        return "VDigits %d %s" % (ord(v[1][0]), nl(cps(v[1][1:])))
    if v[0] == "i":
        return "VIdent %s" % ident(v[1])
    return "VStr %s" % munits(v[1])

def value(v, tl=()):
    """tl: list of (lay, ('c', ch) | ('s', text, lay, ch))"""
    ts = []
    for l, t in tl:
        if t[0] == "c":
            ts.append("(%s, TChar %d)" % (l, ord(t[1])))
        else:
            ts.append("(%s, TStr %s %s %d)" % (l, munits(t[1]), t[2], ord(t[3])))
    return "(mkVal (%s) [%s])" % (first(v), ";".join(ts))

def kv(key, l1=None, val=None, comma=False, mod=None):
    """val: None | (lay_after_eq, value_term, lay_after_value); mod: None | (lay, word, lay)"""
    l1 = l1 or lay()
    vs = "None" if val is None else "(Some (%s, %s, %s))" % (val[0], val[1], val[2])
    ms = "None" if mod is None else "(Some (mkMod %s %s %s))" % (mod[0], nl(cps(mod[1])), mod[2])
    return "(mkKv %s %s %s %s %s)" % (ident(key), l1, ms, vs, "true" if comma else "false")

def args(l0, targ, kvs, msg):
    """targ: None | (l1, text, l2, lay_after_comma); kvs: None | (k1, [(lead, k)...], lsemi, lafter)"""
    ts = "None" if targ is None else "(Some (mkTarg %s %s %s, %s))" % (targ[0], munits(targ[1]), targ[2], targ[3])
    if kvs is None:
        ks = "None"
    else:
        more = "[" + ";".join("(%s, %s)" % (ld, k) for ld, k in kvs[1]) + "]"
        ks = "(Some (%s, %s, %s, %s))" % (kvs[0], more, kvs[2], kvs[3])
    return "(mkArgs %s %s %s %s)" % (l0, ts, ks, munits(msg))

if __name__ == "__main__":
    E = lay()
    toks = [
        (lay("", [("//", " header", "\n")]), ("name", "use")),
        (lay(" "), ("name", "log::info")), (E, ("char", ";")),
        (lay("\n"), ("name", "fn")), (lay(" "), ("name", "main")), (E, ("char", "(")), (E, ("char", ")")),
        (lay(" "), ("char", "{")),
        (lay("\n    "), ("name", "let")), (lay(" "), ("name", "v")), (lay(" "), ("char", "=")),
        (lay(" "), ("name", "vec")), (E, ("char", "!")), (E, ("char", "[")), (E, ("char", "1")), (E, ("char", "]")), (E, ("char", ";")),
        (lay("\n    "), ("stmt", "info", E, "start")), (E, ("char", ")")), (E, ("char", ";")),
        (lay("\n    "), ("stmt", "log::warn", lay(" ", [("/*", " c ", " ")]), "a \\\" b {}")), (E, ("char", ",")),
        (lay(" "), ("name", "v")), (E, ("char", ")")), (E, ("char", ";")),
        (lay("\n    "), ("stmt", "println", E, "x")), (E, ("char", ")")), (E, ("char", ";")),
        (lay("\n    "), ("name", "assert")), (E, ("char", "!")), (E, ("char", "(")), (E, ("char", "!")), (E, ("name", "ok")), (E, ("char", ")")), (E, ("char", ";")),
        (lay("\n    "), ("name", "assert")), (E, ("char", "!")), (E, ("char", "(")), (E, ("name", "a")), (lay(" "), ("char", ">")), (lay(" "), ("name", "b")), (E, ("char", ")")), (E, ("char", ";")),
        (lay("\n"), ("char", "}")),
    ]
    if len(sys.argv) > 1 and sys.argv[1] == "kv":
        S = lay(" ")
        nlnl = lay("\n    ")
        toks = [
            (E, ("name", "fn")), (S, ("name", "f")), (E, ("char", "(")), (E, ("char", ")")), (S, ("char", "{")),
            # info!(ref = 12, user = "bob"; "hello");
            (nlnl, ("stmta", "info", args(E, None,
                (kv("ref", S, (S, value(("d", "12")), E), True), [(S, kv("user", S, (S, value(("s", "bob")), E), False))], E, S), "hello"))),
            (E, ("char", ")")), (E, ("char", ";")),
            # warn!(target: "net", attempts = 3 ; "retry");
            (nlnl, ("stmta", "warn", args(E, (S, "net", E, S), (kv("attempts", S, (S, value(("d", "3")), S), False), [], E, S), "retry"))),
            (E, ("char", ")")), (E, ("char", ";")),
            # error!("boom");
            (nlnl, ("stmt", "error", E, "boom")), (E, ("char", ")")), (E, ("char", ";")),
            # debug!(target: "x", "plain");
            (nlnl, ("stmta", "debug", args(E, (S, "x", E, S), None, "plain"))), (E, ("char", ")")), (E, ("char", ";")),
            # info!(a, ref = 7 /* c */; "m");
            (nlnl, ("stmta", "info", args(E, None,
                (kv("a", E, None, True), [(S, kv("ref", S, (S, value(("d", "7")), lay(" ", [("/*", " c ", "")])), False))], E, S), "m"))),
            (E, ("char", ")")), (E, ("char", ";")),
            # warn!(user:? = u.name, n = x + 1, ref = 9; "m");
            (nlnl, ("stmta", "warn", args(E, None,
                (kv("user", E, (S, value(("i", "u"), [(E, ("c", ".")), (E, ("c", "n")), (E, ("c", "a")), (E, ("c", "m")), (E, ("c", "e"))]), E), True, mod=(E, "?", S)),
                 [(S, kv("n", S, (S, value(("i", "x"), [(S, ("c", "+")), (S, ("c", "1"))]), E), True)),
                  (S, kv("ref", S, (S, value(("d", "9")), E), False))], E, S), "m"))),
            (E, ("char", ")")), (E, ("char", ";")),
            (lay("\n"), ("char", "}")),
        ]
        print("Definition kv_items : list (lay * item) :=\n  %s." % items(toks))
        print("Definition kv_fin : lay := %s." % lay("\n"))
    else:
        print("Definition ex_items : list (lay * item) :=\n  %s." % items(toks))
        print("Definition ex_fin : lay := %s." % lay("\n", [("//", " info!(\"not code\")", "")]))
