#!/usr/bin/env python3
"""Renders a token list as a Coq term of the canonical file language of Proofs/FileSpec.v
(used to write the non-vacuity examples; not part of any check)."""
import sys

def nl(bs):
    return "[" + ";".join(str(c) for c in bs) + "]"

def cps(s):
    return [ord(c) for c in s]

def lay(ws="", groups=()):
    gs = []
    for kind, text, after in groups:
        gs.append("(%s %s, %s)" % ("CLine" if kind == "//" else "CBlock", nl(cps(text)), nl(cps(after))))
    return "(%s, [%s])" % (nl(cps(ws)), ";".join(gs))

def qname(s):
    c0 = s[0]; rest = s[1:]
    s0 = rest.startswith("::")
    if s0: rest = rest[2:]
    us = []
    i = 0
    while i < len(rest):
        d = rest[i]; i += 1
        sep = rest[i:i+2] == "::"
        if sep: i += 2
        us.append("(%d, %s)" % (ord(d), "true" if sep else "false"))
    return "(mkQ %d %s [%s])" % (ord(c0), "true" if s0 else "false", ";".join(us))

def munits(msg):
    out = []; i = 0
    while i < len(msg):
        if msg[i] == "\\":
            out.append("MEsc %d" % ord(msg[i+1])); i += 2
        else:
            out.append("MChar %d" % ord(msg[i])); i += 1
    return "[" + ";".join(out) + "]"

def items(toks):
    """toks: list of (lay, item) with item = ('stmt', name, lay, msg) | ('name', s) | ('char', c)"""
    out = []
    for l, it in toks:
        if it[0] == "stmt":
            t = "IStmt %s %s %s" % (qname(it[1]), it[2], munits(it[3]))
        elif it[0] == "name":
            t = "IName %s" % qname(it[1])
        else:
            t = "IChar %d" % ord(it[1])
        out.append("(%s, %s)" % (l, t))
    return "[" + ";\n   ".join(out) + "]"

if __name__ == "__main__":
    E = lay()
    toks = [
        (lay("", [("//", " header", "\n")]), ("name", "use")),
        (lay(" "), ("name", "log::info")), (E, ("char", ";")),
        (lay("\n"), ("name", "fn")), (lay(" "), ("name", "main")), (E, ("char", "(")), (E, ("char", ")")),
        (lay(" "), ("char", "{")),
        (lay("\n    "), ("name", "let")), (lay(" "), ("name", "v")), (lay(" "), ("char", "=")),
        (lay(" "), ("name", "vec")), (E, ("char", "!")), (E, ("char", "[")), (E, ("char", "1")), (E, ("char", "]")), (E, ("char", ";")),
        (lay("\n    "), ("stmt", "info", E, "start")), (E, ("char", ")")), (E, ("char", ";")),
        (lay("\n    "), ("stmt", "log::warn", lay(" ", [("/*", " c ", " ")]), "a \\\" b {}")), (E, ("char", ",")),
        (lay(" "), ("name", "v")), (E, ("char", ")")), (E, ("char", ";")),
        (lay("\n    "), ("stmt", "println", E, "x")), (E, ("char", ")")), (E, ("char", ";")),
        (lay("\n"), ("char", "}")),
    ]
    print("Definition ex_items : list (lay * item) :=\n  %s." % items(toks))
    print("Definition ex_fin : lay := %s." % lay("\n", [("//", " info!(\"not code\")", "")]))
