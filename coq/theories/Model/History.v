(* History.v -- sequences of developer edits and Breadlog runs over one project, with the ghost
   list of every ID the tool has ever put into a file that reached the disk.  Definitions only. *)
From Coq Require Import List NArith Bool.
From Breadlog Require Import Model.Peg Model.Text Model.Regex Model.Glue Model.Utf8 Model.Driver.
Import ListNotations.
Open Scope N_scope.

Inductive hevent :=
| HDev (files' : list bytes)              (* the developer changes the tree arbitrarily; the lock is kept *)
| HEdit (rc : runcfg) (o : oracle)        (* an edit run with any faults / stop request *)
| HCheck (rc : runcfg) (o : oracle).

Record hstate := mkH { h_files : list bytes; h_lock : lockst; h_ghost : list N }.

Section History.
  Variable P : params.
  Variable finder : config -> text -> outcome (list entry).
  Variable start_id : N.

  Definition edit_of (h : hstate) (rc : runcfg) (o : oracle) : run_out :=
    run_edit P finder start_id rc (Some (h_files h)) (h_lock h) o.

  Definition hstep (h : hstate) (ev : hevent) : hstate :=
    match ev with
    | HDev f => mkH f (h_lock h) (h_ghost h)
    | HCheck _ _ => h
    | HEdit rc o =>
        let out := edit_of h rc o in
        let wf := apply_effs (mkWorld (h_files h) [] (h_lock h)) (ro_effs out) in
        mkH (w_src wf) (w_lock wf) (h_ghost h ++ map (fun x : nat * N * N => snd x) (ro_ids out))
    end.

  Definition hexec (h : hstate) (evs : list hevent) : hstate := fold_left hstep evs h.

  (* the runs of the history use the lock, can write it, and end by themselves *)
  Fixpoint hist_ok (h : hstate) (evs : list hevent) : Prop :=
    match evs with
    | [] => True
    | ev :: r =>
        match ev with
        | HEdit rc o =>
            rc_use_cache rc = true /\ o_lock_fault o = LkOk /\
            ro_exit (edit_of h rc o) <> XPanic /\ ro_exit (edit_of h rc o) <> XHang
        | _ => True
        end /\ hist_ok (hstep h ev) r
    end.
End History.
