(* Text.v -- the pieces of Rust's str / char / integer-parsing behaviour that Breadlog's
   glue relies on, as total functions over lists of scalar values with BYTE offsets.
   A Rust panic (slicing off a char boundary or out of range) is an explicit None. *)
From Coq Require Import List NArith Bool.
From Breadlog Require Import Model.Peg.
Import ListNotations.
Open Scope N_scope.

(* membership in a sorted list of inclusive ranges (the generated Unicode tables) *)
Fixpoint in_ranges (rs : list (N * N)) (c : N) : bool :=
  match rs with
  | [] => false
  | (lo, hi) :: r => if c <? lo then false else if c <=? hi then true else in_ranges r c
  end.

(* &s[..n]: Some prefix when n is a char boundary within the string, None = panic *)
Fixpoint take_bytes (t : text) (n : N) : option text :=
  if n =? 0 then Some [] else
  match t with
  | [] => None
  | c :: r => if cplen c <=? n
              then match take_bytes r (n - cplen c) with
                   | Some p => Some (c :: p)
                   | None => None
                   end
              else None
  end.

(* &s[n..] *)
Fixpoint drop_bytes (t : text) (n : N) : option text :=
  if n =? 0 then Some t else
  match t with
  | [] => None
  | c :: r => if cplen c <=? n then drop_bytes r (n - cplen c) else None
  end.

(* &s[a..b] *)
Definition str_slice (t : text) (a b : N) : option text :=
  if b <? a then None else
  match drop_bytes t a with
  | Some r => take_bytes r (b - a)
  | None => None
  end.

(* str::lines(): split_inclusive at LF; strip the LF, and a CR only when an LF was stripped *)
Definition strip_cr_rev (rl : text) : text :=      (* rl = the line reversed *)
  match rl with 13 :: r => r | _ => rl end.

Fixpoint lines_go (t : text) (cur_rev : text) (acc_rev : list text) : list text :=
  match t with
  | [] => match cur_rev with
          | [] => rev acc_rev
          | _ => rev (rev cur_rev :: acc_rev)
          end
  | 10 :: r => lines_go r [] (rev (strip_cr_rev cur_rev) :: acc_rev)
  | c :: r => lines_go r (c :: cur_rev) acc_rev
  end.
Definition lines (t : text) : list text := lines_go t [] [].

Section Tables.
  Variable is_ws : cp -> bool.                  (* char::is_whitespace *)
  Variable lower : cp -> list cp.               (* char::to_lowercase *)

  Fixpoint trim_start (t : text) : text :=
    match t with
    | c :: r => if is_ws c then trim_start r else t
    | [] => []
    end.
  Definition trim (t : text) : text := rev (trim_start (rev (trim_start t))).

  (* str::to_lowercase, except that the context-sensitive final sigma is always mapped
     like a non-final one (both results are non-ASCII; no ASCII directive is affected) *)
  Definition to_lowercase (t : text) : text := flat_map lower t.
End Tables.

Fixpoint text_eqb (a b : text) : bool :=
  match a, b with
  | [], [] => true
  | x :: a', y :: b' => (x =? y) && text_eqb a' b'
  | _, _ => false
  end.

(* pest::Position::line_col over the prefix before the position: (line, column),
   1-based, counted in characters; CR LF is one break, a lone CR is a column *)
Fixpoint line_col_go (t : text) (l c : N) : N * N :=
  match t with
  | [] => (l, c)
  | 13 :: r => match r with
               | 10 :: r' => line_col_go r' (l + 1) 1
               | _ => line_col_go r l (c + 1)
               end
  | 10 :: r => line_col_go r (l + 1) 1
  | _ :: r => line_col_go r l (c + 1)
  end.

(* None = the offset is not a char boundary / out of range (pest would panic) *)
Definition line_col (t : text) (p : N) : option (N * N) :=
  match take_bytes t p with
  | Some pre => Some (line_col_go pre 1 1)
  | None => None
  end.

(* decimal printing of an integer (Display for u32) *)
Definition digit_cp (d : N) : cp := 48 + d.

Fixpoint dec_pos_fuel (fuel : nat) (n : N) (acc : text) : text :=
  match fuel with
  | O => acc
  | S f => if n <? 10 then digit_cp n :: acc
           else dec_pos_fuel f (n / 10) (digit_cp (n mod 10) :: acc)
  end.
(* N.size_nat n binary digits bound the number of decimal digits *)
Definition dec (n : N) : text := dec_pos_fuel (S (N.size_nat n)) n [].

Definition is_ascii_digit (c : cp) : bool := (48 <=? c) && (c <=? 57).

Fixpoint digits_value (t : text) (acc : N) : option N :=
  match t with
  | [] => Some acc
  | c :: r => if is_ascii_digit c then digits_value r (acc * 10 + (c - 48)) else None
  end.

Definition u32_max : N := 4294967295.

(* the text before the first comment opener: &t[..min(t.find("/*"), t.find("//"))] *)
Fixpoint cut_comment (t : text) : text :=
  match t with
  | [] => []
  | c :: r =>
      if (c =? 47) && match r with d :: _ => (d =? 42) || (d =? 47) | [] => false end
      then [] else c :: cut_comment r
  end.

(* str::parse::<u32>(): optional '+', at least one ASCII digit, value <= u32::MAX *)
Definition parse_u32 (t : text) : option N :=
  let ds := match t with 43 :: r => r | _ => t end in
  match ds with
  | [] => None
  | _ => match digits_value ds 0 with
         | Some v => if v <=? u32_max then Some v else None
         | None => None
         end
  end.
