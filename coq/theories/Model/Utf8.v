(* Utf8.v -- UTF-8 encoding / strict decoding between byte strings (list N, each < 256) and
   lists of scalar values.  decode = None models String::from_utf8 / read_to_string failing
   (the file is then reported and skipped).  Definitions only. *)
From Coq Require Import List NArith Bool.
From Breadlog Require Import Model.Peg.
Import ListNotations.
Open Scope N_scope.

Notation bytes := (list N) (only parsing).

Definition encode_cp (c : cp) : bytes :=
  if c <? 128 then [c]
  else if c <? 2048 then [192 + c / 64; 128 + c mod 64]
  else if c <? 65536 then [224 + c / 4096; 128 + (c / 64) mod 64; 128 + c mod 64]
  else [240 + c / 262144; 128 + (c / 4096) mod 64; 128 + (c / 64) mod 64; 128 + c mod 64].

Fixpoint utf8_encode (t : text) : bytes :=
  match t with
  | [] => []
  | c :: r => encode_cp c ++ utf8_encode r
  end.

Definition is_cont (b : N) : bool := (128 <=? b) && (b <=? 191).
Definition in_rng (lo hi b : N) : bool := (lo <=? b) && (b <=? hi).

(* Strict decoding as in core::str::from_utf8 (no overlong forms, no surrogates, <= 10FFFF).
   Structural on a fuel list (the byte string itself). *)
Fixpoint utf8_decode_go (fuel : bytes) (b : bytes) (acc_rev : text) : option text :=
  match b with
  | [] => Some (rev acc_rev)
  | b0 :: r0 =>
      match fuel with
      | [] => None
      | _ :: fuel' =>
          if b0 <? 128 then utf8_decode_go fuel' r0 (b0 :: acc_rev)
          else if in_rng 194 223 b0 then
            match r0 with
            | b1 :: r1 =>
                if is_cont b1 then utf8_decode_go fuel' r1 ((b0 - 192) * 64 + (b1 - 128) :: acc_rev)
                else None
            | _ => None
            end
          else if in_rng 224 239 b0 then
            match r0 with
            | b1 :: b2 :: r2 =>
                let ok1 := if b0 =? 224 then in_rng 160 191 b1
                           else if b0 =? 237 then in_rng 128 159 b1
                           else is_cont b1 in
                if ok1 && is_cont b2
                then utf8_decode_go fuel' r2
                       ((b0 - 224) * 4096 + (b1 - 128) * 64 + (b2 - 128) :: acc_rev)
                else None
            | _ => None
            end
          else if in_rng 240 244 b0 then
            match r0 with
            | b1 :: b2 :: b3 :: r3 =>
                let ok1 := if b0 =? 240 then in_rng 144 191 b1
                           else if b0 =? 244 then in_rng 128 143 b1
                           else is_cont b1 in
                if ok1 && is_cont b2 && is_cont b3
                then utf8_decode_go fuel' r3
                       ((b0 - 240) * 262144 + (b1 - 128) * 4096 + (b2 - 128) * 64 + (b3 - 128)
                        :: acc_rev)
                else None
            | _ => None
            end
          else None
      end
  end.

Definition utf8_decode (b : bytes) : option text := utf8_decode_go b b [].

(* &bytes[a..c]; None = the slice would panic (a > c or c > len) *)
Fixpoint bdrop (n : N) (b : bytes) : option bytes :=
  if n =? 0 then Some b else
  match b with
  | [] => None
  | _ :: r => bdrop (n - 1) r
  end.

Fixpoint btake (n : N) (b : bytes) : option bytes :=
  if n =? 0 then Some [] else
  match b with
  | [] => None
  | x :: r => match btake (n - 1) r with Some p => Some (x :: p) | None => None end
  end.

Definition bslice (b : bytes) (a c : N) : option bytes :=
  if c <? a then None else
  match bdrop a b with
  | Some r => btake (c - a) r
  | None => None
  end.

Fixpoint blength (b : bytes) : N := match b with [] => 0 | _ :: r => 1 + blength r end.
