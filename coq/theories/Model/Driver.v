(* Driver.v -- hand model of src/codegen/generate.rs (the three processors, process_references,
   check_references, generate_code), of the lock handling in src/config/context.rs and of main's
   exit status, as a function from (files in walk order, lock state, configuration, oracle) to
   the list of filesystem EFFECTS the run performs, what it prints, and how it exits.
   The parser/glue is a parameter: every theorem about the driver holds for any finder.
   Definitions only; facts are in Proofs/. *)
From Coq Require Import List NArith Bool.
From Breadlog Require Import Model.Peg Model.Text Model.Regex Model.Glue Model.Utf8.
Import ListNotations.
Open Scope N_scope.

(* What read_cached_next_reference_id can find *)
Inductive lockst := LAbsent | LValid (n : N) | LCorrupt.

(* Mutating filesystem operations.  Temporary files are named after the index of the source
   file they are written for (the real names are random UUIDs under temp_dir()). *)
Inductive eff :=
| ECreateTmp (f : nat)
| EWriteTmp (f : nat) (bs : bytes)
| ERename (f : nat)                 (* rename(tmp f, source f): atomic replacement *)
| EUnlinkTmp (f : nat)
| ELockTrunc                        (* std::fs::write = open(O_TRUNC) ... *)
| ELockWrite (n : N).               (* ... then write the serialized Cache *)

Record world := mkWorld {
  w_src : list bytes;               (* in-scope files, walk order *)
  w_tmp : list (nat * bytes);
  w_lock : lockst }.

(* Per-file injected fault of the insert pass *)
Inductive fault :=
| FNone
| FCreate                           (* AsyncTempFile::new fails *)
| FWrite (k : nat)                  (* the k-th write_all / flush of this file (0-based) fails *)
| FRename.

Inductive lock_fault := LkOk | LkOpenFails | LkWriteFails.

Record oracle := mkOracle {
  o_stop1 : option nat;             (* first pass: the poll (0-based) that first sees the stop flag *)
  o_stop2 : option nat;             (* second / only pass likewise *)
  o_rfail1 : nat -> bool;           (* read_to_string of file i fails in the first pass *)
  o_rfail2 : nat -> bool;
  o_fault : nat -> fault;
  o_lock_fault : lock_fault }.    (* std::fs::write of the lock: open(O_TRUNC) or write fails *)

Record runcfg := mkRunCfg {
  rc_cfg : config;
  rc_use_cache : bool }.

Inductive exitst := XOk | XErr | XPanic | XHang.

Inductive report := RMissing (f : nat) (line col : N) | RUnusable (f : nat) (line col : N).

Record run_out := mkOut {
  ro_exit : exitst;
  ro_effs : list eff;
  ro_reports : list report;         (* check mode: the warnings, in order *)
  ro_total : option N;              (* check: total missing; edit: printed number inserted *)
  ro_ids : list (nat * N * N) }.    (* edit: (file, byte position in the ORIGINAL, id) written into
                                       files that were renamed into place *)

Definition u32max : N := 4294967295.

Section Driver.
  Variable P : params.
  Variable finder : config -> text -> outcome (list entry).
  Variable start_id : N.            (* START_REFERENCE_ID *)

  Inductive fentries := FUnreadable | FPanics | FHangs | FEntries (es : list entry).

  Definition file_entries (cfg : config) (rfail : bool) (b : bytes) : fentries :=
    if rfail then FUnreadable else
    match utf8_decode b with
    | None => FUnreadable
    | Some t => match finder cfg t with
                | Done es => FEntries es
                | Panic => FPanics
                | Hang => FHangs
                end
    end.

  (* ---- the three "missing" predicates, as written in the three processors ---- *)
  Definition missing_nextid (e : entry) : bool :=
    usable e && match e_ref e with Some _ => false | None => true end.
  Definition missing_count (e : entry) : bool :=
    negb (exists_ref e) && negb (negb (usable e)).
  Definition missing_insert (e : entry) : bool :=
    negb (exists_ref e) && usable e.

  (* ---- NextReferenceIdProcessor ---- *)
  Fixpoint nextid_map (es : list entry) (mx : N) (miss : N) : N * N :=
    match es with
    | [] => (mx, miss)
    | e :: r =>
        if usable e
        then match e_ref e with
             | Some id => nextid_map r (N.max mx id) miss
             | None => nextid_map r mx (miss + 1)
             end
        else nextid_map r mx miss
    end.

  Fixpoint nextid_reduce_go (rs : list (N * N)) (mx miss : N) : N * N :=
    match rs with
    | [] => (mx, miss)
    | (m, k) :: r => nextid_reduce_go r (N.max mx m) (miss + k)
    end.

  (* u32::saturating_add(1) *)
  Definition sat_succ (n : N) : N := if n <? u32max then n + 1 else u32max.

  Definition nextid_reduce (rs : list (N * N)) : N * N :=
    let '(mx, miss) := nextid_reduce_go rs 0 0 in
    if mx =? 0 then (start_id, miss) else (sat_succ mx, miss).

  (* ---- CountMissingReferenceIdProcessor ---- *)
  Fixpoint count_map (f : nat) (es : list entry) (acc_rev : list report) (n : N)
    : list report * N :=
    match es with
    | [] => (rev acc_rev, n)
    | e :: r =>
        if negb (exists_ref e)
        then if negb (usable e)
             then count_map f r (RUnusable f (e_line e) (e_col e) :: acc_rev) n
             else count_map f r (RMissing f (e_line e) (e_col e) :: acc_rev) (n + 1)
        else count_map f r acc_rev n
    end.

  (* ---- InsertReferencesProcessor::map ---- *)
  Record ires := mkIres {
    ir_failure : bool;
    ir_count : N;
    ir_ctr : N;                     (* the shared counter afterwards *)
    ir_effs : list eff;
    ir_ids : list (N * N);          (* (position, id) for which a token was produced *)
    ir_renamed : bool }.

  Inductive imap := IPanic | IRes (r : ires).

  Definition is_fwrite (flt : fault) (w : nat) : bool :=
    match flt with FWrite k => Nat.eqb k w | _ => false end.

  Definition fail_res (ctr : N) (effs_rev : list eff) (f : nat) : imap :=
    IRes (mkIres true 0 ctr (rev (EUnlinkTmp f :: effs_rev)) [] false).

  (* the loop over the entries that need a reference.  w = number of write_all calls so far *)
  Fixpoint insert_loop (f : nat) (b : bytes) (todo : list entry) (cursor : N) (ctr : N)
           (flt : fault) (w : nat) (created : N) (effs_rev : list eff) (ids_rev : list (N * N))
    : imap :=
    match todo with
    | [] =>
        (* tail copy, flush, rename *)
        let len := blength b in
        let after_tail :=
          if cursor <? len
          then match bslice b cursor len with
               | None => None                                  (* cannot happen: cursor < len *)
               | Some chunk => Some (chunk, true)
               end
          else Some ([], false) in
        match after_tail with
        | None => IPanic
        | Some (chunk, wrote) =>
            if wrote && is_fwrite flt w then fail_res ctr effs_rev f else
            let effs_rev := if wrote then EWriteTmp f chunk :: effs_rev else effs_rev in
            let w := if wrote then S w else w in
            if is_fwrite flt w then fail_res ctr effs_rev f else      (* flush *)
            match flt with
            | FRename =>
                IRes (mkIres true created ctr (rev (EUnlinkTmp f :: effs_rev)) [] false)
            | _ =>
                IRes (mkIres false created ctr (rev (ERename f :: effs_rev)) (rev ids_rev) true)
            end
        end
    | e :: r =>
        let pos := e_pos e in
        if pos <? cursor then fail_res ctr effs_rev f else
        match bslice b cursor pos with
        | None => IPanic                                       (* as_bytes()[cursor..pos] out of range *)
        | Some chunk =>
            if is_fwrite flt w then fail_res ctr effs_rev f else
            let effs_rev := EWriteTmp f chunk :: effs_rev in
            (* fetch_update(checked_add(1)) *)
            if u32max <=? ctr then fail_res ctr effs_rev f else
            let id := ctr in
            let tok := utf8_encode (insertable P e id) in
            if is_fwrite flt (S w) then fail_res (ctr + 1) effs_rev f else
            insert_loop f b r pos (ctr + 1) flt (S (S w)) (created + 1)
                        (EWriteTmp f tok :: effs_rev) ((pos, id) :: ids_rev)
        end
    end.

  Definition insert_map (f : nat) (b : bytes) (es : list entry) (ctr : N) (flt : fault) : imap :=
    let todo := filter missing_insert es in
    match todo with
    | [] => IRes (mkIres false 0 ctr [] [] false)
    | _ =>
        match flt with
        | FCreate => IRes (mkIres true 0 ctr [] [] false)
        | _ => insert_loop f b todo 0 ctr flt 0 0 [ECreateTmp f] []
        end
    end.

  (* ---- process_references: one loop per processor, polls of the stop flag numbered from 0 ---- *)
  Inductive pres (A : Type) := PStop (a : A) | PPanic (a : A) | PHang (a : A) | POk (a : A).
  Arguments PStop {A} a. Arguments PPanic {A} a. Arguments PHang {A} a. Arguments POk {A} a.

  Definition stops (stop : option nat) (poll : nat) : bool :=
    match stop with Some k => Nat.leb k poll | None => false end.

  Fixpoint pass_nextid (cfg : config) (stop : option nat) (rfail : nat -> bool)
           (files : list bytes) (i : nat) (acc_rev : list (N * N)) : pres (list (N * N)) :=
    match files with
    | [] => if stops stop i then PStop (rev acc_rev) else POk (rev acc_rev)
    | b :: r =>
        if stops stop i then PStop (rev acc_rev) else
        match file_entries cfg (rfail i) b with
        | FUnreadable => pass_nextid cfg stop rfail r (S i) acc_rev
        | FPanics => PPanic (rev acc_rev)
        | FHangs => PHang (rev acc_rev)
        | FEntries es => pass_nextid cfg stop rfail r (S i) (nextid_map es 0 0 :: acc_rev)
        end
    end.

  Fixpoint pass_count (cfg : config) (stop : option nat) (rfail : nat -> bool)
           (files : list bytes) (i : nat) (reps : list report) (total : N)
    : pres (list report * N) :=
    match files with
    | [] => if stops stop i then PStop (reps, total) else POk (reps, total)
    | b :: r =>
        if stops stop i then PStop (reps, total) else
        match file_entries cfg (rfail i) b with
        | FUnreadable => pass_count cfg stop rfail r (S i) reps total
        | FPanics => PPanic (reps, total)
        | FHangs => PHang (reps, total)
        | FEntries es =>
            let '(rs, n) := count_map i es [] 0 in
            pass_count cfg stop rfail r (S i) (reps ++ rs) (total + n)
        end
    end.

  Record istate := mkIst {
    is_ctr : N;
    is_failure : bool;
    is_count : N;
    is_effs : list eff;
    is_ids : list (nat * N * N) }.

  Fixpoint pass_insert (cfg : config) (stop : option nat) (rfail : nat -> bool)
           (flt : nat -> fault) (files : list bytes) (i : nat) (st : istate) : pres istate :=
    match files with
    | [] => if stops stop i then PStop st else POk st
    | b :: r =>
        if stops stop i then PStop st else
        match file_entries cfg (rfail i) b with
        | FUnreadable => pass_insert cfg stop rfail flt r (S i) st
        | FPanics => PPanic st
        | FHangs => PHang st
        | FEntries es =>
            match insert_map i b es (is_ctr st) (flt i) with
            | IPanic => PPanic st
            | IRes x =>
                pass_insert cfg stop rfail flt r (S i)
                  (mkIst (ir_ctr x) (is_failure st || ir_failure x) (is_count st + ir_count x)
                         (is_effs st ++ ir_effs x)
                         (is_ids st ++ map (fun pi => (i, fst pi, snd pi)) (ir_ids x)))
            end
        end
    end.

  (* Context::read_cached_next_reference_id *)
  Definition cached_id (rc : runcfg) (lk : lockst) : option N :=
    if rc_use_cache rc then match lk with LValid n => Some n | _ => None end else None.

  (* Context::cache_next_reference_id *)
  Definition lock_effs (rc : runcfg) (o : oracle) (id : N) : list eff :=
    if rc_use_cache rc
    then match o_lock_fault o with
         | LkOk => [ELockTrunc; ELockWrite id]
         | LkOpenFails => []
         | LkWriteFails => [ELockTrunc]
         end
    else [].

  (* check_references + main.  disc = None: code discovery error *)
  Definition run_check (rc : runcfg) (disc : option (list bytes)) (o : oracle) : run_out :=
    match disc with
    | None => mkOut XErr [] [] None []
    | Some [] => mkOut XErr [] [] None []
    | Some files =>
        match pass_count (rc_cfg rc) (o_stop2 o) (o_rfail2 o) files 0 [] 0 with
        | PStop (reps, _) => mkOut XErr [] reps None []
        | PPanic (reps, _) => mkOut XPanic [] reps None []
        | PHang (reps, _) => mkOut XHang [] reps None []
        | POk (reps, total) =>
            mkOut (if 0 <? total then XErr else XOk) [] reps (Some total) []
        end
    end.

  (* generate_code + main *)
  Definition run_edit (rc : runcfg) (disc : option (list bytes)) (lk : lockst) (o : oracle)
    : run_out :=
    match disc with
    | None => mkOut XErr [] [] None []
    | Some [] => mkOut XErr [] [] None []
    | Some files =>
        let start :=
          match cached_id rc lk with
          | Some id => POk (Some (N.max id start_id))     (* a lock that records 0 does not hand out ID 0 *)
          | None =>
              match pass_nextid (rc_cfg rc) (o_stop1 o) (o_rfail1 o) files 0 [] with
              | PStop _ => PStop None
              | PPanic _ => PPanic None
              | PHang _ => PHang None
              | POk rs =>
                  let '(next, miss) := nextid_reduce rs in
                  if miss =? 0 then POk None else POk (Some next)
              end
          end in
        match start with
        | PStop _ => mkOut XErr [] [] None []
        | PPanic _ => mkOut XPanic [] [] None []
        | PHang _ => mkOut XHang [] [] None []
        | POk None => mkOut XOk [] [] None []                 (* nothing to do; the lock is not touched *)
        | POk (Some s) =>
            let st0 := mkIst s false 0 [] [] in
            match pass_insert (rc_cfg rc) (o_stop2 o) (o_rfail2 o) (o_fault o) files 0 st0 with
            | PPanic st => mkOut XPanic (is_effs st) [] None (is_ids st)
            | PHang st => mkOut XHang (is_effs st) [] None (is_ids st)
            | PStop st =>
                mkOut XErr (is_effs st ++ lock_effs rc o (is_ctr st)) [] None (is_ids st)
            | POk st =>
                mkOut (if is_failure st then XErr else XOk)
                      (is_effs st ++ lock_effs rc o (is_ctr st)) [] (Some (is_count st)) (is_ids st)
            end
        end
    end.
End Driver.

Arguments PStop {A} a. Arguments PPanic {A} a. Arguments PHang {A} a. Arguments POk {A} a.

(* ---- the effect of the operations on the world, and crash points ---- *)
Fixpoint set_nth {A} (n : nat) (x : A) (l : list A) : list A :=
  match l, n with
  | [], _ => []
  | _ :: r, O => x :: r
  | y :: r, S k => y :: set_nth k x r
  end.

Fixpoint tmp_get (t : list (nat * bytes)) (f : nat) : option bytes :=
  match t with
  | [] => None
  | (g, b) :: r => if Nat.eqb g f then Some b else tmp_get r f
  end.

Fixpoint tmp_del (t : list (nat * bytes)) (f : nat) : list (nat * bytes) :=
  match t with
  | [] => []
  | (g, b) :: r => if Nat.eqb g f then tmp_del r f else (g, b) :: tmp_del r f
  end.

Definition tmp_set (t : list (nat * bytes)) (f : nat) (b : bytes) : list (nat * bytes) :=
  (f, b) :: tmp_del t f.

Definition apply_eff (w : world) (e : eff) : world :=
  match e with
  | ECreateTmp f => mkWorld (w_src w) (tmp_set (w_tmp w) f []) (w_lock w)
  | EWriteTmp f bs =>
      match tmp_get (w_tmp w) f with
      | Some old => mkWorld (w_src w) (tmp_set (w_tmp w) f (old ++ bs)) (w_lock w)
      | None => w
      end
  | ERename f =>
      match tmp_get (w_tmp w) f with
      | Some c => mkWorld (set_nth f c (w_src w)) (tmp_del (w_tmp w) f) (w_lock w)
      | None => w
      end
  | EUnlinkTmp f => mkWorld (w_src w) (tmp_del (w_tmp w) f) (w_lock w)
  | ELockTrunc => mkWorld (w_src w) (w_tmp w) LCorrupt
  | ELockWrite n => mkWorld (w_src w) (w_tmp w) (LValid n)
  end.

Definition apply_effs (w : world) (es : list eff) : world := fold_left apply_eff es w.

(* the world when the process is killed after the first k operations, the (k+1)-th -- if it is a
   write -- possibly having been carried out in part *)
Definition crash_world (w : world) (es : list eff) (k : nat) (partial : option bytes) : world :=
  let w' := apply_effs w (firstn k es) in
  match partial, nth_error es k with
  | Some p, Some (EWriteTmp f _) => apply_eff w' (EWriteTmp f p)
  | _, _ => w'
  end.
