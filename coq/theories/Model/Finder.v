(* Finder.v -- hand model of src/codegen/finder.rs (CodeFinder::find: walkdir without following
   links, regular files only, Path::extension, exact membership in the configured list) and of the
   path arithmetic of Context::new / main (config directory, source directory, lock path).
   Definitions only. *)
From Coq Require Import List NArith Bool.
From Breadlog Require Import Model.Peg Model.Text Model.Utf8.
Import ListNotations.
Open Scope N_scope.

Notation name := (list N) (only parsing).

(* a directory tree; a symbolic link is a leaf whatever it points to (walkdir does not follow links
   below the root, and entry.file_type() is the link's own type) *)
Inductive fsnode :=
| FFile (content : bytes)
| FSymlink
| FDir (entries : fslist)
with fslist :=
| FNil
| FCons (n : name) (node : fsnode) (rest : fslist).

(* Path::extension of a file name: the text after the last '.', none if there is no '.', or if the
   only '.' is the first character; "foo." has the empty extension *)
Fixpoint split_last_dot (t : name) (before_rev : name) (best : option (name * name)) : option (name * name) :=
  match t with
  | [] => best
  | 46 :: r => split_last_dot r (46 :: before_rev) (Some (rev before_rev, r))
  | c :: r => split_last_dot r (c :: before_rev) best
  end.

Definition extension (n : name) : option name :=
  match split_last_dot n [] None with
  | Some ([], _) => None                       (* ".hidden": no extension *)
  | Some (_, ext) => Some ext
  | None => None
  end.

Definition in_scope (exts : list name) (n : name) : bool :=
  match extension n with
  | Some e => existsb (text_eqb e) exts
  | None => false
  end.

(* regular files below a node, with their path (components from the root), in listing order *)
Fixpoint walk (prefix : list name) (n : fsnode) : list (list name * bytes) :=
  match n with
  | FFile b => [(prefix, b)]
  | FSymlink => []
  | FDir es => walk_list prefix es
  end
with walk_list (prefix : list name) (es : fslist) : list (list name * bytes) :=
  match es with
  | FNil => []
  | FCons nm node r => walk (prefix ++ [nm]) node ++ walk_list prefix r
  end.

Definition last_name (p : list name) : name := last p [].

(* CodeFinder::find on a source directory: None = discovery error (not a directory) *)
Definition find_files (exts : list name) (root : fsnode) : option (list (list name * bytes)) :=
  match root with
  | FDir es => Some (filter (fun pb => in_scope exts (last_name (fst pb))) (walk_list [] es))
  | _ => None
  end.

(* ---- paths: absolute flag + components ---- *)
Record path := mkPath { p_abs : bool; p_comps : list name }.

Definition pjoin (a b : path) : path :=
  if p_abs b then b else mkPath (p_abs a) (p_comps a ++ p_comps b).

Definition pparent (p : path) : path := mkPath (p_abs p) (removelast (p_comps p)).

(* what the operating system does with a path given to a process whose working directory is cwd *)
Definition resolve (cwd p : path) : path := pjoin cwd p.

(* main + Context::new: config_dir = parent of the configuration file path as given;
   source_dir is used as is when absolute, else joined to config_dir *)
Definition config_dir (cfgfile : path) : path := pparent cfgfile.
Definition effective_source_dir (cfgfile src : path) : path := pjoin (config_dir cfgfile) src.
Definition lock_path (cfgfile : path) (lock_name : name) : path :=
  pjoin (config_dir cfgfile) (mkPath false [lock_name]).
