(* Peg.v -- executable semantics of the pest 2.7.12 runtime for the grammar fragment
   Breadlog uses: a transliteration of pest_generator::generate_expr /
   generate_expr_atomic / generate_rule / generate_skip and of the ParserState
   primitives they call (match_string, match_range, skip, sequence, optional, repeat,
   lookahead, rule, atomic).  Definitions only; facts are in Proofs/.

   Positions are BYTE offsets (pest spans are), the input is a list of code points. *)
From Coq Require Import List NArith String Bool.
Import ListNotations.
Open Scope N_scope.

Notation cp := N (only parsing).          (* a Unicode scalar value *)
Notation text := (list N) (only parsing).

(* number of bytes of the UTF-8 encoding of one scalar value *)
Definition cplen (c : cp) : N :=
  if c <? 128 then 1 else if c <? 2048 then 2 else if c <? 65536 then 3 else 4.

Fixpoint blen (t : text) : N :=
  match t with [] => 0 | c :: r => cplen c + blen r end.

Record input := mkIn { rest : text; pos : N }.

Inductive atomicity := Atomic | Compound | NonAtomic.
Inductive rule_ty := RNormal | RSilent | RAtomic | RCompound | RNonAtomic.
Inductive uclass := XidStart | XidContinue.

Inductive expr :=
| EStr (s : text)
| ERange (lo hi : cp)
| EAny
| ESoi
| EEoi
| EClass (c : uclass)
| ERule (name : string) (ty : rule_ty) (implicit_atomic : bool) (body : expr)
| ESeq (a b : expr)
| EChoice (a b : expr)
| EOpt (e : expr)
| ERep (e : expr)
| ESkipUntil (ss : list text)
| EPos (e : expr)
| ENeg (e : expr).

(* a pest Pair: rule, byte span, inner pairs *)
Inductive ptree := Node (rule : string) (s e : N) (kids : list ptree).

(* Fail: no match (position unchanged by construction: callers keep their own input).
   Diverge: pest itself would loop forever (an iteration of a repetition succeeded
   without consuming) -- never silently turned into a normal result. *)
Inductive res := Fail | Diverge | Ok (i : input) (toks : list ptree).

Fixpoint strip_prefix (s t : text) : option text :=
  match s with
  | [] => Some t
  | c :: s' => match t with
               | [] => None
               | d :: t' => if c =? d then strip_prefix s' t' else None
               end
  end.

Definition is_prefix (s t : text) : bool :=
  match strip_prefix s t with Some _ => true | None => false end.

(* ParserState::skip_until: advance to the first position where one of the strings
   matches, or to the end of the input; always succeeds *)
Fixpoint skip_until (ss : list text) (t : text) (p : N) : input :=
  match t with
  | [] => mkIn [] p
  | c :: r => if existsb (fun s => is_prefix s t) ss then mkIn t p
              else skip_until ss r (p + cplen c)
  end.

(* does ParserState::rule push Start/End tokens? *)
Definition emits (ty : rule_ty) (a : atomicity) (look : bool) : bool :=
  negb look &&
  match ty with
  | RSilent => false
  | RNormal | RAtomic => match a with Atomic => false | _ => true end
  | RCompound | RNonAtomic => true
  end.

Definition inner_atomicity (ty : rule_ty) (implicit_atomic : bool) (a : atomicity) : atomicity :=
  match ty with
  | RAtomic => Atomic
  | RCompound => Compound
  | RNonAtomic => NonAtomic
  | RNormal | RSilent => if implicit_atomic then Atomic else a
  end.

Section Run.
  Variable U : uclass -> cp -> bool.         (* pest::unicode tables *)
  Variable sk : input -> option input.       (* hidden::skip in NonAtomic mode; None = diverges *)

  Definition do_skip (a : atomicity) (i : input) : option input :=
    match a with NonAtomic => sk i | _ => Some i end.

  (* ParserState::repeat after a first successful iteration.  The fuel is a LIST (the
     remaining input plus one): every iteration must consume, so it never runs out on
     consistent inputs (Proofs/PegFacts.v), and no length is ever computed. *)
  Fixpoint rep_loop (f : input -> res) (fuel : list cp) (i : input) (acc : list ptree) : res :=
    match fuel with
    | [] => Diverge
    | _ :: k =>
        match f i with
        | Fail => Ok i acc
        | Diverge => Diverge
        | Ok i' t => if pos i <? pos i' then rep_loop f k i' (acc ++ t) else Diverge
        end
    end.

  Fixpoint run (e : expr) (a : atomicity) (look : bool) (i : input) {struct e} : res :=
    match e with
    | EStr s =>
        match strip_prefix s (rest i) with
        | Some r => Ok (mkIn r (pos i + blen s)) []
        | None => Fail
        end
    | ERange lo hi =>
        match rest i with
        | c :: r => if (lo <=? c) && (c <=? hi) then Ok (mkIn r (pos i + cplen c)) [] else Fail
        | [] => Fail
        end
    | EAny =>
        match rest i with
        | c :: r => Ok (mkIn r (pos i + cplen c)) []
        | [] => Fail
        end
    | ESoi => if pos i =? 0 then Ok i [] else Fail
    | EEoi =>
        match rest i with
        | [] => Ok i (if emits RNormal a look then [Node "EOI" (pos i) (pos i) []] else [])
        | _ :: _ => Fail
        end
    | EClass c =>
        match rest i with
        | d :: r => if U c d then Ok (mkIn r (pos i + cplen d)) [] else Fail
        | [] => Fail
        end
    | ERule name ty impl body =>
        match run body (inner_atomicity ty impl a) look i with
        | Ok i' kids =>
            if emits ty (match ty with RCompound => Compound | RNonAtomic => NonAtomic | _ => a end) look
            then Ok i' [Node name (pos i) (pos i') kids]
            else Ok i' kids
        | r => r
        end
    | ESeq x y =>
        match run x a look i with
        | Ok i1 t1 =>
            match do_skip a i1 with
            | None => Diverge
            | Some i1' =>
                match run y a look i1' with
                | Ok i2 t2 => Ok i2 (t1 ++ t2)
                | r => r
                end
            end
        | r => r
        end
    | EChoice x y =>
        match run x a look i with
        | Fail => run y a look i
        | r => r
        end
    | EOpt x =>
        match run x a look i with
        | Fail => Ok i []
        | r => r
        end
    | ERep x =>
        match run x a look i with
        | Fail => Ok i []
        | Diverge => Diverge
        | Ok i1 t1 =>
            if pos i <? pos i1
            then rep_loop (fun j => match do_skip a j with
                                    | None => Diverge
                                    | Some j' => run x a look j'
                                    end) (0 :: rest i1) i1 t1
            else Diverge
        end
    | ESkipUntil ss => Ok (skip_until ss (rest i) (pos i)) []
    | EPos x =>
        match run x a true i with
        | Ok _ _ => Ok i []
        | r => r
        end
    | ENeg x =>
        match run x a true i with
        | Ok _ _ => Fail
        | Fail => Ok i []
        | Diverge => Diverge
        end
    end.
End Run.

(* hidden::skip (generate_skip): WHITESPACE* (COMMENT WHITESPACE* )* -- run with an identity
   skip, both rules being implicitly atomic (the translator refuses grammars where a
   non-atomic or token-producing rule is reachable from them). *)
Definition idsk (i : input) : option input := Some i.

Definition skip_expr (ws cm : option expr) : option expr :=
  match ws, cm with
  | None, None => None
  | Some w, None => Some (ERep w)
  | None, Some c => Some (ERep c)
  | Some w, Some c => Some (ESeq (ERep w) (ERep (ESeq c (ERep w))))
  end.

Definition skipf (U : uclass -> cp -> bool) (ws cm : option expr) (i : input) : option input :=
  match skip_expr ws cm with
  | None => Some i
  | Some e => match run U idsk e Atomic false i with
              | Ok i' _ => Some i'
              | _ => None
              end
  end.

(* RustParser::parse(Rule::<e>, text): initial atomicity NonAtomic, no lookahead *)
Definition parse (U : uclass -> cp -> bool) (ws cm : option expr) (e : expr) (t : text) : res :=
  run U (skipf U ws cm) e NonAtomic false (mkIn t 0).
