(* Glue.v -- hand model of src/parser/rust_parser.rs (rust_log_ref_finder::find),
   src/parser/code_parser.rs (check_for_boolean_directive, extract_reference,
   usable_reference_position, insertable_reference_string), branch by branch.
   Everything declarative (grammar, regexes, constants, Unicode tables) is a parameter
   that Model/Tables.v instantiates with the generated Gen/ files. *)
From Coq Require Import List NArith Bool String.
From Breadlog Require Import Model.Peg Model.Text Model.Regex.
Import ListNotations.
Open Scope N_scope.

Inductive outcome (A : Type) := Done (a : A) | Panic | Hang.
Arguments Done {A} a.
Arguments Panic {A}.
Arguments Hang {A}.

Inductive kind := KUnknown | KString | KStructuredPreExisting | KStructuredNew.

Record entry := mkEntry {
  e_pos : N;            (* byte offset *)
  e_line : N;
  e_col : N;
  e_ref : option N;
  e_name : text;
  e_kind : kind;
  e_prefix : option text;
  e_suffix : option text }.

Record config := mkConfig {
  cfg_structured : bool;
  cfg_macros : list (text * text) }.      (* (module, name) *)

Record params := mkParams {
  p_U : uclass -> cp -> bool;
  p_is_ws : cp -> bool;
  p_lower : cp -> list cp;
  p_ws : option expr;
  p_comment : option expr;
  p_file : expr;
  p_ref_re : regex;              (* LOG_REF_PATTERN *)
  p_comment_re : regex;          (* RUST_COMMENT_PATTERN *)
  p_ignore : text;               (* breadlog:ignore *)
  p_no_kvp : text;               (* breadlog:no-kvp *)
  p_ref_key : text;              (* ref *)
  p_fmt_default : text * text;   (* "[ref: " , "] " *)
  p_fmt_prefix : text * text;    (* "" , " = " *)
  p_suffixes : list text }.      (* ", " ; "; " *)

Section Glue.
  Variable P : params.

  (* LogRefEntry::extract_reference *)
  Definition extract_reference (lit : text) : option N :=
    match captures (p_ref_re P) lit with
    | None => None
    | Some c => match get_cap c 1 with
                | None => None      (* capture[1] would panic; group 1 always participates *)
                | Some se => parse_u32 (cap_text lit se)
                end
    end.

  (* one group of Captures::iter: Some text when the group participated *)
  Fixpoint group_texts (line : text) (c : caps) (fuel : nat) (i : N) : list text :=
    match fuel with
    | O => []
    | S f => match get_cap c i with
             | Some se => cap_text line se :: group_texts line c f (i + 1)
             | None => group_texts line c f (i + 1)
             end
    end.

  Fixpoint scan_lines (directive : text) (re : regex) (ls : list text) : bool :=
    match ls with
    | [] => false
    | l :: rest =>
        let l' := trim (p_is_ws P) l in
        match l' with
        | [] => scan_lines directive re rest
        | _ =>
            match captures re l' with
            | None => false
            | Some c =>
                existsb (fun g => text_eqb (trim (p_is_ws P) (to_lowercase (p_lower P) g)) directive)
                        (group_texts l' c (S (N.to_nat (max_group re))) 0)
            end
        end
    end.

  (* check_for_boolean_directive; None = panic in code[..subject_pos + 1] *)
  (* code[subject_pos..].chars().next().map_or(0, len_utf8); None = the slice panics *)
  Definition first_char_len (code : text) (subject_pos : N) : option N :=
    match drop_bytes code subject_pos with
    | None => None
    | Some [] => Some 0
    | Some (c :: _) => Some (cplen c)
    end.

  Definition directive_check (directive : text) (code : text) (subject_pos : N) (re : regex)
    : option bool :=
    match first_char_len code subject_pos with
    | None => None
    | Some l =>
        match take_bytes code (subject_pos + l) with
        | None => None
        | Some pre => Some (scan_lines directive re (tl (rev (lines pre))))
        end
    end.

  Definition macro_of_interest (name : text) (cfg : config) : bool :=
    existsb (fun mn => text_eqb name (snd mn)
                       || text_eqb name (fst mn ++ [58; 58] ++ snd mn)) (cfg_macros cfg).

  (* name[rfind("::") + 2 ..], or the whole name *)
  Fixpoint after_last_sep (t cand : text) : text :=
    match t with
    | [] => cand
    | 58 :: r => match r with
                 | 58 :: r' => after_last_sep r r'
                 | _ => after_last_sep r cand
                 end
    | _ :: r => after_last_sep r cand
    end.
  Definition short_name (t : text) : text := after_last_sep t t.

  Definition node_rule (n : ptree) : string := match n with Node r _ _ _ => r end.
  Definition node_start (n : ptree) : N := match n with Node _ s _ _ => s end.
  Definition node_end (n : ptree) : N := match n with Node _ _ e _ => e end.
  Definition node_kids (n : ptree) : list ptree := match n with Node _ _ _ k => k end.
  Definition is_rule (n : ptree) (r : string) : bool := String.eqb (node_rule n) r.

  (* the kvp_args loop: (key span, optional value span) in order *)
  Fixpoint kvp_spans (kids : list ptree) (acc_rev : list (ptree * option ptree))
    : list (ptree * option ptree) :=
    match kids with
    | [] => rev acc_rev
    | k :: r =>
        if is_rule k "kvp_key" then kvp_spans r ((k, None) :: acc_rev)
        else if is_rule k "kvp_value" then
               match acc_rev with
               | [] => kvp_spans r acc_rev
               | (key, _) :: a => kvp_spans r ((key, Some k) :: a)
               end
        else kvp_spans r acc_rev
    end.

  (* the loop over the children of macro_args: message value, key-values, and the start of
     the first argument after a target argument *)
  Record args_scan := mkScan {
    sc_msg : option ptree;
    sc_kvs : list (ptree * option ptree);
    sc_target : bool;
    sc_after_target : option N }.

  Fixpoint scan_args (kids : list ptree) (st : args_scan) : args_scan :=
    match kids with
    | [] => st
    | k :: r =>
        let st :=
          if sc_target st && match sc_after_target st with None => true | Some _ => false end
          then mkScan (sc_msg st) (sc_kvs st) (sc_target st) (Some (node_start k))
          else st in
        if is_rule k "target_arg" then
          scan_args r (mkScan (sc_msg st) (sc_kvs st) true (sc_after_target st))
        else if is_rule k "string_literal" then
          match node_kids k with
          | [] => scan_args r st
          | v :: _ => scan_args r (mkScan (Some v) (sc_kvs st) (sc_target st) (sc_after_target st))
          end
        else if is_rule k "kvp_args" then
          scan_args r (mkScan (sc_msg st) (sc_kvs st ++ kvp_spans (node_kids k) [])
                              (sc_target st) (sc_after_target st))
        else scan_args r st
    end.

  (* first key-value whose key text is the ref key and which has a value *)
  Fixpoint find_ref_kv (code : text) (kvs : list (ptree * option ptree)) : outcome (option ptree) :=
    match kvs with
    | [] => Done None
    | (k, v) :: r =>
        match str_slice code (node_start k) (node_end k) with
        | None => Panic
        | Some kt =>
            if text_eqb kt (p_ref_key P)
            then match v with
                 | None => find_ref_kv code r
                 | Some vs => Done (Some vs)
                 end
            else find_ref_kv code r
        end
    end.

  (* the reference a `ref` key-value holds: the text of the value's span -- which runs up to the
     delimiter -- without a trailing comment, trimmed, as u32 *)
  Definition ref_value (vt : text) : option N := parse_u32 (trim (p_is_ws P) (cut_comment vt)).

  Inductive step := Skip | Emit (e : entry) | StepPanic.

  Definition one_macro (cfg : config) (code : text) (found : ptree) : step :=
    match node_kids found with
    | [] => Skip
    | name_rule :: inner =>
        if negb (is_rule name_rule "macro_name") then Skip else
        match directive_check (p_ignore P) code (node_start name_rule) (p_comment_re P) with
        | None => StepPanic
        | Some true => Skip
        | Some false =>
            match str_slice code (node_start name_rule) (node_end name_rule) with
            | None => StepPanic
            | Some name =>
                if negb (macro_of_interest name cfg) then Skip else
                match inner with
                | [] => Skip
                | args :: _ =>
                    if negb (is_rule args "macro_args") then Skip else
                    let sc := scan_args (node_kids args) (mkScan None [] false None) in
                    let msg := sc_msg sc in
                    let kvs := sc_kvs sc in
                    let no_kvp :=
                      if cfg_structured cfg
                      then directive_check (p_no_kvp P) code (node_start args) (p_comment_re P)
                      else Some true (* not evaluated by the code: && short-circuits *) in
                    match no_kvp with
                    | None => StepPanic
                    | Some nk =>
                        if cfg_structured cfg && negb nk then
                          match find_ref_kv code kvs with
                          | Panic | Hang => StepPanic
                          | Done (Some vs) =>
                              match line_col code (node_start vs),
                                    str_slice code (node_start vs) (node_end vs) with
                              | Some (l, c), Some vt =>
                                  Emit (mkEntry (node_start vs) l c (ref_value vt)
                                                (short_name name)
                                                KStructuredPreExisting None None)
                              | _, _ => StepPanic
                              end
                          | Done None =>
                              match match sc_after_target sc with
                                    | Some p => match line_col code p with
                                                | Some (l, c) => Some (p, l, c)
                                                | None => None
                                                end
                                    | None => match line_col code (node_start args) with
                                              | Some (l, c) => Some (node_start args + 1, l, c + 1)
                                              | None => None
                                              end
                                    end with
                              | Some (ipos, l, c) =>
                                  Emit (mkEntry ipos l c None (short_name name)
                                                KStructuredNew
                                                (Some (fst (p_fmt_prefix P) ++ p_ref_key P
                                                       ++ snd (p_fmt_prefix P)))
                                                (Some (match kvs with
                                                       | _ :: _ => nth 0 (p_suffixes P) []
                                                       | [] => nth 1 (p_suffixes P) []
                                                       end)))
                              | None => StepPanic
                              end
                          end
                        else
                          match msg with
                          | None => Skip
                          | Some sv =>
                              match line_col code (node_start sv),
                                    str_slice code (node_start sv) (node_end sv) with
                              | Some (l, c), Some body =>
                                  Emit (mkEntry (node_start sv) l c (extract_reference body)
                                                (short_name name) KString None None)
                              | _, _ => StepPanic
                              end
                          end
                    end
                end
            end
        end
    end.

  Fixpoint collect (cfg : config) (code : text) (founds : list ptree) (acc_rev : list entry)
    : outcome (list entry) :=
    match founds with
    | [] => Done (rev acc_rev)
    | f :: r =>
        if is_rule f "log_macro" then
          match one_macro cfg code f with
          | Skip => collect cfg code r acc_rev
          | Emit e => collect cfg code r (e :: acc_rev)
          | StepPanic => Panic
          end
        else if is_rule f "EOI" || is_rule f "other_name" then collect cfg code r acc_rev
        else Panic                                   (* unreachable!() *)
    end.

  (* rust_log_ref_finder::find *)
  Definition entries (cfg : config) (code : text) : outcome (list entry) :=
    match parse (p_U P) (p_ws P) (p_comment P) (p_file P) code with
    | Fail => Done []
    | Diverge => Hang
    | Ok _ [] => Done []
    | Ok _ (top :: _) => collect cfg code (node_kids top) []
    end.

  Definition exists_ref (e : entry) : bool := match e_ref e with Some _ => true | None => false end.

  (* LogRefEntry::usable_reference_position *)
  Definition usable (e : entry) : bool :=
    negb (match e_kind e with KStructuredPreExisting => true | _ => false end && negb (exists_ref e)).

  (* LogRefEntry::insertable_reference_string *)
  Definition insertable (e : entry) (id : N) : text :=
    match e_prefix e, e_suffix e with
    | None, None => fst (p_fmt_default P) ++ dec id ++ snd (p_fmt_default P)
    | pre, suf => match pre with Some p => p | None => [] end ++ dec id
                  ++ match suf with Some s => s | None => [] end
    end.
End Glue.
