(* Lock.v -- the TEXT of Breadlog.lock: what Context::cache_next_reference_id writes
   (CACHE_EDIT_WARNING + serde_yaml::to_string(&Cache { next_reference_id })) and a reader for the
   subset of YAML such files are made of.  The reader says RUnknown outside that subset (it is a model
   of serde_yaml only on the shapes listed here); definitions only. *)
From Coq Require Import List NArith Bool.
From Breadlog Require Import Model.Peg Model.Text.
From Breadlog Require Import Gen.Consts.
Import ListNotations.
Open Scope N_scope.

Inductive lread := RValid (n : N) | RCorrupt | RUnknown.

(* the file the tool writes *)
Definition lock_text (n : N) : text := (c_CACHE_EDIT_WARNING ++ c_lock_field ++ [58; 32] ++ dec n ++ [10])%list.

(* lines: split at LF (a CR before it is white space at the end of the line) *)
Fixpoint split_nl (t : text) (cur_rev : text) : list text :=
  match t with
  | [] => [rev cur_rev]
  | c :: r => if c =? 10 then rev cur_rev :: split_nl r [] else split_nl r (c :: cur_rev)
  end.

Definition is_sp (c : N) : bool := (c =? 32) || (c =? 9) || (c =? 13).
Fixpoint drop_sp (t : text) : text := match t with c :: r => if is_sp c then drop_sp r else t | [] => [] end.
Definition trim_sp (t : text) : text := rev (drop_sp (rev (drop_sp t))).

Definition significant (l : text) : bool :=
  match drop_sp l with
  | [] => false               (* blank *)
  | 35 :: _ => false          (* comment *)
  | _ => true
  end.

(* a plain unsigned decimal number: no sign, no leading zero (serde_yaml reads 007 as a string) *)
Definition canonical_digits (v : text) : bool :=
  match v with
  | [] => false
  | [_] => forallb is_ascii_digit v
  | d :: _ => negb (d =? 48) && forallb is_ascii_digit v
  end.

Definition read_key_line (l : text) : lread :=
  match strip_prefix c_lock_field (trim_sp l) with
  | None => RUnknown
  | Some r =>
      match drop_sp r with
      | 58 :: r2 =>
          match r2 with
          | c :: _ =>
              if is_sp c then
                let v := trim_sp r2 in
                if canonical_digits v
                then match digits_value v 0 with
                     | Some n => if n <=? u32_max then RValid n else RCorrupt
                     | None => RUnknown
                     end
                else RUnknown
              else RUnknown
          | [] => RUnknown
          end
      | _ => RUnknown
      end
  end.

Definition lock_read (t : text) : lread :=
  let ls := filter significant (split_nl t []) in
  let ls := match ls with
            | l :: r => if text_eqb (trim_sp l) [45; 45; 45] then r else ls     (* explicit document start *)
            | [] => []
            end in
  match ls with
  | [] => RCorrupt              (* empty, blank or comments only: no mapping at all *)
  | [l] => read_key_line l
  | _ => RUnknown
  end.
