(* FormatStr.v -- the part of format_args! / the log macros that the C09 argument needs: how a
   format string is cut into literal text and placeholders, and what a log record carries.
   Modelled after the Rust reference (std::fmt syntax) and log-0.4.22/src/macros.rs; rustc and the
   real macros are NOT verified -- the check compiles and runs generated programs. *)
From Coq Require Import List NArith Bool.
From Breadlog Require Import Model.Peg.
Import ListNotations.
Open Scope N_scope.

Inductive piece := PChar (c : N) | PHole (spec : list N).

(* inside a placeholder: collect up to the closing brace *)
Fixpoint hole_body (t : list N) (acc_rev : list N) : option (list N * list N) :=
  match t with
  | [] => None
  | 125 :: r => Some (rev acc_rev, r)
  | c :: r => hole_body r (c :: acc_rev)
  end.

(* literal text, {{ and }} escapes, {spec} placeholders; None = malformed format string.
   Structural on a fuel list (the string itself). *)
Fixpoint pieces_go (fuel t : list N) : option (list piece) :=
  match fuel with
  | [] => match t with [] => Some [] | _ => None end
  | _ :: fuel' =>
      match t with
      | [] => Some []
      | 123 :: 123 :: r => option_map (cons (PChar 123)) (pieces_go fuel' r)
      | 125 :: 125 :: r => option_map (cons (PChar 125)) (pieces_go fuel' r)
      | 123 :: r => match hole_body r [] with
                    | Some (spec, r') => option_map (cons (PHole spec)) (pieces_go fuel' r')
                    | None => None
                    end
      | 125 :: _ => None
      | c :: r => option_map (cons (PChar c)) (pieces_go fuel' r)
      end
  end.
Definition pieces (t : list N) : option (list piece) := pieces_go t t.

(* rendering with the values of the placeholders supplied in order *)
Fixpoint render (ps : list piece) (vals : list (list N)) : list N :=
  match ps with
  | [] => []
  | PChar c :: r => c :: render r vals
  | PHole _ :: r => match vals with v :: vs => v ++ render r vs | [] => render r [] end
  end.

Fixpoint no_brace (t : list N) : bool :=
  match t with [] => true | c :: r => negb (c =? 123) && negb (c =? 125) && no_brace r end.

(* a log record as the logger sees it *)
Record record := mkRecord {
  r_level : N;
  r_target : option (list N);
  r_kvs : list (list N * list N);       (* key, rendered value, in order *)
  r_message : list N }.

(* the statement as the macro arms destructure it *)
Record stmt := mkStmt {
  s_level : N;
  s_target : option (list N);
  s_kvs : list (list N * list N);
  s_fmt : list N;
  s_vals : list (list N) }.

Definition expand (s : stmt) : option record :=
  match pieces (s_fmt s) with
  | Some ps => Some (mkRecord (s_level s) (s_target s) (s_kvs s) (render ps (s_vals s)))
  | None => None                         (* does not compile *)
  end.

(* the two edits Breadlog makes *)
Definition edit_message (tok : list N) (s : stmt) : stmt :=
  mkStmt (s_level s) (s_target s) (s_kvs s) (tok ++ s_fmt s) (s_vals s).
Definition edit_structured (key value : list N) (s : stmt) : stmt :=
  mkStmt (s_level s) (s_target s) ((key, value) :: s_kvs s) (s_fmt s) (s_vals s).
