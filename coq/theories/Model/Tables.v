(* Tables.v -- the model instantiated with what the translators generated from /repo. *)
From Coq Require Import List NArith Bool String.
From Breadlog Require Import Model.Peg Model.Text Model.Regex Model.Glue.
From Breadlog Require Import Gen.Unicode Gen.Grammar Gen.Regexes Gen.Consts.
Import ListNotations.
Open Scope N_scope.

Definition Utab (c : uclass) (d : cp) : bool :=
  match c with
  | XidStart => in_ranges xid_start_ranges d
  | XidContinue => in_ranges xid_continue_ranges d
  end.

Definition is_ws_tab (c : cp) : bool := in_ranges white_space_ranges c.

Fixpoint lookup_lower (tab : list (N * list N)) (c : cp) : list cp :=
  match tab with
  | [] => [c]
  | (k, v) :: r => if c <? k then [c] else if c =? k then v else lookup_lower r c
  end.
Definition lower_tab (c : cp) : list cp := lookup_lower lowercase_table c.

Definition the_params : params :=
  mkParams Utab is_ws_tab lower_tab g_whitespace g_comment g_file
           re_LOG_REF_PATTERN re_RUST_COMMENT_PATTERN
           c_IGNORE_DIRECTIVE_TEXT c_NO_KVP_DIRECTIVE_TEXT c_REF_KVP_KEY
           fmt_default_ref fmt_structured_prefix structured_suffixes.

Definition parse_file (t : text) : res := parse Utab g_whitespace g_comment g_file t.
Definition find (cfg : config) (t : text) : outcome (list entry) := entries the_params cfg t.
