(* Regex.v -- backtracking matcher with leftmost-first (Perl / Rust `regex`) semantics for
   the HIR fragment the translator emits.  Captures are (start, end) code-point indices.
   Definitions only. *)
From Coq Require Import List NArith Bool.
From Breadlog Require Import Model.Peg Model.Text.
Import ListNotations.
Open Scope N_scope.

Inductive regex :=
| REmpty
| RLit (s : text)
| RClass (ranges : list (N * N))
| RStart
| REnd
| RRep (min : N) (max : option N) (greedy : bool) (r : regex)
| RCap (idx : N) (r : regex)
| RCat (a b : regex)
| RAlt (a b : regex).

Definition caps := list (N * (N * N)).       (* group index -> [start, end) *)

Record rst := mkR { rrem : text; ridx : N; rcaps : caps }.

Fixpoint set_cap (c : caps) (i : N) (v : N * N) : caps :=
  match c with
  | [] => [(i, v)]
  | (j, w) :: r => if j =? i then (i, v) :: r else (j, w) :: set_cap r i v
  end.

Fixpoint get_cap (c : caps) (i : N) : option (N * N) :=
  match c with
  | [] => None
  | (j, w) :: r => if j =? i then Some w else get_cap r i
  end.

Fixpoint tlen (t : text) : N := match t with [] => 0 | _ :: r => 1 + tlen r end.

(* a repetition, after n iterations: `more` tries one more iteration (which must consume),
   `stop` continues with k; greedy tries `more` first.  The fuel is a list (remaining input
   plus one), every iteration consuming at least one scalar value. *)
Fixpoint rep_m (ma : (rst -> option caps) -> rst -> option caps) (k : rst -> option caps)
         (mn : N) (mx : option N) (g : bool) (fuel : list N) (n : N) (s : rst) {struct fuel}
  : option caps :=
  let more :=
    match fuel with
    | [] => None
    | _ :: f' =>
        if match mx with Some x => n <? x | None => true end
        then ma (fun s' => if ridx s <? ridx s' then rep_m ma k mn mx g f' (n + 1) s' else None) s
        else None
    end in
  let stop := if mn <=? n then k s else None in
  if g
  then match more with Some c => Some c | None => stop end
  else match stop with Some c => Some c | None => more end.

(* m r k s : match r at state s, then continue with k; the first success wins *)
Fixpoint m (r : regex) (k : rst -> option caps) (s : rst) {struct r} : option caps :=
  match r with
  | REmpty => k s
  | RLit l =>
      match strip_prefix l (rrem s) with
      | Some t => k (mkR t (ridx s + tlen l) (rcaps s))
      | None => None
      end
  | RClass rs =>
      match rrem s with
      | c :: t => if in_ranges rs c then k (mkR t (ridx s + 1) (rcaps s)) else None
      | [] => None
      end
  | RStart => if ridx s =? 0 then k s else None
  | REnd => match rrem s with [] => k s | _ => None end
  | RCat a b => m a (m b k) s
  | RAlt a b => match m a k s with Some c => Some c | None => m b k s end
  | RCap i a =>
      m a (fun s' => k (mkR (rrem s') (ridx s') (set_cap (rcaps s') i (ridx s, ridx s')))) s
  | RRep mn mx g a => rep_m (m a) k mn mx g (0 :: rrem s) 0 s
  end.

(* Regex::captures: leftmost match over all start positions; group 0 is the whole match *)
Fixpoint search_from (r : regex) (t : text) (idx : N) : option caps :=
  match m r (fun s => Some (set_cap (rcaps s) 0 (idx, ridx s))) (mkR t idx []) with
  | Some c => Some c
  | None => match t with
            | [] => None
            | _ :: t' => search_from r t' (idx + 1)
            end
  end.

Definition captures (r : regex) (t : text) : option caps := search_from r t 0.

Fixpoint skipn_N (n : N) (t : text) : text :=
  match t with
  | [] => []
  | _ :: r => if n =? 0 then t else skipn_N (n - 1) r
  end.
Fixpoint firstn_N (n : N) (t : text) : text :=
  match t with
  | [] => []
  | c :: r => if n =? 0 then [] else c :: firstn_N (n - 1) r
  end.
Definition cap_text (t : text) (se : N * N) : text :=
  firstn_N (snd se - fst se) (skipn_N (fst se) t).

(* number of capture groups (highest index), so that Captures::iter can be enumerated *)
Fixpoint max_group (r : regex) : N :=
  match r with
  | RRep _ _ _ a => max_group a
  | RCap i a => N.max i (max_group a)
  | RCat a b | RAlt a b => N.max (max_group a) (max_group b)
  | _ => 0
  end.
