(* C06 -- after a successful edit the tree is a fixpoint and every insertion round-trips.
   Statements only; proofs in Proofs/RunFacts.v, CheckFacts.v, RegexFacts.v, RoundTrip.v. *)
From Coq Require Import List NArith Bool Lia.
From Breadlog Require Import Proofs.RuleLemmas Proofs.StatementLemmas Proofs.ArgLemmas Proofs.FileSpec Proofs.CanonicalRun Proofs.RegexFacts.
From Breadlog Require Import Model.Peg Model.Text Model.Regex Model.Glue Model.Tables Model.Utf8 Model.Driver.
From Breadlog Require Import Gen.Consts.
From Breadlog Require Import Proofs.RewriteFacts Proofs.DriverFacts Proofs.RunFacts Proofs.CheckFacts
     Proofs.RegexFacts Proofs.RoundTrip Proofs.DecimalFacts.
From Breadlog Require Import Properties.Common Properties.C17.
Import ListNotations.
Open Scope N_scope.

(* (1) FIXPOINT.  For EVERY tree in which no statement of any readable file lacks a reference
   (as the finder sees it), an uninterrupted edit run exits 0, writes no ID, leaves every source
   byte as it is, and leaves the lock value unchanged (it is rewritten with the same value, or
   stays as it was; a recorded 0 -- which the tool itself never writes -- becomes the first ID, 1);
   the finder's totality (C17) discharges the no-panic side condition. *)
Theorem C06_complete_tree_is_fixpoint : forall rc files lk o,
  files <> [] -> o_stop1 o = None -> o_stop2 o = None ->
  tree_complete find (rc_cfg rc) (o_rfail1 o) files -> tree_complete find (rc_cfg rc) (o_rfail2 o) files ->
  ro_exit (edit rc files lk o) = XOk /\ ro_ids (edit rc files lk o) = [] /\
  w_src (after rc files lk o) = files /\
  (w_lock (after rc files lk o) = lk \/
   exists L, lk = LValid L /\ (w_lock (after rc files lk o) = LValid (N.max L c_START_REFERENCE_ID) \/
                             w_lock (after rc files lk o) = LCorrupt)).
Proof.
  intros rc files lk o Hne H1 H2 Hc1 Hc2.
  apply (complete_tree_is_fixpoint the_params find c_START_REFERENCE_ID start_ge_1 start_le_max rc files lk o
           Hne H1 H2 Hc1 Hc2).
  intros k b rf _. apply C17_no_file_panics.
Qed.

(* ... and a --check run on such a tree passes *)
Theorem C06_check_passes_on_complete_tree : forall rc files o,
  files <> [] -> o_stop2 o = None ->
  tree_complete find (rc_cfg rc) (o_rfail2 o) files ->
  ro_exit (check rc files o) = XOk.
Proof.
  intros rc files o Hne Hs Hc.
  assert (Hnp : ro_exit (check rc files o) <> XPanic /\ ro_exit (check rc files o) <> XHang).
  { unfold check, run_check. destruct files as [|b0 fs] eqn:Ef; [congruence|]. rewrite <- Ef.
    assert (G : forall fl i reps total,
      match pass_count find (rc_cfg rc) (o_stop2 o) (o_rfail2 o) fl i reps total with
      | PPanic _ | PHang _ => False | _ => True end).
    { induction fl as [|b fl IH]; intros i reps total; cbn [pass_count].
      - destruct (stops (o_stop2 o) i); exact I.
      - destruct (stops (o_stop2 o) i); [exact I|].
        destruct (C17_no_file_panics (rc_cfg rc) (o_rfail2 o i) b) as [Hp Hh].
        destruct (file_entries find (rc_cfg rc) (o_rfail2 o i) b); try congruence; [apply IH|].
        destruct (count_map i es [] 0). apply IH. }
    specialize (G files 0%nat [] 0).
    destruct (pass_count find (rc_cfg rc) (o_stop2 o) (o_rfail2 o) files 0 [] 0) as [[? ?]|[? ?]|[? ?]|[? ?]];
      try contradiction; cbn; split; try discriminate; destruct (0 <? n); discriminate. }
  destruct Hnp as [Hp Hh].
  destruct (check_verdict find rc files o Hne Hp Hh Hs) as (_ & _ & _ & Hok).
  apply Hok. apply expected_missing_complete. exact Hc.
Qed.

(* (2) ROUND TRIP at the token level: what Breadlog inserts is read back with exactly its ID --
   message style (the inserted token, whatever follows it) and key-value style (the digits it
   writes, followed by any blanks up to the delimiter) *)
Theorem C06_message_token_roundtrip : forall (n : N) (rest : list N),
  n <= 4294967295 ->
  extract_reference the_params
    (insertable the_params (mkEntry 0 1 1 None [] KString None None) n ++ rest) = Some n.
Proof. exact extract_reference_token. Qed.

Theorem C06_structured_value_roundtrip : forall (n : N) (w : list N),
  n <= 4294967295 -> forallb is_ws_tab w = true ->
  parse_u32 (trim is_ws_tab (dec n ++ w)) = Some n.
Proof. exact structured_value_roundtrip. Qed.

(* non-vacuity: edit, then the edited tree is complete: second edit changes nothing, check passes *)
Example C06_nonvacuous :
  let f := utf8_encode [105;110;102;111;33;40;34;98;34;41;59;32;119;97;114;110;33;40;107;32;61;32;49;59;32;34;99;34;41;59] in
  let o := mkOracle None None (fun _ => false) (fun _ => false) (fun _ => FNone) LkOk in
  forall structured,
  let rc := mkRunCfg (mkConfig structured [([108;111;103], [105;110;102;111]); ([108;111;103], [119;97;114;110])]) true in
  let w1 := after rc [f] LAbsent o in
  w_src w1 <> [f] /\
  ro_exit (check rc (w_src w1) o) = XOk /\
  w_src (after rc (w_src w1) (w_lock w1) o) = w_src w1 /\
  w_lock (after rc (w_src w1) (w_lock w1) o) = w_lock w1 /\ w_lock w1 = LValid 3.
Proof. intros f o [|]; vm_compute; repeat split; try reflexivity; discriminate. Qed.

(* (3) ROUND TRIP AT A STATEMENT OF THE CANONICAL FILE LANGUAGE (Proofs/FileSpec.v), from the text: a statement
   whose message begins with the token for id -- wherever it stands in whatever file, with any layout -- is read
   back, when it is reported at all, with exactly that id ... *)
Theorem C06_statement_token_roundtrip : forall cfg code pre n l us id,
  id <= 4294967295 ->
  forall e, In e (step_entries (stmt_step cfg code pre n l (map MChar (default_token id) ++ us))) ->
            e_kind e = KString -> e_ref e = Some id.
Proof. exact stmt_token_roundtrip. Qed.

(* ... and a statement whose first key-value is the `ref = id` an edit run inserts (followed by "," when other
   key-values exist, by ";" when not), with any target before it, any key-values and any message after it *)
Theorem C06_statement_ref_roundtrip : forall cfg code pre n a id comma more lsemi lafter,
  id <= 4294967295 -> a_kvs a = Some (ref_core id comma, more, lsemi, lafter) ->
  forall e, In e (step_entries (stmt_stepA cfg code pre n a)) ->
            e_kind e <> KString -> e_kind e = KStructuredPreExisting /\ e_ref e = Some id.
Proof. exact stmtA_ref_roundtrip. Qed.

(* (4) WHAT AN EDIT RUN MAKES OF A STATEMENT READS BACK.  `add_ref it e0 id` is the statement the written bytes
   contain in place of `it` (C03_canonical_rewritten): placed anywhere in any file under any configuration, an
   entry of the same kind as e0 -- message kind for the token, key-value kind for `ref = id` -- carries exactly id *)
Theorem C06_rewritten_statement_reads_back : forall it e0 id,
  id <= 4294967295 ->
  ((exists n l us, it = IStmt n l us) \/ (exists n a, it = IStmtA n a)) ->
  forall cfg code pre e, In e (step_entries (item_step cfg code pre (add_ref it e0 id))) ->
  (e_kind e0 = KString -> e_kind e = KString -> e_ref e = Some id) /\
  (e_kind e0 <> KString -> e_kind e <> KString -> e_kind e = KStructuredPreExisting /\ e_ref e = Some id).
Proof. exact rewritten_statement_reads_back. Qed.

(* The bytes an edit run writes ARE the rendering of such statements: C03_canonical_rewritten /
   C13_canonical_rewritten (every statement that lacked a reference becomes `add_token` / `add_kv` of itself, to
   which (3) applies).  NOT proved: that the rewritten item list again satisfies the side conditions `items_ok`
   of the canonical language, and that the directive decision of every statement is unchanged by the inserted
   text (the directive check is a function of the whole text); that link is the fixpoint campaign on the binary. *)

Print Assumptions C06_complete_tree_is_fixpoint.
Print Assumptions C06_statement_token_roundtrip.
Print Assumptions C06_statement_ref_roundtrip.
Print Assumptions C06_rewritten_statement_reads_back.
Print Assumptions C06_check_passes_on_complete_tree.
Print Assumptions C06_message_token_roundtrip.
Print Assumptions C06_structured_value_roundtrip.
