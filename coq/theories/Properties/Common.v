(* Common.v -- the model instantiated with what was generated from /repo, as used by the
   property files; and the two facts about START_REFERENCE_ID the allocator theorems need. *)
From Coq Require Import List NArith Bool Lia.
From Breadlog Require Import Model.Peg Model.Text Model.Regex Model.Glue Model.Tables Model.Utf8
     Model.Driver Model.History.
From Breadlog Require Import Gen.Consts.
Import ListNotations.
Open Scope N_scope.

Definition edit (rc : runcfg) (files : list (list N)) (lk : lockst) (o : oracle) : run_out :=
  run_edit the_params find c_START_REFERENCE_ID rc (Some files) lk o.
Definition check (rc : runcfg) (files : list (list N)) (o : oracle) : run_out :=
  run_check find rc (Some files) o.
Definition world0 (files : list (list N)) (lk : lockst) : world := mkWorld files [] lk.
Definition after (rc : runcfg) (files : list (list N)) (lk : lockst) (o : oracle) : world :=
  apply_effs (world0 files lk) (ro_effs (edit rc files lk o)).

Lemma start_ge_1 : 1 <= c_START_REFERENCE_ID.
Proof. vm_compute. discriminate. Qed.
Lemma start_le_max : c_START_REFERENCE_ID <= u32max.
Proof. vm_compute. discriminate. Qed.
