(* C10 -- every canonical log statement is found and its reference placed correctly.
   Statements only; proofs in Proofs/RuleLemmas.v (against the GENERATED grammar) and GlueSpec.v. *)
From Coq Require Import List NArith Bool Lia String.
From Breadlog Require Import Model.Peg Model.Text Model.Regex Model.Glue Model.Tables.
From Breadlog Require Import Gen.Grammar Gen.Consts.
From Breadlog Require Import Proofs.PegFacts Proofs.RuleLemmas Proofs.GlueSpec Proofs.StatementLemmas Proofs.ArgLemmas Proofs.FileSpec.
From Breadlog Require Import Properties.Common.
Import ListNotations.
Open Scope N_scope.

(* (1) LAYOUT MAKES NO DIFFERENCE.  For ANY layout -- a run of whitespace characters, then any number
   of comments (line comments with any text up to the line end, block comments with any text that does
   not contain the closing delimiter), each followed by a run of whitespace -- pest's implicit skip,
   as generated from WHITESPACE and COMMENT, consumes exactly the layout and stops at the code that
   follows.  This is what happens between any two tokens of a statement (indentation, line breaks,
   CRLF, comments between arguments). *)
Theorem C10_layout_is_skipped : forall ws0 gs tail p,
  forallb is_ws_char ws0 = true -> groups_ok gs tail -> code_ahead tail ->
  skipf Utab g_whitespace g_comment (mkIn (ws0 ++ render_groups gs ++ tail)%list p)
  = Some (mkIn tail (p + blen ws0 + blen (render_groups gs))).
Proof. exact skip_layout. Qed.

(* (2) WHICH NAMES COUNT: exactly the configured names, bare or qualified with exactly the configured
   module path, compared exactly *)
Theorem C10_configured_names : forall name cfg,
  macro_of_interest name cfg = true <->
  exists m n, In (m, n) (cfg_macros cfg) /\ (name = n \/ name = (m ++ [58; 58] ++ n)%list).
Proof. exact macro_of_interest_spec. Qed.

(* (3) WHERE THE REFERENCE GOES (message style, or under a no-kvp directive): for ANY parse tree of a
   statement in canonical form -- optional target, ANY number of key-values, then the message literal --
   whose name is configured and which is not under an ignore directive, the entry is at the first
   character of the message literal's value, with the reference read from the literal's own text *)
Theorem C10_message_entry : forall cfg code s e ns ne nk as_ ae target kvs ks ke ls le value name,
  let found := Node "log_macro" s e
                 [Node "macro_name" ns ne nk;
                  Node "macro_args" as_ ae (canon_args target kvs ks ke ls le value)] in
  (cfg_structured cfg = false \/
   directive_check the_params (p_no_kvp the_params) code as_ (p_comment_re the_params) = Some true) ->
  directive_check the_params (p_ignore the_params) code ns (p_comment_re the_params) = Some false ->
  str_slice code ns ne = Some name -> macro_of_interest name cfg = true ->
  match target with Some t => is_rule t "target_arg" = true | None => True end ->
  Forall kv_wf kvs ->
  one_macro the_params cfg code found =
  match line_col code (node_start value), str_slice code (node_start value) (node_end value) with
  | Some (l, c), Some body =>
      Emit (mkEntry (node_start value) l c (extract_reference the_params body) (short_name name) KString None None)
  | _, _ => StepPanic
  end.
Proof. exact (one_macro_message_canon the_params). Qed.

(* (4) FROM TEXT TO ENTRY, end to end through the generated grammar, for the first statement of a file:
   ANY layout (whitespace and comments of both kinds, in any order and number), a configured name
   (any XID_START-or-underscore character followed by any XID_CONTINUE characters), "!(" , ANY layout
   again, and a string literal whose value is ANY sequence of plain characters and backslash escapes --
   followed by ANYTHING at all (rst is unconstrained: arguments, unbalanced brackets, other statements,
   end of file).  Message style, no ignore directive: the finder's first entry is at the first
   character of the literal's value, at the line and column of that character, carries the reference
   the literal's own text holds, and is a usable string entry.  This is the text-level counterpart of
   (1)-(3): no hypothesis mentions a parse tree. *)
Theorem C10_first_statement_found : forall cfg ws0 gs0 c0 cs ws1 gs1 us rst,
  let nm := c0 :: cs in
  let lay := (ws1 ++ render_groups gs1)%list in
  let msg := render_msg us in
  let stmt_tail := (nm ++ 33 :: 40 :: lay ++ 34 :: msg ++ 34 :: rst)%list in
  let before_name := (ws0 ++ render_groups gs0)%list in
  let code := (before_name ++ stmt_tail)%list in
  let before_msg := (before_name ++ nm ++ 33 :: 40 :: lay ++ [34])%list in
  forallb is_ws_char ws0 = true -> groups_ok gs0 stmt_tail ->
  name_start_ok c0 = true -> forallb (Utab XidContinue) cs = true ->
  forallb is_ws_char ws1 = true -> groups_ok gs1 (34 :: msg ++ 34 :: rst)%list ->
  forallb munit_ok us = true ->
  cfg_structured cfg = false -> macro_of_interest nm cfg = true ->
  directive_check the_params (p_ignore the_params) code (blen before_name) (p_comment_re the_params) = Some false ->
  exists es',
    find cfg code =
    Done (mkEntry (blen before_msg) (fst (line_col_go before_msg 1 1)) (snd (line_col_go before_msg 1 1))
                  (extract_reference the_params msg) (short_name nm) KString None None :: es').
Proof. exact first_statement_found. Qed.

(* its hypotheses are satisfiable: newline, block comment, the name info, a line comment inside the
   parentheses, a literal with an escaped quote, then further arguments *)
Example C10_first_statement_nonvacuous :
  let ws0 := [10] in let gs0 := [(CBlock [32;99;32], [32])] in
  let c0 := 105 in let cs := [110;102;111] in
  let ws1 := [32] in let gs1 := [(CLine [32;100], [10;32])] in
  let us := [MChar 97; MEsc 34; MChar 98] in let rst := [32;44;32;120] in
  let cfg := mkConfig false [([108;111;103], [105;110;102;111])] in
  let nm := c0 :: cs in
  let msg := render_msg us in
  let stmt_tail := (nm ++ 33 :: 40 :: (ws1 ++ render_groups gs1) ++ 34 :: msg ++ 34 :: rst)%list in
  let code := ((ws0 ++ render_groups gs0) ++ stmt_tail)%list in
  forallb is_ws_char ws0 = true /\ groups_ok gs0 stmt_tail /\
  name_start_ok c0 = true /\ forallb (Utab XidContinue) cs = true /\
  forallb is_ws_char ws1 = true /\ groups_ok gs1 (34 :: msg ++ 34 :: rst)%list /\
  forallb munit_ok us = true /\ macro_of_interest nm cfg = true /\
  directive_check the_params (p_ignore the_params) code (blen (ws0 ++ render_groups gs0)%list) (p_comment_re the_params) = Some false.
Proof. vm_compute. repeat split; reflexivity. Qed.

(* (5) THE FINDER ON EVERY FILE OF A CANONICAL FILE LANGUAGE (Proofs/FileSpec.v), every configuration,
   both styles.  A file is any sequence of items, each preceded by ANY layout (whitespace and comments
   of both kinds with arbitrary text), then a final layout; an item is
     IStmt : name !( layout "message"    -- name simple or module-qualified (c ("::")? (d ("::")?)* ),
                                            message any plain characters and backslash escapes,
     IStmtA: name !( layout [target: layout "text" layout , layout]
                            [key [= value] {, key [= value]} [,] layout ; layout] "message"
             -- with any layout between all tokens; keys are identifiers with an optional modifier,
                values a digit run / identifier / string literal followed by further characters other
                than "," ";" (Proofs/ArgLemmas.v: args_ok),
     IName : a name that starts no macro call whose bracket is followed by a string literal, `target:` or a
             key-value list (vec![..], a != b, assert!(!x), m!(1 + 2), assert!(a > b), dbg!(x) are fine;
             println!("..") is an IStmt),
     IChar : any other character (not whitespace, not a name start, not opening a comment).
   items_ok is purely syntactic (no hypothesis mentions the parser).  The result is computed in closed
   form by `expected`: one entry per statement whose name is configured and which is not under an
   ignore directive --
     message style (or under a no-kvp directive): at the byte offset / line / column of the first
       character of the message value, with the reference the message text holds;
     structured style: at the value of the first key-value whose key is `ref` and which has a value,
       with that value's text (trimmed) read as the reference; else directly after the target
       argument when there is one, else directly after the opening bracket, with the `ref = ` prefix
       and the suffix `, ` when key-values exist and `; ` when not (stmt_step, stmt_stepA);
   and nothing for names, characters, comments or statements of other macros. *)
Theorem C10_canonical_files : forall cfg its fin,
  items_ok its fin ->
  let code := render_items its fin in
  find cfg code = Done (expected cfg code its []).
Proof. exact find_canonical. Qed.

Theorem C10_canonical_parse_tree : forall its fin,
  items_ok its fin ->
  let code := render_items its fin in
  parse_file code = Ok (mkIn [] (blen code)) [Node "file" 0 (blen code) (nodes its 0 ++ [Node "EOI" (blen code) (blen code) []])].
Proof. exact file_parse. Qed.

(* non-vacuity: a small program with a header comment, a use line, vec![..], three statements (simple,
   qualified with a comment inside the brackets and an escaped quote, unconfigured), assert!(!ok), assert!(a > b), and a
   trailing commented-out statement without a final newline *)
Definition ex_items : list (lay * item) :=
  [(([], [(CLine [32;104;101;97;100;101;114], [10])]), IName (mkQ 117 false [(115, false);(101, false)]));
   (([32], []), IName (mkQ 108 false [(111, false);(103, true);(105, false);(110, false);(102, false);(111, false)]));
   (([], []), IChar 59);
   (([10], []), IName (mkQ 102 false [(110, false)]));
   (([32], []), IName (mkQ 109 false [(97, false);(105, false);(110, false)]));
   (([], []), IChar 40);
   (([], []), IChar 41);
   (([32], []), IChar 123);
   (([10;32;32;32;32], []), IName (mkQ 108 false [(101, false);(116, false)]));
   (([32], []), IName (mkQ 118 false []));
   (([32], []), IChar 61);
   (([32], []), IName (mkQ 118 false [(101, false);(99, false)]));
   (([], []), IChar 33);
   (([], []), IChar 91);
   (([], []), IChar 49);
   (([], []), IChar 93);
   (([], []), IChar 59);
   (([10;32;32;32;32], []), IStmt (mkQ 105 false [(110, false);(102, false);(111, false)]) ([], []) [MChar 115;MChar 116;MChar 97;MChar 114;MChar 116]);
   (([], []), IChar 41);
   (([], []), IChar 59);
   (([10;32;32;32;32], []), IStmt (mkQ 108 false [(111, false);(103, true);(119, false);(97, false);(114, false);(110, false)]) ([32], [(CBlock [32;99;32], [32])]) [MChar 97;MChar 32;MEsc 34;MChar 32;MChar 98;MChar 32;MChar 123;MChar 125]);
   (([], []), IChar 44);
   (([32], []), IName (mkQ 118 false []));
   (([], []), IChar 41);
   (([], []), IChar 59);
   (([10;32;32;32;32], []), IStmt (mkQ 112 false [(114, false);(105, false);(110, false);(116, false);(108, false);(110, false)]) ([], []) [MChar 120]);
   (([], []), IChar 41);
   (([], []), IChar 59);
   (([10;32;32;32;32], []), IName (mkQ 97 false [(115, false);(115, false);(101, false);(114, false);(116, false)]));
   (([], []), IChar 33);
   (([], []), IChar 40);
   (([], []), IChar 33);
   (([], []), IName (mkQ 111 false [(107, false)]));
   (([], []), IChar 41);
   (([], []), IChar 59);
   (([10;32;32;32;32], []), IName (mkQ 97 false [(115, false);(115, false);(101, false);(114, false);(116, false)]));
   (([], []), IChar 33);
   (([], []), IChar 40);
   (([], []), IName (mkQ 97 false []));
   (([32], []), IChar 62);
   (([32], []), IName (mkQ 98 false []));
   (([], []), IChar 41);
   (([], []), IChar 59);
   (([10], []), IChar 125)].
Definition ex_fin : lay := ([10], [(CLine [32;105;110;102;111;33;40;34;110;111;116;32;99;111;100;101;34;41], [])]).

Example C10_canonical_nonvacuous :
  items_ok ex_items ex_fin /\
  exists e1 e2,
    expected (mkConfig false [([108;111;103], [105;110;102;111]); ([108;111;103], [119;97;114;110])])
             (render_items ex_items ex_fin) ex_items [] = [e1; e2] /\
    (e_pos e1, e_line e1, e_col e1) = (69, 5, 12) /\ (e_pos e2, e_line e2, e_col e2) = (103, 6, 26).
Proof.
  split.
  - cbn. repeat split; try reflexivity; try exact I; try discriminate;
      try (intros _; left; split; [reflexivity|discriminate]);
      try (intros _; right; split; [reflexivity|split; [|reflexivity]; unfold stop_char; repeat split; try discriminate; vm_compute; reflexivity]).
  - eexists. eexists. vm_compute. repeat split; reflexivity.
Qed.

(* NOT proved: values with "," or ";" inside brackets, and bracketed macro calls whose arguments do not begin with a string literal, a target
   or key-values; that link is the correspondence + oracle campaign. *)

(* non-vacuity: a statement with target, key-values, odd layout and a comment between arguments,
   preceded by "return": found, reference at the first character of the message *)
Example C10_nonvacuous :
  exists e, find (mkConfig false [([108;111;103], [105;110;102;111])])
     (* return log::info!( target: "t" , /* c */ k = 1 ;\r\n "m {}" , x ) ; *)
     [114;101;116;117;114;110;32;108;111;103;58;58;105;110;102;111;33;40;32;116;97;114;103;101;116;58;32;34;116;34;32;44;32;47;42;32;99;32;42;47;32;107;32;61;32;49;32;59;13;10;32;34;109;32;123;125;34;32;44;32;120;32;41;32;59]
  = Done [e] /\ e_pos e = 52 /\ e_line e = 2 /\ e_col e = 3 /\ e_ref e = None /\ e_kind e = KString.
Proof. eexists. vm_compute. repeat split; reflexivity. Qed.

Print Assumptions C10_layout_is_skipped.
Print Assumptions C10_configured_names.
Print Assumptions C10_message_entry.
Print Assumptions C10_first_statement_found.
Print Assumptions C10_canonical_files.
Print Assumptions C10_canonical_parse_tree.
