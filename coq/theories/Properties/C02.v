(* C02 -- an ID once assigned is never assigned again (lock-file invariant).
   Statements only; proofs in Proofs/HistoryFacts.v. *)
From Coq Require Import List NArith Bool Lia.
From Breadlog Require Import Model.Peg Model.Text Model.Regex Model.Glue Model.Tables Model.Utf8 Model.Driver Model.History.
From Breadlog Require Import Gen.Consts.
From Breadlog Require Import Proofs.RewriteFacts Proofs.WorldFacts Proofs.DriverFacts Proofs.AllocFacts Proofs.RunFacts Proofs.HistoryFacts Proofs.CheckFacts.
From Breadlog Require Import Properties.Common Properties.C17.
Import ListNotations.
Open Scope N_scope.

Definition hinv0 := hinv.
Definition hexec0 := hexec the_params find c_START_REFERENCE_ID.
Definition hist_ok0 := hist_ok the_params find c_START_REFERENCE_ID.

(* Over ANY finite history of developer edits (arbitrary new trees, lock kept) and runs -- each
   edit run with ANY injected I/O failure and ANY stop point -- starting from a state where the
   lock is absent (and nothing was ever written) or ahead of everything written: as long as each
   edit run uses the lock, its lock write succeeds and it ends by itself (hist_ok: no kill, no
   panic), no ID is ever written twice and the lock stays above every ID written so far.
   The two excluded cases are the known finding F14 (C02_lock_window below). *)
Theorem C02_partial_history_invariant : forall evs h,
  hinv h -> hist_ok0 h evs ->
  let h' := hexec0 h evs in
  NoDup (h_ghost h') /\
  match h_lock h' with
  | LValid L => L <= u32max /\ forall g, In g (h_ghost h') -> g < L
  | LAbsent => h_ghost h' = []
  | LCorrupt => False
  end.
Proof. exact (history_invariant the_params find c_START_REFERENCE_ID start_ge_1 start_le_max). Qed.

Check C02_partial_history_invariant : forall evs h,
  hinv h -> hist_ok0 h evs ->
  let h' := hexec0 h evs in
  NoDup (h_ghost h') /\
  match h_lock h' with
  | LValid L => L <= u32max /\ forall g, In g (h_ghost h') -> g < L
  | LAbsent => h_ghost h' = []
  | LCorrupt => False
  end.

(* the "ends by itself" part of hist_ok (no panic, no hang) holds for EVERY run by C17, so the only
   real hypotheses are: the lock is in use, and its write succeeds *)
Fixpoint hist_uses_lock (evs : list hevent) : Prop :=
  match evs with
  | [] => True
  | HEdit rc o :: r => rc_use_cache rc = true /\ o_lock_fault o = LkOk /\ hist_uses_lock r
  | _ :: r => hist_uses_lock r
  end.

Lemma hist_ok_from_uses_lock : forall evs h, hist_uses_lock evs -> hist_ok0 h evs.
Proof.
  induction evs as [|ev evs IH]; intros h H; [exact I|].
  destruct ev as [f|rc o|rc o]; cbn in H |- *.
  - split; [exact I|apply IH; exact H].
  - destruct H as (H1 & H2 & H3). split; [|apply IH; exact H3].
    unfold edit_of. destruct (C17_edit_never_panics rc (Some (h_files h)) (h_lock h) o) as [Hp Hh].
    repeat split; assumption.
  - split; [exact I|apply IH; exact H].
Qed.

Theorem C02_history_invariant : forall evs h,
  hinv h -> hist_uses_lock evs ->
  let h' := hexec0 h evs in
  NoDup (h_ghost h') /\
  match h_lock h' with
  | LValid L => L <= u32max /\ forall g, In g (h_ghost h') -> g < L
  | LAbsent => h_ghost h' = []
  | LCorrupt => False
  end.
Proof.
  intros evs h Hi Hu. apply C02_partial_history_invariant; [exact Hi|apply hist_ok_from_uses_lock; exact Hu].
Qed.

(* one edit run, however it ends by itself (success, I/O error on any file, stop request at any
   poll): the lock it leaves is above every ID it wrote *)
Theorem C02_lock_covers_ids : forall rc files lk o,
  files <> [] -> rc_use_cache rc = true -> o_lock_fault o = LkOk ->
  ro_exit (edit rc files lk o) <> XPanic -> ro_exit (edit rc files lk o) <> XHang ->
  (ro_ids (edit rc files lk o) = [] /\ w_lock (after rc files lk o) = lk) \/
  exists s c',
    start_of find c_START_REFERENCE_ID rc files lk o s /\ w_lock (after rc files lk o) = LValid c' /\
    s <= c' /\ (s <= u32max -> c' <= u32max) /\
    Forall (fun x => s <= id3 x /\ id3 x < c') (ro_ids (edit rc files lk o)) /\
    NoDup (map id3 (ro_ids (edit rc files lk o))).
Proof. exact (edit_final_lock the_params find c_START_REFERENCE_ID start_ge_1 start_le_max). Qed.

(* The property as written also covers a run that is KILLED, or whose lock write fails; there
   it is false of the faithful model: the lock is only written after the files have been
   replaced, and it is rewritten in place (truncate, then write).  Witness: lock 5, one statement
   without reference; killed after the rename (operation 4 of: create, write, write, write, rename,
   truncate-lock, write-lock): ID 5 is on disk and the lock still says 5. *)
Theorem C02_lock_window_refuted :
  let f := utf8_encode [105;110;102;111;33;40;34;98;34;41;59] in
  let rc := mkRunCfg (mkConfig false [([108;111;103], [105;110;102;111])]) true in
  let o := mkOracle None None (fun _ => false) (fun _ => false) (fun _ => FNone) LkOk in
  let out := edit rc [f] (LValid 5) o in
  map id3 (ro_ids out) = [5] /\
  exists k, w_lock (crash_world (world0 [f] (LValid 5)) (ro_effs out) k None) = LValid 5 /\
            w_src (crash_world (world0 [f] (LValid 5)) (ro_effs out) k None) <> [f].
Proof. vm_compute. split; [reflexivity|]. exists 5%nat. split; [reflexivity|discriminate]. Qed.

Example C02_nonvacuous :
  hinv (mkH [utf8_encode [105;110;102;111;33;40;34;98;34;41;59]] LAbsent []) /\
  let rc := mkRunCfg (mkConfig false [([108;111;103], [105;110;102;111])]) true in
  let o := mkOracle None None (fun _ => false) (fun _ => false) (fun _ => FNone) LkOk in
  let h := mkH [utf8_encode [105;110;102;111;33;40;34;98;34;41;59]] LAbsent [] in
  hist_ok0 h [HEdit rc o; HDev [utf8_encode [105;110;102;111;33;40;34;99;34;41;59]]; HEdit rc o] /\
  h_ghost (hexec0 h [HEdit rc o; HDev [utf8_encode [105;110;102;111;33;40;34;99;34;41;59]]; HEdit rc o]) = [1; 2].
Proof.
  split; [split; [constructor|reflexivity]|]. cbv zeta. split.
  - vm_compute. repeat split; discriminate.
  - vm_compute. reflexivity.
Qed.

Print Assumptions C02_partial_history_invariant.
Print Assumptions C02_history_invariant.
Print Assumptions C02_lock_covers_ids.
Print Assumptions C02_lock_window_refuted.
