(* C08 -- an edit run that could not update a file does not report success.
   Proofs in Proofs/RunFacts.v. *)
From Coq Require Import List NArith Bool Lia.
From Breadlog Require Import Model.Peg Model.Text Model.Regex Model.Glue Model.Tables Model.Utf8 Model.Driver Model.History.
From Breadlog Require Import Gen.Consts.
From Breadlog Require Import Proofs.RewriteFacts Proofs.WorldFacts Proofs.DriverFacts Proofs.AllocFacts Proofs.RunFacts Proofs.HistoryFacts Proofs.CheckFacts.
From Breadlog Require Import Properties.Common.
Import ListNotations.
Open Scope N_scope.

(* For EVERY tree and EVERY combination of injected failures (temp creation, any write or flush,
   rename, on any subset of files): if the run exits 0 then either nothing needed inserting, or
   every file it could read holds its COMPLETE new content (all tokens of all statements that
   lacked a reference), the ids it lists are really in those files, and -- absent a failed
   rename, which exits non-zero anyway -- the printed count is the number of ids written.
   Contrapositive: a file that could not be created / written / moved into place => exit <> 0. *)
Theorem C08_exit_zero_is_complete : forall rc files lk o,
  files <> [] ->
  let out := edit rc files lk o in
  ro_exit out = XOk ->
  (ro_total out = None /\ ro_effs out = [] /\ ro_ids out = []) \/
  (((forall j, o_fault o j <> FRename) -> ro_total out = Some (lenN (ro_ids out))) /\
   forall j b es, nth_error files j = Some b ->
     file_entries find (rc_cfg rc) (o_rfail2 o j) b = FEntries es ->
     (filter missing_insert es = [] /\ nth_error (w_src (after rc files lk o)) j = Some b) \/
     exists c0 c, weave the_params b 0 (filter missing_insert es) c0 = Some c /\
       nth_error (w_src (after rc files lk o)) j = Some c /\
       (forall pos id, In (pos, id) (ids_of (filter missing_insert es) c0) ->
                       In (j, pos, id) (ro_ids out))).
Proof. exact (edit_ok_complete the_params find c_START_REFERENCE_ID). Qed.

(* no temporary file is left behind by a run that ends by itself, whatever failed *)
Theorem C08_no_temp_left : forall rc files lk o h,
  files <> [] -> tmp_get (w_tmp (after rc files lk o)) h = None.
Proof. intros rc files lk o h Hne. exact (edit_no_temp_left the_params find c_START_REFERENCE_ID rc files lk o Hne h). Qed.

(* non-vacuity: the three failure kinds each give a non-zero exit on a one-statement file *)
Example C08_nonvacuous :
  let f := utf8_encode [105;110;102;111;33;40;34;98;34;41;59] in
  let rc := mkRunCfg (mkConfig false [([108;111;103], [105;110;102;111])]) true in
  let o flt := mkOracle None None (fun _ => false) (fun _ => false) (fun _ => flt) LkOk in
  ro_exit (edit rc [f] LAbsent (o FCreate)) = XErr /\
  ro_exit (edit rc [f] LAbsent (o (FWrite 2))) = XErr /\
  ro_exit (edit rc [f] LAbsent (o (FWrite 3))) = XErr /\
  ro_exit (edit rc [f] LAbsent (o FRename)) = XErr /\
  ro_exit (edit rc [f] LAbsent (o FNone)) = XOk.
Proof. vm_compute. repeat split; reflexivity. Qed.

Print Assumptions C08_exit_zero_is_complete.
Print Assumptions C08_no_temp_left.
