(* C13 -- structured mode keeps the reference as a well-formed ref key-value.
   Statements only; proofs in Proofs/GlueSpec.v, Proofs/RoundTrip.v. *)
From Coq Require Import List NArith Bool Lia String.
From Breadlog Require Import Model.Peg Model.Text Model.Regex Model.Glue Model.Tables.
From Breadlog Require Import Gen.Grammar Gen.Consts.
From Breadlog Require Import Proofs.PegFacts Proofs.RuleLemmas Proofs.GlueSpec.
From Breadlog Require Import Properties.Common.
Import ListNotations.
Open Scope N_scope.

From Breadlog Require Import Proofs.RoundTrip.

(* For ANY parse tree of a statement in canonical form -- optional target, ANY number of key-values
   (each a key node, optionally a value node), then the message literal -- in structured mode with
   no directive in force and a configured name:
   - if some key-value whose key text is the ref key HAS a value, the FIRST such one is the
     statement's reference position: the entry stands at the start of that value, and its reference
     is the value text, trimmed, parsed as u32 (None = unusable: C13_unusable_never_missing);
   - otherwise a new key-value is to be inserted: after the target argument (at the start of the
     argument that follows it) if there is one, else right after the opening bracket; the token is
     ref = N followed by , when other key-values exist and by ; when it is the only one. *)
Theorem C13_structured_entry : forall cfg code s e ns ne nk as_ ae target kvs ks ke ls le value name key_text,
  let found := Node "log_macro" s e
                 [Node "macro_name" ns ne nk;
                  Node "macro_args" as_ ae (canon_args target kvs ks ke ls le value)] in
  cfg_structured cfg = true ->
  directive_check the_params (p_ignore the_params) code ns (p_comment_re the_params) = Some false ->
  directive_check the_params (p_no_kvp the_params) code as_ (p_comment_re the_params) = Some false ->
  str_slice code ns ne = Some name -> macro_of_interest name cfg = true ->
  match target with Some t => is_rule t "target_arg" = true | None => True end ->
  Forall kv_wf kvs ->
  (forall k v, In (k, v) kvs -> str_slice code (node_start k) (node_end k) = Some (key_text k)) ->
  one_macro the_params cfg code found =
  match first_ref_value the_params key_text kvs with
  | Some vs =>
      match line_col code (node_start vs), str_slice code (node_start vs) (node_end vs) with
      | Some (l, c), Some vt =>
          Emit (mkEntry (node_start vs) l c (parse_u32 (trim is_ws_tab vt)) (short_name name)
                        KStructuredPreExisting None None)
      | _, _ => StepPanic
      end
  | None =>
      match match target with
            | Some _ => match line_col code (first_after_target kvs ks ls) with
                        | Some (l, c) => Some (first_after_target kvs ks ls, l, c)
                        | None => None
                        end
            | None => match line_col code as_ with
                      | Some (l, c) => Some (as_ + 1, l, c + 1)
                      | None => None
                      end
            end with
      | Some (ipos, l, c) =>
          Emit (mkEntry ipos l c None (short_name name) KStructuredNew
                        (Some [114; 101; 102; 32; 61; 32])                      (* "ref = " *)
                        (Some (match kvs with _ :: _ => [44; 32] | [] => [59; 32] end)))   (* ", " / "; " *)
      | None => StepPanic
      end
  end.
Proof. exact (one_macro_structured_canon the_params). Qed.

(* a ref key whose value is not an unsigned integer literal: the entry exists but carries no
   reference and is NOT usable -- so it is never counted as missing, never edited (the three
   processors only act on usable entries without reference: C05_missing_predicates_agree), and
   is what --check reports as unusable *)
Theorem C13_unusable_never_missing : forall pos l c name,
  let e := mkEntry pos l c None name KStructuredPreExisting None None in
  usable e = false /\ Driver.missing_insert e = false /\ Driver.missing_count e = false /\
  Driver.missing_nextid e = false.
Proof. intros. repeat split; reflexivity. Qed.

(* the value Breadlog itself writes is read back (blanks up to the delimiter are trimmed) *)
Theorem C13_written_value_is_recognised : forall (n : N) (w : list N),
  n <= 4294967295 -> forallb is_ws_tab w = true ->
  parse_u32 (trim is_ws_tab (dec n ++ w)) = Some n.
Proof. exact structured_value_roundtrip. Qed.

(* non-vacuity on real text through the generated grammar: target + two key-values -> after the
   target, comma; none -> semicolon; ref = 12 after another key-value is recognised; ref = x unusable *)
Example C13_nonvacuous :
  let cfg := mkConfig true [([108;111;103], [105;110;102;111])] in
  (exists e, find cfg [105;110;102;111;33;40;116;97;114;103;101;116;58;32;34;116;34;44;32;97;32;61;32;49;44;32;98;59;32;34;109;34;41] = Done [e]
             /\ e_pos e = 19 /\ e_kind e = KStructuredNew /\ e_suffix e = Some [44; 32]) /\
  (exists e, find cfg [105;110;102;111;33;40;34;109;34;41] = Done [e]
             /\ e_pos e = 6 /\ e_kind e = KStructuredNew /\ e_suffix e = Some [59; 32]) /\
  (exists e, find cfg [105;110;102;111;33;40;97;32;61;32;49;44;32;114;101;102;32;61;32;49;50;32;59;32;34;109;34;41] = Done [e]
             /\ e_ref e = Some 12 /\ e_kind e = KStructuredPreExisting) /\
  (exists e, find cfg [105;110;102;111;33;40;114;101;102;32;61;32;120;59;32;34;109;34;41] = Done [e]
             /\ e_ref e = None /\ usable e = false).
Proof. cbv zeta. repeat split; eexists; vm_compute; repeat split; reflexivity. Qed.

Print Assumptions C13_structured_entry.
Print Assumptions C13_unusable_never_missing.
Print Assumptions C13_written_value_is_recognised.
