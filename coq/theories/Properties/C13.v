(* C13 -- structured mode keeps the reference as a well-formed ref key-value.
   Statements only; proofs in Proofs/GlueSpec.v, Proofs/RoundTrip.v. *)
From Coq Require Import List NArith Bool Lia String.
From Breadlog Require Import Model.Peg Model.Text Model.Regex Model.Glue Model.Tables.
From Breadlog Require Import Gen.Grammar Gen.Consts.
From Breadlog Require Import Proofs.PegFacts Proofs.RuleLemmas Proofs.GlueSpec Proofs.StatementLemmas Proofs.ArgLemmas Proofs.FileSpec.
From Breadlog Require Import Properties.Common.
Import ListNotations.
Open Scope N_scope.

From Breadlog Require Import Proofs.RoundTrip.
From Breadlog Require Import Model.Utf8 Model.Driver Model.History Proofs.CanonicalRun.

(* For ANY parse tree of a statement in canonical form -- optional target, ANY number of key-values
   (each a key node, optionally a value node), then the message literal -- in structured mode with
   no directive in force and a configured name:
   - if some key-value whose key text is the ref key HAS a value, the FIRST such one is the
     statement's reference position: the entry stands at the start of that value, and its reference
     is the value text, trimmed, parsed as u32 (None = unusable: C13_unusable_never_missing);
   - otherwise a new key-value is to be inserted: after the target argument (at the start of the
     argument that follows it) if there is one, else right after the opening bracket; the token is
     ref = N followed by , when other key-values exist and by ; when it is the only one. *)
Theorem C13_structured_entry : forall cfg code s e ns ne nk as_ ae target kvs ks ke ls le value name key_text,
  let found := Node "log_macro" s e
                 [Node "macro_name" ns ne nk;
                  Node "macro_args" as_ ae (canon_args target kvs ks ke ls le value)] in
  cfg_structured cfg = true ->
  directive_check the_params (p_ignore the_params) code ns (p_comment_re the_params) = Some false ->
  directive_check the_params (p_no_kvp the_params) code as_ (p_comment_re the_params) = Some false ->
  str_slice code ns ne = Some name -> macro_of_interest name cfg = true ->
  match target with Some t => is_rule t "target_arg" = true | None => True end ->
  Forall kv_wf kvs ->
  (forall k v, In (k, v) kvs -> str_slice code (node_start k) (node_end k) = Some (key_text k)) ->
  one_macro the_params cfg code found =
  match first_ref_value the_params key_text kvs with
  | Some vs =>
      match line_col code (node_start vs), str_slice code (node_start vs) (node_end vs) with
      | Some (l, c), Some vt =>
          Emit (mkEntry (node_start vs) l c (ref_value the_params vt) (short_name name)
                        KStructuredPreExisting None None)
      | _, _ => StepPanic
      end
  | None =>
      match match target with
            | Some _ => match line_col code (first_after_target kvs ks ls) with
                        | Some (l, c) => Some (first_after_target kvs ks ls, l, c)
                        | None => None
                        end
            | None => match line_col code as_ with
                      | Some (l, c) => Some (as_ + 1, l, c + 1)
                      | None => None
                      end
            end with
      | Some (ipos, l, c) =>
          Emit (mkEntry ipos l c None (short_name name) KStructuredNew
                        (Some [114; 101; 102; 32; 61; 32])                      (* "ref = " *)
                        (Some (match kvs with _ :: _ => [44; 32] | [] => [59; 32] end)))   (* ", " / "; " *)
      | None => StepPanic
      end
  end.
Proof. exact (one_macro_structured_canon the_params). Qed.

(* a ref key whose value is not an unsigned integer literal: the entry exists but carries no
   reference and is NOT usable -- so it is never counted as missing, never edited (the three
   processors only act on usable entries without reference: C05_missing_predicates_agree), and
   is what --check reports as unusable *)
Theorem C13_unusable_never_missing : forall pos l c name,
  let e := mkEntry pos l c None name KStructuredPreExisting None None in
  usable e = false /\ Driver.missing_insert e = false /\ Driver.missing_count e = false /\
  Driver.missing_nextid e = false.
Proof. intros. repeat split; reflexivity. Qed.

(* the value Breadlog itself writes is read back (blanks up to the delimiter are trimmed) *)
Theorem C13_written_value_is_recognised : forall (n : N) (w : list N),
  n <= 4294967295 -> forallb is_ws_tab w = true ->
  parse_u32 (trim is_ws_tab (dec n ++ w)) = Some n.
Proof. exact structured_value_roundtrip. Qed.

(* END TO END FROM THE TEXT (Proofs/ArgLemmas.v: rule lemmas for rust_identifier, kvp_key, kvp_value,
   kvp_args, target_arg, macro_args against the generated grammar, all in their non-atomic context with
   the implicit skip between every two elements; Proofs/FileSpec.v: the file-level theorem).  On every
   file of the canonical file language -- whose statements may now carry
       name !( layout [target: layout "text" layout , layout]
                      [key [= value] {, key [= value]} [,] layout ; layout] "message"
   with keys = identifiers, an optional modifier (: ? debug % display err sval serde), values = a digit
   run, identifier or string literal followed by any further characters other than "," ";" or string
   literals (u.name, x + 1), ANY number of key-values and ANY layout (white space, comments) between
   all tokens -- the finder returns exactly
   `expected`, which for such a statement is stmt_stepA: *)
Theorem C13_canonical_files : forall cfg its fin,
  items_ok its fin ->
  let code := render_items its fin in
  find cfg code = Done (expected cfg code its []).
Proof. exact find_canonical. Qed.

(* ... in structured style (configured name, no ignore and no no-kvp directive): *)
Theorem C13_structured_statement : forall cfg code pre n a,
  let nm := render_name n in
  let pre_paren := (pre ++ nm ++ [33])%list in                                          (* text before the bracket *)
  let pre_pk := (pre_paren ++ 40 :: render_lay (a_l0 a) ++ targ_text (a_targ a))%list in (* ... before the key-values *)
  cfg_structured cfg = true -> macro_of_interest nm cfg = true ->
  directive_check the_params (p_ignore the_params) code (blen pre) (p_comment_re the_params) = Some false ->
  directive_check the_params (p_no_kvp the_params) code (blen pre_paren) (p_comment_re the_params) = Some false ->
  stmt_stepA cfg code pre n a =
  match ref_more (cores_of (a_kvs a)) pre_pk with
  | Some (prev, vt) =>
      (* the FIRST key-value whose key is `ref` and which has a value: the entry is AT that value (byte
         offset / line / column of the text before it), and the value's text -- which runs up to the
         delimiter -- without a trailing comment, trimmed and read as u32 is the reference (ref_value);
         not an integer => no reference and an
         unusable entry (C13_unusable_never_missing): reported, never edited, never a second ref *)
      Emit (mkEntry (blen prev) (fst (line_col_go prev 1 1)) (snd (line_col_go prev 1 1))
                    (ref_value the_params vt) (short_name nm) KStructuredPreExisting None None)
  | None =>
      (* no such key-value: a new `ref = N` goes directly after the target argument when there is one,
         else directly after the opening bracket; it ends with ", " when key-values exist, "; " when not *)
      let sfx := Some (match a_kvs a with Some _ => nth 0 (p_suffixes the_params) [] | None => nth 1 (p_suffixes the_params) [] end) in
      let pfx := Some (fst (p_fmt_prefix the_params) ++ p_ref_key the_params ++ snd (p_fmt_prefix the_params))%list in
      match a_targ a with
      | Some _ => Emit (mkEntry (blen pre_pk) (fst (line_col_go pre_pk 1 1)) (snd (line_col_go pre_pk 1 1))
                                None (short_name nm) KStructuredNew pfx sfx)
      | None => Emit (mkEntry (blen pre_paren + 1) (fst (line_col_go pre_paren 1 1))
                              (snd (line_col_go pre_paren 1 1) + 1) None (short_name nm) KStructuredNew pfx sfx)
      end
  end.
Proof. exact stmt_stepA_structured. Qed.

(* the key is compared by its own text (the layout pest keeps inside the span of a one-character key
   makes no difference), and the translated pieces are the documented ones *)
Theorem C13_ref_key : forall k tail,
  lay_ok (k_l1 k) tail ->
  text_eqb (key_span_text k) (p_ref_key the_params) = text_eqb (render_ident (k_key k)) (p_ref_key the_params).
Proof. exact key_is_ref. Qed.

Theorem C13_pieces :
  p_ref_key the_params = [114; 101; 102] /\ p_fmt_prefix the_params = ([], [32; 61; 32]) /\
  nth 0 (p_suffixes the_params) [] = [44; 32] /\ nth 1 (p_suffixes the_params) [] = [59; 32].
Proof. repeat split; reflexivity. Qed.

(* ... and in message style or under a no-kvp directive the entry is at the message, whatever target and
   key-values precede it *)
Theorem C13_message_style_statement : forall cfg code pre n a,
  let nm := render_name n in
  let pre_paren := (pre ++ nm ++ [33])%list in
  let pre_msg := (pre_paren ++ 40 :: render_lay (a_l0 a) ++ targ_text (a_targ a) ++ kv_text (a_kvs a) ++ [34])%list in
  (cfg_structured cfg = false \/
   directive_check the_params (p_no_kvp the_params) code (blen pre_paren) (p_comment_re the_params) = Some true) ->
  macro_of_interest nm cfg = true ->
  directive_check the_params (p_ignore the_params) code (blen pre) (p_comment_re the_params) = Some false ->
  stmt_stepA cfg code pre n a =
  Emit (mkEntry (blen pre_msg) (fst (line_col_go pre_msg 1 1)) (snd (line_col_go pre_msg 1 1))
                (extract_reference the_params (render_msg (a_msg a))) (short_name nm) KString None None).
Proof. exact stmt_stepA_message. Qed.

(* non-vacuity of the file-level theorem: a function body with
     info!(ref = 12, user = "bob"; "hello");            reference 12 found at its value
     warn!(target: "net", attempts = 3 ; "retry");      new ref after the target, ", "
     error!("boom");                                     new ref after the bracket, "; "
     debug!(target: "x", "plain");                      new ref after the target, "; "
     info!(a, ref = 7 /* c */; "m");                    the value's span runs up to the delimiter; the comment is dropped: 7
     warn!(user:? = u.name, n = x + 1, ref = 9; "m");   modifier, expression values; reference 9 found *)
Definition kv_items : list (lay * item) :=
  [(([], []), IName (mkQ 102 false [(110, false)]));
   (([32], []), IName (mkQ 102 false []));
   (([], []), IChar 40);
   (([], []), IChar 41);
   (([32], []), IChar 123);
   (([10;32;32;32;32], []), IStmtA (mkQ 105 false [(110, false);(102, false);(111, false)]) (mkArgs ([], []) None (Some ((mkKv (mkId 114 [101;102]) ([32], []) None (Some (([32], []), (mkVal (VDigits 49 [50]) []), ([], []))) true), [(([32], []), (mkKv (mkId 117 [115;101;114]) ([32], []) None (Some (([32], []), (mkVal (VStr [MChar 98;MChar 111;MChar 98]) []), ([], []))) false))], ([], []), ([32], []))) [MChar 104;MChar 101;MChar 108;MChar 108;MChar 111]));
   (([], []), IChar 41);
   (([], []), IChar 59);
   (([10;32;32;32;32], []), IStmtA (mkQ 119 false [(97, false);(114, false);(110, false)]) (mkArgs ([], []) (Some (mkTarg ([32], []) [MChar 110;MChar 101;MChar 116] ([], []), ([32], []))) (Some ((mkKv (mkId 97 [116;116;101;109;112;116;115]) ([32], []) None (Some (([32], []), (mkVal (VDigits 51 []) []), ([32], []))) false), [], ([], []), ([32], []))) [MChar 114;MChar 101;MChar 116;MChar 114;MChar 121]));
   (([], []), IChar 41);
   (([], []), IChar 59);
   (([10;32;32;32;32], []), IStmt (mkQ 101 false [(114, false);(114, false);(111, false);(114, false)]) ([], []) [MChar 98;MChar 111;MChar 111;MChar 109]);
   (([], []), IChar 41);
   (([], []), IChar 59);
   (([10;32;32;32;32], []), IStmtA (mkQ 100 false [(101, false);(98, false);(117, false);(103, false)]) (mkArgs ([], []) (Some (mkTarg ([32], []) [MChar 120] ([], []), ([32], []))) None [MChar 112;MChar 108;MChar 97;MChar 105;MChar 110]));
   (([], []), IChar 41);
   (([], []), IChar 59);
   (([10;32;32;32;32], []), IStmtA (mkQ 105 false [(110, false);(102, false);(111, false)]) (mkArgs ([], []) None (Some ((mkKv (mkId 97 []) ([], []) None None true), [(([32], []), (mkKv (mkId 114 [101;102]) ([32], []) None (Some (([32], []), (mkVal (VDigits 55 []) []), ([32], [(CBlock [32;99;32], [])]))) false))], ([], []), ([32], []))) [MChar 109]));
   (([], []), IChar 41);
   (([], []), IChar 59);
   (([10;32;32;32;32], []), IStmtA (mkQ 119 false [(97, false);(114, false);(110, false)]) (mkArgs ([], []) None (Some ((mkKv (mkId 117 [115;101;114]) ([], []) (Some (mkMod ([], []) [63] ([32], []))) (Some (([32], []), (mkVal (VIdent (mkId 117 [])) [(([], []), TChar 46);(([], []), TChar 110);(([], []), TChar 97);(([], []), TChar 109);(([], []), TChar 101)]), ([], []))) true), [(([32], []), (mkKv (mkId 110 []) ([32], []) None (Some (([32], []), (mkVal (VIdent (mkId 120 [])) [(([32], []), TChar 43);(([32], []), TChar 49)]), ([], []))) true));(([32], []), (mkKv (mkId 114 [101;102]) ([32], []) None (Some (([32], []), (mkVal (VDigits 57 []) []), ([], []))) false))], ([], []), ([32], []))) [MChar 109]));
   (([], []), IChar 41);
   (([], []), IChar 59);
   (([10], []), IChar 125)].
Definition kv_fin : lay := ([10], []).

Example C13_canonical_nonvacuous :
  items_ok kv_items kv_fin /\
  exists e1 e2 e3 e4 e5 e6,
    expected (mkConfig true [([108;111;103], [105;110;102;111]); ([108;111;103], [119;97;114;110]);
                             ([108;111;103], [101;114;114;111;114]); ([108;111;103], [100;101;98;117;103])])
             (render_items kv_items kv_fin) kv_items [] = [e1; e2; e3; e4; e5; e6] /\
    (e_pos e1, e_line e1, e_col e1, e_ref e1, e_kind e1) = (25, 2, 17, Some 12, KStructuredPreExisting) /\
    (e_pos e2, e_line e2, e_col e2, e_ref e2, e_kind e2, e_suffix e2) = (78, 3, 26, None, KStructuredNew, Some [44; 32]) /\
    (e_pos e3, e_line e3, e_col e3, e_kind e3, e_suffix e3) = (114, 4, 12, KStructuredNew, Some [59; 32]) /\
    (e_pos e4, e_line e4, e_col e4, e_kind e4, e_suffix e4) = (147, 5, 25, KStructuredNew, Some [59; 32]) /\
    (e_pos e5, e_ref e5, e_kind e5, usable e5) = (176, Some 7, KStructuredPreExisting, true) /\
    (e_pos e6, e_line e6, e_col e6, e_ref e6, e_kind e6) = (237, 7, 45, Some 9, KStructuredPreExisting).
Proof.
  split.
  - cbn. repeat split; try reflexivity; try exact I; try discriminate; try (eexists; reflexivity); try (cbn; tauto).
  - do 6 eexists. vm_compute. repeat split; reflexivity.
Qed.

(* THE WHOLE NEW TEXT.  After an edit run -- every tree, lock state, fault oracle and stop point -- a readable
   canonical file is byte-for-byte unchanged, or its bytes are exactly the UTF-8 encoding of the canonical file
   `retoken its`: same layout, names, arguments and other items, and each statement that lacked a reference now
   has one (consecutive N in file order) ... *)
Theorem C13_canonical_rewritten : forall rc files lk o j b its fin,
  files <> [] -> nth_error files j = Some b ->
  utf8_decode b = Some (render_items its fin) -> items_ok its fin -> o_rfail2 o j = false ->
  let new := nth_error (w_src (after rc files lk o)) j in
  new = Some b \/
  exists c0, new = Some (utf8_encode (render_items (retoken (rc_cfg rc) (render_items its fin) its [] c0) fin)).
Proof. exact canonical_file_rewritten. Qed.

(* ... as the key-value  ref = N  (`add_kv`): the first key-value, directly after the bracket or directly after the
   target argument, "," when key-values follow and ";" when none do -- a statement of the same canonical language,
   whose text is the old text with exactly the inserted string at the reported position (and as the token at the
   start of the message when the entry is of the message kind: the no-kvp directive) *)
Theorem C13_inserted_key_value : forall cfg code pre1 it e,
  item_step cfg code pre1 it = Emit e -> missing_insert e = true ->
  ((exists n l us, it = IStmt n l us) \/ (exists n a, it = IStmtA n a)) /\
  exists t, render_item it = (head_of it e ++ t)%list /\ e_pos e = blen (pre1 ++ head_of it e) /\
            forall id, render_item (add_ref it e id) = (head_of it e ++ insertable the_params e id ++ t)%list.
Proof. exact step_split. Qed.

(* the text of the example after the run:
     fn f() {
         info!(ref = 12, user = "bob"; "hello");
         warn!(target: "net", ref = 13, attempts = 3 ; "retry");
         error!(ref = 14; "boom");
         debug!(target: "x", ref = 15; "plain");
         info!(a, ref = 7 /* c */; "m");
         warn!(user:? = u.name, n = x + 1, ref = 9; "m");
     }
*)
Definition rw_text : list N :=
  [102;110;32;102;40;41;32;123;10;32;32;32;32;105;110;102;111;33;40;114;101;102;32;61;32;49;50;44;32;117;115;101;114;32;61;32;34;98;111;98;34;59;32;34;104;101;108;108;111;34;41;59;10;32;32;32;32;119;97;114;110;33;40;116;97;114;103;101;116;58;32;34;110;101;116;34;44;32;114;101;102;32;61;32;49;51;44;32;97;116;116;101;109;112;116;115;32;61;32;51;32;59;32;34;114;101;116;114;121;34;41;59;10;32;32;32;32;101;114;114;111;114;33;40;114;101;102;32;61;32;49;52;59;32;34;98;111;111;109;34;41;59;10;32;32;32;32;100;101;98;117;103;33;40;116;97;114;103;101;116;58;32;34;120;34;44;32;114;101;102;32;61;32;49;53;59;32;34;112;108;97;105;110;34;41;59;10;32;32;32;32;105;110;102;111;33;40;97;44;32;114;101;102;32;61;32;55;32;47;42;32;99;32;42;47;59;32;34;109;34;41;59;10;32;32;32;32;119;97;114;110;33;40;117;115;101;114;58;63;32;61;32;117;46;110;97;109;101;44;32;110;32;61;32;120;32;43;32;49;44;32;114;101;102;32;61;32;57;59;32;34;109;34;41;59;10;125;10].

(* on the example above: the model of the whole run and `retoken` give the same bytes, and the text is the one
   expected -- statements 2, 3 and 4 receive 13, 14, 15 (the largest existing reference is 12) *)
Example C13_rewritten_nonvacuous :
  let cfg := mkConfig true [([108;111;103], [105;110;102;111]); ([108;111;103], [119;97;114;110]);
                            ([108;111;103], [101;114;114;111;114]); ([108;111;103], [100;101;98;117;103])] in
  let code := render_items kv_items kv_fin in
  let o := mkOracle None None (fun _ => false) (fun _ => false) (fun _ => FNone) LkOk in
  nth_error (w_src (after (mkRunCfg cfg true) [utf8_encode code] LAbsent o)) 0
    = Some (utf8_encode (render_items (retoken cfg code kv_items [] 13) kv_fin)) /\
  render_items (retoken cfg code kv_items [] 13) kv_fin = rw_text.
Proof. cbv zeta. split; vm_compute; reflexivity. Qed.

(* ... and followed by blanks AND comments up to the delimiter (the value's span includes them; the text
   from the first comment opener on is dropped before trimming -- repaired defect F10b): g is empty or
   begins with a comment opener, as every rendered layout after its white space does *)
Theorem C13_ref_value_with_layout : forall (n : N) (w g : list N),
  n <= 4294967295 -> forallb is_ws_tab w = true ->
  (g = [] \/ exists x, g = 47 :: 42 :: x \/ g = 47 :: 47 :: x) ->
  ref_value the_params (dec n ++ w ++ g) = Some n.
Proof. exact ref_value_with_layout. Qed.

(* non-vacuity on real text through the generated grammar: target + two key-values -> after the
   target, comma; none -> semicolon; ref = 12 after another key-value is recognised; ref = x unusable *)
Example C13_nonvacuous :
  let cfg := mkConfig true [([108;111;103], [105;110;102;111])] in
  (exists e, find cfg [105;110;102;111;33;40;116;97;114;103;101;116;58;32;34;116;34;44;32;97;32;61;32;49;44;32;98;59;32;34;109;34;41] = Done [e]
             /\ e_pos e = 19 /\ e_kind e = KStructuredNew /\ e_suffix e = Some [44; 32]) /\
  (exists e, find cfg [105;110;102;111;33;40;34;109;34;41] = Done [e]
             /\ e_pos e = 6 /\ e_kind e = KStructuredNew /\ e_suffix e = Some [59; 32]) /\
  (exists e, find cfg [105;110;102;111;33;40;97;32;61;32;49;44;32;114;101;102;32;61;32;49;50;32;59;32;34;109;34;41] = Done [e]
             /\ e_ref e = Some 12 /\ e_kind e = KStructuredPreExisting) /\
  (exists e, find cfg [105;110;102;111;33;40;114;101;102;32;61;32;120;59;32;34;109;34;41] = Done [e]
             /\ e_ref e = None /\ usable e = false).
Proof. cbv zeta. repeat split; eexists; vm_compute; repeat split; reflexivity. Qed.

Print Assumptions C13_structured_entry.
Print Assumptions C13_unusable_never_missing.
Print Assumptions C13_written_value_is_recognised.
Print Assumptions C13_ref_value_with_layout.
Print Assumptions C13_canonical_files.
Print Assumptions C13_structured_statement.
Print Assumptions C13_ref_key.
Print Assumptions C13_pieces.
Print Assumptions C13_canonical_rewritten.
Print Assumptions C13_inserted_key_value.
Print Assumptions C13_message_style_statement.
