(* C03 -- edit mode only inserts reference tokens; existing references never change.
   Statements only; proofs in Proofs/RewriteFacts.v and Proofs/RunFacts.v. *)
From Coq Require Import List NArith Bool Lia.
From Breadlog Require Import Model.Peg Model.Text Model.Regex Model.Glue Model.Tables Model.Utf8 Model.Driver Model.History.
From Breadlog Require Import Gen.Consts.
From Breadlog Require Import Proofs.RewriteFacts Proofs.WorldFacts Proofs.DriverFacts Proofs.AllocFacts Proofs.RunFacts Proofs.HistoryFacts Proofs.CheckFacts Proofs.RuleLemmas Proofs.StatementLemmas Proofs.ArgLemmas Proofs.FileSpec Proofs.CanonicalRun Proofs.ValidUtf8.
From Breadlog Require Import Properties.Common.
Import ListNotations.
Open Scope N_scope.

(* the token for entry e with id n, as the translated format pieces say *)
Definition token (e : entry) (n : N) : list N := utf8_encode (insertable the_params e n).

(* For EVERY byte string b as the content of any file of any tree, every configuration, fault
   oracle and stop point: after the run the file is either byte-for-byte b, or it is b cut into
   chunks c_1 .. c_m, last with exactly one token after each c_k:
       new = c_1 ++ tok_1 ++ c_2 ++ tok_2 ++ ... ++ c_m ++ tok_m ++ last
       b   = c_1 ++ c_2 ++ ... ++ c_m ++ last           (deleting the tokens gives b back)
   where the tokens are those of the entries that lack a reference and have a usable position
   (todo), in order, numbered consecutively, and tok_k stands at byte offset e_pos(todo_k) of b.
   Entries that already carry a reference are not in todo: they receive nothing. *)
Theorem C03_insert_only : forall rc files lk o j b,
  files <> [] -> nth_error files j = Some b ->
  let new := nth_error (w_src (after rc files lk o)) j in
  length (w_src (after rc files lk o)) = length files /\
  (new = Some b \/
   exists es c0 chunks last,
     file_entries find (rc_cfg rc) (o_rfail2 o j) b = FEntries es /\
     let todo := filter missing_insert es in
     todo <> [] /\
     new = Some (zip_new chunks (tokens the_params todo c0) last) /\
     b = concat chunks ++ last /\
     length chunks = length todo /\
     map e_pos todo = offsets 0 chunks).
Proof.
  intros rc files lk o j b Hne Hj. cbv zeta.
  destruct (edit_final_content the_params find c_START_REFERENCE_ID rc files lk o j b Hne Hj)
    as [Hlen [Hsame|(c & Hc & Hok)]].
  - split; [exact Hlen|]. left. exact Hsame.
  - split; [exact Hlen|]. right.
    destruct Hok as (b' & es & c0 & _ & Hn & Hfe & Htodo & Hw).
    rewrite PeanoNat.Nat.sub_0_r in Hn.
    assert (b' = b) by congruence. subst b'.
    destruct (weave_decompose the_params _ _ _ _ _ Hw) as (chunks & last & Hl & Hout & Hb & Hoff).
    exists es, c0, chunks, last. repeat split; auto.
    unfold after, world0, Common.edit. rewrite Hc, Hout. reflexivity.
Qed.

(* AT THE LEVEL OF CHARACTERS, for EVERY readable file whatever it contains (no canonical-language hypothesis):
   the bytes written are the UTF-8 encoding of the old TEXT with one reference inserted at the CHARACTER position of
   each entry that lacks one (`tweave`: the rewriter on characters; the finder's byte offsets are character
   boundaries, GlueFacts.entries_bnd), and they are valid UTF-8 again: the new file decodes to exactly that text.
   An edit never cuts a multi-byte character and never leaves a file the next run cannot read. *)
Theorem C03_every_file_text : forall rc files lk o j b t,
  files <> [] -> nth_error files j = Some b -> utf8_decode b = Some t -> o_rfail2 o j = false ->
  let new := nth_error (w_src (after rc files lk o)) j in
  new = Some b \/
  exists es c0 t',
    find (rc_cfg rc) t = Done es /\
    tweave the_params t 0 (filter missing_insert es) c0 = Some t' /\
    new = Some (utf8_encode t') /\ utf8_decode (utf8_encode t') = Some t'.
Proof. exact file_after_edit_text. Qed.

(* non-vacuity: a statement behind multi-byte characters on its line (2-, 3- and 4-byte) *)
Example C03_every_file_nonvacuous :
  let t := [252; 8364; 128512; 59; 32; 105;110;102;111;33;40;34;98;34;41;59] in   (* "ü€😀; info!(\"b\");" *)
  let cfg := mkConfig false [([108;111;103], [105;110;102;111])] in
  exists e, find cfg t = Done [e] /\ e_pos e = 18 /\
  tweave the_params t 0 [e] 1 = Some [252; 8364; 128512; 59; 32; 105;110;102;111;33;40;34; 91;114;101;102;58;32;49;93;32; 98;34;41;59].
Proof. eexists. vm_compute. repeat split; reflexivity. Qed.

(* THE SAME FROM THE FILE'S TEXT ALONE, for every file of the canonical file language of
   Proofs/FileSpec.v (see C10_canonical_files): the places are those `expected` computes from the text --
   in message style the first character of the message value of each statement with a configured name,
   no ignore directive and no reference yet -- and nothing else in the file changes. *)
Theorem C03_canonical_files : forall rc files lk o j b its fin,
  files <> [] -> nth_error files j = Some b ->
  utf8_decode b = Some (render_items its fin) -> items_ok its fin -> o_rfail2 o j = false ->
  let new := nth_error (w_src (after rc files lk o)) j in
  let todo := filter missing_insert (expected (rc_cfg rc) (render_items its fin) its []) in
  new = Some b \/
  exists c0 chunks last,
    todo <> [] /\
    new = Some (zip_new chunks (tokens the_params todo c0) last) /\
    b = (concat chunks ++ last)%list /\
    length chunks = length todo /\
    map e_pos todo = offsets 0 chunks.
Proof. exact canonical_file_after_edit. Qed.

(* THE WHOLE NEW TEXT, either style: the bytes written are exactly the UTF-8 encoding of the canonical
   file with the same layout, names, arguments and other items, whose statements without a reference (configured
   name, no ignore directive) now carry one, N consecutive from some c0 in file order (`retoken`,
   Proofs/CanonicalRun.v): `[ref: N] ` at the start of the message (always so in message style:
   C03_message_style_token) or `ref = N` as first key-value (C13_canonical_rewritten says where and with which
   delimiter).  No chunks, no offsets: an equation between texts. *)
Theorem C03_canonical_rewritten : forall rc files lk o j b its fin,
  files <> [] -> nth_error files j = Some b ->
  utf8_decode b = Some (render_items its fin) -> items_ok its fin -> o_rfail2 o j = false ->
  let new := nth_error (w_src (after rc files lk o)) j in
  new = Some b \/
  exists c0, new = Some (utf8_encode (render_items (retoken (rc_cfg rc) (render_items its fin) its [] c0) fin)).
Proof. exact canonical_file_rewritten. Qed.

(* THE NEW FILE IS VALID UTF-8 AGAIN, whatever multi-byte characters the old one holds, and DECODES to the rewritten
   canonical text (the strict decoder is the inverse of the encoder on scalar values, Utf8Facts.decode_iff; the
   inserted references are ASCII) -- so the next run can read it *)
Theorem C03_canonical_rewritten_text : forall rc files lk o j b its fin,
  files <> [] -> nth_error files j = Some b ->
  utf8_decode b = Some (render_items its fin) -> items_ok its fin -> o_rfail2 o j = false ->
  let new := nth_error (w_src (after rc files lk o)) j in
  exists b', new = Some b' /\
    (utf8_decode b' = Some (render_items its fin) \/
     exists c0, utf8_decode b' = Some (render_items (retoken (rc_cfg rc) (render_items its fin) its [] c0) fin)).
Proof. exact canonical_file_rewritten_text. Qed.

(* ... and `retoken` changes nothing but statements, and those only by `add_ref`: same layout before every item,
   same names, same other characters *)
Theorem C03_only_statements_differ : forall cfg code its pre ctr,
  Forall2 (fun x y => fst y = fst x /\ (snd y = snd x \/ exists e id, snd y = add_ref (snd x) e id))
          its (retoken cfg code its pre ctr).
Proof. exact retoken_shape. Qed.

Theorem C03_message_style_token : forall cfg code pre1 it e id,
  cfg_structured cfg = false -> item_step cfg code pre1 it = Emit e -> add_ref it e id = add_token it id.
Proof. exact add_ref_message. Qed.

(* non-vacuity: info!("a");\n// x\ninfo!("[ref: 3] b");\nwarn!( "c");\n -- the model of the whole run and
   `retoken` give the same bytes, and the text is the one expected *)
Definition rw_items : list (lay * item) :=
  let info := mkQ 105 false [(110, false);(102, false);(111, false)] in
  let warn := mkQ 119 false [(97, false);(114, false);(110, false)] in
  [(([], []), IStmt info ([], []) [MChar 97]); (([], []), IChar 41); (([], []), IChar 59);
   (([10], [(CLine [32;120], [10])]), IStmt info ([], []) (map MChar [91;114;101;102;58;32;51;93;32;98])); (([], []), IChar 41); (([], []), IChar 59);
   (([10], []), IStmt warn ([32], []) [MChar 99]); (([], []), IChar 41); (([], []), IChar 59)].
Definition rw_fin : lay := ([10], []).
Definition rw_cfg : config := mkConfig false [([108;111;103], [105;110;102;111]); ([108;111;103], [119;97;114;110])].
Example C03_rewritten_nonvacuous :
  let code := render_items rw_items rw_fin in
  let o := mkOracle None None (fun _ => false) (fun _ => false) (fun _ => FNone) LkOk in
  items_ok rw_items rw_fin /\
  nth_error (w_src (after (mkRunCfg rw_cfg true) [utf8_encode code] LAbsent o)) 0
    = Some (utf8_encode (render_items (retoken rw_cfg code rw_items [] 4) rw_fin)) /\
  render_items (retoken rw_cfg code rw_items [] 4) rw_fin =
    (* info!("[ref: 4] a");\n// x\ninfo!("[ref: 3] b");\nwarn!( "[ref: 5] c");\n *)
    [105;110;102;111;33;40;34;91;114;101;102;58;32;52;93;32;97;34;41;59;10;47;47;32;120;10;
     105;110;102;111;33;40;34;91;114;101;102;58;32;51;93;32;98;34;41;59;10;
     119;97;114;110;33;40;32;34;91;114;101;102;58;32;53;93;32;99;34;41;59;10].
Proof.
  cbv zeta. split; [|split; vm_compute; reflexivity].
  cbn. repeat split; try reflexivity; try exact I; try discriminate.
Qed.

(* non-vacuity / shape check on a concrete file with a multi-byte character and CRLF *)
Example C03_nonvacuous :
  let f := utf8_encode [252;59;13;10;105;110;102;111;33;40;34;91;114;101;102;58;32;51;93;32;97;34;41;59;105;110;102;111;33;40;34;98;34;41;59] in
  let rc := mkRunCfg (mkConfig false [([108;111;103], [105;110;102;111])]) true in
  let o := mkOracle None None (fun _ => false) (fun _ => false) (fun _ => FNone) LkOk in
  nth_error (w_src (after rc [f] LAbsent o)) 0 =
  Some (utf8_encode [252;59;13;10;105;110;102;111;33;40;34;91;114;101;102;58;32;51;93;32;97;34;41;59;105;110;102;111;33;40;34;91;114;101;102;58;32;52;93;32;98;34;41;59]).
Proof. vm_compute. reflexivity. Qed.

Print Assumptions C03_insert_only.
Print Assumptions C03_every_file_text.
Print Assumptions C03_canonical_files.
Print Assumptions C03_canonical_rewritten.
Print Assumptions C03_message_style_token.
Print Assumptions C03_only_statements_differ.
Print Assumptions C03_canonical_rewritten_text.
