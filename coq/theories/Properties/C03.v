(* C03 -- edit mode only inserts reference tokens; existing references never change.
   Statements only; proofs in Proofs/RewriteFacts.v and Proofs/RunFacts.v. *)
From Coq Require Import List NArith Bool Lia.
From Breadlog Require Import Model.Peg Model.Text Model.Regex Model.Glue Model.Tables Model.Utf8 Model.Driver Model.History.
From Breadlog Require Import Gen.Consts.
From Breadlog Require Import Proofs.RewriteFacts Proofs.WorldFacts Proofs.DriverFacts Proofs.AllocFacts Proofs.RunFacts Proofs.HistoryFacts Proofs.CheckFacts Proofs.StatementLemmas Proofs.ArgLemmas Proofs.FileSpec Proofs.CanonicalRun.
From Breadlog Require Import Properties.Common.
Import ListNotations.
Open Scope N_scope.

(* the token for entry e with id n, as the translated format pieces say *)
Definition token (e : entry) (n : N) : list N := utf8_encode (insertable the_params e n).

(* For EVERY byte string b as the content of any file of any tree, every configuration, fault
   oracle and stop point: after the run the file is either byte-for-byte b, or it is b cut into
   chunks c_1 .. c_m, last with exactly one token after each c_k:
       new = c_1 ++ tok_1 ++ c_2 ++ tok_2 ++ ... ++ c_m ++ tok_m ++ last
       b   = c_1 ++ c_2 ++ ... ++ c_m ++ last           (deleting the tokens gives b back)
   where the tokens are those of the entries that lack a reference and have a usable position
   (todo), in order, numbered consecutively, and tok_k stands at byte offset e_pos(todo_k) of b.
   Entries that already carry a reference are not in todo: they receive nothing. *)
Theorem C03_insert_only : forall rc files lk o j b,
  files <> [] -> nth_error files j = Some b ->
  let new := nth_error (w_src (after rc files lk o)) j in
  length (w_src (after rc files lk o)) = length files /\
  (new = Some b \/
   exists es c0 chunks last,
     file_entries find (rc_cfg rc) (o_rfail2 o j) b = FEntries es /\
     let todo := filter missing_insert es in
     todo <> [] /\
     new = Some (zip_new chunks (tokens the_params todo c0) last) /\
     b = concat chunks ++ last /\
     length chunks = length todo /\
     map e_pos todo = offsets 0 chunks).
Proof.
  intros rc files lk o j b Hne Hj. cbv zeta.
  destruct (edit_final_content the_params find c_START_REFERENCE_ID rc files lk o j b Hne Hj)
    as [Hlen [Hsame|(c & Hc & Hok)]].
  - split; [exact Hlen|]. left. exact Hsame.
  - split; [exact Hlen|]. right.
    destruct Hok as (b' & es & c0 & _ & Hn & Hfe & Htodo & Hw).
    rewrite PeanoNat.Nat.sub_0_r in Hn.
    assert (b' = b) by congruence. subst b'.
    destruct (weave_decompose the_params _ _ _ _ _ Hw) as (chunks & last & Hl & Hout & Hb & Hoff).
    exists es, c0, chunks, last. repeat split; auto.
    unfold after, world0, Common.edit. rewrite Hc, Hout. reflexivity.
Qed.

(* THE SAME FROM THE FILE'S TEXT ALONE, for every file of the canonical file language of
   Proofs/FileSpec.v (see C10_canonical_files): the places are those `expected` computes from the text --
   in message style the first character of the message value of each statement with a configured name,
   no ignore directive and no reference yet -- and nothing else in the file changes. *)
Theorem C03_canonical_files : forall rc files lk o j b its fin,
  files <> [] -> nth_error files j = Some b ->
  utf8_decode b = Some (render_items its fin) -> items_ok its fin -> o_rfail2 o j = false ->
  let new := nth_error (w_src (after rc files lk o)) j in
  let todo := filter missing_insert (expected (rc_cfg rc) (render_items its fin) its []) in
  new = Some b \/
  exists c0 chunks last,
    todo <> [] /\
    new = Some (zip_new chunks (tokens the_params todo c0) last) /\
    b = (concat chunks ++ last)%list /\
    length chunks = length todo /\
    map e_pos todo = offsets 0 chunks.
Proof. exact canonical_file_after_edit. Qed.

(* non-vacuity / shape check on a concrete file with a multi-byte character and CRLF *)
Example C03_nonvacuous :
  let f := utf8_encode [252;59;13;10;105;110;102;111;33;40;34;91;114;101;102;58;32;51;93;32;97;34;41;59;105;110;102;111;33;40;34;98;34;41;59] in
  let rc := mkRunCfg (mkConfig false [([108;111;103], [105;110;102;111])]) true in
  let o := mkOracle None None (fun _ => false) (fun _ => false) (fun _ => FNone) LkOk in
  nth_error (w_src (after rc [f] LAbsent o)) 0 =
  Some (utf8_encode [252;59;13;10;105;110;102;111;33;40;34;91;114;101;102;58;32;51;93;32;97;34;41;59;105;110;102;111;33;40;34;91;114;101;102;58;32;52;93;32;98;34;41;59]).
Proof. vm_compute. reflexivity. Qed.

Print Assumptions C03_insert_only.
Print Assumptions C03_canonical_files.
