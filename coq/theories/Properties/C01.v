(* C01 -- newly assigned reference IDs are unique and within the documented range.
   Statements only; proofs in Proofs/RunFacts.v (edit_ids_unique_in_range, edit_ok_complete). *)
From Coq Require Import List NArith Bool Lia.
From Breadlog Require Import Model.Peg Model.Text Model.Regex Model.Glue Model.Tables Model.Utf8 Model.Driver.
From Breadlog Require Import Gen.Consts.
From Breadlog Require Import Proofs.RewriteFacts Proofs.DriverFacts Proofs.RunFacts.
From Breadlog Require Import Properties.Common.
Import ListNotations.
Open Scope N_scope.

(* For EVERY tree (any number of files, any content), configuration, fault oracle and stop point:
   the IDs written into files that reached the disk are pairwise different, lie in
   1 .. 4294967294 (the counter never wraps), and are above every reference of every recognised
   statement -- when the lock is absent/disabled/corrupt (first pass), or when it holds a value
   that is ahead of every such reference.  The only assumption on a lock value is that it is a u32
   (what a lock that parses holds); in particular a lock that records 0 does not make ID 0 be written
   (repaired defect: the proof used to need 1 <= L, and running the code at L = 0 wrote [ref: 0]). *)
Theorem C01_ids_unique_in_range : forall rc files lk o,
  files <> [] ->
  (forall L, cached_id rc lk = Some L -> L <= u32max) ->
  let out := edit rc files lk o in
  NoDup (map id3 (ro_ids out)) /\
  (forall x, In x (ro_ids out) -> 1 <= id3 x /\ id3 x < 4294967295) /\
  (cached_id rc lk = None ->
     forall x id, In x (ro_ids out) -> existing_ref find rc files o id -> id < id3 x) /\
  (forall L, cached_id rc lk = Some L ->
     (forall id, existing_ref find rc files o id -> id < L) ->
     forall x id, In x (ro_ids out) -> existing_ref find rc files o id -> id < id3 x).
Proof. exact (edit_ids_unique_in_range the_params find c_START_REFERENCE_ID start_ge_1 start_le_max). Qed.

Check C01_ids_unique_in_range : forall rc files lk o,
  files <> [] ->
  (forall L, cached_id rc lk = Some L -> L <= u32max) ->
  let out := edit rc files lk o in
  NoDup (map id3 (ro_ids out)) /\
  (forall x, In x (ro_ids out) -> 1 <= id3 x /\ id3 x < 4294967295) /\
  (cached_id rc lk = None ->
     forall x id, In x (ro_ids out) -> existing_ref find rc files o id -> id < id3 x) /\
  (forall L, cached_id rc lk = Some L ->
     (forall id, existing_ref find rc files o id -> id < L) ->
     forall x id, In x (ro_ids out) -> existing_ref find rc files o id -> id < id3 x).

(* If the range is exhausted the run fails instead of wrapping: a run that exits 0 has given
   every statement that lacked a reference (in every file it could read) an ID, all of them in
   range by the theorem above -- so when there are not enough IDs left the exit is non-zero. *)
Theorem C01_exhaustion_fails : forall rc files lk o,
  files <> [] ->
  ro_exit (edit rc files lk o) = XOk ->
  ro_effs (edit rc files lk o) = [] /\ ro_ids (edit rc files lk o) = [] \/
  forall j b es, nth_error files j = Some b ->
    file_entries find (rc_cfg rc) (o_rfail2 o j) b = FEntries es ->
    filter missing_insert es = [] \/
    exists c0, forall pos id, In (pos, id) (ids_of (filter missing_insert es) c0) ->
                              In (j, pos, id) (ro_ids (edit rc files lk o)).
Proof.
  intros rc files lk o Hne Hx.
  destruct (edit_ok_complete the_params find c_START_REFERENCE_ID rc files lk o Hne Hx)
    as [(_ & He & Hi)|[_ H]]; [left; split; assumption|right].
  intros j b es Hj Hfe. destruct (H j b es Hj Hfe) as [[Hn _]|(c0 & c & _ & _ & Hids)]; [left; exact Hn|].
  right. exists c0. exact Hids.
Qed.

(* non-vacuity: a two-statement file, one with [ref: 7], one without; no lock: the new ID is 8 *)
Example C01_nonvacuous :
  let f := utf8_encode [102;110;32;102;40;41;123;105;110;102;111;33;40;34;91;114;101;102;58;32;55;93;32;97;34;41;59;105;110;102;111;33;40;34;98;34;41;59;125] in
  let rc := mkRunCfg (mkConfig false [([108;111;103], [105;110;102;111])]) true in
  let o := mkOracle None None (fun _ => false) (fun _ => false) (fun _ => FNone) LkOk in
  map id3 (ro_ids (edit rc [f] LAbsent o)) = [8] /\ ro_exit (edit rc [f] LAbsent o) = XOk.
Proof. vm_compute. split; reflexivity. Qed.

Print Assumptions C01_ids_unique_in_range.
Print Assumptions C01_exhaustion_fails.
