(* C14 -- directives affect exactly the statement they precede.
   Statements only; proofs in Proofs/GlueSpec.v. *)
From Coq Require Import List NArith Bool Lia String.
From Breadlog Require Import Model.Peg Model.Text Model.Regex Model.Glue Model.Tables.
From Breadlog Require Import Gen.Grammar Gen.Consts.
From Breadlog Require Import Proofs.PegFacts Proofs.RuleLemmas Proofs.GlueSpec.
From Breadlog Require Import Properties.Common.
Import ListNotations.
Open Scope N_scope.

(* The directive scan (check_for_boolean_directive) looks at the text up to and including the first
   character of the statement, takes its lines in reverse, drops the statement's own line, and then: *)

(* (1) blank lines -- empty after trimming Unicode white space -- are skipped: a run of blank lines
   between the directive and the statement makes no difference *)
Theorem C14_blank_lines_are_skipped : forall d re l ls,
  trim is_ws_tab l = [] -> scan_lines the_params d re (l :: ls) = scan_lines the_params d re ls.
Proof. exact (scan_lines_blank the_params). Qed.

(* (2) the NEAREST non-blank line decides alone: if it is not a comment there is no directive,
   whatever stands further up (a directive separated from the statement by a code line has no effect) *)
Theorem C14_code_line_in_between : forall d re l ls,
  trim is_ws_tab l <> [] -> captures re (trim is_ws_tab l) = None ->
  scan_lines the_params d re (l :: ls) = false.
Proof. exact (scan_lines_code_line the_params). Qed.

(* ... and if it is a comment, only its own text is compared: an earlier directive line is never
   looked at (a directive separated by another comment line has no effect; a directive affects no
   statement further down than the first non-blank line after it) *)
Theorem C14_only_nearest_line_matters : forall d re l ls ls',
  trim is_ws_tab l <> [] -> scan_lines the_params d re (l :: ls) = scan_lines the_params d re (l :: ls').
Proof. exact (scan_lines_first_comment_decides the_params). Qed.

(* (3) a statement with nothing above its line is under no directive (a directive placed AFTER a
   statement has no effect on it) *)
Theorem C14_nothing_above : forall d re, scan_lines the_params d re [] = false.
Proof. exact (scan_lines_nil the_params). Qed.

(* (4) what the directives do: ignore => no entry (C11_unconfigured_or_ignored_is_skipped);
   no-kvp in structured mode => the message-style entry (C10_message_entry) *)

(* NOT proved: the regex-level statement that exactly the comments whose trimmed, lower-cased text
   is the directive are recognised, for all spellings; that is covered by the oracle campaign and the
   enumerated placements. *)

(* non-vacuity on real text through the generated grammar and the translated comment regex *)
Example C14_nonvacuous :
  let cfg := mkConfig true [([108;111;103], [105;110;102;111])] in
  (* "//  BREADLOG:IGNORE \n\n   \ninfo!(\"a\"); info!(\"b\");\ninfo!(\"c\");" : a and b ignored, c not *)
  (exists e, find cfg [47;47;32;32;66;82;69;65;68;76;79;71;58;73;71;78;79;82;69;32;10;10;32;32;32;10;105;110;102;111;33;40;34;97;34;41;59;32;105;110;102;111;33;40;34;98;34;41;59;10;105;110;102;111;33;40;34;99;34;41;59]
             = Done [e] /\ e_line e = 5) /\
  (* "/* breadlog:no-kvp */\ninfo!(\"a\");" structured: message-style entry *)
  (exists e, find cfg [47;42;32;98;114;101;97;100;108;111;103;58;110;111;45;107;118;112;32;42;47;10;105;110;102;111;33;40;34;97;34;41;59]
             = Done [e] /\ e_kind e = KString) /\
  (* "// breadlog:ignore\nlet x = 1;\ninfo!(\"a\");" : a code line in between: not ignored *)
  (exists e, find cfg [47;47;32;98;114;101;97;100;108;111;103;58;105;103;110;111;114;101;10;108;101;116;32;120;32;61;32;49;59;10;105;110;102;111;33;40;34;97;34;41;59]
             = Done [e] /\ e_kind e = KStructuredNew).
Proof. cbv zeta. repeat split; eexists; vm_compute; repeat split; reflexivity. Qed.

Print Assumptions C14_blank_lines_are_skipped.
Print Assumptions C14_code_line_in_between.
Print Assumptions C14_only_nearest_line_matters.
Print Assumptions C14_nothing_above.
