(* C14 -- directives affect exactly the statement they precede.
   Statements only; proofs in Proofs/GlueSpec.v. *)
From Coq Require Import List NArith Bool Lia String.
From Breadlog Require Import Model.Peg Model.Text Model.Regex Model.Glue Model.Tables.
From Breadlog Require Import Gen.Grammar Gen.Consts.
From Breadlog Require Import Gen.Regexes.
From Breadlog Require Import Proofs.PegFacts Proofs.RuleLemmas Proofs.GlueSpec Proofs.RegexFacts Proofs.CommentRegex Proofs.CommentSpec.
From Breadlog Require Import Properties.Common.
Import ListNotations.
Open Scope N_scope.

(* The directive scan (check_for_boolean_directive) looks at the text up to and including the first
   character of the statement, takes its lines in reverse, drops the statement's own line, and then: *)

(* (1) blank lines -- empty after trimming Unicode white space -- are skipped: a run of blank lines
   between the directive and the statement makes no difference *)
Theorem C14_blank_lines_are_skipped : forall d re l ls,
  trim is_ws_tab l = [] -> scan_lines the_params d re (l :: ls) = scan_lines the_params d re ls.
Proof. exact (scan_lines_blank the_params). Qed.

(* (2) the NEAREST non-blank line decides alone: if it is not a comment there is no directive,
   whatever stands further up (a directive separated from the statement by a code line has no effect) *)
Theorem C14_code_line_in_between : forall d re l ls,
  trim is_ws_tab l <> [] -> captures re (trim is_ws_tab l) = None ->
  scan_lines the_params d re (l :: ls) = false.
Proof. exact (scan_lines_code_line the_params). Qed.

(* ... and if it is a comment, only its own text is compared: an earlier directive line is never
   looked at (a directive separated by another comment line has no effect; a directive affects no
   statement further down than the first non-blank line after it) *)
Theorem C14_only_nearest_line_matters : forall d re l ls ls',
  trim is_ws_tab l <> [] -> scan_lines the_params d re (l :: ls) = scan_lines the_params d re (l :: ls').
Proof. exact (scan_lines_first_comment_decides the_params). Qed.

(* (3) a statement with nothing above its line is under no directive (a directive placed AFTER a
   statement has no effect on it) *)
Theorem C14_nothing_above : forall d re, scan_lines the_params d re [] = false.
Proof. exact (scan_lines_nil the_params). Qed.

(* (4) what the directives do: ignore => no entry (C11_unconfigured_or_ignored_is_skipped);
   no-kvp in structured mode => the message-style entry (C10_message_entry) *)

(* (5) WHICH COMMENTS ARE DIRECTIVES, on the TRANSLATED comment regex (RUST_COMMENT_PATTERN, leftmost-first
   semantics), for ALL comment texts: when the nearest non-blank line, trimmed, is a line comment
   "//" body (body: any non-empty text) the directive d is in force iff body -- lower-cased with the
   translated Unicode table, then trimmed -- is d.  So every spelling in any letter case and with any
   white space around it counts, and nothing else does (a longer text, a misspelling, the other
   directive).  Likewise for a block comment "/*" body "*/" that makes up the whole line. *)
Theorem C14_line_comment_directive : forall d l body ls,
  hd_error d <> Some 47 ->
  trim is_ws_tab l = ([47; 47] ++ body)%list -> body <> [] -> dots body = true ->
  scan_lines the_params d re_RUST_COMMENT_PATTERN (l :: ls) = text_eqb (norm body) d.
Proof. exact directive_on_line_comment. Qed.

Theorem C14_block_comment_directive : forall d l body ls,
  hd_error d <> Some 47 ->
  trim is_ws_tab l = ([47; 42] ++ body ++ [42; 47])%list -> body <> [] -> dots body = true ->
  scan_lines the_params d re_RUST_COMMENT_PATTERN (l :: ls) = text_eqb (norm body) d.
Proof. exact directive_on_block_comment. Qed.

(* `dots` only excludes what a line cannot contain anyway: a newline (and values that are no scalar) *)
Theorem C14_dot_class : forall c, in_ranges dot c = true <-> c <> 10 /\ c <= 1114111.
Proof. exact in_dot. Qed.

(* both directives of Breadlog satisfy the side condition, and the regex in the parameters is the
   translated one *)
Theorem C14_directives_apply :
  (hd_error (p_ignore the_params) <> Some 47 /\ hd_error (p_no_kvp the_params) <> Some 47) /\
  p_comment_re the_params = re_RUST_COMMENT_PATTERN.
Proof. exact (conj directives_no_slash comment_re_is_RE). Qed.

(* a code line without any slash holds no comment: no directive (the captures = None premise of (2)) *)
Theorem C14_code_line_without_slash : forall d l ls,
  trim is_ws_tab l <> [] -> forallb (fun c => negb (c =? 47)) (trim is_ws_tab l) = true ->
  scan_lines the_params d re_RUST_COMMENT_PATTERN (l :: ls) = false.
Proof. exact scan_code_line. Qed.

(* a line comment AFTER code on the nearest non-blank line ("x(); // breadlog:ignore"): the unanchored
   regex finds it (leftmost match: the code before it holds no slash) and the directive applies exactly
   as for a comment on a line of its own *)
Theorem C14_trailing_line_comment_directive : forall d l pre body ls,
  hd_error d <> Some 47 ->
  trim is_ws_tab l = (pre ++ [47; 47] ++ body)%list -> pre <> [] ->
  forallb (fun c => negb (c =? 47)) pre = true -> body <> [] -> dots body = true ->
  scan_lines the_params d re_RUST_COMMENT_PATTERN (l :: ls) = text_eqb (norm body) d.
Proof. exact directive_on_trailing_line_comment. Qed.

Theorem C14_trailing_block_comment_directive : forall d l pre body ls,
  hd_error d <> Some 47 ->
  trim is_ws_tab l = (pre ++ [47; 42] ++ body ++ [42; 47])%list -> pre <> [] ->
  forallb (fun c => negb (c =? 47)) pre = true -> body <> [] -> dots body = true ->
  scan_lines the_params d re_RUST_COMMENT_PATTERN (l :: ls) = text_eqb (norm body) d.
Proof. exact directive_on_trailing_block_comment. Qed.

(* EVERY LINE (Proofs/CommentSpec.v: `search_spec`, a closed form of the backtracking matcher on the translated
   regex for every text without a newline; `rep_m_backoff`: greedy `.+` followed by any continuation tries the
   split points from the longest to the shortest).  The nearest non-blank line above the statement, trimmed,
   decides: the directive is in force iff the body of the LEFTMOST comment the regex sees on it
   (`first_comment`: the text after the first "//" that is followed by a character, or between "/*" and the LAST
   "*/" of the line with a character between, whichever starts first -- wherever on the line, whatever stands
   before and after it), lower-cased and trimmed, is the directive.  `dots` = no newline, scalar values only. *)
Theorem C14_directive_scan_every_line : forall d l ls,
  hd_error d <> Some 47 -> dots (trim is_ws_tab l) = true ->
  scan_lines the_params d re_RUST_COMMENT_PATTERN (l :: ls) =
  match trim is_ws_tab l with
  | [] => scan_lines the_params d re_RUST_COMMENT_PATTERN ls
  | l' => match first_comment l' with
          | Some b => text_eqb (norm b) d
          | None => false
          end
  end.
Proof. exact scan_lines_spec. Qed.

(* THE DIRECTIVE DECISION IN CLOSED FORM, for every text whose characters are scalar values (every file that
   decodes, Utf8Facts.decode_scalars) and every position the glue asks at: of the lines of the text up to and
   including the first character of the statement, in reverse and without the statement's own line, the nearest
   non-blank one decides by the leftmost comment the regex sees on it (`decide` / `verdict` / `first_comment`).
   No hypothesis about the shape of any line is left. *)
Theorem C14_directive_decision : forall d t p,
  hd_error d <> Some 47 -> (forall c, In c t -> c <= 1114111) ->
  directive_check the_params d t p (p_comment_re the_params) =
  match first_char_len t p with
  | None => None
  | Some l => match take_bytes t (p + l) with
              | None => None
              | Some pre => Some (decide d (tl (rev (lines pre))))
              end
  end.
Proof. exact directive_check_closed. Qed.

(* what that means on the shapes the earlier theorems do not cover (evaluated with the closed form): a block
   comment followed by code is read; of two block comments on one line the regex takes everything from the first
   opener to the last closer, so neither is a directive; a "//" inside a string literal earlier on the line
   hides a later comment (the regex knows no strings -- the behaviour behind known finding F12) *)
Example C14_every_line_examples :
  first_comment [47;42;32;98;114;101;97;100;108;111;103;58;105;103;110;111;114;101;32;42;47;32;120;40;41;59] = Some [32;98;114;101;97;100;108;111;103;58;105;103;110;111;114;101;32] /\
  first_comment [47;42;32;97;32;42;47;32;47;42;32;98;114;101;97;100;108;111;103;58;105;103;110;111;114;101;32;42;47] = Some [32;97;32;42;47;32;47;42;32;98;114;101;97;100;108;111;103;58;105;103;110;111;114;101;32] /\
  first_comment [108;101;116;32;117;32;61;32;34;104;116;116;112;58;47;47;120;34;59;32;47;47;32;98;114;101;97;100;108;111;103;58;105;103;110;111;114;101] = Some [120;34;59;32;47;47;32;98;114;101;97;100;108;111;103;58;105;103;110;111;114;101] /\
  first_comment [97;32;47;32;98;59;32;99;32;47;47] = None.
Proof. vm_compute. repeat split; reflexivity. Qed.

(* non-vacuity on real text through the generated grammar and the translated comment regex *)
Example C14_nonvacuous :
  let cfg := mkConfig true [([108;111;103], [105;110;102;111])] in
  (* "//  BREADLOG:IGNORE \n\n   \ninfo!(\"a\"); info!(\"b\");\ninfo!(\"c\");" : a and b ignored, c not *)
  (exists e, find cfg [47;47;32;32;66;82;69;65;68;76;79;71;58;73;71;78;79;82;69;32;10;10;32;32;32;10;105;110;102;111;33;40;34;97;34;41;59;32;105;110;102;111;33;40;34;98;34;41;59;10;105;110;102;111;33;40;34;99;34;41;59]
             = Done [e] /\ e_line e = 5) /\
  (* "/* breadlog:no-kvp */\ninfo!(\"a\");" structured: message-style entry *)
  (exists e, find cfg [47;42;32;98;114;101;97;100;108;111;103;58;110;111;45;107;118;112;32;42;47;10;105;110;102;111;33;40;34;97;34;41;59]
             = Done [e] /\ e_kind e = KString) /\
  (* "// breadlog:ignore\nlet x = 1;\ninfo!(\"a\");" : a code line in between: not ignored *)
  (exists e, find cfg [47;47;32;98;114;101;97;100;108;111;103;58;105;103;110;111;114;101;10;108;101;116;32;120;32;61;32;49;59;10;105;110;102;111;33;40;34;97;34;41;59]
             = Done [e] /\ e_kind e = KStructuredNew).
Proof. cbv zeta. repeat split; eexists; vm_compute; repeat split; reflexivity. Qed.

Print Assumptions C14_directive_scan_every_line.
Print Assumptions C14_directive_decision.
Print Assumptions C14_blank_lines_are_skipped.
Print Assumptions C14_code_line_in_between.
Print Assumptions C14_only_nearest_line_matters.
Print Assumptions C14_nothing_above.
Print Assumptions C14_line_comment_directive.
Print Assumptions C14_block_comment_directive.
Print Assumptions C14_dot_class.
Print Assumptions C14_directives_apply.
Print Assumptions C14_code_line_without_slash.
Print Assumptions C14_trailing_line_comment_directive.
Print Assumptions C14_trailing_block_comment_directive.
