(* C05 -- check mode's verdict is exact and predicts what edit mode does.
   Proofs in Proofs/CheckFacts.v, Proofs/AllocFacts.v, Proofs/RunFacts.v. *)
From Coq Require Import List NArith Bool Lia String.
From Breadlog Require Import Model.Peg Model.Text Model.Regex Model.Glue Model.Tables Model.Utf8 Model.Driver Model.History.
From Breadlog Require Import Gen.Consts.
From Breadlog Require Import Proofs.RewriteFacts Proofs.WorldFacts Proofs.DriverFacts Proofs.AllocFacts Proofs.RunFacts Proofs.HistoryFacts Proofs.CheckFacts.
From Breadlog Require Import Proofs.StatementLemmas Proofs.ArgLemmas Proofs.FileSpec Proofs.CanonicalRun Proofs.ValidUtf8.
From Breadlog Require Import Properties.Common.
Import ListNotations.
Open Scope N_scope.

(* the three separately written "lacks a reference" tests of the three processors coincide *)
Theorem C05_missing_predicates_agree : forall e : entry,
  missing_nextid e = missing_insert e /\ missing_count e = missing_insert e.
Proof. exact missing_preds_agree. Qed.

(* For EVERY tree with at least one in-scope file, an uninterrupted check that does not panic
   reports exactly, file by file and in order, the (line, column) of the entries that lack a
   reference and have a usable position; its total is their number; it exits non-zero exactly
   when there is at least one. *)
Theorem C05_check_verdict : forall rc files o,
  files <> [] ->
  let out := check rc files o in
  ro_exit out <> XPanic -> ro_exit out <> XHang -> o_stop2 o = None ->
  let expected := expected_missing find (rc_cfg rc) (o_rfail2 o) files 0 in
  filter is_missing_report (ro_reports out) = expected /\
  ro_total out = Some (lenN expected) /\
  (ro_exit out = XErr <-> expected <> []) /\ (ro_exit out = XOk <-> expected = []).
Proof. exact (check_verdict find). Qed.

(* THE REPORTED PLACE IS THE INSERTION PLACE, for EVERY text: the (line, column) an entry carries -- what --check
   prints for it -- are the line and column, in pest's Position::line_col sense (1-based, counted in characters,
   CR LF one break, a lone CR a column: Model/Text.v, tied by the correspondence), of the byte offset e_pos at which
   an edit run inserts (C03).  Also for the one offset that is not a node position, directly after the bracket. *)
Theorem C05_reported_place_is_insertion_place : forall cfg t es,
  find cfg t = Done es -> Forall (fun e => line_col t (e_pos e) = Some (e_line e, e_col e)) es.
Proof. exact find_line_col. Qed.

(* non-vacuity: statements behind multi-byte characters, a tab, CR LF and a lone CR, both styles *)
Example C05_place_nonvacuous :
  let t := [252; 8364; 9; 105;110;102;111;33;40;34;97;34;41;59; 13;10; 120; 13; 128512; 32; 105;110;102;111;33;40;32;34;98;34;41;59] in
  (exists e1 e2, find (mkConfig false [([108;111;103], [105;110;102;111])]) t = Done [e1; e2] /\
     (e_pos e1, e_line e1, e_col e1) = (13, 1, 11) /\ (e_pos e2, e_line e2, e_col e2) = (34, 2, 13)) /\
  (exists e1 e2, find (mkConfig true [([108;111;103], [105;110;102;111])]) t = Done [e1; e2] /\
     (e_pos e1, e_line e1, e_col e1) = (12, 1, 10) /\ (e_pos e2, e_line e2, e_col e2) = (32, 2, 11)).
Proof. cbv zeta. split; do 2 eexists; vm_compute; repeat split; reflexivity. Qed.

(* ... and those are exactly the places where an edit run that exits 0 inserts: the same filter
   (missing_insert) selects the entries reported by check (expected_missing) and the entries
   that receive a token (C08_exit_zero_is_complete / C03_insert_only: todo = filter
   missing_insert es, tokens at map e_pos todo), and the number the edit run prints is the number
   of ids it wrote. *)
Theorem C05_edit_count_is_exact : forall rc files lk o,
  files <> [] -> (forall j, o_fault o j <> FRename) ->
  ro_exit (edit rc files lk o) = XOk ->
  ro_total (edit rc files lk o) = None /\ ro_ids (edit rc files lk o) = [] \/
  ro_total (edit rc files lk o) = Some (lenN (ro_ids (edit rc files lk o))).
Proof.
  intros rc files lk o Hne Hnr Hx.
  destruct (edit_ok_complete the_params find c_START_REFERENCE_ID rc files lk o Hne Hx)
    as [(Ht & _ & Hi)|[Hc _]]; [left; split; assumption|right; exact (Hc Hnr)].
Qed.

(* THE VERDICT FROM THE TEXT ALONE: on a tree whose files are canonical files (Proofs/FileSpec.v; see
   C10_canonical_files / C13_canonical_files), all readable, not interrupted: --check reports, file by
   file and in order, exactly the line and column `expected` computes from each file's text for the
   statements that lack a reference; the total is their number; the exit status is non-zero exactly
   when there is one.  No panic / hang hypothesis (C17), no parse tree, no entry list. *)
Theorem C05_canonical_check : forall rc files specs o,
  files <> [] -> canonical_tree files specs -> (forall j, o_rfail2 o j = false) -> o_stop2 o = None ->
  let out := check rc files o in
  let want := canonical_missing (rc_cfg rc) specs 0 in
  filter is_missing_report (ro_reports out) = want /\
  ro_total out = Some (lenN want) /\
  (ro_exit out = XErr <-> want <> []) /\ (ro_exit out = XOk <-> want = []).
Proof. exact canonical_check_verdict. Qed.

Lemma expected_missing_one : forall rc o b es,
  file_entries find (rc_cfg rc) (o_rfail2 o 0%nat) b = FEntries es ->
  expected_missing find (rc_cfg rc) (o_rfail2 o) [b] 0 = missing_reports 0 es.
Proof. intros rc o b es H. cbn [expected_missing]. rewrite H. apply app_nil_r. Qed.

(* non-vacuity: CRLF, a tab and a 2-byte character before the statement: line 2, column 4 *)
Example C05_nonvacuous :
  let f := utf8_encode [47;47;13;10;9;252;59;105;110;102;111;33;40;34;98;34;41;59] in
  let rc := mkRunCfg (mkConfig false [([108;111;103], [105;110;102;111])]) true in
  let o := mkOracle None None (fun _ => false) (fun _ => false) (fun _ => FNone) LkOk in
  ro_reports (check rc [f] o) = [RMissing 0 2 11] /\ ro_exit (check rc [f] o) = XErr /\
  map (fun x => fst (fst x, snd x)) (ro_ids (edit rc [f] LAbsent o)) = [(0%nat, 15)].
Proof. vm_compute. repeat split; reflexivity. Qed.

Print Assumptions C05_check_verdict.
Print Assumptions C05_reported_place_is_insertion_place.
Print Assumptions C05_canonical_check.
Print Assumptions C05_edit_count_is_exact.
Print Assumptions C05_missing_predicates_agree.
