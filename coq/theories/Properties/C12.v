(* C12 -- a reference counts as present exactly when the message starts with a valid token.
   Statements only; proofs are in Proofs/RegexFacts.v and Proofs/DecimalFacts.v.
   Everything is about the TRANSLATED regexes (Gen/Regexes.v) and format pieces (Gen/Consts.v). *)
From Coq Require Import List NArith Bool.
From Breadlog Require Import Model.Peg Model.Text Model.Regex Model.Glue Model.Tables.
From Breadlog Require Import Gen.Regexes Gen.Consts.
From Breadlog Require Import Proofs.DecimalFacts Proofs.RegexFacts.
Import ListNotations.
Open Scope N_scope.

(* For ALL strings s: extract_reference s = Some n  iff  s = "[ref: " ++ ds ++ "]" ++ rest with
   1..10 ASCII digits ds whose value is n <= 4294967295. *)
Theorem C12_iff : forall (s : text) (n : N),
  extract_reference the_params s = Some n <->
  exists ds rest,
    s = [91; 114; 101; 102; 58; 32] ++ ds ++ [93] ++ rest /\
    ds <> [] /\ tlen ds <= 10 /\ forallb is_ascii_digit ds = true /\
    digits_value ds 0 = Some n /\ n <= 4294967295.
Proof. exact extract_reference_iff. Qed.

(* The token Breadlog inserts (built from the translated format literal) satisfies the rule,
   with the assigned number, whatever follows it. *)
Theorem C12_token : forall (n : N) (rest : text),
  n <= 4294967295 ->
  extract_reference the_params
    (insertable the_params (mkEntry 0 1 1 None [] KString None None) n ++ rest) = Some n.
Proof. exact extract_reference_token. Qed.

(* ... and the documented, unanchored regex finds it at offset 0 and captures the decimal
   rendering of n as group 1. *)
Theorem C12_documented_regex : forall (n : N) (rest : text),
  n <= 4294967295 ->
  exists c se,
    captures re_documented
      (insertable the_params (mkEntry 0 1 1 None [] KString None None) n ++ rest) = Some c
    /\ get_cap c 1 = Some se
    /\ cap_text (insertable the_params (mkEntry 0 1 1 None [] KString None None) n ++ rest) se = dec n
    /\ get_cap c 0 = Some (0, 6 + tlen (dec n) + 1).
Proof. exact documented_regex_token. Qed.

(* The two readers agree on EVERY message, not only on inserted tokens: whenever Breadlog treats a
   message as referenced with number n (pre-existing references with leading zeros included),
   the documented regex matches it at offset 0 and its group 1, parsed as a u32, is the same n. *)
Theorem C12_documented_regex_agrees : forall (s : text) (n : N),
  extract_reference the_params s = Some n ->
  exists c se,
    captures re_documented s = Some c
    /\ get_cap c 1 = Some se
    /\ parse_u32 (cap_text s se) = Some n
    /\ exists e, get_cap c 0 = Some (0, e).
Proof. exact documented_regex_agrees. Qed.

(* ... and conversely: a match of the documented regex that starts at offset 0 whose group 1 parses
   as a u32 n is a reference n for Breadlog.  Together: Breadlog treats the message as referenced
   with n  iff  the documented regex matches at the very start of the message with group 1 = n. *)
Theorem C12_documented_regex_converse : forall (s : text) (c : caps) (se : N * N) (e n : N),
  captures re_documented s = Some c -> get_cap c 0 = Some (0, e) ->
  get_cap c 1 = Some se -> parse_u32 (cap_text s se) = Some n ->
  extract_reference the_params s = Some n.
Proof. exact documented_regex_converse. Qed.

(* Ref-like text elsewhere does not count: when the documented regex finds nothing, or its first
   match starts after offset 0, Breadlog does not treat the message as referenced. *)
Theorem C12_later_match_does_not_count : forall s : text,
  match captures re_documented s with
  | None => True
  | Some c => exists i e, get_cap c 0 = Some (i, e) /\ 0 < i
  end ->
  extract_reference the_params s = None.
Proof. exact later_match_not_reference. Qed.

(* The position the documented regex reports is the LEFTMOST one (the model's search, like
   Regex::captures, tries every start position in order -- proved for every regex of the modelled
   fragment): no start position j before the reported one has a match. *)
Theorem C12_documented_regex_leftmost : forall (s : text) (c : caps) (i e j : N),
  captures re_documented s = Some c -> get_cap c 0 = Some (i, e) -> j < i ->
  m re_documented (fun st => Some (set_cap (rcaps st) 0 (j, ridx st))) (mkR (skipn_N j s) j []) = None.
Proof.
  intros s c i e j Hc Hg Hj. rewrite <- (N.sub_0_r j) at 1.
  exact (search_from_leftmost re_documented s 0 c i e j Hc Hg (conj (N.le_0_l j) Hj)).
Qed.

(* decimal printing and u32 parsing are inverse on the whole ID range *)
Theorem C12_dec_parse : forall n : N, n <= 4294967295 -> parse_u32 (dec n) = Some n.
Proof. exact parse_u32_dec. Qed.

(* non-vacuity: concrete strings on both sides of the rule *)
Example C12_nonvacuous :
  extract_reference the_params [91; 114; 101; 102; 58; 32; 52; 50; 93; 32; 120] = Some 42
  /\ extract_reference the_params [91; 114; 101; 102; 58; 32; 52; 50; 57; 52; 57; 54; 55; 50; 57; 54; 93] = None
  /\ extract_reference the_params [32; 91; 114; 101; 102; 58; 32; 52; 50; 93] = None
  /\ extract_reference the_params [91; 114; 101; 102; 58; 32; 1635; 93] = None.
Proof. vm_compute. repeat split. Qed.

(* non-vacuity of the agreement theorem: a pre-existing reference with leading zeros *)
Example C12_agrees_nonvacuous :
  extract_reference the_params [91; 114; 101; 102; 58; 32; 48; 48; 55; 93; 120] = Some 7
  /\ match captures re_documented [91; 114; 101; 102; 58; 32; 48; 48; 55; 93; 120] with
     | Some c => get_cap c 1 = Some (6, 9) /\ get_cap c 0 = Some (0, 10)
     | None => False end.
Proof. vm_compute. repeat split. Qed.

(* non-vacuity: a token in the middle of the message is found by the documented regex at offset 2 *)
Example C12_later_nonvacuous :
  match captures re_documented [120; 32; 91; 114; 101; 102; 58; 32; 55; 93] with
  | Some c => get_cap c 0 = Some (2, 10)
  | None => False end
  /\ extract_reference the_params [120; 32; 91; 114; 101; 102; 58; 32; 55; 93] = None.
Proof. vm_compute. repeat split. Qed.
