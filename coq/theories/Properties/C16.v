(* C16 -- configuration switches and defaults mean what the guide says.
   The defaults are the translated ones (Gen/Consts.v); proofs in Proofs/CheckFacts.v. *)
From Coq Require Import List NArith Bool Lia String.
From Breadlog Require Import Model.Peg Model.Text Model.Regex Model.Glue Model.Tables Model.Utf8 Model.Driver Model.History.
From Breadlog Require Import Gen.Consts.
From Breadlog Require Import Proofs.RewriteFacts Proofs.WorldFacts Proofs.DriverFacts Proofs.AllocFacts Proofs.RunFacts Proofs.HistoryFacts Proofs.CheckFacts.
From Breadlog Require Import Model.Lock Proofs.LockFacts.
From Breadlog Require Import Properties.Common.
Import ListNotations.
Open Scope N_scope.

Open Scope string_scope.

(* the serde defaults, as translated from src/config/context.rs: for each YAML key the value returned by the
   function its #[serde(default = "..")] attribute names (whatever function and struct are called), and the set
   of keys that have a default at all *)
Theorem C16_defaults :
  c_default_use_cache = true /\ c_default_rust_structured = false /\
  c_default_rust_extensions = [[114; 115]] /\
  serde_default_keys = ["extensions"; "rust"; "structured"; "use_cache"].
Proof. vm_compute. repeat split. Qed.

(* use_cache = false: the lock is not consulted (the run is the same whatever the lock holds) and
   no lock operation is performed -- edit mode; check mode performs no operation at all (C04) *)
Theorem C16_no_cache_no_lock : forall rc disc lk o,
  rc_use_cache rc = false ->
  cached_id rc lk = None /\
  Forall (fun e => e <> ELockTrunc /\ forall n, e <> ELockWrite n)
         (ro_effs (run_edit the_params find c_START_REFERENCE_ID rc disc lk o)) /\
  run_edit the_params find c_START_REFERENCE_ID rc disc lk o =
  run_edit the_params find c_START_REFERENCE_ID rc disc LAbsent o.
Proof. exact (no_cache_no_lock_ops the_params find c_START_REFERENCE_ID). Qed.

(* a lock that cannot be parsed is ignored in favour of scanning the code *)
Theorem C16_corrupt_lock_ignored : forall rc disc o,
  run_edit the_params find c_START_REFERENCE_ID rc disc LCorrupt o =
  run_edit the_params find c_START_REFERENCE_ID rc disc LAbsent o.
Proof. exact (corrupt_lock_is_ignored the_params find c_START_REFERENCE_ID). Qed.

(* with the cache in use, a run that reaches its end writes the lock, the value is one above the
   ids handed out, and the next run starts from it (C02_lock_covers_ids gives the value; here:
   a valid lock is where the next run starts) *)
Theorem C16_next_run_starts_from_lock : forall rc L,
  rc_use_cache rc = true -> cached_id rc (LValid L) = Some L.
Proof. intros rc L H. unfold cached_id. rewrite H. reflexivity. Qed.

(* ... and at the level of the lock FILE'S TEXT (Model/Lock.v: the text written is the translated
   CACHE_EDIT_WARNING followed by `<field>: <decimal>\n`, where <field> is the translated name of the only
   field of struct Cache; the reader models serde_yaml on the shapes such files have and says RUnknown
   elsewhere): for EVERY id a lock can record, what the tool writes is read back as that id *)
Theorem C16_lock_text_roundtrip : forall n, n <= 4294967295 -> lock_read (lock_text n) = RValid n.
Proof. exact lock_roundtrip. Qed.

(* other shapes that still hold the number -- explicit document start (older versions wrote it), CRLF line
   ends, comment lines after the entry, indentation and blanks around the colon -- and shapes that do not:
   empty, comments only (no mapping: ignored in favour of scanning), a value above u32::MAX; a value with
   leading zeros is outside the modelled subset *)
Theorem C16_lock_text_shapes :
  let key := c_lock_field in
  lock_read (c_CACHE_EDIT_WARNING ++ [45; 45; 45; 10] ++ key ++ [58; 32; 49; 48; 48; 10])%list = RValid 100 /\
  lock_read (flat_map (fun c : N => if (c =? 10)%N then [13; 10] else [c]) (lock_text 100)) = RValid 100 /\
  lock_read (lock_text 100 ++ [35; 32; 109; 101; 114; 103; 101; 100; 10])%list = RValid 100 /\
  lock_read ([32; 32] ++ key ++ [32; 58; 9; 55; 32; 32; 10])%list = RValid 7 /\
  lock_read [] = RCorrupt /\ lock_read c_CACHE_EDIT_WARNING = RCorrupt /\
  lock_read (key ++ [58; 32; 53; 48; 48; 48; 48; 48; 48; 48; 48; 48; 10])%list = RCorrupt /\
  lock_read (key ++ [58; 32; 48; 48; 55; 10])%list = RUnknown.
Proof. exact lock_variants_read. Qed.

(* discovery error (missing / non-directory source dir) or no in-scope file: both modes exit
   non-zero and perform no mutating operation *)
Theorem C16_nothing_to_scan : forall rc lk o disc,
  disc = None \/ disc = Some [] ->
  ro_exit (run_edit the_params find c_START_REFERENCE_ID rc disc lk o) = XErr /\
  ro_effs (run_edit the_params find c_START_REFERENCE_ID rc disc lk o) = [] /\
  ro_exit (run_check find rc disc o) = XErr /\
  ro_effs (run_check find rc disc o) = [].
Proof. intros rc lk o. exact (nothing_to_scan_fails the_params find c_START_REFERENCE_ID rc lk o). Qed.

Example C16_nonvacuous :
  let f := utf8_encode [105;110;102;111;33;40;34;98;34;41;59] in
  let cfg := mkConfig false [([108;111;103], [105;110;102;111])] in
  let o := mkOracle None None (fun _ => false) (fun _ => false) (fun _ => FNone) LkOk in
  w_lock (after (mkRunCfg cfg true) [f] LAbsent o) = LValid 2 /\
  w_lock (after (mkRunCfg cfg false) [f] (LValid 9) o) = LValid 9 /\
  map id3 (ro_ids (edit (mkRunCfg cfg false) [f] (LValid 9) o)) = [1] /\
  map id3 (ro_ids (edit (mkRunCfg cfg true) [f] (LValid 9) o)) = [9] /\
  map id3 (ro_ids (edit (mkRunCfg cfg true) [f] LCorrupt o)) = [1].
Proof. vm_compute. repeat split; reflexivity. Qed.

Print Assumptions C16_defaults.
Print Assumptions C16_no_cache_no_lock.
Print Assumptions C16_corrupt_lock_ignored.
Print Assumptions C16_nothing_to_scan.
Print Assumptions C16_lock_text_roundtrip.
Print Assumptions C16_lock_text_shapes.
