(* C16 -- configuration switches and defaults mean what the guide says.
   The defaults are the translated ones (Gen/Consts.v); proofs in Proofs/CheckFacts.v. *)
From Coq Require Import List NArith Bool Lia String.
From Breadlog Require Import Model.Peg Model.Text Model.Regex Model.Glue Model.Tables Model.Utf8 Model.Driver Model.History.
From Breadlog Require Import Gen.Consts.
From Breadlog Require Import Proofs.RewriteFacts Proofs.WorldFacts Proofs.DriverFacts Proofs.AllocFacts Proofs.RunFacts Proofs.HistoryFacts Proofs.CheckFacts.
From Breadlog Require Import Properties.Common.
Import ListNotations.
Open Scope N_scope.

Open Scope string_scope.

(* the serde defaults, as translated from src/config/context.rs *)
Theorem C16_defaults :
  c_default_use_cache = true /\ c_default_rust_structured = false /\
  c_default_rust_extensions = [[114; 115]] /\
  In ("Config", "use_cache", "default_use_cache") serde_defaults /\
  In ("RustConfig", "structured", "default_rust_structured") serde_defaults /\
  In ("RustConfig", "extensions", "default_rust_extensions") serde_defaults.
Proof. vm_compute. repeat split; auto 10. Qed.

(* use_cache = false: the lock is not consulted (the run is the same whatever the lock holds) and
   no lock operation is performed -- edit mode; check mode performs no operation at all (C04) *)
Theorem C16_no_cache_no_lock : forall rc disc lk o,
  rc_use_cache rc = false ->
  cached_id rc lk = None /\
  Forall (fun e => e <> ELockTrunc /\ forall n, e <> ELockWrite n)
         (ro_effs (run_edit the_params find c_START_REFERENCE_ID rc disc lk o)) /\
  run_edit the_params find c_START_REFERENCE_ID rc disc lk o =
  run_edit the_params find c_START_REFERENCE_ID rc disc LAbsent o.
Proof. exact (no_cache_no_lock_ops the_params find c_START_REFERENCE_ID). Qed.

(* a lock that cannot be parsed is ignored in favour of scanning the code *)
Theorem C16_corrupt_lock_ignored : forall rc disc o,
  run_edit the_params find c_START_REFERENCE_ID rc disc LCorrupt o =
  run_edit the_params find c_START_REFERENCE_ID rc disc LAbsent o.
Proof. exact (corrupt_lock_is_ignored the_params find c_START_REFERENCE_ID). Qed.

(* with the cache in use, a run that reaches its end writes the lock, the value is one above the
   ids handed out, and the next run starts from it (C02_lock_covers_ids gives the value; here:
   a valid lock is where the next run starts) *)
Theorem C16_next_run_starts_from_lock : forall rc L,
  rc_use_cache rc = true -> cached_id rc (LValid L) = Some L.
Proof. intros rc L H. unfold cached_id. rewrite H. reflexivity. Qed.

(* discovery error (missing / non-directory source dir) or no in-scope file: both modes exit
   non-zero and perform no mutating operation *)
Theorem C16_nothing_to_scan : forall rc lk o disc,
  disc = None \/ disc = Some [] ->
  ro_exit (run_edit the_params find c_START_REFERENCE_ID rc disc lk o) = XErr /\
  ro_effs (run_edit the_params find c_START_REFERENCE_ID rc disc lk o) = [] /\
  ro_exit (run_check find rc disc o) = XErr /\
  ro_effs (run_check find rc disc o) = [].
Proof. intros rc lk o. exact (nothing_to_scan_fails the_params find c_START_REFERENCE_ID rc lk o). Qed.

Example C16_nonvacuous :
  let f := utf8_encode [105;110;102;111;33;40;34;98;34;41;59] in
  let cfg := mkConfig false [([108;111;103], [105;110;102;111])] in
  let o := mkOracle None None (fun _ => false) (fun _ => false) (fun _ => FNone) LkOk in
  w_lock (after (mkRunCfg cfg true) [f] LAbsent o) = LValid 2 /\
  w_lock (after (mkRunCfg cfg false) [f] (LValid 9) o) = LValid 9 /\
  map id3 (ro_ids (edit (mkRunCfg cfg false) [f] (LValid 9) o)) = [1] /\
  map id3 (ro_ids (edit (mkRunCfg cfg true) [f] (LValid 9) o)) = [9] /\
  map id3 (ro_ids (edit (mkRunCfg cfg true) [f] LCorrupt o)) = [1].
Proof. vm_compute. repeat split; reflexivity. Qed.

Print Assumptions C16_defaults.
Print Assumptions C16_no_cache_no_lock.
Print Assumptions C16_corrupt_lock_ignored.
Print Assumptions C16_nothing_to_scan.
