(* C09 -- edits preserve program behaviour apart from the added reference.   (PARTIAL)
   What is proved is about MODELS of format_args! and of the log macro arms (Model/FormatStr.v);
   rustc and the real macros are not verified: the check compiles and runs generated programs
   before and after the edit (translation validation). *)
From Coq Require Import List NArith Bool Lia.
From Breadlog Require Import Model.Peg Model.Text Model.Regex Model.Glue Model.Tables Model.FormatStr.
From Breadlog Require Import Gen.Regexes Gen.Consts.
From Breadlog Require Import Proofs.DecimalFacts Proofs.RegexFacts Proofs.FormatFacts.
Import ListNotations.
Open Scope N_scope.

(* the token Breadlog inserts into a message, built from the translated format pieces *)
Definition msg_token (n : N) : list N := insertable the_params (mkEntry 0 1 1 None [] KString None None) n.

(* it contains no brace, whatever the number: it cannot start, end or disturb a placeholder *)
Theorem C09_token_has_no_brace : forall n, no_brace (msg_token n) = true.
Proof.
  intros n. unfold msg_token, insertable. cbn [e_prefix e_suffix p_fmt_default the_params fst snd].
  assert (Hd : no_brace (dec n) = true).
  { destruct (dec_spec n) as (_ & Hdig & _). induction (dec n) as [|c l IH]; [reflexivity|].
    cbn [forallb] in Hdig. apply andb_true_iff in Hdig. destruct Hdig as [Hc Hl]. cbn [no_brace].
    rewrite (IH Hl). unfold is_ascii_digit in Hc. apply andb_true_iff in Hc. destruct Hc as [H1 H2].
    apply N.leb_le in H1, H2. destruct (N.eqb_spec c 123); [lia|]. destruct (N.eqb_spec c 125); [lia|]. reflexivity. }
  assert (Happ : forall a b, no_brace a = true -> no_brace b = true -> no_brace (a ++ b) = true).
  { induction a as [|x a IH]; intros b Ha Hb; [exact Hb|]. cbn [no_brace app] in *.
    apply andb_true_iff in Ha. destruct Ha as [Hx Ha]. rewrite Hx. cbn. apply IH; assumption. }
  apply Happ; [reflexivity|]. apply Happ; [exact Hd|reflexivity].
Qed.

(* message style: the edited statement (format string prefixed with the token) yields a record with
   the same level, target and key-values whose message is the token followed by the old message --
   and it compiles iff the original did (model of format_args!) *)
Theorem C09_message_style_record : forall n s,
  expand (edit_message (msg_token n) s) =
  match expand s with
  | Some r => Some (mkRecord (r_level r) (r_target r) (r_kvs r) (msg_token n ++ r_message r))
  | None => None
  end.
Proof. intros n s. apply edit_message_record. apply C09_token_has_no_brace. Qed.

(* ... and the documented regex extracts exactly the assigned number from that message *)
Theorem C09_documented_regex_extracts : forall (n : N) (rest : list N),
  n <= 4294967295 ->
  exists c se,
    captures re_documented (msg_token n ++ rest) = Some c /\ get_cap c 1 = Some se /\
    cap_text (msg_token n ++ rest) se = dec n.
Proof.
  intros n rest Hn. destruct (documented_regex_token n rest Hn) as (c & se & H1 & H2 & H3 & _).
  exists c, se. repeat split; assumption.
Qed.

(* key-value style: the edited statement (ref = N added in front of the key-values) yields the
   same record plus that key-value; level, target, message and the other key-values are unchanged *)
Theorem C09_structured_style_record : forall n s,
  expand (edit_structured c_REF_KVP_KEY (dec n) s) =
  match expand s with
  | Some r => Some (mkRecord (r_level r) (r_target r) ((c_REF_KVP_KEY, dec n) :: r_kvs r) (r_message r))
  | None => None
  end.
Proof. intros n s. apply edit_structured_record. Qed.

Example C09_nonvacuous :
  (* "took {} ms, {{ok}}" with value "12", level 3, target "db", one key-value *)
  let s := mkStmt 3 (Some [100;98]) [([107], [49])] [116;111;111;107;32;123;125;32;109;115;44;32;123;123;111;107;125;125] [[49;50]] in
  option_map r_message (expand s) = Some [116;111;111;107;32;49;50;32;109;115;44;32;123;111;107;125] /\
  option_map r_message (expand (edit_message (msg_token 7) s)) =
    Some ([91;114;101;102;58;32;55;93;32] ++ [116;111;111;107;32;49;50;32;109;115;44;32;123;111;107;125]).
Proof. vm_compute. split; reflexivity. Qed.

Print Assumptions C09_token_has_no_brace.
Print Assumptions C09_message_style_record.
Print Assumptions C09_documented_regex_extracts.
Print Assumptions C09_structured_style_record.
