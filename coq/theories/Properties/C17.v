(* C17 -- no input makes Breadlog panic or hang.
   Statements only; proofs in Proofs/PegFacts.v, TokenFacts.v, GlueFacts.v.  The conditions on the
   grammar are computed on the grammar GENERATED from src/parser/rust_grammar.pest on this run. *)
From Coq Require Import List NArith Bool Lia String.
From Breadlog Require Import Model.Peg Model.Text Model.Regex Model.Glue Model.Tables Model.Utf8 Model.Driver.
From Breadlog Require Import Gen.Grammar Gen.Consts.
From Breadlog Require Import Proofs.PegFacts Proofs.TokenFacts Proofs.GlueFacts Proofs.NoPanic Proofs.ValidUtf8.
From Breadlog Require Import Properties.Common.
Import ListNotations.
Open Scope N_scope.

(* the generated grammar is well formed: no repetition body (of the start rule, of WHITESPACE or of
   COMMENT) can succeed without consuming, and the implicit skip can never fail *)
Theorem C17_grammar_wf : wf_grammar g_whitespace g_comment g_file = true.
Proof. vm_compute. reflexivity. Qed.

(* ... hence parsing ANY text terminates (pest would loop forever exactly where the model says
   Diverge; the model's repetition loop provably never runs out of fuel otherwise) *)
Theorem C17_parse_terminates : forall t : list N, parse_file t <> Diverge.
Proof. exact (parse_terminates Utab g_whitespace g_comment g_file C17_grammar_wf). Qed.

Lemma the_grammar_ok :
  exists name ty impl body, grammar_ok the_params name ty impl body.
Proof.
  unfold grammar_ok. cbn [p_file the_params p_ws p_comment]. unfold g_file, r_file.
  do 4 eexists. split; [reflexivity|]. split; [reflexivity|].
  split; [exact C17_grammar_wf|]. split; vm_compute; reflexivity.
Qed.

(* For EVERY text and configuration the finder returns normally: it never reaches unreachable!()
   (only log_macro / other_name / EOI tokens can stand directly under `file`), every string slice
   and line/column computation is at char boundaries (node spans are, for any grammar), the
   directive scan slices at the end of the statement's first character, and it cannot hang. *)
Theorem C17_finder_total : forall cfg (t : list N),
  exists es, find cfg t = Done es /\ Forall (fun e => e_pos e <= blen t) es.
Proof.
  destruct the_grammar_ok as (name & ty & impl & body & H).
  exact (entries_total the_params name ty impl body H).
Qed.

Check C17_finder_total : forall cfg (t : list N),
  exists es, find cfg t = Done es /\ Forall (fun e => e_pos e <= blen t) es.

(* ... and every entry position is a byte offset inside the text; since a file that decodes as UTF-8
   has exactly blen(text) bytes (Utf8Facts.decode_length), every byte slice the rewriter takes is in
   range: for EVERY tree, configuration, lock state and oracle (faults, stop points) neither mode of
   the driver model ends in a panic or a hang *)
Theorem C17_edit_never_panics : forall rc disc lk o,
  ro_exit (run_edit the_params find c_START_REFERENCE_ID rc disc lk o) <> XPanic /\
  ro_exit (run_edit the_params find c_START_REFERENCE_ID rc disc lk o) <> XHang.
Proof. exact (run_edit_never_panics the_params find c_START_REFERENCE_ID C17_finder_total). Qed.

Theorem C17_check_never_panics : forall rc disc o,
  ro_exit (run_check find rc disc o) <> XPanic /\ ro_exit (run_check find rc disc o) <> XHang.
Proof. exact (run_check_never_panics find C17_finder_total). Qed.

(* a file that is not valid UTF-8 is skipped, and the run goes on with the other files: in the
   driver model an undecodable file contributes no event and no effect *)
Theorem C17_invalid_utf8_skipped : forall cfg rfail b,
  utf8_decode b = None -> file_entries find cfg rfail b = FUnreadable.
Proof. intros cfg rfail b H. unfold file_entries. destruct rfail; [reflexivity|]. rewrite H. reflexivity. Qed.

(* consequently no run of the driver model ends in the finder's panic or hang outcome:
   file_entries never yields FPanics / FHangs *)
Theorem C17_no_file_panics : forall cfg rfail b,
  file_entries find cfg rfail b <> FPanics /\ file_entries find cfg rfail b <> FHangs.
Proof.
  intros cfg rfail b. unfold file_entries. destruct rfail; [split; discriminate|].
  destruct (utf8_decode b) as [t|]; [|split; discriminate].
  destruct (C17_finder_total cfg t) as (es & -> & _). split; discriminate.
Qed.

(* non-vacuity: inputs that used to panic (multi-byte first character of a macro name) or to be
   mis-scanned now give ordinary results *)
Example C17_nonvacuous :
  find (mkConfig false [([108;111;103], [105;110;102;111])]) [252;110;102;111;33;40;34;120;34;41;59] = Done [] /\
  (exists e, find (mkConfig false [([108;111;103], [105;110;102;111])]) [105;110;102;111;33;40;34;252;34;41] = Done [e]) /\
  find (mkConfig true []) [] = Done [].
Proof. vm_compute. split; [reflexivity|]. split; [eexists; reflexivity|reflexivity]. Qed.

(* ... and an edit run never turns a readable file into an unreadable one: whatever the tree, configuration, lock
   state, fault oracle and stop point, a file that decoded as UTF-8 before the run decodes after it (it is
   unchanged, or it is the encoding of the old text with ASCII references inserted at character positions:
   C03_every_file_text) -- so the next run does not skip it *)
Theorem C17_readable_stays_readable : forall rc files lk o j b t,
  files <> [] -> nth_error files j = Some b -> utf8_decode b = Some t -> o_rfail2 o j = false ->
  exists b' t', nth_error (w_src (after rc files lk o)) j = Some b' /\ utf8_decode b' = Some t'.
Proof.
  intros rc files lk o j b t Hne Hj Hd Hrf.
  destruct (file_after_edit_text rc files lk o j b t Hne Hj Hd Hrf) as [H|(es & c0 & t' & _ & _ & H & Hd')].
  - exists b, t. split; assumption.
  - exists (utf8_encode t'), t'. split; assumption.
Qed.

Print Assumptions C17_grammar_wf.
Print Assumptions C17_parse_terminates.
Print Assumptions C17_finder_total.
Print Assumptions C17_readable_stays_readable.
Print Assumptions C17_edit_never_panics.
Print Assumptions C17_check_never_panics.
Print Assumptions C17_invalid_utf8_skipped.
Print Assumptions C17_no_file_panics.
