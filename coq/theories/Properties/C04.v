(* C04 -- check mode never modifies anything.  Proof in Proofs/RunFacts.v. *)
From Coq Require Import List NArith Bool Lia.
From Breadlog Require Import Model.Peg Model.Text Model.Regex Model.Glue Model.Tables Model.Utf8 Model.Driver Model.History.
From Breadlog Require Import Gen.Consts.
From Breadlog Require Import Proofs.RewriteFacts Proofs.WorldFacts Proofs.DriverFacts Proofs.AllocFacts Proofs.RunFacts Proofs.HistoryFacts Proofs.CheckFacts.
From Breadlog Require Import Properties.Common.
Import ListNotations.
Open Scope N_scope.

(* For EVERY tree, configuration, lock state, oracle (read failures, stop point), and also when
   discovery fails or finds nothing: a check run performs no mutating operation at all, so the
   world after it -- and at every crash point of it -- is the world before it. *)
Theorem C04_check_readonly : forall rc disc o w k partial,
  ro_effs (run_check find rc disc o) = [] /\
  apply_effs w (ro_effs (run_check find rc disc o)) = w /\
  crash_world w (ro_effs (run_check find rc disc o)) k partial = w.
Proof.
  intros rc disc o w k partial. rewrite (run_check_no_effects find rc disc o).
  split; [reflexivity|]. split; [reflexivity|].
  unfold crash_world. rewrite firstn_nil. destruct partial, k; reflexivity.
Qed.

Example C04_nonvacuous :
  let f := utf8_encode [105;110;102;111;33;40;34;98;34;41;59] in
  let rc := mkRunCfg (mkConfig false [([108;111;103], [105;110;102;111])]) true in
  let o := mkOracle None None (fun _ => false) (fun _ => false) (fun _ => FNone) LkOk in
  ro_exit (check rc [f] o) = XErr /\ ro_total (check rc [f] o) = Some 1.
Proof. vm_compute. split; reflexivity. Qed.

Print Assumptions C04_check_readonly.
