(* C15 -- only in-scope files are scanned; paths resolve against the config file.
   Statements only; proofs in Proofs/FinderFacts.v, Proofs/RunFacts.v.  Path / walkdir behaviour is a
   hand model (Model/Finder.v) tied to the code by the layout campaign of the check. *)
From Coq Require Import List NArith Bool Lia.
From Breadlog Require Import Model.Peg Model.Text Model.Utf8 Model.Driver Model.Finder Model.Tables.
From Breadlog Require Import Gen.Consts.
From Breadlog Require Import Proofs.RewriteFacts Proofs.WorldFacts Proofs.FinderFacts Proofs.RunFacts.
From Breadlog Require Import Properties.Common.
Import ListNotations.
Open Scope N_scope.

(* the files the finder hands to the driver are EXACTLY the regular files below the source
   directory (at any depth, reached through directories only: a symbolic link is never followed and
   never selected, a directory is never selected) whose file name has one of the configured
   extensions *)
Theorem C15_in_scope_files : forall exts es pth b,
  In (pth, b) (match find_files exts (FDir es) with Some l => l | None => [] end) <->
  exists nm p, pth = nm :: p /\ reaches_in es nm p b /\ in_scope exts (last_name pth) = true.
Proof. exact find_files_spec. Qed.

(* the extension is compared exactly (case-sensitively, whole extension) *)
Theorem C15_extension_exact : forall exts n,
  in_scope exts n = true <-> exists e, extension n = Some e /\ In e exts.
Proof. exact in_scope_spec. Qed.

(* look-alikes with the configured extension [rs]: .RS, .rsx, .rs.bak, no extension, hidden file
   .rs, a name ending in a dot -- none is in scope; a.rs, .x.rs, a.b.rs are *)
Theorem C15_lookalikes :
  let rs := c_default_rust_extensions in
  map (in_scope rs) [[97;46;82;83]; [97;46;114;115;120]; [97;46;114;115;46;98;97;107]; [97;114;115]; [46;114;115]; [97;46]; [114;115]]
    = [false; false; false; false; false; false; false] /\
  map (in_scope rs) [[97;46;114;115]; [46;120;46;114;115]; [97;46;98;46;114;115]] = [true; true; true].
Proof. vm_compute. split; reflexivity. Qed.

(* whatever the finder selected, an edit run touches ONLY those files (by index), temporary files and
   the lock: the number of source files never changes, and every file is its original or its new
   content (C07_crash_atomic / C03_insert_only); a check run touches nothing (C04) *)
Theorem C15_only_selected_files_change : forall rc files lk o j b,
  files <> [] -> nth_error files j = Some b ->
  length (w_src (after rc files lk o)) = length files.
Proof.
  intros rc files lk o j b Hne Hj.
  destruct (edit_final_content the_params find c_START_REFERENCE_ID rc files lk o j b Hne Hj) as [H _]. exact H.
Qed.

(* a relative source directory is resolved against the directory containing the configuration
   file -- for EVERY working directory; an absolute one is used as it is; the lock file is in the
   configuration file's directory *)
Theorem C15_relative_to_config_file : forall cwd cfgfile src,
  p_abs src = false ->
  resolve cwd (effective_source_dir cfgfile src) = pjoin (resolve cwd (config_dir cfgfile)) src.
Proof. exact source_dir_relative_to_config. Qed.

Theorem C15_absolute_source_dir : forall cwd cfgfile src,
  p_abs src = true -> resolve cwd (effective_source_dir cfgfile src) = src.
Proof. exact source_dir_absolute_kept. Qed.

Theorem C15_lock_next_to_config : forall cwd cfgfile,
  resolve cwd (lock_path cfgfile c_CACHE_FILENAME) =
  pjoin (resolve cwd (config_dir cfgfile)) (mkPath false [c_CACHE_FILENAME]).
Proof. intros. apply lock_next_to_config. Qed.

Example C15_nonvacuous :
  let rs := [114;115] in
  let tree := FCons [97;46;114;115] (FFile [1]) (FCons [108;46;114;115] FSymlink
              (FCons [100;46;114;115] (FDir (FCons [98;46;114;115] (FFile [2]) (FCons [99;46;116;120;116] (FFile [3]) FNil))) FNil)) in
  find_files [rs] (FDir tree) = Some [([[97;46;114;115]], [1]); ([[100;46;114;115]; [98;46;114;115]], [2])].
Proof. vm_compute. reflexivity. Qed.

Print Assumptions C15_in_scope_files.
Print Assumptions C15_extension_exact.
Print Assumptions C15_lookalikes.
Print Assumptions C15_only_selected_files_change.
Print Assumptions C15_relative_to_config_file.
Print Assumptions C15_lock_next_to_config.
