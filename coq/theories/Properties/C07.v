(* C07 -- source files are replaced atomically at every crash and fault point.
   Proof in Proofs/RunFacts.v (edit_crash_atomic) over Proofs/WorldFacts.v. *)
From Coq Require Import List NArith Bool Lia.
From Breadlog Require Import Model.Peg Model.Text Model.Regex Model.Glue Model.Tables Model.Utf8 Model.Driver Model.History.
From Breadlog Require Import Gen.Consts.
From Breadlog Require Import Proofs.RewriteFacts Proofs.WorldFacts Proofs.DriverFacts Proofs.AllocFacts Proofs.RunFacts Proofs.HistoryFacts Proofs.CheckFacts.
From Breadlog Require Import Properties.Common.
Import ListNotations.
Open Scope N_scope.

(* For EVERY tree, configuration, lock state; EVERY fault oracle (any file failing at temp
   creation, at any write/flush, or at the rename; read failures; stop at any poll; failing lock
   write); EVERY kill point k (after the first k mutating operations, the next one -- if it is a
   write -- possibly carried out in part): every source file holds either its original bytes or
   exactly the content it has after the complete run (which C03 characterises), and the number
   of source files is unchanged.  Only rename(2) ever touches a source file. *)
Theorem C07_crash_atomic : forall rc files lk o k partial j b,
  files <> [] -> nth_error files j = Some b ->
  let wk := crash_world (world0 files lk) (ro_effs (edit rc files lk o)) k partial in
  length (w_src wk) = length files /\
  (nth_error (w_src wk) j = Some b \/
   nth_error (w_src wk) j = nth_error (w_src (after rc files lk o)) j).
Proof. exact (edit_crash_atomic the_params find c_START_REFERENCE_ID). Qed.

Check C07_crash_atomic : forall rc files lk o k partial j b,
  files <> [] -> nth_error files j = Some b ->
  let wk := crash_world (world0 files lk) (ro_effs (edit rc files lk o)) k partial in
  length (w_src wk) = length files /\
  (nth_error (w_src wk) j = Some b \/
   nth_error (w_src wk) j = nth_error (w_src (after rc files lk o)) j).

(* non-vacuity: two files; a write fault on the first (its temp file is unlinked, it stays
   original), the second is replaced; at crash point 3 nothing has been replaced yet *)
Example C07_nonvacuous :
  let f := utf8_encode [105;110;102;111;33;40;34;98;34;41;59] in
  let rc := mkRunCfg (mkConfig false [([108;111;103], [105;110;102;111])]) true in
  let o := mkOracle None None (fun _ => false) (fun _ => false)
                    (fun i => match i with O => FWrite 1 | _ => FNone end) LkOk in
  w_src (after rc [f; f] LAbsent o) <> [f; f] /\
  nth_error (w_src (after rc [f; f] LAbsent o)) 0 = Some f /\
  w_src (crash_world (world0 [f; f] LAbsent) (ro_effs (edit rc [f; f] LAbsent o)) 3 (Some [105])) = [f; f] /\
  ro_exit (edit rc [f; f] LAbsent o) = XErr.
Proof. vm_compute. repeat split; try reflexivity. discriminate. Qed.

Print Assumptions C07_crash_atomic.
