(* C18 -- SIGINT and SIGTERM stop a run cleanly.
   The registration is the translated one (Gen/Consts.v: the first argument of every
   signal_hook::flag::register call in main, with | as bitwise or and Linux signal numbers). *)
From Coq Require Import List NArith Bool Lia String.
From Breadlog Require Import Model.Peg Model.Text Model.Regex Model.Glue Model.Tables Model.Utf8 Model.Driver Model.History.
From Breadlog Require Import Gen.Consts.
From Breadlog Require Import Proofs.RewriteFacts Proofs.WorldFacts Proofs.DriverFacts Proofs.AllocFacts Proofs.RunFacts Proofs.HistoryFacts Proofs.CheckFacts.
From Breadlog Require Import Properties.Common.
Import ListNotations.
Open Scope N_scope.

Definition SIGINT : N := 2.
Definition SIGTERM : N := 15.

(* both signals are registered for the stop flag -- each as itself, not as part of an OR *)
Theorem C18_both_signals_registered :
  In SIGINT registered_signals /\ In SIGTERM registered_signals.
Proof. vm_compute. auto. Qed.

(* check mode: a stop request seen at ANY poll of the pass (before any file, between any two
   files, after the last one) never lets the check pass *)
Theorem C18_interrupted_check_never_passes : forall rc files o k,
  files <> [] -> o_stop2 o = Some k -> (k <= List.length files)%nat ->
  ro_exit (check rc files o) <> XOk.
Proof. exact (check_stop_fails find). Qed.

(* edit mode: a stop request seen at ANY poll of the insert pass: exit 0 is only possible when
   that pass was never needed (nothing lacked a reference); a stop seen in the first pass: failure
   and nothing touched *)
Theorem C18_interrupted_edit : forall rc files lk o k,
  o_stop2 o = Some k -> (k <= List.length files)%nat ->
  ro_exit (edit rc files lk o) = XOk ->
  ro_effs (edit rc files lk o) = [] /\ ro_total (edit rc files lk o) = None /\
  ro_ids (edit rc files lk o) = [].
Proof. exact (edit_stop_fails the_params find c_START_REFERENCE_ID). Qed.

Theorem C18_interrupted_first_pass : forall rc files lk o k,
  files <> [] -> cached_id rc lk = None -> o_stop1 o = Some k -> (k <= List.length files)%nat ->
  ro_exit (edit rc files lk o) <> XOk /\ ro_effs (edit rc files lk o) = [].
Proof. exact (edit_stop_first_pass the_params find c_START_REFERENCE_ID). Qed.

(* ... and, the stop point being part of the oracle, C07_crash_atomic (every source file original
   or complete), C02_lock_covers_ids (the lock covers every id written) and C08_no_temp_left hold
   for interrupted runs as they are stated. *)

Example C18_nonvacuous :
  let f := utf8_encode [105;110;102;111;33;40;34;98;34;41;59] in
  let rc := mkRunCfg (mkConfig false [([108;111;103], [105;110;102;111])]) true in
  let o := mkOracle None (Some 1%nat) (fun _ => false) (fun _ => false) (fun _ => FNone) LkOk in
  ro_exit (edit rc [f; f] (LValid 4) o) = XErr /\
  map id3 (ro_ids (edit rc [f; f] (LValid 4) o)) = [4] /\
  w_lock (after rc [f; f] (LValid 4) o) = LValid 5 /\
  ro_exit (check rc [f; f] o) = XErr.
Proof. vm_compute. repeat split; reflexivity. Qed.

Print Assumptions C18_both_signals_registered.
Print Assumptions C18_interrupted_check_never_passes.
Print Assumptions C18_interrupted_edit.
Print Assumptions C18_interrupted_first_pass.
