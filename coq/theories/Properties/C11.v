(* C11 -- comments, unconfigured macros and non-literal invocations are never touched.
   Statements only; proofs in Proofs/RuleLemmas.v (against the GENERATED grammar) and GlueSpec.v. *)
From Coq Require Import List NArith Bool Lia String.
From Breadlog Require Import Model.Peg Model.Text Model.Regex Model.Glue Model.Tables.
From Breadlog Require Import Gen.Grammar Gen.Consts.
From Breadlog Require Import Proofs.PegFacts Proofs.RuleLemmas Proofs.GlueSpec Proofs.StatementLemmas Proofs.ArgLemmas Proofs.FileSpec.
From Breadlog Require Import Properties.Common.
Import ListNotations.
Open Scope N_scope.

(* (1) COMMENTS.  A file that consists of comments and whitespace only -- line comments with ANY
   text (commented-out statements included, also as the last line WITHOUT a trailing newline), block
   and doc comments with any text not containing the closing delimiter, any whitespace -- yields no
   entry at all, in either style, for every configured macro set: nothing is reported, nothing is
   edited (the driver only ever acts on entries: C03, C05). *)
Theorem C11_comment_only_file : forall cfg ws0 gs,
  forallb is_ws_char ws0 = true -> groups_ok gs [] ->
  find cfg (ws0 ++ render_groups gs)%list = Done [].
Proof. exact find_layout_only. Qed.

(* ... and anywhere in a file, comments are consumed by the implicit skip as a whole, whatever
   their text (C10_layout_is_skipped is the same theorem) *)
Theorem C11_comments_are_skipped : forall ws0 gs tail p,
  forallb is_ws_char ws0 = true -> groups_ok gs tail -> code_ahead tail ->
  skipf Utab g_whitespace g_comment (mkIn (ws0 ++ render_groups gs ++ tail)%list p)
  = Some (mkIn tail (p + blen ws0 + blen (render_groups gs))).
Proof. exact skip_layout. Qed.

(* (2) UNCONFIGURED MACROS.  A name counts only if it IS a configured name or the configured module
   path followed by :: and the name (C10_configured_names); for any other name -- a different name,
   a configured name as a mere prefix or suffix, a different module path -- and for a statement under
   an ignore directive, the glue produces no entry, whatever the arguments are *)
Theorem C11_unconfigured_or_ignored_is_skipped : forall cfg code s e ns ne nk rest_kids name,
  let found := Node "log_macro" s e (Node "macro_name" ns ne nk :: rest_kids) in
  (directive_check the_params (p_ignore the_params) code ns (p_comment_re the_params) = Some true \/
   (directive_check the_params (p_ignore the_params) code ns (p_comment_re the_params) = Some false /\
    str_slice code ns ne = Some name /\ macro_of_interest name cfg = false)) ->
  one_macro the_params cfg code found = Skip.
Proof. exact (one_macro_skipped the_params). Qed.

(* ON EVERY FILE OF THE CANONICAL FILE LANGUAGE (Proofs/FileSpec.v; see C10_canonical_files): whatever
   comments (with any text, commented-out statements included), names, paths, other characters and
   statements of macros that are NOT configured the file contains -- in any number and order, with any
   layout -- the finder returns NOTHING when no statement carries a configured name ... *)
Theorem C11_canonical_nothing_else : forall cfg its fin,
  items_ok its fin ->
  (forall l it n, In (l, it) its -> stmt_name it = Some n -> macro_of_interest (render_name n) cfg = false) ->
  find cfg (render_items its fin) = Done [].
Proof. exact find_canonical_none. Qed.

(* ... and in general exactly one entry per statement with a configured name and no ignore directive,
   none for anything else: the entry list is the concatenation, over the items in file order, of
   `step_entries (stmt_step ...)` for statements and of nothing for every other item. *)
Theorem C11_canonical_only_statements : forall cfg its fin,
  items_ok its fin ->
  let code := render_items its fin in
  find cfg code = Done (expected cfg code its []) /\
  (forall pre n l us, macro_of_interest (render_name n) cfg = false -> step_entries (stmt_step cfg code pre n l us) = []) /\
  (forall pre n a, macro_of_interest (render_name n) cfg = false -> step_entries (stmt_stepA cfg code pre n a) = []) /\
  (forall pre n l us, directive_check the_params (p_ignore the_params) code (blen pre) (p_comment_re the_params) = Some true ->
                      stmt_step cfg code pre n l us = Skip) /\
  (forall pre n a, directive_check the_params (p_ignore the_params) code (blen pre) (p_comment_re the_params) = Some true ->
                   stmt_stepA cfg code pre n a = Skip).
Proof. exact find_canonical_only_statements. Qed.

(* NOT proved: that configured names without a literal message (bracketed macro calls whose arguments
   do not begin with a string literal) and macro-like text inside string literals never parse as
   log_macro for all texts; these decoys are covered by the oracle campaign. *)

(* non-vacuity: commented-out statements in all comment styles, the last one without newline *)
Example C11_nonvacuous :
  (* // info!("a")\n/* warn!("b") */ /// error!("c")\n//! x\n// info!("eof") *)
  let file := [47;47;32;105;110;102;111;33;40;34;97;34;41;10;47;42;32;119;97;114;110;33;40;34;98;34;41;32;42;47;32;47;47;47;32;101;114;114;111;114;33;40;34;99;34;41;10;47;47;33;32;120;10;47;47;32;105;110;102;111;33;40;34;101;111;102;34;41] in
  file = ([] ++ render_groups
            [(CLine [32;105;110;102;111;33;40;34;97;34;41], [10]);
             (CBlock [32;119;97;114;110;33;40;34;98;34;41;32], [32]);
             (CLine [47;32;101;114;114;111;114;33;40;34;99;34;41], [10]);
             (CLine [33;32;120], [10]);
             (CLine [32;105;110;102;111;33;40;34;101;111;102;34;41], [])])%list /\
  groups_ok [(CLine [32;105;110;102;111;33;40;34;97;34;41], [10]);
             (CBlock [32;119;97;114;110;33;40;34;98;34;41;32], [32]);
             (CLine [47;32;101;114;114;111;114;33;40;34;99;34;41], [10]);
             (CLine [33;32;120], [10]);
             (CLine [32;105;110;102;111;33;40;34;101;111;102;34;41], [])] [] /\
  find (mkConfig false [([108;111;103], [105;110;102;111])]) file = Done [].
Proof. cbv zeta. split; [reflexivity|]. split; [cbn; repeat split; reflexivity|vm_compute; reflexivity]. Qed.

Print Assumptions C11_comment_only_file.
Print Assumptions C11_canonical_nothing_else.
Print Assumptions C11_canonical_only_statements.
Print Assumptions C11_comments_are_skipped.
Print Assumptions C11_unconfigured_or_ignored_is_skipped.
