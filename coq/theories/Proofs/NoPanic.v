(* NoPanic.v -- with a total finder whose entry positions lie inside the text, no run of the
   driver model ends in a panic or a hang: every byte slice the rewriter takes is in range. *)
From Coq Require Import List Arith NArith Bool Lia.
From Breadlog Require Import Model.Peg Model.Text Model.Regex Model.Glue Model.Utf8 Model.Driver.
From Breadlog Require Import Proofs.PegFacts Proofs.BytesFacts Proofs.Utf8Facts.
Import ListNotations.
Open Scope N_scope.

Lemma bslice_some b a c : a <= c -> c <= blength b -> exists ch, bslice b a c = Some ch.
Proof.
  intros Hac Hc. unfold bslice. destruct (N.ltb_spec c a); [lia|].
  destruct (bdrop_le_some b a ltac:(lia)) as [r Hr]. rewrite Hr.
  destruct (bdrop_some_le _ _ _ Hr) as [_ Hl].
  apply btake_le_some. lia.
Qed.

Section NoPanic.
  Variable P : params.
  Variable finder : config -> text -> outcome (list entry).
  Variable start_id : N.
  Hypothesis finder_total :
    forall cfg t, exists es, finder cfg t = Done es /\ Forall (fun e => e_pos e <= blen t) es.

  Lemma insert_loop_no_panic f b flt : forall todo cursor ctr w created effs_rev ids_rev,
    Forall (fun e => e_pos e <= blength b) todo -> cursor <= blength b ->
    insert_loop P f b todo cursor ctr flt w created effs_rev ids_rev <> IPanic.
  Proof.
    induction todo as [|e todo IH]; intros cursor ctr w created effs_rev ids_rev Hpos Hcur; cbn [insert_loop].
    - destruct (N.ltb_spec cursor (blength b)) as [Hlt|Hge].
      + destruct (bslice_some b cursor (blength b) ltac:(lia) ltac:(lia)) as [ch ->].
        cbn [andb]. unfold fail_res. destruct (is_fwrite flt w); [discriminate|].
        destruct (is_fwrite flt (S w)); [discriminate|]. destruct flt; discriminate.
      + cbn [andb]. unfold fail_res. destruct (is_fwrite flt w); [discriminate|]. destruct flt; discriminate.
    - inversion Hpos as [|? ? He Hrest]; subst. unfold fail_res.
      destruct (N.ltb_spec (e_pos e) cursor); [discriminate|].
      destruct (bslice_some b cursor (e_pos e) ltac:(lia) He) as [ch ->].
      destruct (is_fwrite flt w); [discriminate|].
      destruct (u32max <=? ctr); [discriminate|].
      destruct (is_fwrite flt (S w)); [discriminate|].
      apply IH; assumption.
  Qed.

  Lemma forall_filter {A} (Q : A -> Prop) (p : A -> bool) l : Forall Q l -> Forall Q (filter p l).
  Proof. intros H. rewrite Forall_forall in *. intros x Hx. apply filter_In in Hx. apply H. tauto. Qed.

  Lemma insert_map_no_panic f b es ctr flt :
    Forall (fun e => e_pos e <= blength b) es -> insert_map P f b es ctr flt <> IPanic.
  Proof.
    intros Hpos. unfold insert_map. destruct (filter missing_insert es) as [|e0 t0] eqn:Et; [discriminate|].
    assert (Hf : Forall (fun e => e_pos e <= blength b) (e0 :: t0)) by (rewrite <- Et; apply forall_filter; exact Hpos).
    destruct flt; try discriminate; apply insert_loop_no_panic; try exact Hf; lia.
  Qed.

  Lemma file_entries_ok cfg rf b :
    file_entries finder cfg rf b = FUnreadable \/
    exists es, file_entries finder cfg rf b = FEntries es /\ Forall (fun e => e_pos e <= blength b) es.
  Proof.
    unfold file_entries. destruct rf; [left; reflexivity|].
    destruct (utf8_decode b) as [t|] eqn:Ed; [|left; reflexivity].
    destruct (finder_total cfg t) as (es & -> & Hpos). right. exists es. split; [reflexivity|].
    rewrite (decode_length b t Ed). exact Hpos.
  Qed.

  Lemma pass_insert_never_panics cfg stop rfail flt : forall files i st,
    match pass_insert P finder cfg stop rfail flt files i st with PPanic _ | PHang _ => False | _ => True end.
  Proof.
    induction files as [|b files IH]; intros i st; cbn [pass_insert].
    - destruct (stops stop i); exact I.
    - destruct (stops stop i); [exact I|].
      destruct (file_entries_ok cfg (rfail i) b) as [->|(es & -> & Hpos)]; [apply IH|].
      pose proof (insert_map_no_panic i b es (is_ctr st) (flt i) Hpos) as Hn.
      destruct (insert_map P i b es (is_ctr st) (flt i)); [congruence|]. apply IH.
  Qed.

  Lemma pass_nextid_never_panics cfg stop rfail : forall files i acc,
    match pass_nextid finder cfg stop rfail files i acc with PPanic _ | PHang _ => False | _ => True end.
  Proof.
    induction files as [|b files IH]; intros i acc; cbn [pass_nextid].
    - destruct (stops stop i); exact I.
    - destruct (stops stop i); [exact I|].
      destruct (file_entries_ok cfg (rfail i) b) as [->|(es & -> & _)]; apply IH.
  Qed.

  Lemma pass_count_never_panics cfg stop rfail : forall files i reps total,
    match pass_count finder cfg stop rfail files i reps total with PPanic _ | PHang _ => False | _ => True end.
  Proof.
    induction files as [|b files IH]; intros i reps total; cbn [pass_count].
    - destruct (stops stop i); exact I.
    - destruct (stops stop i); [exact I|].
      destruct (file_entries_ok cfg (rfail i) b) as [->|(es & -> & _)]; [apply IH|].
      destruct (count_map i es [] 0). apply IH.
  Qed.

  (* for EVERY tree, configuration, lock state and oracle: neither mode ends in a panic or a hang *)
  Theorem run_edit_never_panics rc disc lk o :
    ro_exit (run_edit P finder start_id rc disc lk o) <> XPanic /\
    ro_exit (run_edit P finder start_id rc disc lk o) <> XHang.
  Proof.
    unfold run_edit. destruct disc as [[|b0 fs]|]; try (split; discriminate).
    set (files := b0 :: fs).
    assert (Hgo : forall s,
      match pass_insert P finder (rc_cfg rc) (o_stop2 o) (o_rfail2 o) (o_fault o) files 0 (mkIst s false 0 [] []) with
      | PPanic _ | PHang _ => False | _ => True end) by (intros; apply pass_insert_never_panics).
    destruct (cached_id rc lk) as [id|].
    - specialize (Hgo (N.max id start_id)). destruct (pass_insert _ _ _ _ _ _ _ _ _) as [st|st|st|st]; try contradiction; cbn;
        split; try discriminate; destruct (is_failure st); discriminate.
    - pose proof (pass_nextid_never_panics (rc_cfg rc) (o_stop1 o) (o_rfail1 o) files 0 []) as H1.
      destruct (pass_nextid _ _ _ _ _ _ _) as [a|a|a|rs]; try contradiction; try (split; discriminate).
      destruct (nextid_reduce start_id rs) as [next miss]. destruct (miss =? 0); [split; discriminate|].
      specialize (Hgo next). destruct (pass_insert _ _ _ _ _ _ _ _ _) as [st|st|st|st]; try contradiction; cbn;
        split; try discriminate; destruct (is_failure st); discriminate.
  Qed.

  Theorem run_check_never_panics rc disc o :
    ro_exit (run_check finder rc disc o) <> XPanic /\ ro_exit (run_check finder rc disc o) <> XHang.
  Proof.
    unfold run_check. destruct disc as [[|b0 fs]|]; try (split; discriminate).
    pose proof (pass_count_never_panics (rc_cfg rc) (o_stop2 o) (o_rfail2 o) (b0 :: fs) 0 [] 0) as H.
    destruct (pass_count _ _ _ _ _ _ _ _) as [[r t]|[r t]|[r t]|[r t]]; try contradiction; cbn;
      split; try discriminate; destruct (0 <? t); discriminate.
  Qed.
End NoPanic.
