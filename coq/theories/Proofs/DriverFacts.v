(* DriverFacts.v -- the insert pass of Model/Driver.v as a list of per-file events, and the
   facts about counters, IDs, effects and contents that the property theorems use.
   Everything is for an arbitrary finder (parser + glue), configuration, oracle. *)
From Coq Require Import List Arith NArith Bool Lia Sorted.
From Breadlog Require Import Model.Peg Model.Text Model.Regex Model.Glue Model.Utf8 Model.Driver.
From Breadlog Require Import Proofs.BytesFacts Proofs.RewriteFacts Proofs.WorldFacts.
Import ListNotations.
Open Scope N_scope.

Definition pres_state {A} (r : pres A) : A :=
  match r with PStop a | PPanic a | PHang a | POk a => a end.
Definition pres_ok {A} (r : pres A) : bool := match r with POk _ => true | _ => false end.

Section Pass.
  Variable P : params.
  Variable finder : config -> text -> outcome (list entry).
  Variable cfg : config.
  Variable stop : option nat.
  Variable rfail : nat -> bool.
  Variable flt : nat -> fault.

  Inductive fev :=
  | FvSkip (j : nat)
  | FvFile (j : nat) (b : list N) (es : list entry) (ctr : N) (r : ires).

  Definition ev_apply (st : istate) (ev : fev) : istate :=
    match ev with
    | FvSkip _ => st
    | FvFile j _ _ _ r =>
        mkIst (ir_ctr r) (is_failure st || ir_failure r) (is_count st + ir_count r)
              (is_effs st ++ ir_effs r)
              (is_ids st ++ map (fun pi => (j, fst pi, snd pi)) (ir_ids r))
    end.

  Fixpoint events_ok (i : nat) (files : list (list N)) (ctr : N) (evs : list fev) : Prop :=
    match evs with
    | [] => True
    | ev :: rest =>
        match files with
        | [] => False
        | b :: files' =>
            match ev with
            | FvSkip j =>
                j = i /\ file_entries finder cfg (rfail i) b = FUnreadable /\
                events_ok (S i) files' ctr rest
            | FvFile j b' es c r =>
                j = i /\ b' = b /\ c = ctr /\
                file_entries finder cfg (rfail i) b = FEntries es /\
                insert_map P i b es ctr (flt i) = IRes r /\
                events_ok (S i) files' (ir_ctr r) rest
            end
        end
    end.

  Lemma pass_insert_events : forall files i st,
    exists evs,
      events_ok i files (is_ctr st) evs /\
      pres_state (pass_insert P finder cfg stop rfail flt files i st) = fold_left ev_apply evs st /\
      (pres_ok (pass_insert P finder cfg stop rfail flt files i st) = true ->
       length evs = length files /\ stops stop (i + length files)%nat = false).
  Proof.
    induction files as [|b files IH]; intros i st; cbn [pass_insert].
    - exists []. split; [exact I|]. destruct (stops stop i) eqn:Es; cbn.
      + split; [reflexivity|discriminate].
      + split; [reflexivity|]. intros _. rewrite Nat.add_0_r. split; [reflexivity|exact Es].
    - destruct (stops stop i) eqn:Es.
      { exists []. cbn. repeat split; discriminate. }
      destruct (file_entries finder cfg (rfail i) b) as [| | |es] eqn:Efe.
      + destruct (IH (S i) st) as (evs & Hok & Hst & Hlen).
        exists (FvSkip i :: evs). cbn [events_ok fold_left ev_apply]. rewrite Efe.
        split; [repeat split; assumption|]. split; [exact Hst|].
        intros Hp. destruct (Hlen Hp) as [Hl Hs]. cbn [length].
        replace (i + S (length files))%nat with (S i + length files)%nat by lia.
        split; [lia|exact Hs].
      + exists []. cbn. repeat split; discriminate.
      + exists []. cbn. repeat split; discriminate.
      + destruct (insert_map P i b es (is_ctr st) (flt i)) as [|r] eqn:Eim.
        { exists []. cbn. repeat split; discriminate. }
        set (st1 := mkIst (ir_ctr r) (is_failure st || ir_failure r) (is_count st + ir_count r)
                          (is_effs st ++ ir_effs r)
                          (is_ids st ++ map (fun pi => (i, fst pi, snd pi)) (ir_ids r))).
        destruct (IH (S i) st1) as (evs & Hok & Hst & Hlen).
        exists (FvFile i b es (is_ctr st) r :: evs). cbn [events_ok fold_left ev_apply].
        rewrite Efe, Eim. fold st1.
        split; [repeat split; try reflexivity; exact Hok|]. split; [exact Hst|].
        intros Hp. destruct (Hlen Hp) as [Hl Hs]. cbn [length].
        replace (i + S (length files))%nat with (S i + length files)%nat by lia.
        split; [lia|exact Hs].
  Qed.

  (* ---- facts about ids_of ---- *)
  Lemma ids_of_bounds todo : forall ctr,
    Forall (fun x => ctr <= snd x /\ snd x < ctr + lenN todo) (ids_of todo ctr).
  Proof.
    induction todo as [|e todo IH]; intros ctr; cbn [ids_of]; [constructor|].
    rewrite lenN_cons. constructor; [cbn [snd]; lia|].
    eapply Forall_impl; [|apply IH]. cbn beta. intros x [H1 H2]. lia.
  Qed.

  Lemma ids_of_sorted todo : forall ctr,
    StronglySorted (fun x y : N * N => snd x < snd y) (ids_of todo ctr).
  Proof.
    induction todo as [|e todo IH]; intros ctr; cbn [ids_of]; constructor; [apply IH|].
    eapply Forall_impl; [|apply ids_of_bounds]. cbn [snd]. intros x [H1 H2]. lia.
  Qed.

  Lemma ids_of_pos todo : forall ctr, map fst (ids_of todo ctr) = map e_pos todo.
  Proof. induction todo as [|e todo IH]; intros ctr; cbn; [reflexivity|]. rewrite IH. reflexivity. Qed.

  Definition tag (j : nat) (l : list (N * N)) : list (nat * N * N) :=
    map (fun pi => (j, fst pi, snd pi)) l.
  Definition id3 (x : nat * N * N) : N := snd x.

  (* ---- counters and ids over a list of events ---- *)
  Lemma events_ids : forall evs i files ctr st,
    events_ok i files ctr evs -> is_ctr st = ctr ->
    let st' := fold_left ev_apply evs st in
    ctr <= is_ctr st' /\ (ctr <= u32max -> is_ctr st' <= u32max) /\
    exists news,
      is_ids st' = is_ids st ++ news /\
      Forall (fun x => ctr <= id3 x /\ id3 x < is_ctr st') news /\
      StronglySorted (fun x y => id3 x < id3 y) news.
  Proof.
    induction evs as [|ev evs IH]; intros i files ctr st Hok Hc.
    - cbn. subst. split; [lia|]. split; [auto|]. exists []. rewrite app_nil_r.
      repeat split; constructor.
    - cbn [events_ok] in Hok. destruct files as [|b files]; [contradiction|].
      destruct ev as [j|j b' es c r].
      + destruct Hok as (-> & _ & Hok). cbn [fold_left ev_apply]. apply (IH _ _ _ _ Hok Hc).
      + destruct Hok as (-> & -> & -> & Hfe & Him & Hok). cbn [fold_left].
        set (st1 := ev_apply st (FvFile i b es ctr r)).
        assert (Hc1 : is_ctr st1 = ir_ctr r) by reflexivity.
        destruct (IH _ _ _ st1 Hok Hc1) as (Hle & Hmax & news & Hids & Hb & Hs).
        destruct (file_summary P i b es ctr (flt i) r Him) as (Hr1 & Hr2 & Hr3 & Hcase).
        split; [lia|]. split; [intros; apply Hmax; auto|].
        exists (tag i (ir_ids r) ++ news).
        split; [rewrite Hids; unfold st1; cbn [ev_apply is_ids]; rewrite <- app_assoc; reflexivity|].
        assert (Hthis : Forall (fun x => ctr <= id3 x /\ id3 x < ir_ctr r) (tag i (ir_ids r)) /\
                        StronglySorted (fun x y => id3 x < id3 y) (tag i (ir_ids r))).
        { destruct Hcase as [Hren|Hnr].
          - destruct Hren as (_ & _ & _ & writes & _ & _ & _ & Hi & Hct & _).
            rewrite Hi, Hct. split.
            + unfold tag. rewrite Forall_map. eapply Forall_impl; [|apply ids_of_bounds].
              cbn. auto.
            + unfold tag. generalize (ids_of_sorted (filter missing_insert es) ctr).
              generalize (ids_of (filter missing_insert es) ctr). intros l Hl.
              induction Hl as [|x l Hl IHl Hx]; cbn; constructor; [exact IHl|].
              rewrite Forall_map. exact Hx.
          - destruct Hnr as (_ & -> & _). cbn. split; constructor. }
        destruct Hthis as [Hb1 Hs1]. split.
        * apply Forall_app. split.
          -- eapply Forall_impl; [|exact Hb1]. cbn beta. intros x [H1 H2]. lia.
          -- eapply Forall_impl; [|exact Hb]. cbn beta. intros x [H1 H2]. lia.
        * clear - Hb1 Hs1 Hb Hs. induction Hs1 as [|x l Hl IHl Hx]; cbn [app]; [exact Hs|].
          inversion Hb1 as [|? ? Hbx Hbl]; subst. constructor; [apply IHl; exact Hbl|].
          apply Forall_app. split; [exact Hx|].
          eapply Forall_impl; [|exact Hb]. cbn beta. intros y [H1 H2]. lia.
  Qed.

  Lemma events_in : forall evs i files ctr j b es c r,
    events_ok i files ctr evs -> In (FvFile j b es c r) evs ->
    (i <= j)%nat /\ nth_error files (j - i) = Some b /\
    file_entries finder cfg (rfail j) b = FEntries es /\
    insert_map P j b es c (flt j) = IRes r.
  Proof.
    induction evs as [|ev evs IH]; intros i files ctr j b es c r Hok Hin; [contradiction|].
    cbn [events_ok] in Hok. destruct files as [|b0 files]; [contradiction|].
    destruct ev as [j0|j0 b' es0 c0 r0].
    - destruct Hok as (-> & _ & Hok). destruct Hin as [Hin|Hin]; [discriminate|].
      destruct (IH _ _ _ _ _ _ _ _ Hok Hin) as (H1 & H2 & H3).
      split; [lia|]. split; [|exact H3]. replace (j - i)%nat with (S (j - S i)) by lia. exact H2.
    - destruct Hok as (-> & -> & -> & Hfe & Him & Hok). destruct Hin as [Hin|Hin].
      + injection Hin as <- <- <- <- <-. rewrite Nat.sub_diag. repeat split; auto.
      + destruct (IH _ _ _ _ _ _ _ _ Hok Hin) as (H1 & H2 & H3).
        split; [lia|]. split; [|exact H3]. replace (j - i)%nat with (S (j - S i)) by lia. exact H2.
  Qed.

  (* the k-th event is about file i + k *)
  Lemma events_nth : forall evs i files ctr k b,
    events_ok i files ctr evs -> (k < length evs)%nat -> nth_error files k = Some b ->
    In (FvSkip (i + k)) evs /\ file_entries finder cfg (rfail (i + k)%nat) b = FUnreadable \/
    exists es c r, In (FvFile (i + k) b es c r) evs.
  Proof.
    induction evs as [|ev evs IH]; intros i files ctr k b Hok Hk Hn; [cbn in Hk; lia|].
    cbn [events_ok] in Hok. destruct files as [|b0 files]; [contradiction|].
    destruct k as [|k].
    - cbn in Hn. inversion Hn; subst b0. rewrite Nat.add_0_r.
      destruct ev as [j0|j0 b' es0 c0 r0].
      + destruct Hok as (-> & Hfe & _). left. split; [left; reflexivity|exact Hfe].
      + destruct Hok as (-> & -> & -> & _). right. exists es0, ctr, r0. left. reflexivity.
    - cbn in Hn, Hk. replace (i + S k)%nat with (S i + k)%nat by lia.
      destruct ev as [j0|j0 b' es0 c0 r0].
      + destruct Hok as (_ & _ & Hok).
        destruct (IH _ _ _ k b Hok ltac:(lia) Hn) as [[H1 H2]|(es & c & r & H)].
        * left. split; [right; exact H1|exact H2].
        * right. exists es, c, r. right. exact H.
      + destruct Hok as (_ & _ & _ & _ & _ & Hok).
        destruct (IH _ _ _ k b Hok ltac:(lia) Hn) as [[H1 H2]|(es & c & r & H)].
        * left. split; [right; exact H1|exact H2].
        * right. exists es, c, r. right. exact H.
  Qed.

  (* ---- effects as groups, with the content of every renamed file ---- *)
  Definition new_content_ok (i : nat) (files : list (list N)) (k : nat) (c : list N) : Prop :=
    exists b es c0,
      (i <= k)%nat /\ nth_error files (k - i) = Some b /\
      file_entries finder cfg (rfail k) b = FEntries es /\
      filter missing_insert es <> [] /\
      weave P b 0 (filter missing_insert es) c0 = Some c.

  Lemma events_groups : forall evs i files ctr st,
    events_ok i files ctr evs -> is_ctr st = ctr ->
    let st' := fold_left ev_apply evs st in
    exists gs,
      is_effs st' = is_effs st ++ flat_map gs_effs gs /\
      gs_sorted i gs /\
      (forall k c, gs_new gs k = Some c -> new_content_ok i files k c) /\
      (forall j b es c r, In (FvFile j b es c r) evs -> ir_renamed r = true ->
         gs_new gs j = weave P b 0 (filter missing_insert es) c /\ gs_new gs j <> None /\
         ir_ids r = ids_of (filter missing_insert es) c).
  Proof.
    induction evs as [|ev evs IH]; intros i files ctr st Hok Hc.
    - cbn. exists []. rewrite app_nil_r. repeat split; auto; try (intros; contradiction).
      intros k c H. discriminate.
    - cbn [events_ok] in Hok. destruct files as [|b files]; [contradiction|].
      assert (Hshift : forall gs, gs_sorted (S i) gs ->
                (forall k c, gs_new gs k = Some c -> new_content_ok (S i) files k c) ->
                (forall k c, gs_new gs k = Some c -> new_content_ok i (b :: files) k c)).
      { intros gs Hs Hn k c Hk. destruct (Hn k c Hk) as (b0 & es0 & c0 & Hle & Hnth & Hrest).
        exists b0, es0, c0. split; [lia|]. split; [|exact Hrest].
        replace (k - i)%nat with (S (k - S i)) by lia. exact Hnth. }
      destruct ev as [j|j b' es c r].
      + destruct Hok as (-> & _ & Hok). cbn [fold_left ev_apply].
        destruct (IH _ _ _ st Hok Hc) as (gs & He & Hs & Hn & Hev).
        exists gs. split; [exact He|]. split; [|split].
        * clear - Hs. destruct gs as [|g gs]; [exact I|]. cbn in *. destruct Hs as (H1 & H2 & H3).
          repeat split; auto. lia.
        * apply Hshift; assumption.
        * intros j0 b0 es0 c0 r0 [Hin|Hin] Hr; [discriminate|]. eapply Hev; eauto.
      + destruct Hok as (-> & -> & -> & Hfe & Him & Hok). cbn [fold_left].
        set (st1 := ev_apply st (FvFile i b es ctr r)).
        assert (Hc1 : is_ctr st1 = ir_ctr r) by reflexivity.
        destruct (IH _ _ _ st1 Hok Hc1) as (gs & He & Hs & Hn & Hev).
        assert (Hs' : gs_sorted i gs).
        { clear - Hs. destruct gs as [|g gs]; [exact I|]. cbn in *. destruct Hs as (H1 & H2 & H3).
          repeat split; auto. lia. }
        destruct (file_summary P i b es ctr (flt i) r Him) as (_ & _ & _ & Hcase).
        destruct Hcase as [Hren|Hnr].
        * destruct Hren as (_ & _ & Hne & writes & Hw & Heff & Hwv & Hids & _).
          exists (GS i writes true :: gs). split.
          { rewrite He. unfold st1. cbn [ev_apply is_effs flat_map gs_effs gs_body gs_last].
            rewrite Heff, <- app_assoc. reflexivity. }
          split; [cbn; repeat split; auto|]. split.
          -- intros k c Hk. cbn [gs_new] in Hk. destruct (Nat.eqb_spec i k) as [<-|Hne'].
             ++ inversion Hk; subst c. exists b, es, ctr. rewrite Nat.sub_diag.
                repeat split; auto.
             ++ apply (Hshift gs Hs Hn k c Hk).
          -- intros j0 b0 es0 c0 r0 [Hin|Hin] Hr.
             ++ injection Hin as <- <- <- <- <-. cbn [gs_new]. rewrite Nat.eqb_refl.
                rewrite Hwv. repeat split; auto. discriminate.
             ++ destruct (events_in _ _ _ _ _ _ _ _ _ Hok Hin) as (Hge & _).
                cbn [gs_new]. destruct (Nat.eqb_spec i j0); [lia|]. eapply Hev; eauto.
        * destruct Hnr as (Hnoren & _ & [Heff|(writes & Hw & Heff)] & _).
          -- exists gs. split; [|split; [exact Hs'|split; [apply Hshift; assumption|]]].
             { rewrite He. unfold st1. cbn [ev_apply is_effs]. rewrite Heff, app_nil_r. reflexivity. }
             intros j0 b0 es0 c0 r0 [Hin|Hin] Hr.
             ++ injection Hin as <- <- <- <- <-. congruence.
             ++ eapply Hev; eauto.
          -- exists (GS i writes false :: gs). split.
             { rewrite He. unfold st1. cbn [ev_apply is_effs flat_map gs_effs gs_body gs_last].
               rewrite Heff, <- app_assoc. reflexivity. }
             split; [cbn; repeat split; auto|]. split.
             ++ intros k c Hk. cbn [gs_new] in Hk. apply (Hshift gs Hs Hn k c Hk).
             ++ intros j0 b0 es0 c0 r0 [Hin|Hin] Hr.
                ** injection Hin as <- <- <- <- <-. congruence.
                ** cbn [gs_new]. eapply Hev; eauto.
  Qed.

  (* ---- a pass that ends without failure has dealt with every file it read ---- *)
  Lemma events_success : forall evs i files ctr st,
    events_ok i files ctr evs -> is_ctr st = ctr ->
    let st' := fold_left ev_apply evs st in
    is_failure st' = false ->
    is_failure st = false /\
    forall j b es c r, In (FvFile j b es c r) evs ->
      file_renamed P j b es c r \/ (filter missing_insert es = [] /\ ir_effs r = []).
  Proof.
    induction evs as [|ev evs IH]; intros i files ctr st Hok Hc.
    - cbn. intros H. split; [exact H|]. intros; contradiction.
    - cbn [events_ok] in Hok. destruct files as [|b files]; [contradiction|].
      destruct ev as [j|j b' es c r].
      + destruct Hok as (-> & _ & Hok). cbn [fold_left ev_apply]. intros Hf.
        destruct (IH _ _ _ st Hok Hc Hf) as [H1 H2]. split; [exact H1|].
        intros j b0 es0 c0 r0 [Hin|Hin]; [discriminate|]. eapply H2; exact Hin.
      + destruct Hok as (-> & -> & -> & Hfe & Him & Hok). cbn [fold_left].
        set (st1 := ev_apply st (FvFile i b es ctr r)).
        assert (Hc1 : is_ctr st1 = ir_ctr r) by reflexivity. intros Hf.
        destruct (IH _ _ _ st1 Hok Hc1 Hf) as [H1 H2].
        unfold st1 in H1. cbn [ev_apply is_failure] in H1. apply orb_false_iff in H1.
        destruct H1 as [H1 H1r]. split; [exact H1|].
        intros j b0 es0 c0 r0 [Hin|Hin]; [|eapply H2; exact Hin].
        injection Hin as <- <- <- <- <-.
        destruct (file_summary P i b es ctr (flt i) r Him) as (_ & _ & _ & [Hren|Hnr]);
          [left; exact Hren|].
        right. destruct Hnr as (_ & _ & _ & Hz). destruct (Hz H1r) as (Ht & _ & _ & He).
        split; assumption.
  Qed.

  Lemma fold_ev_ids_mono : forall evs st x,
    In x (is_ids st) -> In x (is_ids (fold_left ev_apply evs st)).
  Proof.
    induction evs as [|ev evs IH]; intros st x H; [exact H|]. cbn [fold_left]. apply IH.
    destruct ev; cbn [ev_apply is_ids]; [exact H|]. apply in_or_app. left. exact H.
  Qed.

  Lemma events_ids_in : forall evs st j b es c r pos id,
    In (FvFile j b es c r) evs -> In (pos, id) (ir_ids r) ->
    In (j, pos, id) (is_ids (fold_left ev_apply evs st)).
  Proof.
    induction evs as [|ev evs IH]; intros st j b es c r pos id Hin Hid; [contradiction|].
    cbn [fold_left]. destruct Hin as [->|Hin]; [|eapply IH; eauto].
    apply fold_ev_ids_mono. cbn [ev_apply is_ids]. apply in_or_app. right.
    apply in_map_iff. exists (pos, id). split; [reflexivity|exact Hid].
  Qed.

  (* ---- the printed count equals the number of ids written, absent rename failures ---- *)
  Lemma events_count : forall evs i files ctr st,
    events_ok i files ctr evs -> is_ctr st = ctr ->
    (forall j, flt j <> FRename) ->
    is_count st = lenN (is_ids st) ->
    let st' := fold_left ev_apply evs st in
    is_count st' = lenN (is_ids st').
  Proof.
    induction evs as [|ev evs IH]; intros i files ctr st Hok Hc Hnr Hcnt.
    - exact Hcnt.
    - cbn [events_ok] in Hok. destruct files as [|b files]; [contradiction|].
      destruct ev as [j|j b' es c r].
      + destruct Hok as (-> & _ & Hok). cbn [fold_left ev_apply]. apply (IH _ _ _ st Hok Hc Hnr Hcnt).
      + destruct Hok as (-> & -> & -> & Hfe & Him & Hok). cbn [fold_left].
        set (st1 := ev_apply st (FvFile i b es ctr r)).
        assert (Hc1 : is_ctr st1 = ir_ctr r) by reflexivity.
        apply (IH _ _ _ st1 Hok Hc1 Hnr). unfold st1. cbn [ev_apply is_count is_ids].
        unfold lenN in *. rewrite app_length, map_length, Hcnt.
        destruct (file_summary P i b es ctr (flt i) r Him) as (_ & _ & _ & [Hren|Hn]).
        * destruct Hren as (_ & _ & _ & writes & _ & _ & _ & Hi & _ & Hcount).
          rewrite Hi, Hcount, ids_of_length. unfold lenN. lia.
        * destruct Hn as (Hr & Hi & _).
          rewrite (file_count_zero P i b es ctr (flt i) r Him Hr (Hnr i)), Hi. cbn. lia.
  Qed.
End Pass.
