(* CommentRegex.v -- what the TRANSLATED comment regex (RUST_COMMENT_PATTERN) captures on a line,
   for all lines of three shapes, and what the directive scan therefore decides. *)
From Coq Require Import List NArith Bool Lia.
From Breadlog Require Import Model.Peg Model.Text Model.Regex Model.Glue Model.Tables.
From Breadlog Require Import Gen.Regexes.
From Breadlog Require Import Proofs.RegexFacts Proofs.GlueSpec.
Import ListNotations.
Open Scope N_scope.

Definition dot : list (N * N) := [(0, 9); (11, 1114111)].     (* `.` : every scalar value but \n *)

Lemma in_dot c : in_ranges dot c = true <-> c <> 10 /\ c <= 1114111.
Proof.
  unfold dot. cbn [in_ranges].
  destruct (N.ltb_spec c 0); [lia|]. destruct (N.leb_spec c 9); [split; [lia|reflexivity]|].
  destruct (N.ltb_spec c 11); [split; [discriminate|lia]|].
  destruct (N.leb_spec c 1114111); split; try lia; try discriminate; reflexivity.
Qed.

Definition dots (t : text) : bool := forallb (in_ranges dot) t.

Lemma tlen_app a b : tlen (a ++ b) = tlen a + tlen b.
Proof. induction a as [|x a IH]; cbn [tlen app]; [lia|]. rewrite IH. lia. Qed.

Section DotPlus.
  Variable ma : (rst -> option caps) -> rst -> option caps.
  Hypothesis ma_hit : forall k0 c t i cs, in_ranges dot c = true -> ma k0 (mkR (c :: t) i cs) = k0 (mkR t (i + 1) cs).
  Hypothesis ma_eof : forall k0 i cs, ma k0 (mkR [] i cs) = None.

  (* `.+` greedy, when what follows succeeds at the end of the line: takes the whole rest of the line *)
  Lemma dot_plus_to_end k : forall body n fuel i cs c,
    dots body = true -> (length body < length fuel)%nat -> 1 <= n + tlen body ->
    k (mkR [] (i + tlen body) cs) = Some c ->
    rep_m ma k 1 None true fuel n (mkR body i cs) = Some c.
  Proof.
    induction body as [|b body IH]; intros n fuel i cs c Hd Hlen Hn Hk.
    - cbn [tlen] in *. rewrite N.add_0_r in *. destruct fuel as [|x f]; cbn [rep_m].
      + destruct (N.leb_spec 1 n); [exact Hk|lia].
      + rewrite ma_eof. destruct (N.leb_spec 1 n); [exact Hk|lia].
    - cbn [dots forallb] in Hd. apply andb_true_iff in Hd. destruct Hd as [Hb Hd].
      destruct fuel as [|x f]; [cbn in Hlen; lia|]. cbn [rep_m]. rewrite (ma_hit _ b body i cs Hb). cbn [ridx].
      destruct (N.ltb_spec i (i + 1)) as [_|]; [|lia].
      rewrite (IH (n + 1) f (i + 1) cs c Hd); [reflexivity|cbn [length] in Hlen; lia|cbn [tlen] in Hn; lia|].
      cbn [tlen] in Hk. replace (i + 1 + tlen body) with (i + (1 + tlen body)) by lia. exact Hk.
  Qed.

  (* `.+` greedy followed by something that fails on "" and on "/" but succeeds on "*/", on
     body ++ "*/" that ends the line: backs off exactly to the last two characters *)
  Lemma dot_plus_before_close k : forall body n fuel i cs c,
    dots body = true -> (length body + 2 < length fuel)%nat -> 1 <= n + tlen body ->
    (forall j cs', k (mkR [] j cs') = None) -> (forall j cs', k (mkR [47] j cs') = None) ->
    k (mkR [42; 47] (i + tlen body) cs) = Some c ->
    rep_m ma k 1 None true fuel n (mkR (body ++ [42; 47]) i cs) = Some c.
  Proof.
    induction body as [|b body IH]; intros n fuel i cs c Hd Hlen Hn Hk0 Hk1 Hk.
    - cbn [tlen app] in *. rewrite N.add_0_r in *.
      destruct fuel as [|x1 [|x2 [|x3 f]]]; try (cbn in Hlen; lia).
      cbn [rep_m]. rewrite (ma_hit _ 42 [47] i cs eq_refl). cbn [ridx].
      destruct (N.ltb_spec i (i + 1)) as [_|]; [|lia].
      rewrite (ma_hit _ 47 [] (i + 1) cs eq_refl). cbn [ridx].
      destruct (N.ltb_spec (i + 1) (i + 1 + 1)) as [_|]; [|lia].
      rewrite ma_eof, Hk0, Hk1, Hk.
      destruct (1 <=? n + 1 + 1); destruct (1 <=? n + 1); destruct (N.leb_spec 1 n); try reflexivity; lia.
    - cbn [dots forallb] in Hd. apply andb_true_iff in Hd. destruct Hd as [Hb Hd].
      destruct fuel as [|x f]; [cbn in Hlen; lia|]. cbn [rep_m app]. rewrite (ma_hit _ b (body ++ [42; 47]) i cs Hb). cbn [ridx].
      destruct (N.ltb_spec i (i + 1)) as [_|]; [|lia].
      rewrite (IH (n + 1) f (i + 1) cs c Hd); [reflexivity|cbn [length] in Hlen; lia|cbn [tlen] in Hn; lia|exact Hk0|exact Hk1|].
      cbn [tlen] in Hk. replace (i + 1 + tlen body) with (i + (1 + tlen body)) by lia. exact Hk.
  Qed.
End DotPlus.

Lemma m_dot_hit k0 c t i cs : in_ranges dot c = true -> m (RClass dot) k0 (mkR (c :: t) i cs) = k0 (mkR t (i + 1) cs).
Proof. intros H. cbn [m rrem ridx rcaps]. rewrite H. reflexivity. Qed.
Lemma m_dot_eof k0 i cs : m (RClass dot) k0 (mkR [] i cs) = None.
Proof. reflexivity. Qed.

Notation RE := re_RUST_COMMENT_PATTERN.

Lemma m_alt a b k s : m (RAlt a b) k s = match m a k s with Some c => Some c | None => m b k s end.
Proof. reflexivity. Qed.

Definition line_alt : regex := RCat (RLit [47; 47]) (RCap 1 (RRep 1 None true (RClass dot))).
Definition block_alt : regex := RCat (RLit [47; 42]) (RCat (RCap 2 (RRep 1 None true (RClass dot))) (RLit [42; 47])).
Lemma RE_unfold : RE = RAlt line_alt block_alt.
Proof. reflexivity. Qed.

Definition kfin (idx : N) : rst -> option caps := fun s => Some (set_cap (rcaps s) 0 (idx, ridx s)).

(* a line comment at the start of the (trimmed) line *)
Lemma line_alt_hit body idx :
  body <> [] -> dots body = true ->
  m line_alt (kfin idx) (mkR ([47; 47] ++ body) idx [])
  = Some [(1, (idx + 2, idx + 2 + tlen body)); (0, (idx, idx + 2 + tlen body))].
Proof.
  intros Hne Hd. unfold line_alt. rewrite m_cat, m_lit.
  cbn [rrem app strip_prefix ridx rcaps tlen]. rewrite !N.eqb_refl.
  replace (idx + (1 + (1 + 0))) with (idx + 2) by lia.
  rewrite m_cap, m_rep. cbn [rrem ridx].
  apply (dot_plus_to_end _ m_dot_hit m_dot_eof); [exact Hd|cbn; lia|destruct body; [congruence|cbn [tlen]; lia]|].
  cbn [rrem ridx rcaps set_cap N.eqb kfin]. reflexivity.
Qed.

Theorem captures_line_comment body :
  body <> [] -> dots body = true ->
  let l := ([47; 47] ++ body)%list in
  captures RE l = Some [(1, (2, tlen l)); (0, (0, tlen l))].
Proof.
  intros Hne Hd l. unfold captures, l. cbn [app search_from].
  change (fun s : rst => Some (set_cap (rcaps s) 0 (0, ridx s))) with (kfin 0).
  rewrite RE_unfold, m_alt. change (47 :: 47 :: body) with ([47; 47] ++ body)%list.
  rewrite (line_alt_hit body 0 Hne Hd). rewrite tlen_app. cbn [tlen]. rewrite !N.add_0_l. change (1 + (1 + 0)) with 2. reflexivity.
Qed.

(* a block comment that is the whole (trimmed) line *)
Lemma block_alt_hit body idx :
  body <> [] -> dots body = true ->
  m block_alt (kfin idx) (mkR ([47; 42] ++ body ++ [42; 47]) idx [])
  = Some [(2, (idx + 2, idx + 2 + tlen body)); (0, (idx, idx + 2 + tlen body + 2))].
Proof.
  intros Hne Hd. unfold block_alt. rewrite m_cat, m_lit.
  cbn [rrem app strip_prefix ridx rcaps tlen]. rewrite !N.eqb_refl.
  replace (idx + (1 + (1 + 0))) with (idx + 2) by lia.
  rewrite m_cat, m_cap, m_rep. cbn [rrem ridx].
  apply (dot_plus_before_close _ m_dot_hit m_dot_eof); [exact Hd|cbn [length]; rewrite app_length; cbn [length]; lia
                                                         |destruct body; [congruence|cbn [tlen]; lia]| | |].
  - intros j cs'. reflexivity.
  - intros j cs'. reflexivity.
  - cbn [rrem ridx rcaps set_cap]. rewrite m_lit. cbn [rrem strip_prefix ridx rcaps tlen]. rewrite !N.eqb_refl.
    cbn [kfin rcaps ridx set_cap]. change (2 =? 0) with false. cbn iota.
    replace (idx + 2 + tlen body + (1 + (1 + 0))) with (idx + 2 + tlen body + 2) by lia. reflexivity.
Qed.

Lemma line_alt_miss_block t idx k : m line_alt k (mkR (47 :: 42 :: t) idx []) = None.
Proof. reflexivity. Qed.

Theorem captures_block_comment body :
  body <> [] -> dots body = true ->
  let l := ([47; 42] ++ body ++ [42; 47])%list in
  captures RE l = Some [(2, (2, 2 + tlen body)); (0, (0, tlen l))].
Proof.
  intros Hne Hd l. unfold captures, l. cbn [app search_from].
  change (fun s : rst => Some (set_cap (rcaps s) 0 (0, ridx s))) with (kfin 0).
  rewrite RE_unfold, m_alt, line_alt_miss_block.
  change (47 :: 42 :: (body ++ [42; 47])%list) with ([47; 42] ++ body ++ [42; 47])%list.
  rewrite (block_alt_hit body 0 Hne Hd). rewrite !tlen_app. cbn [tlen]. rewrite !N.add_0_l. change (1 + (1 + 0)) with 2.
  rewrite N.add_assoc. reflexivity.
Qed.

(* a line without any slash holds no comment *)
Lemma alts_miss c t idx k : c <> 47 -> m (RAlt line_alt block_alt) k (mkR (c :: t) idx []) = None.
Proof.
  intros H. rewrite m_alt. unfold line_alt, block_alt. rewrite !m_cat, !m_lit. cbn [rrem strip_prefix].
  destruct (N.eqb_spec 47 c); [congruence|reflexivity].
Qed.

Theorem captures_no_slash : forall t idx, forallb (fun c => negb (c =? 47)) t = true -> search_from RE t idx = None.
Proof.
  induction t as [|c t IH]; intros idx H.
  - reflexivity.
  - cbn [forallb] in H. apply andb_true_iff in H. destruct H as [Hc Ht].
    cbn [search_from]. rewrite RE_unfold.
    rewrite alts_miss by (intros ->; discriminate). rewrite <- RE_unfold. apply IH. exact Ht.
Qed.

(* ------------------------------------------------------------------------------------------ *)
(* what the directive scan decides on such lines                                               *)
(* ------------------------------------------------------------------------------------------ *)
Notation TP := the_params.

Lemma comment_re_is_RE : p_comment_re TP = RE.
Proof. reflexivity. Qed.

(* str::to_lowercase then str::trim, as applied to each capture group *)
Definition norm (t : text) : text := trim (p_is_ws TP) (to_lowercase (p_lower TP) t).

Lemma skipn_N_0 t : skipn_N 0 t = t.
Proof. destruct t; reflexivity. Qed.

Lemma firstn_N_all t : firstn_N (tlen t) t = t.
Proof. pose proof (firstn_N_app t []) as H. rewrite app_nil_r in H. exact H. Qed.

Lemma cap_text_whole l : cap_text l (0, tlen l) = l.
Proof. unfold cap_text. cbn [fst snd]. rewrite N.sub_0_r, skipn_N_0. apply firstn_N_all. Qed.

Lemma cap_text_after p body : cap_text (p ++ body) (tlen p, tlen (p ++ body)) = body.
Proof.
  unfold cap_text. cbn [fst snd]. rewrite skipn_N_app, tlen_app.
  replace (tlen p + tlen body - tlen p) with (tlen body) by lia. apply firstn_N_all.
Qed.

Lemma cap_text_mid p body q : cap_text (p ++ body ++ q) (tlen p, tlen p + tlen body) = body.
Proof.
  unfold cap_text. cbn [fst snd]. rewrite skipn_N_app.
  replace (tlen p + tlen body - tlen p) with (tlen body) by lia. apply firstn_N_app.
Qed.

(* THE NEAREST NON-BLANK LINE IS A LINE COMMENT (after trimming it starts with "//"): the directive is
   in force iff the comment's text -- everything after the "//", lower-cased and trimmed -- is the
   directive (or, which no directive of Breadlog's can satisfy, the whole line is) *)
Theorem scan_line_comment d l body ls :
  trim (p_is_ws TP) l = ([47; 47] ++ body)%list -> body <> [] -> dots body = true ->
  scan_lines TP d RE (l :: ls) = text_eqb (norm ([47; 47] ++ body)) d || text_eqb (norm body) d.
Proof.
  intros Hl Hne Hd. cbn [scan_lines]. rewrite Hl. cbn [app].
  change (47 :: 47 :: body) with ([47; 47] ++ body)%list.
  pose proof (captures_line_comment body Hne Hd) as Hc. cbv zeta in Hc. rewrite Hc.
  change (S (N.to_nat (max_group RE))) with 3%nat.
  cbn [group_texts get_cap]. change (1 =? 0) with false. change (0 =? 0) with true. cbn iota.
  change (0 + 1) with 1. change (1 =? 1) with true. cbn iota. change (1 + 1) with 2.
  change (1 =? 2) with false. change (0 =? 2) with false. cbn iota.
  rewrite cap_text_whole. change 2 with (tlen [47; 47]) at 1. rewrite cap_text_after.
  cbn [existsb]. rewrite orb_false_r. reflexivity.
Qed.

(* ... IS A BLOCK COMMENT that makes up the whole line: likewise with the text between the delimiters *)
Theorem scan_block_comment d l body ls :
  trim (p_is_ws TP) l = ([47; 42] ++ body ++ [42; 47])%list -> body <> [] -> dots body = true ->
  scan_lines TP d RE (l :: ls) = text_eqb (norm ([47; 42] ++ body ++ [42; 47])) d || text_eqb (norm body) d.
Proof.
  intros Hl Hne Hd. cbn [scan_lines]. rewrite Hl. cbn [app].
  change (47 :: 42 :: (body ++ [42; 47])%list) with ([47; 42] ++ body ++ [42; 47])%list.
  pose proof (captures_block_comment body Hne Hd) as Hc. cbv zeta in Hc. rewrite Hc.
  change (S (N.to_nat (max_group RE))) with 3%nat.
  cbn [group_texts get_cap]. change (2 =? 0) with false. change (0 =? 0) with true. cbn iota.
  change (0 + 1) with 1. change (2 =? 1) with false. change (0 =? 1) with false. cbn iota. change (1 + 1) with 2.
  change (2 =? 2) with true. cbn iota.
  rewrite cap_text_whole. change 2 with (tlen [47; 42]) at 1 2. rewrite cap_text_mid.
  cbn [existsb]. rewrite orb_false_r. reflexivity.
Qed.

(* ... HOLDS NO SLASH AT ALL (a code line without comment): no directive *)
Theorem scan_code_line d l ls :
  trim (p_is_ws TP) l <> [] -> forallb (fun c => negb (c =? 47)) (trim (p_is_ws TP) l) = true ->
  scan_lines TP d RE (l :: ls) = false.
Proof.
  intros Hne Hns. cbn [scan_lines]. destruct (trim (p_is_ws TP) l) as [|c t] eqn:E; [congruence|].
  unfold captures. rewrite (captures_no_slash _ 0 Hns). reflexivity.
Qed.

(* the whole line, which begins with a slash, is never the directive *)
Lemma trim_start_snoc (is_ws : N -> bool) a c :
  is_ws c = false -> exists a', trim_start is_ws (a ++ [c]) = (a' ++ [c])%list.
Proof.
  intros Hc. induction a as [|x a IH]; cbn [app trim_start].
  - rewrite Hc. exists []. reflexivity.
  - destruct (is_ws x); [exact IH|]. exists (x :: a). reflexivity.
Qed.

Lemma trim_keeps_head (is_ws : N -> bool) c x :
  is_ws c = false -> exists y, trim is_ws (c :: x) = c :: y.
Proof.
  intros Hc. unfold trim. cbn [trim_start]. rewrite Hc. cbn [rev].
  destruct (trim_start_snoc is_ws (rev x) c Hc) as [a' ->]. rewrite rev_app_distr. cbn [rev app].
  eexists. reflexivity.
Qed.

Lemma norm_slash_head x : exists y, norm (47 :: x) = 47 :: y.
Proof.
  unfold norm, to_lowercase. cbn [flat_map].
  replace (p_lower TP 47) with [47] by (vm_compute; reflexivity). cbn [app].
  apply trim_keeps_head. vm_compute. reflexivity.
Qed.

Lemma whole_line_never d x : hd_error d <> Some 47 -> text_eqb (norm (47 :: x)) d = false.
Proof.
  intros Hd. destruct (norm_slash_head x) as [y ->]. destruct d as [|c d']; [reflexivity|].
  cbn [text_eqb]. destruct (N.eqb_spec 47 c) as [<-|]; [exfalso; apply Hd; reflexivity|reflexivity].
Qed.

Theorem directive_on_line_comment d l body ls :
  hd_error d <> Some 47 ->
  trim (p_is_ws TP) l = ([47; 47] ++ body)%list -> body <> [] -> dots body = true ->
  scan_lines TP d RE (l :: ls) = text_eqb (norm body) d.
Proof.
  intros Hd Hl Hne Hdots. rewrite (scan_line_comment d l body ls Hl Hne Hdots).
  cbn [app]. rewrite (whole_line_never d _ Hd). reflexivity.
Qed.

Theorem directive_on_block_comment d l body ls :
  hd_error d <> Some 47 ->
  trim (p_is_ws TP) l = ([47; 42] ++ body ++ [42; 47])%list -> body <> [] -> dots body = true ->
  scan_lines TP d RE (l :: ls) = text_eqb (norm body) d.
Proof.
  intros Hd Hl Hne Hdots. rewrite (scan_block_comment d l body ls Hl Hne Hdots).
  cbn [app]. rewrite (whole_line_never d _ Hd). reflexivity.
Qed.

Lemma directives_no_slash : hd_error (p_ignore TP) <> Some 47 /\ hd_error (p_no_kvp TP) <> Some 47.
Proof. split; vm_compute; discriminate. Qed.

(* ------------------------------------------------------------------------------------------ *)
(* a comment AFTER code on the line: the unanchored regex finds it too                         *)
(* ------------------------------------------------------------------------------------------ *)
Lemma search_skips_no_slash : forall pre t idx,
  forallb (fun c => negb (c =? 47)) pre = true ->
  search_from RE (pre ++ t)%list idx =
  match pre with
  | [] => search_from RE t idx
  | _ => search_from RE t (idx + tlen pre)
  end.
Proof.
  induction pre as [|c pre IH]; intros t idx H; [reflexivity|].
  cbn [forallb] in H. apply andb_true_iff in H. destruct H as [Hc Hp].
  cbn [app search_from]. rewrite RE_unfold. rewrite alts_miss by (intros ->; discriminate). rewrite <- RE_unfold.
  rewrite (IH t (idx + 1) Hp). destruct pre as [|d pre']; cbn [tlen]; [rewrite N.add_0_r; reflexivity|].
  f_equal. lia.
Qed.

Theorem captures_trailing_line_comment pre body :
  forallb (fun c => negb (c =? 47)) pre = true -> body <> [] -> dots body = true ->
  let l := (pre ++ [47; 47] ++ body)%list in
  captures RE l = Some [(1, (tlen pre + 2, tlen l)); (0, (tlen pre, tlen l))].
Proof.
  intros Hp Hne Hd l. unfold captures, l.
  assert (Hhit : forall idx, search_from RE ([47; 47] ++ body)%list idx
                 = Some [(1, (idx + 2, idx + 2 + tlen body)); (0, (idx, idx + 2 + tlen body))]).
  { intros idx. destruct body as [|b body']; [congruence|]. cbn [app search_from].
    change (fun s : rst => Some (set_cap (rcaps s) 0 (idx, ridx s))) with (kfin idx).
    rewrite RE_unfold, m_alt. change (47 :: 47 :: b :: body') with ([47; 47] ++ b :: body')%list.
    rewrite (line_alt_hit (b :: body') idx Hne Hd). reflexivity. }
  rewrite (search_skips_no_slash pre _ 0 Hp). rewrite !tlen_app.
  destruct pre as [|c pre'].
  - rewrite Hhit. cbn [tlen app]. rewrite !N.add_0_l. change (1 + (1 + 0)) with 2. reflexivity.
  - rewrite Hhit. cbn [tlen]. change (1 + (1 + 0)) with 2. rewrite !N.add_0_l.
    replace (1 + tlen pre' + 2 + tlen body) with (1 + tlen pre' + (2 + tlen body)) by lia. reflexivity.
Qed.

(* the directive scan on such a line: the comment's text decides, as for a comment of its own (the
   whole match "//..." never is a directive) *)
Lemma cap_text_from_mid p q : cap_text (p ++ q) (tlen p, tlen (p ++ q)) = q.
Proof. apply cap_text_after. Qed.

Theorem directive_on_trailing_line_comment d l pre body ls :
  hd_error d <> Some 47 ->
  trim (p_is_ws TP) l = (pre ++ [47; 47] ++ body)%list -> pre <> [] ->
  forallb (fun c => negb (c =? 47)) pre = true -> body <> [] -> dots body = true ->
  scan_lines TP d RE (l :: ls) = text_eqb (norm body) d.
Proof.
  intros Hd Hl Hpne Hp Hne Hdots. cbn [scan_lines]. rewrite Hl.
  destruct (pre ++ [47; 47] ++ body)%list as [|x xs] eqn:E; [destruct pre; discriminate|]. rewrite <- E.
  pose proof (captures_trailing_line_comment pre body Hp Hne Hdots) as Hc. cbv zeta in Hc. rewrite Hc.
  change (S (N.to_nat (max_group RE))) with 3%nat.
  cbn [group_texts get_cap]. change (1 =? 0) with false. change (0 =? 0) with true. cbn iota.
  change (0 + 1) with 1. change (1 =? 1) with true. cbn iota. change (1 + 1) with 2.
  change (1 =? 2) with false. change (0 =? 2) with false. cbn iota.
  (* group 0: from the comment opener to the end of the line; group 1: the comment text *)
  rewrite (cap_text_from_mid pre ([47; 47] ++ body)).
  replace (tlen pre + 2) with (tlen (pre ++ [47; 47])) by (rewrite tlen_app; reflexivity).
  replace (pre ++ [47; 47] ++ body)%list with ((pre ++ [47; 47]) ++ body)%list by (rewrite <- app_assoc; reflexivity).
  rewrite (cap_text_from_mid (pre ++ [47; 47]) body).
  cbn [existsb app]. fold (norm (47 :: 47 :: body)). fold (norm body). rewrite (whole_line_never d _ Hd). rewrite orb_false_r. reflexivity.
Qed.

(* ... and a block comment that ends the line, after code without a slash *)
Theorem captures_trailing_block_comment pre body :
  forallb (fun c => negb (c =? 47)) pre = true -> body <> [] -> dots body = true ->
  let l := (pre ++ [47; 42] ++ body ++ [42; 47])%list in
  captures RE l = Some [(2, (tlen pre + 2, tlen pre + 2 + tlen body)); (0, (tlen pre, tlen l))].
Proof.
  intros Hp Hne Hd l. unfold captures, l.
  assert (Hhit : forall idx, search_from RE ([47; 42] ++ body ++ [42; 47])%list idx
                 = Some [(2, (idx + 2, idx + 2 + tlen body)); (0, (idx, idx + 2 + tlen body + 2))]).
  { intros idx. cbn [app search_from].
    change (fun s : rst => Some (set_cap (rcaps s) 0 (idx, ridx s))) with (kfin idx).
    rewrite RE_unfold, m_alt, line_alt_miss_block.
    change (47 :: 42 :: (body ++ [42; 47])%list) with ([47; 42] ++ body ++ [42; 47])%list.
    rewrite (block_alt_hit body idx Hne Hd). reflexivity. }
  rewrite (search_skips_no_slash pre _ 0 Hp). rewrite !tlen_app. cbn [tlen]. change (1 + (1 + 0)) with 2.
  destruct pre as [|c pre'].
  - rewrite Hhit. cbn [tlen]. rewrite !N.add_0_l. rewrite N.add_assoc. reflexivity.
  - rewrite Hhit. cbn [tlen]. rewrite !N.add_0_l.
    replace (1 + tlen pre' + 2 + tlen body + 2) with (1 + tlen pre' + (2 + (tlen body + 2))) by lia. reflexivity.
Qed.

Theorem directive_on_trailing_block_comment d l pre body ls :
  hd_error d <> Some 47 ->
  trim (p_is_ws TP) l = (pre ++ [47; 42] ++ body ++ [42; 47])%list -> pre <> [] ->
  forallb (fun c => negb (c =? 47)) pre = true -> body <> [] -> dots body = true ->
  scan_lines TP d RE (l :: ls) = text_eqb (norm body) d.
Proof.
  intros Hd Hl Hpne Hp Hne Hdots. cbn [scan_lines]. rewrite Hl.
  destruct (pre ++ [47; 42] ++ body ++ [42; 47])%list as [|x xs] eqn:E; [destruct pre; discriminate|]. rewrite <- E.
  pose proof (captures_trailing_block_comment pre body Hp Hne Hdots) as Hc. cbv zeta in Hc. rewrite Hc.
  change (S (N.to_nat (max_group RE))) with 3%nat.
  cbn [group_texts get_cap]. change (2 =? 0) with false. change (0 =? 0) with true. cbn iota.
  change (0 + 1) with 1. change (2 =? 1) with false. change (0 =? 1) with false. cbn iota. change (1 + 1) with 2.
  change (2 =? 2) with true. cbn iota.
  rewrite (cap_text_from_mid pre ([47; 42] ++ body ++ [42; 47])).
  replace (tlen pre + 2) with (tlen (pre ++ [47; 42])) by (rewrite tlen_app; reflexivity).
  replace (pre ++ [47; 42] ++ body ++ [42; 47])%list with ((pre ++ [47; 42]) ++ body ++ [42; 47])%list by (rewrite <- app_assoc; reflexivity).
  rewrite (cap_text_mid (pre ++ [47; 42]) body [42; 47]).
  cbn [existsb app]. fold (norm (47 :: 42 :: body ++ [42; 47])). fold (norm body).
  rewrite (whole_line_never d _ Hd). rewrite orb_false_r. reflexivity.
Qed.
