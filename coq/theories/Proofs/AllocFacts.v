(* AllocFacts.v -- the first pass (NextReferenceIdProcessor): the ID it computes is above every
   reference of every statement it could read. *)
From Coq Require Import List Arith NArith Bool Lia.
From Breadlog Require Import Model.Peg Model.Text Model.Regex Model.Glue Model.Utf8 Model.Driver.
Import ListNotations.
Open Scope N_scope.

Lemma ref_usable (e : entry) id : e_ref e = Some id -> usable e = true.
Proof. unfold usable, exists_ref. intros ->. destruct (e_kind e); reflexivity. Qed.

Lemma missing_preds_agree (e : entry) :
  missing_nextid e = missing_insert e /\ missing_count e = missing_insert e.
Proof.
  unfold missing_nextid, missing_count, missing_insert, exists_ref.
  destruct (e_ref e), (usable e); split; reflexivity.
Qed.

Lemma nextid_map_spec : forall es mx miss,
  let r := nextid_map es mx miss in
  mx <= fst r /\
  (forall e id, In e es -> e_ref e = Some id -> id <= fst r) /\
  snd r = miss + N.of_nat (length (filter missing_insert es)).
Proof.
  induction es as [|e es IH]; intros mx miss; cbn [nextid_map].
  - cbn. split; [lia|]. split; [intros; contradiction|lia].
  - cbn [filter length]. unfold missing_insert at 1, exists_ref.
    destruct (usable e) eqn:Eu.
    + destruct (e_ref e) as [id|] eqn:Er.
      * destruct (IH (N.max mx id) miss) as (H1 & H2 & H3). cbn [negb andb].
        split; [lia|]. split; [|exact H3].
        intros e' id' [<-|Hin] Hr; [rewrite Er in Hr; inversion Hr; subst; lia|eauto].
      * destruct (IH mx (miss + 1)) as (H1 & H2 & H3). cbn [negb andb].
        split; [lia|]. split.
        -- intros e' id' [<-|Hin] Hr; [congruence|eauto].
        -- rewrite H3. cbn [length]. lia.
    + destruct (IH mx miss) as (H1 & H2 & H3). rewrite andb_false_r.
      split; [lia|]. split; [|exact H3].
      intros e' id' [<-|Hin] Hr; [|eauto]. apply ref_usable in Hr. congruence.
Qed.

Lemma nextid_reduce_go_spec : forall rs mx miss,
  let r := nextid_reduce_go rs mx miss in
  mx <= fst r /\ (forall m k, In (m, k) rs -> m <= fst r) /\
  snd r = fold_left (fun a mk => a + snd mk) rs miss.
Proof.
  induction rs as [|[m k] rs IH]; intros mx miss; cbn [nextid_reduce_go fold_left].
  - cbn. split; [lia|]. split; [intros; contradiction|reflexivity].
  - destruct (IH (N.max mx m) (miss + k)) as (H1 & H2 & H3). split; [lia|]. split; [|exact H3].
    intros m' k' [Heq|Hin]; [inversion Heq; subst; lia|eauto].
Qed.

Section Pass1.
  Variable finder : config -> text -> outcome (list entry).
  Variable cfg : config.
  Variable stop : option nat.
  Variable rfail : nat -> bool.

  Lemma pass_nextid_ok : forall files i acc_rev rs,
    pass_nextid finder cfg stop rfail files i acc_rev = POk rs ->
    exists news,
      rs = rev acc_rev ++ news /\
      (forall k b es, nth_error files k = Some b ->
         file_entries finder cfg (rfail (i + k)%nat) b = FEntries es ->
         In (nextid_map es 0 0) news) /\
      (forall mk, In mk news -> exists k b es, nth_error files k = Some b /\
         file_entries finder cfg (rfail (i + k)%nat) b = FEntries es /\ mk = nextid_map es 0 0).
  Proof.
    induction files as [|b files IH]; intros i acc_rev rs H; cbn [pass_nextid] in H.
    - destruct (stops stop i); [discriminate|]. inversion H; subst. exists [].
      rewrite app_nil_r. split; [reflexivity|]. split.
      + intros k b es Hn. destruct k; discriminate.
      + intros mk [].
    - destruct (stops stop i); [discriminate|].
      destruct (file_entries finder cfg (rfail i) b) as [| | |es] eqn:Efe; try discriminate.
      + destruct (IH _ _ _ H) as (news & -> & Hall & Hinv). exists news. split; [reflexivity|]. split.
        * intros [|k] b0 es0 Hn Hf; cbn in Hn.
          -- inversion Hn; subst. rewrite Nat.add_0_r in Hf. congruence.
          -- apply (Hall k b0 es0 Hn). replace (S i + k)%nat with (i + S k)%nat by lia. exact Hf.
        * intros mk Hin. destruct (Hinv mk Hin) as (k & b0 & es0 & Hn & Hf & Hm).
          exists (S k), b0, es0. cbn. split; [exact Hn|]. split; [|exact Hm].
          replace (i + S k)%nat with (S i + k)%nat by lia. exact Hf.
      + destruct (IH _ _ _ H) as (news & -> & Hall & Hinv). cbn [rev]. rewrite <- app_assoc. cbn [app].
        exists (nextid_map es 0 0 :: news). split; [reflexivity|]. split.
        * intros [|k] b0 es0 Hn Hf; cbn in Hn.
          -- inversion Hn; subst. rewrite Nat.add_0_r in Hf. rewrite Efe in Hf. inversion Hf; subst.
             left. reflexivity.
          -- right. apply (Hall k b0 es0 Hn). replace (S i + k)%nat with (i + S k)%nat by lia. exact Hf.
        * intros mk [<-|Hin].
          -- exists 0%nat, b, es. cbn. rewrite Nat.add_0_r. repeat split; auto.
          -- destruct (Hinv mk Hin) as (k & b0 & es0 & Hn & Hf & Hm).
             exists (S k), b0, es0. cbn. split; [exact Hn|]. split; [|exact Hm].
             replace (i + S k)%nat with (S i + k)%nat by lia. exact Hf.
  Qed.
End Pass1.

(* the value computed by the first pass is above every reference it has seen, unless it is
   saturated at u32::MAX (in which case no ID is ever handed out: see insert_loop) *)
Lemma nextid_reduce_above start rs next miss :
  1 <= start ->
  nextid_reduce start rs = (next, miss) ->
  1 <= next /\
  forall m k, In (m, k) rs -> m < next \/ next = u32max.
Proof.
  intros Hs H. unfold nextid_reduce in H.
  destruct (nextid_reduce_go rs 0 0) as [mx ms] eqn:Ego.
  pose proof (nextid_reduce_go_spec rs 0 0) as Hspec. rewrite Ego in Hspec. cbn [fst snd] in Hspec.
  destruct Hspec as (_ & Hmx & _).
  destruct (N.eqb_spec mx 0) as [->|Hne]; inversion H; subst; clear H.
  - split; [exact Hs|]. intros m k Hin. specialize (Hmx m k Hin). left. lia.
  - unfold sat_succ. destruct (N.ltb_spec mx u32max).
    + split; [lia|]. intros m k Hin. specialize (Hmx m k Hin). left. lia.
    + split; [unfold u32max; lia|]. intros. right. reflexivity.
Qed.
