(* GlueSpec.v -- what the glue (Model/Glue.v) computes, stated against the property texts:
   which macro names count, what the argument scan collects from a canonical argument list, where
   the structured reference goes, which lines the directive scan looks at. *)
From Coq Require Import List Arith NArith Bool Lia String.
From Breadlog Require Import Model.Peg Model.Text Model.Regex Model.Glue.
Import ListNotations.
Open Scope N_scope.

Lemma text_eqb_spec : forall a b, text_eqb a b = true <-> a = b.
Proof.
  induction a as [|x a IH]; intros [|y b]; cbn; split; intros H; try congruence; try discriminate.
  - apply andb_true_iff in H. destruct H as [H1 H2]. apply N.eqb_eq in H1. apply IH in H2. congruence.
  - inversion H; subst. rewrite N.eqb_refl. cbn. apply IH. reflexivity.
Qed.

(* a macro counts exactly when its written name is a configured name, bare or qualified with
   exactly the configured module path -- compared exactly and case-sensitively *)
Theorem macro_of_interest_spec name cfg :
  macro_of_interest name cfg = true <->
  exists m n, In (m, n) (cfg_macros cfg) /\ (name = n \/ name = (m ++ [58; 58] ++ n)%list).
Proof.
  unfold macro_of_interest. rewrite existsb_exists. split.
  - intros ([m n] & Hin & H). cbn [fst snd] in H. apply orb_true_iff in H.
    exists m, n. split; [exact Hin|]. destruct H as [H|H]; apply text_eqb_spec in H; auto.
  - intros (m & n & Hin & H). exists (m, n). split; [exact Hin|]. cbn [fst snd].
    apply orb_true_iff. destruct H as [H|H]; [left|right]; apply text_eqb_spec; exact H.
Qed.

Section Spec.
  Variable P : params.

  (* ---- the directive scan ---- *)
  (* blank lines (after trimming) are skipped *)
  Lemma scan_lines_blank d re l ls :
    trim (p_is_ws P) l = [] -> scan_lines P d re (l :: ls) = scan_lines P d re ls.
  Proof. intros H. cbn [scan_lines]. rewrite H. reflexivity. Qed.

  (* the first non-blank line decides: if it is not a comment (no match of the comment pattern)
     there is no directive, whatever stands further up *)
  Lemma scan_lines_code_line d re l ls :
    trim (p_is_ws P) l <> [] -> captures re (trim (p_is_ws P) l) = None ->
    scan_lines P d re (l :: ls) = false.
  Proof.
    intros Hn Hc. cbn [scan_lines]. destruct (trim (p_is_ws P) l) eqn:E; [congruence|]. rewrite Hc. reflexivity.
  Qed.

  (* ... and if it is a comment, only its own groups are compared: lines further up never matter *)
  Lemma scan_lines_first_comment_decides d re l ls ls' :
    trim (p_is_ws P) l <> [] -> scan_lines P d re (l :: ls) = scan_lines P d re (l :: ls').
  Proof.
    intros Hn. cbn [scan_lines]. destruct (trim (p_is_ws P) l) eqn:E; [congruence|].
    destruct (captures re (n :: l0)); reflexivity.
  Qed.

  (* nothing above the statement's line: no directive *)
  Lemma scan_lines_nil d re : scan_lines P d re [] = false.
  Proof. reflexivity. Qed.

  (* ---- the argument scan on a canonical argument list ---- *)
  (* key-value nodes: key node, optional value node *)
  Fixpoint kv_nodes (kvs : list (ptree * option ptree)) : list ptree :=
    match kvs with
    | [] => []
    | (k, None) :: r => k :: kv_nodes r
    | (k, Some v) :: r => k :: v :: kv_nodes r
    end.

  Definition kv_wf (kv : ptree * option ptree) : Prop :=
    is_rule (fst kv) "kvp_key" = true /\
    match snd kv with Some v => is_rule v "kvp_key" = false /\ is_rule v "kvp_value" = true | None => True end.

  Lemma kvp_spans_canon : forall kvs acc,
    Forall kv_wf kvs -> kvp_spans (kv_nodes kvs) acc = (rev acc ++ kvs)%list.
  Proof.
    induction kvs as [|[k v] kvs IH]; intros acc H; cbn [kv_nodes kvp_spans].
    - rewrite app_nil_r. reflexivity.
    - inversion H as [|? ? [Hk Hv] H2]; subst. cbn [fst snd] in *. destruct v as [v|].
      + destruct Hv as [Hv1 Hv2]. cbn [kvp_spans]. rewrite Hk, Hv1, Hv2. rewrite IH by exact H2.
        cbn [rev]. rewrite <- app_assoc. reflexivity.
      + cbn [kvp_spans]. rewrite Hk. rewrite IH by exact H2. cbn [rev]. rewrite <- app_assoc. reflexivity.
  Qed.

  (* the children of macro_args for a statement in canonical form *)
  Definition canon_args (target : option ptree) (kvs : list (ptree * option ptree)) (ks ke : N)
             (ls le : N) (value : ptree) : list ptree :=
    (match target with Some t => [t] | None => [] end ++
     match kvs with [] => [] | _ => [Node "kvp_args" ks ke (kv_nodes kvs)] end ++
     [Node "string_literal" ls le [value]])%list.

  Definition first_after_target (kvs : list (ptree * option ptree)) (ks ls : N) : N :=
    match kvs with [] => ls | _ => ks end.

  Theorem scan_args_canon target kvs ks ke ls le value :
    match target with Some t => is_rule t "target_arg" = true | None => True end ->
    Forall kv_wf kvs ->
    scan_args (canon_args target kvs ks ke ls le value) (mkScan None [] false None) =
    mkScan (Some value) kvs
           (match target with Some _ => true | None => false end)
           (match target with Some _ => Some (first_after_target kvs ks ls) | None => None end).
  Proof.
    intros Ht Hk. unfold canon_args.
    assert (Hkv : forall tg at_, 
              scan_args ((match kvs with [] => [] | _ => [Node "kvp_args" ks ke (kv_nodes kvs)] end ++
                          [Node "string_literal" ls le [value]])%list) (mkScan None [] tg at_) =
              mkScan (Some value) kvs tg
                     (if tg then match at_ with Some p => Some p | None => Some (first_after_target kvs ks ls) end else at_)).
    { intros tg at_. destruct kvs as [|kv kvs'].
      - cbn [app scan_args sc_target sc_after_target andb is_rule node_rule node_kids node_start String.eqb].
        destruct tg; [destruct at_|]; cbn; reflexivity.
      - cbn [app scan_args sc_target sc_after_target is_rule node_rule node_kids node_start].
        destruct tg; [destruct at_|];
          cbn [andb sc_msg sc_kvs sc_target sc_after_target];
          cbn - [kvp_spans kv_nodes]; rewrite (kvp_spans_canon (kv :: kvs') [] Hk); reflexivity. }
    destruct target as [t|].
    - cbn [app scan_args sc_target sc_after_target andb]. rewrite Ht. cbn [sc_msg sc_kvs sc_target sc_after_target].
      rewrite Hkv. reflexivity.
    - cbn [app]. rewrite Hkv. reflexivity.
  Qed.

  (* ---- structured mode: where the reference is looked for and where a new one goes ---- *)
  (* the first key-value whose key text is the ref key and which has a value *)
  Fixpoint first_ref_value (key_text : ptree -> list N) (kvs : list (ptree * option ptree)) : option ptree :=
    match kvs with
    | [] => None
    | (k, v) :: r =>
        if text_eqb (key_text k) (p_ref_key P)
        then match v with Some vs => Some vs | None => first_ref_value key_text r end
        else first_ref_value key_text r
    end.

  Lemma find_ref_kv_spec code key_text : forall kvs,
    (forall k v, In (k, v) kvs -> str_slice code (node_start k) (node_end k) = Some (key_text k)) ->
    find_ref_kv P code kvs = Done (first_ref_value key_text kvs).
  Proof.
    induction kvs as [|[k v] kvs IH]; intros H; cbn [find_ref_kv first_ref_value]; [reflexivity|].
    rewrite (H k v (or_introl eq_refl)).
    assert (H' : forall k0 v0, In (k0, v0) kvs -> str_slice code (node_start k0) (node_end k0) = Some (key_text k0)).
    { intros k0 v0 Hin. apply (H k0 v0). right. exact Hin. }
    destruct (text_eqb (key_text k) (p_ref_key P)); [|apply IH; exact H'].
    destruct v; [reflexivity|apply IH; exact H'].
  Qed.

  (* one statement in canonical form, structured mode, no directive in force *)
  Theorem one_macro_structured_canon cfg code s e ns ne nk as_ ae target kvs ks ke ls le value name key_text :
    let found := Node "log_macro" s e
                   [Node "macro_name" ns ne nk;
                    Node "macro_args" as_ ae (canon_args target kvs ks ke ls le value)] in
    cfg_structured cfg = true ->
    directive_check P (p_ignore P) code ns (p_comment_re P) = Some false ->
    directive_check P (p_no_kvp P) code as_ (p_comment_re P) = Some false ->
    str_slice code ns ne = Some name -> macro_of_interest name cfg = true ->
    match target with Some t => is_rule t "target_arg" = true | None => True end ->
    Forall kv_wf kvs ->
    (forall k v, In (k, v) kvs -> str_slice code (node_start k) (node_end k) = Some (key_text k)) ->
    one_macro P cfg code found =
    match first_ref_value key_text kvs with
    | Some vs =>
        match line_col code (node_start vs), str_slice code (node_start vs) (node_end vs) with
        | Some (l, c), Some vt =>
            Emit (mkEntry (node_start vs) l c (ref_value P vt) (short_name name)
                          KStructuredPreExisting None None)
        | _, _ => StepPanic
        end
    | None =>
        match match target with
              | Some _ => match line_col code (first_after_target kvs ks ls) with
                          | Some (l, c) => Some (first_after_target kvs ks ls, l, c)
                          | None => None
                          end
              | None => match line_col code as_ with
                        | Some (l, c) => Some (as_ + 1, l, c + 1)
                        | None => None
                        end
              end with
        | Some (ipos, l, c) =>
            Emit (mkEntry ipos l c None (short_name name) KStructuredNew
                          (Some (fst (p_fmt_prefix P) ++ p_ref_key P ++ snd (p_fmt_prefix P))%list)
                          (Some (match kvs with _ :: _ => nth 0 (p_suffixes P) [] | [] => nth 1 (p_suffixes P) [] end)))
        | None => StepPanic
        end
    end.
  Proof.
    intros found Hst Hig Hnk Hname Hint Ht Hk Hkeys. unfold found, one_macro.
    cbn [node_kids is_rule node_rule node_start node_end String.eqb Ascii.eqb Bool.eqb negb].
    rewrite Hig, Hname, Hint. cbn [negb].
    rewrite (scan_args_canon target kvs ks ke ls le value Ht Hk).
    cbn [sc_msg sc_kvs sc_target sc_after_target]. rewrite Hst, Hnk. cbn [negb andb].
    rewrite (find_ref_kv_spec code key_text kvs Hkeys).
    destruct (first_ref_value key_text kvs) as [vs|]; [reflexivity|].
    destruct target; reflexivity.
  Qed.

  (* ... and in message style (or under a no-kvp directive): the entry is at the start of the
     message literal's value, with the reference extracted from the literal's text *)
  Theorem one_macro_message_canon cfg code s e ns ne nk as_ ae target kvs ks ke ls le value name :
    let found := Node "log_macro" s e
                   [Node "macro_name" ns ne nk;
                    Node "macro_args" as_ ae (canon_args target kvs ks ke ls le value)] in
    (cfg_structured cfg = false \/
     directive_check P (p_no_kvp P) code as_ (p_comment_re P) = Some true) ->
    directive_check P (p_ignore P) code ns (p_comment_re P) = Some false ->
    str_slice code ns ne = Some name -> macro_of_interest name cfg = true ->
    match target with Some t => is_rule t "target_arg" = true | None => True end ->
    Forall kv_wf kvs ->
    one_macro P cfg code found =
    match line_col code (node_start value), str_slice code (node_start value) (node_end value) with
    | Some (l, c), Some body =>
        Emit (mkEntry (node_start value) l c (extract_reference P body) (short_name name) KString None None)
    | _, _ => StepPanic
    end.
  Proof.
    intros found Hmode Hig Hname Hint Ht Hk. unfold found, one_macro.
    cbn [node_kids is_rule node_rule node_start node_end String.eqb Ascii.eqb Bool.eqb negb].
    rewrite Hig, Hname, Hint. cbn [negb].
    rewrite (scan_args_canon target kvs ks ke ls le value Ht Hk).
    cbn [sc_msg sc_kvs sc_target sc_after_target].
    destruct Hmode as [Hs|Hd].
    - rewrite Hs. cbn [andb]. reflexivity.
    - destruct (cfg_structured cfg); [rewrite Hd|]; cbn [negb andb]; reflexivity.
  Qed.

  (* an ignore directive, or a name that is not configured: no entry *)
  Theorem one_macro_skipped cfg code s e ns ne nk rest_kids name :
    let found := Node "log_macro" s e (Node "macro_name" ns ne nk :: rest_kids) in
    (directive_check P (p_ignore P) code ns (p_comment_re P) = Some true \/
     (directive_check P (p_ignore P) code ns (p_comment_re P) = Some false /\
      str_slice code ns ne = Some name /\ macro_of_interest name cfg = false)) ->
    one_macro P cfg code found = Skip.
  Proof.
    intros found H. unfold found, one_macro.
    cbn [node_kids is_rule node_rule node_start node_end String.eqb Ascii.eqb Bool.eqb negb].
    destruct H as [H|(H1 & H2 & H3)]; [rewrite H; reflexivity|]. rewrite H1, H2, H3. reflexivity.
  Qed.
End Spec.
