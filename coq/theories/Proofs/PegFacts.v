(* PegFacts.v -- generic facts about the pest semantics of Model/Peg.v, for ANY grammar:
   input is only consumed from the front and positions are byte sums (run_consumes); a
   syntactic criterion under which a parse cannot diverge (no_diverge); where tokens lie. *)
From Coq Require Import List Arith NArith Bool Lia String.
From Breadlog Require Import Model.Peg.
Import ListNotations.
Open Scope N_scope.

Lemma cplen_pos (c : N) : 1 <= cplen c.
Proof. unfold cplen. destruct (c <? 128), (c <? 2048), (c <? 65536); lia. Qed.

Lemma blen_app (a b : list N) : blen (a ++ b) = blen a + blen b.
Proof. induction a as [|x a IH]; cbn [app blen]; [lia | rewrite IH; lia]. Qed.

Lemma blen_pos (s : list N) : s <> [] -> 0 < blen s.
Proof. destruct s as [|c s]; [congruence|]. intros _. cbn [blen]. pose proof (cplen_pos c). lia. Qed.

(* j is reached from i by consuming c from the front *)
Definition advances (i j : input) (c : list N) : Prop :=
  rest i = c ++ rest j /\ pos j = pos i + blen c.

Lemma advances_refl i : advances i i [].
Proof. split; [reflexivity|cbn; lia]. Qed.

Lemma advances_trans i j k c d : advances i j c -> advances j k d -> advances i k (c ++ d).
Proof.
  intros [H1 H2] [H3 H4]. split.
  - rewrite H1, H3, app_assoc. reflexivity.
  - rewrite H4, H2, blen_app. lia.
Qed.

Definition adv (i j : input) : Prop := exists c, advances i j c.

Lemma adv_refl i : adv i i. Proof. exists []. apply advances_refl. Qed.
Lemma adv_trans i j k : adv i j -> adv j k -> adv i k.
Proof. intros [c H1] [d H2]. exists (c ++ d). eapply advances_trans; eauto. Qed.

Lemma adv_pos_le i j : adv i j -> pos i <= pos j.
Proof. intros [c [_ H]]. lia. Qed.

Lemma adv_len i j : adv i j -> (List.length (rest j) <= List.length (rest i))%nat.
Proof. intros [c [H _]]. rewrite H, app_length. lia. Qed.

Lemma adv_strict_len i j : adv i j -> pos i < pos j -> (List.length (rest j) < List.length (rest i))%nat.
Proof.
  intros [c [H1 H2]] Hlt. rewrite H1, app_length.
  destruct c as [|x c]; [cbn in H2; lia|]. cbn [List.length]. lia.
Qed.

Lemma strip_prefix_spec : forall s t r, strip_prefix s t = Some r -> t = s ++ r.
Proof.
  induction s as [|c s IH]; intros t r H; cbn in H.
  - inversion H. reflexivity.
  - destruct t as [|d t]; [discriminate|]. destruct (N.eqb_spec c d); [|discriminate].
    subst. rewrite (IH _ _ H). reflexivity.
Qed.

Lemma skip_until_adv ss : forall t p, adv (mkIn t p) (skip_until ss t p).
Proof.
  induction t as [|c t IH]; intros p; cbn [skip_until].
  - apply adv_refl.
  - destruct (existsb (fun s => is_prefix s (c :: t)) ss); [apply adv_refl|].
    eapply adv_trans; [|apply IH]. exists [c]. split; cbn; [reflexivity|lia].
Qed.

Section Generic.
  Variable U : uclass -> N -> bool.
  Variable sk : input -> option input.
  Hypothesis sk_adv : forall j j', sk j = Some j' -> adv j j'.

  Lemma do_skip_adv a j j' : do_skip sk a j = Some j' -> adv j j'.
  Proof. destruct a; cbn; intros H; try (inversion H; apply adv_refl). apply sk_adv. exact H. Qed.

  Lemma rep_loop_adv (f : input -> res) :
    (forall j j' t, f j = Ok j' t -> adv j j') ->
    forall fuel i acc i' t, rep_loop f fuel i acc = Ok i' t -> adv i i'.
  Proof.
    intros Hf. induction fuel as [|x fuel IH]; intros i acc i' t H; cbn [rep_loop] in H; [discriminate|].
    destruct (f i) as [| |j tj] eqn:Ef.
    - inversion H; subst. apply adv_refl.
    - discriminate.
    - destruct (pos i <? pos j); [|discriminate].
      eapply adv_trans; [eapply Hf; eauto|eapply IH; eauto].
  Qed.

  (* input is only consumed from the front; the position is the byte length consumed *)
  Theorem run_consumes : forall e a look i i' t,
    run U sk e a look i = Ok i' t -> adv i i'.
  Proof.
    induction e as [s|lo hi| | | |c|name ty impl body IHb|x IHx y IHy|x IHx y IHy|x IHx|x IHx|ss|x IHx|x IHx];
      intros a look i i' t H; cbn [run] in H.
    - destruct (strip_prefix s (rest i)) as [r|] eqn:Es; [|discriminate]. inversion H; subst.
      exists s. split; cbn; [apply strip_prefix_spec; exact Es|reflexivity].
    - destruct (rest i) as [|c r] eqn:Er; [discriminate|].
      destruct ((lo <=? c) && (c <=? hi)); [|discriminate]. inversion H; subst.
      exists [c]. split; cbn; [exact Er|lia].
    - destruct (rest i) as [|c r] eqn:Er; [discriminate|]. inversion H; subst.
      exists [c]. split; cbn; [exact Er|lia].
    - destruct (pos i =? 0); [|discriminate]. inversion H; subst. apply adv_refl.
    - destruct (rest i); [|discriminate]. inversion H; subst. apply adv_refl.
    - destruct (rest i) as [|d r] eqn:Er; [discriminate|]. destruct (U c d); [|discriminate].
      inversion H; subst. exists [d]. split; cbn; [exact Er|lia].
    - destruct (run U sk body (inner_atomicity ty impl a) look i) as [| |j tj] eqn:Eb; try discriminate.
      apply IHb in Eb. destruct (emits ty _ look); inversion H; subst; exact Eb.
    - destruct (run U sk x a look i) as [| |i1 t1] eqn:Ex; try discriminate.
      destruct (do_skip sk a i1) as [i1'|] eqn:Es; [|discriminate].
      destruct (run U sk y a look i1') as [| |i2 t2] eqn:Ey; try discriminate. inversion H; subst.
      eapply adv_trans; [eapply IHx; eauto|]. eapply adv_trans; [eapply do_skip_adv; eauto|eapply IHy; eauto].
    - destruct (run U sk x a look i) as [| |i1 t1] eqn:Ex.
      + eapply IHy; eauto.
      + discriminate.
      + inversion H; subst. eapply IHx; eauto.
    - destruct (run U sk x a look i) as [| |i1 t1] eqn:Ex.
      + inversion H; subst. apply adv_refl.
      + discriminate.
      + inversion H; subst. eapply IHx; eauto.
    - destruct (run U sk x a look i) as [| |i1 t1] eqn:Ex.
      + inversion H; subst. apply adv_refl.
      + discriminate.
      + destruct (pos i <? pos i1); [|discriminate].
        eapply adv_trans; [eapply IHx; eauto|].
        eapply rep_loop_adv; [|exact H].
        intros j j' tj Hj. cbn beta in Hj.
        destruct (do_skip sk a j) as [j1|] eqn:Es; [|discriminate].
        eapply adv_trans; [eapply do_skip_adv; eauto|eapply IHx; eauto].
    - inversion H; subst. destruct i as [r p]. apply skip_until_adv.
    - destruct (run U sk x a true i) as [| |i1 t1]; try discriminate. inversion H; subst. apply adv_refl.
    - destruct (run U sk x a true i) as [| |i1 t1]; try discriminate. inversion H; subst. apply adv_refl.
  Qed.
End Generic.

(* the identity skip and hidden::skip itself advance *)
Lemma idsk_adv j j' : idsk j = Some j' -> adv j j'.
Proof. intros H. inversion H. apply adv_refl. Qed.

Lemma skipf_adv U ws cm j j' : skipf U ws cm j = Some j' -> adv j j'.
Proof.
  unfold skipf. destruct (skip_expr ws cm) as [e|]; [|intros H; inversion H; apply adv_refl].
  destruct (run U idsk e Atomic false j) as [| |i t] eqn:E; try discriminate.
  intros H. inversion H; subst. eapply run_consumes; [apply idsk_adv|exact E].
Qed.

(* ---- termination: a syntactic criterion under which a parse never diverges ---- *)

(* success of e always moves the position forward *)
Fixpoint consumes (e : expr) : bool :=
  match e with
  | EStr s => match s with [] => false | _ => true end
  | ERange _ _ | EAny | EClass _ => true
  | ESoi | EEoi | EOpt _ | ERep _ | ESkipUntil _ | EPos _ | ENeg _ => false
  | ERule _ _ _ body => consumes body
  | ESeq a b => consumes a || consumes b
  | EChoice a b => consumes a && consumes b
  end.

(* every repetition body consumes *)
Fixpoint wf (e : expr) : bool :=
  match e with
  | EStr _ | ERange _ _ | EAny | ESoi | EEoi | EClass _ | ESkipUntil _ => true
  | ERule _ _ _ body => wf body
  | ESeq a b | EChoice a b => wf a && wf b
  | EOpt x | EPos x | ENeg x => wf x
  | ERep x => wf x && consumes x
  end.

(* e never fails (used for the skip expression) *)
Fixpoint nofail (e : expr) : bool :=
  match e with
  | EOpt _ | ERep _ | ESkipUntil _ => true
  | ERule _ _ _ body => nofail body
  | ESeq a b => nofail a && nofail b
  | EChoice a b => nofail a || nofail b
  | _ => false
  end.

Section Termination.
  Variable U : uclass -> N -> bool.
  Variable sk : input -> option input.
  Hypothesis sk_adv : forall j j', sk j = Some j' -> adv j j'.
  Hypothesis sk_total : forall j, sk j <> None.

  Lemma consumes_progress : forall e a look i i' t,
    consumes e = true -> run U sk e a look i = Ok i' t -> pos i < pos i'.
  Proof.
    induction e as [s|lo hi| | | |c|name ty impl body IHb|x IHx y IHy|x IHx y IHy|x IHx|x IHx|ss|x IHx|x IHx];
      intros a look i i' t Hc H; cbn [consumes] in Hc; try discriminate; cbn [run] in H.
    - destruct (strip_prefix s (rest i)) as [r|]; [|discriminate]. inversion H; subst. cbn [pos].
      assert (s <> []) by (destruct s; [discriminate|discriminate]). pose proof (blen_pos s H0). lia.
    - destruct (rest i) as [|c r]; [discriminate|]. destruct ((lo <=? c) && (c <=? hi)); [|discriminate].
      inversion H; subst. cbn [pos]. pose proof (cplen_pos c). lia.
    - destruct (rest i) as [|c r]; [discriminate|]. inversion H; subst. cbn [pos]. pose proof (cplen_pos c). lia.
    - destruct (rest i) as [|d r]; [discriminate|]. destruct (U c d); [|discriminate].
      inversion H; subst. cbn [pos]. pose proof (cplen_pos d). lia.
    - destruct (run U sk body (inner_atomicity ty impl a) look i) as [| |j tj] eqn:Eb; try discriminate.
      pose proof (IHb _ _ _ _ _ Hc Eb). destruct (emits ty _ look); inversion H; subst; assumption.
    - destruct (run U sk x a look i) as [| |i1 t1] eqn:Ex; try discriminate.
      destruct (do_skip sk a i1) as [i1'|] eqn:Es; [|discriminate].
      destruct (run U sk y a look i1') as [| |i2 t2] eqn:Ey; try discriminate. inversion H; subst.
      pose proof (adv_pos_le _ _ (run_consumes U sk sk_adv _ _ _ _ _ _ Ex)).
      pose proof (adv_pos_le _ _ (do_skip_adv sk sk_adv _ _ _ Es)).
      pose proof (adv_pos_le _ _ (run_consumes U sk sk_adv _ _ _ _ _ _ Ey)).
      apply orb_true_iff in Hc. destruct Hc as [Hc|Hc].
      + pose proof (IHx _ _ _ _ _ Hc Ex). lia.
      + pose proof (IHy _ _ _ _ _ Hc Ey). lia.
    - apply andb_true_iff in Hc. destruct Hc as [Hx Hy].
      destruct (run U sk x a look i) as [| |i1 t1] eqn:Ex.
      + eapply IHy; eauto.
      + discriminate.
      + inversion H; subst. eapply IHx; eauto.
  Qed.

  Lemma do_skip_total a j : do_skip sk a j <> None.
  Proof. destruct a; cbn; try discriminate. apply sk_total. Qed.

  Lemma rep_loop_no_diverge (f : input -> res) :
    (forall j, f j <> Diverge) ->
    (forall j j' t, f j = Ok j' t -> adv j j' /\ pos j < pos j') ->
    forall fuel i acc, (List.length (rest i) < List.length fuel)%nat -> rep_loop f fuel i acc <> Diverge.
  Proof.
    intros Hnd Hf. induction fuel as [|x fuel IH]; intros i acc Hlen; cbn [rep_loop]; [cbn in Hlen; lia|].
    destruct (f i) as [| |j tj] eqn:Ef; [discriminate|exfalso; eapply Hnd; eauto|].
    destruct (Hf _ _ _ Ef) as [Ha Hlt]. rewrite (proj2 (N.ltb_lt _ _) Hlt).
    apply IH. pose proof (adv_strict_len _ _ Ha Hlt). cbn [List.length] in Hlen. lia.
  Qed.

  Theorem no_diverge : forall e a look i, wf e = true -> run U sk e a look i <> Diverge.
  Proof.
    induction e as [s|lo hi| | | |c|name ty impl body IHb|x IHx y IHy|x IHx y IHy|x IHx|x IHx|ss|x IHx|x IHx];
      intros a look i Hw; cbn [wf] in Hw; cbn [run].
    - destruct (strip_prefix s (rest i)); discriminate.
    - destruct (rest i) as [|c r]; [discriminate|]. destruct ((lo <=? c) && (c <=? hi)); discriminate.
    - destruct (rest i); discriminate.
    - destruct (pos i =? 0); discriminate.
    - destruct (rest i); discriminate.
    - destruct (rest i) as [|d r]; [discriminate|]. destruct (U c d); discriminate.
    - specialize (IHb (inner_atomicity ty impl a) look i Hw).
      destruct (run U sk body (inner_atomicity ty impl a) look i); try congruence.
      destruct (emits ty _ look); discriminate.
    - apply andb_true_iff in Hw. destruct Hw as [Hx Hy].
      specialize (IHx a look i Hx). destruct (run U sk x a look i) as [| |i1 t1]; try congruence.
      pose proof (do_skip_total a i1). destruct (do_skip sk a i1) as [i1'|]; [|congruence].
      specialize (IHy a look i1' Hy). destruct (run U sk y a look i1'); try congruence; discriminate.
    - apply andb_true_iff in Hw. destruct Hw as [Hx Hy].
      specialize (IHx a look i Hx). destruct (run U sk x a look i) as [| |i1 t1] eqn:Ex.
      + apply IHy. exact Hy.
      + congruence.
      + discriminate.
    - specialize (IHx a look i Hw). destruct (run U sk x a look i); try congruence; discriminate.
    - apply andb_true_iff in Hw. destruct Hw as [Hx Hc].
      pose proof (IHx a look i Hx) as Hnd.
      destruct (run U sk x a look i) as [| |i1 t1] eqn:Ex; [discriminate|congruence|].
      pose proof (consumes_progress _ _ _ _ _ _ Hc Ex) as Hlt.
      rewrite (proj2 (N.ltb_lt _ _) Hlt).
      apply rep_loop_no_diverge.
      + intros j. pose proof (do_skip_total a j). destruct (do_skip sk a j) as [j1|]; [|congruence]. apply IHx. exact Hx.
      + intros j j' tj Hj. destruct (do_skip sk a j) as [j1|] eqn:Es; [|discriminate].
        pose proof (do_skip_adv sk sk_adv _ _ _ Es) as Ha1.
        pose proof (run_consumes U sk sk_adv _ _ _ _ _ _ Hj) as Ha2.
        pose proof (consumes_progress _ _ _ _ _ _ Hc Hj) as Hp.
        split; [eapply adv_trans; eauto|]. pose proof (adv_pos_le _ _ Ha1). lia.
      + cbn [List.length]. lia.
    - discriminate.
    - specialize (IHx a true i Hw). destruct (run U sk x a true i); try congruence; discriminate.
    - specialize (IHx a true i Hw). destruct (run U sk x a true i); try congruence; discriminate.
  Qed.

  Lemma nofail_spec : forall e a look i, nofail e = true -> wf e = true -> run U sk e a look i <> Fail.
  Proof.
    induction e as [s|lo hi| | | |c|name ty impl body IHb|x IHx y IHy|x IHx y IHy|x IHx|x IHx|ss|x IHx|x IHx];
      intros a look i Hn Hw; cbn [nofail] in Hn; try discriminate; cbn [wf] in Hw; cbn [run].
    - specialize (IHb (inner_atomicity ty impl a) look i Hn Hw).
      destruct (run U sk body (inner_atomicity ty impl a) look i) as [| |j tj]; [congruence|discriminate|].
      destruct (emits ty _ look); discriminate.
    - apply andb_true_iff in Hn. destruct Hn as [Hnx Hny]. apply andb_true_iff in Hw. destruct Hw as [Hwx Hwy].
      specialize (IHx a look i Hnx Hwx). destruct (run U sk x a look i) as [| |i1 t1]; [congruence|discriminate|].
      pose proof (do_skip_total a i1). destruct (do_skip sk a i1) as [i1'|]; [|congruence].
      specialize (IHy a look i1' Hny Hwy). destruct (run U sk y a look i1') as [| |i2 t2]; [congruence|discriminate|discriminate].
    - apply andb_true_iff in Hw. destruct Hw as [Hwx Hwy]. apply orb_true_iff in Hn.
      destruct (run U sk x a look i) as [| |i1 t1] eqn:Ex; [|discriminate|discriminate].
      destruct Hn as [Hn|Hn]; [exfalso; eapply IHx; eauto|apply IHy; assumption].
    - destruct (run U sk x a look i); discriminate.
    - apply andb_true_iff in Hw. destruct Hw as [Hx Hc].
      destruct (run U sk x a look i) as [| |i1 t1] eqn:Ex; [discriminate|discriminate|].
      destruct (pos i <? pos i1); [|discriminate].
      generalize (0 :: rest i1) as fuel. generalize t1 as acc. clear Ex. revert i1.
      intros i1 acc fuel. revert i1 acc.
      induction fuel as [|z fuel IHf]; intros i1 acc; cbn [rep_loop]; [discriminate|].
      destruct (match do_skip sk a i1 with Some j' => run U sk x a look j' | None => Diverge end) as [| |j tj];
        [discriminate|discriminate|].
      destruct (pos i1 <? pos j); [|discriminate]. apply IHf.
  Qed.
End Termination.

(* hidden::skip is total when WHITESPACE / COMMENT are well formed *)
Definition wf_skip (ws cm : option expr) : bool :=
  match skip_expr ws cm with None => true | Some e => wf e && nofail e end.

Lemma skipf_total U ws cm : wf_skip ws cm = true -> forall j, skipf U ws cm j <> None.
Proof.
  unfold wf_skip, skipf. destruct (skip_expr ws cm) as [e|]; [|discriminate].
  intros H j. apply andb_true_iff in H. destruct H as [Hw Hn].
  assert (Hidt0 : forall j0, idsk j0 <> None) by discriminate.
  pose proof (no_diverge U idsk idsk_adv Hidt0 e Atomic false j Hw) as Hd.
  assert (Hidt : forall j0, idsk j0 <> None) by discriminate.
  pose proof (nofail_spec U idsk Hidt e Atomic false j Hn Hw) as Hf.
  destruct (run U idsk e Atomic false j); congruence.
Qed.

(* a whole grammar: the start rule and the skip rules are well formed => parsing any text ends *)
Definition wf_grammar (ws cm : option expr) (e : expr) : bool := wf_skip ws cm && wf e.

Theorem parse_terminates U ws cm e :
  wf_grammar ws cm e = true -> forall t, parse U ws cm e t <> Diverge.
Proof.
  intros H t. apply andb_true_iff in H. destruct H as [Hs He]. unfold parse.
  apply no_diverge; [apply skipf_adv|apply skipf_total; exact Hs|exact He].
Qed.
