(* WorldFacts.v -- what a well-formed effect list (one group of temp-file operations per source
   file, then lock operations) does to the world, at the end and at every prefix (crash point). *)
From Coq Require Import List Arith NArith Bool Lia.
From Breadlog Require Import Model.Peg Model.Utf8 Model.Driver.
From Breadlog Require Import Proofs.RewriteFacts.
Import ListNotations.

Inductive gspec := GS (j : nat) (writes : list eff) (renamed : bool).

Definition gs_file (g : gspec) : nat := match g with GS j _ _ => j end.
Definition gs_last (g : gspec) : eff :=
  match g with GS j _ rn => if rn then ERename j else EUnlinkTmp j end.
Definition gs_body (g : gspec) : list eff :=
  match g with GS j ws _ => ECreateTmp j :: ws end.
Definition gs_effs (g : gspec) : list eff := gs_body g ++ [gs_last g].
Definition gs_wf (g : gspec) : Prop := match g with GS j ws _ => Forall (is_write j) ws end.

Definition is_lock_eff (e : eff) : Prop := e = ELockTrunc \/ exists n, e = ELockWrite n.

(* ---- tmp maps ---- *)
Lemma tmp_get_set t f b : tmp_get (tmp_set t f b) f = Some b.
Proof. unfold tmp_set. cbn. rewrite Nat.eqb_refl. reflexivity. Qed.

Lemma tmp_del_idem t f : tmp_del (tmp_del t f) f = tmp_del t f.
Proof.
  induction t as [|[g b] t IH]; cbn; [reflexivity|].
  destruct (Nat.eqb g f) eqn:E; [exact IH|]. cbn. rewrite E, IH. reflexivity.
Qed.

Lemma tmp_del_set t f b : tmp_del (tmp_set t f b) f = tmp_del t f.
Proof. unfold tmp_set. cbn. rewrite Nat.eqb_refl. apply tmp_del_idem. Qed.

Lemma tmp_set_set t f b c : tmp_set (tmp_set t f b) f c = tmp_set t f c.
Proof. unfold tmp_set at 1. rewrite tmp_del_set. reflexivity. Qed.

(* ---- the body of a group only touches tmp f: after it, tmp f holds what was written ---- *)
(* normal form: we only ever look at tmp through tmp_get / tmp_del, so state facts that way *)
Definition tmp_equiv (a b : list (nat * list N)) : Prop :=
  forall f, tmp_get a f = tmp_get b f.

Lemma apply_body_src j : forall ws w,
  Forall (is_write j) ws ->
  w_src (apply_effs w ws) = w_src w /\ w_lock (apply_effs w ws) = w_lock w.
Proof.
  induction ws as [|e ws IH]; intros w Hw; [split; reflexivity|].
  inversion Hw as [|? ? [bs He] Hw']; subst. cbn [apply_effs fold_left].
  fold (apply_effs (apply_eff w (EWriteTmp j bs)) ws).
  destruct (IH (apply_eff w (EWriteTmp j bs)) Hw') as [Hs Hl]. rewrite Hs, Hl.
  cbn [apply_eff]. destruct (tmp_get (w_tmp w) j); split; reflexivity.
Qed.

Lemma apply_body_tmp j : forall ws w cur,
  Forall (is_write j) ws ->
  tmp_get (w_tmp w) j = Some cur ->
  tmp_get (w_tmp (apply_effs w ws)) j = Some (cur ++ written ws) /\
  (forall g, g <> j -> tmp_get (w_tmp (apply_effs w ws)) g = tmp_get (w_tmp w) g).
Proof.
  induction ws as [|e ws IH]; intros w cur Hw Hg.
  - cbn. rewrite app_nil_r. split; [exact Hg|reflexivity].
  - inversion Hw as [|? ? [bs He] Hw']; subst. cbn [apply_effs fold_left].
    fold (apply_effs (apply_eff w (EWriteTmp j bs)) ws).
    assert (Hg' : tmp_get (w_tmp (apply_eff w (EWriteTmp j bs))) j = Some (cur ++ bs)).
    { cbn [apply_eff]. rewrite Hg. cbn [w_tmp]. apply tmp_get_set. }
    destruct (IH _ _ Hw' Hg') as [H1 H2]. split.
    + rewrite H1. cbn [written flat_map payload]. rewrite <- app_assoc. reflexivity.
    + intros g Hne. rewrite (H2 g Hne). cbn [apply_eff]. rewrite Hg. cbn [w_tmp].
      unfold tmp_set. cbn [tmp_get]. destruct (Nat.eqb_spec j g); [congruence|].
      clear - Hne. induction (w_tmp w) as [|[h b] t IHt]; cbn; [reflexivity|].
      destruct (Nat.eqb_spec h j).
      * subst. destruct (Nat.eqb_spec j g); [congruence|exact IHt].
      * cbn. destruct (Nat.eqb h g); [reflexivity|exact IHt].
Qed.

Lemma tmp_get_del_other t f g : g <> f -> tmp_get (tmp_del t f) g = tmp_get t g.
Proof.
  intros Hne. induction t as [|[h b] t IH]; cbn; [reflexivity|].
  destruct (Nat.eqb_spec h f).
  - subst. destruct (Nat.eqb_spec f g); [congruence|exact IH].
  - cbn. destruct (Nat.eqb h g); [reflexivity|exact IH].
Qed.

Lemma tmp_get_del_same t f : tmp_get (tmp_del t f) f = None.
Proof.
  induction t as [|[h b] t IH]; cbn; [reflexivity|].
  destruct (Nat.eqb_spec h f); [exact IH|]. cbn. destruct (Nat.eqb_spec h f); [congruence|exact IH].
Qed.

(* a complete group *)
Lemma apply_group g w :
  gs_wf g ->
  let w' := apply_effs w (gs_effs g) in
  w_lock w' = w_lock w /\
  tmp_get (w_tmp w') (gs_file g) = None /\
  (forall h, h <> gs_file g -> tmp_get (w_tmp w') h = tmp_get (w_tmp w) h) /\
  w_src w' = match g with
             | GS j ws true => set_nth j (written ws) (w_src w)
             | GS _ _ false => w_src w
             end.
Proof.
  destruct g as [j ws rn]. intros Hwf. cbn [gs_wf] in Hwf.
  unfold gs_effs, gs_body, gs_last. cbn [app]. unfold apply_effs. cbn [fold_left].
  rewrite fold_left_app. cbn [fold_left].
  set (w1 := apply_eff w (ECreateTmp j)).
  fold (apply_effs w1 ws).
  assert (Hg1 : tmp_get (w_tmp w1) j = Some []) by (cbn; apply tmp_get_set).
  destruct (apply_body_src j ws w1 Hwf) as [Hs Hl].
  destruct (apply_body_tmp j ws w1 [] Hwf Hg1) as [Ht Ho]. cbn [app] in Ht.
  destruct rn; cbn [apply_eff gs_file].
  - rewrite Ht. cbn [w_lock w_tmp w_src]. rewrite Hl, Hs. cbn.
    split; [reflexivity|]. split; [apply tmp_get_del_same|]. split; [|reflexivity].
    intros h Hne. rewrite tmp_get_del_other by exact Hne. rewrite Ho by exact Hne.
    cbn. destruct (Nat.eqb_spec j h); [congruence|]. apply tmp_get_del_other. exact Hne.
  - cbn [w_lock w_tmp w_src]. rewrite Hl, Hs. cbn.
    split; [reflexivity|]. split; [apply tmp_get_del_same|]. split; [|reflexivity].
    intros h Hne. rewrite tmp_get_del_other by exact Hne. rewrite Ho by exact Hne.
    cbn. destruct (Nat.eqb_spec j h); [congruence|]. apply tmp_get_del_other. exact Hne.
Qed.

(* a proper prefix of a group never touches a source file or the lock *)
Lemma apply_group_prefix g w pre mid :
  gs_wf g -> gs_effs g = pre ++ mid -> mid <> [] ->
  w_src (apply_effs w pre) = w_src w /\ w_lock (apply_effs w pre) = w_lock w.
Proof.
  destruct g as [j ws rn]. intros Hwf Heq Hmid. cbn [gs_wf] in Hwf.
  destruct (exists_last Hmid) as (mid' & l & ->).
  unfold gs_effs in Heq. rewrite app_assoc in Heq. apply app_inj_tail in Heq.
  destruct Heq as [Hbody _]. unfold gs_body in Hbody.
  destruct pre as [|p pre]; [split; reflexivity|].
  cbn [app] in Hbody. inversion Hbody as [[Hp Hws]]. subst p.
  assert (Hpre : Forall (is_write j) pre).
  { rewrite Hws in Hwf. apply Forall_app in Hwf. tauto. }
  cbn [apply_effs fold_left]. fold (apply_effs (apply_eff w (ECreateTmp j)) pre).
  destruct (apply_body_src j pre (apply_eff w (ECreateTmp j)) Hpre) as [Hs Hl].
  rewrite Hs, Hl. split; reflexivity.
Qed.

Lemma apply_lock_effs_src : forall es w,
  Forall is_lock_eff es -> w_src (apply_effs w es) = w_src w.
Proof.
  induction es as [|e es IH]; intros w H; [reflexivity|].
  inversion H as [|? ? He H']; subst. cbn [apply_effs fold_left].
  fold (apply_effs (apply_eff w e) es). rewrite IH by exact H'.
  destruct He as [->|[n ->]]; reflexivity.
Qed.

Lemma apply_lock_effs_tmp : forall es w,
  Forall is_lock_eff es -> w_tmp (apply_effs w es) = w_tmp w.
Proof.
  induction es as [|e es IH]; intros w H; [reflexivity|].
  inversion H as [|? ? He H']; subst. cbn [apply_effs fold_left].
  fold (apply_effs (apply_eff w e) es). rewrite IH by exact H'.
  destruct He as [->|[n ->]]; reflexivity.
Qed.

Lemma set_nth_length {A} (x : A) : forall l n, length (set_nth n x l) = length l.
Proof. induction l as [|y l IH]; intros [|n]; cbn; auto. Qed.

Lemma nth_error_set_nth_same {A} (x : A) : forall l n, (n < length l)%nat -> nth_error (set_nth n x l) n = Some x.
Proof. induction l as [|y l IH]; intros [|n] H; cbn in *; try lia; auto. apply IH. lia. Qed.

Lemma nth_error_set_nth_other {A} (x : A) : forall l n k, n <> k -> nth_error (set_nth n x l) k = nth_error l k.
Proof. induction l as [|y l IH]; intros [|n] [|k] H; cbn; auto; try congruence. Qed.

(* ---- a whole run: groups for strictly increasing file indices, then lock operations ---- *)
Fixpoint gs_sorted (lo : nat) (gs : list gspec) : Prop :=
  match gs with
  | [] => True
  | g :: r => (lo <= gs_file g)%nat /\ gs_wf g /\ gs_sorted (S (gs_file g)) r
  end.

(* content of source file k according to the groups (None: not replaced) *)
Fixpoint gs_new (gs : list gspec) (k : nat) : option (list N) :=
  match gs with
  | [] => None
  | GS j ws true :: r => if Nat.eqb j k then Some (written ws) else gs_new r k
  | GS _ _ false :: r => gs_new r k
  end.

Lemma gs_new_below lo gs k : gs_sorted lo gs -> (k < lo)%nat -> gs_new gs k = None.
Proof.
  revert lo. induction gs as [|[j ws rn] gs IH]; intros lo Hs Hk; [reflexivity|].
  cbn in Hs. destruct Hs as (Hle & _ & Hs). cbn [gs_new].
  destruct rn.
  - destruct (Nat.eqb_spec j k); [lia|]. apply (IH (S j)); [exact Hs|lia].
  - apply (IH (S j)); [exact Hs|lia].
Qed.

Lemma apply_all_groups : forall gs lo w,
  gs_sorted lo gs ->
  let w' := apply_effs w (flat_map gs_effs gs) in
  w_lock w' = w_lock w /\
  length (w_src w') = length (w_src w) /\
  (forall k, (k < length (w_src w))%nat ->
     nth_error (w_src w') k = match gs_new gs k with
                              | Some c => Some c
                              | None => nth_error (w_src w) k
                              end) /\
  (forall h, tmp_get (w_tmp w) h = None -> tmp_get (w_tmp w') h = None).
Proof.
  induction gs as [|g gs IH]; intros lo w Hs.
  - cbn. repeat split; auto.
  - cbn [flat_map]. unfold apply_effs. rewrite fold_left_app.
    fold (apply_effs w (gs_effs g)). set (w1 := apply_effs w (gs_effs g)).
    fold (apply_effs w1 (flat_map gs_effs gs)).
    cbn in Hs. destruct Hs as (Hle & Hwf & Hs).
    destruct (apply_group g w Hwf) as (Hl1 & Ht1 & Ho1 & Hs1). fold w1 in Hl1, Ht1, Ho1, Hs1.
    destruct (IH (S (gs_file g)) w1 Hs) as (Hl2 & Hlen2 & Hn2 & Ht2).
    assert (Hlen1 : length (w_src w1) = length (w_src w)).
    { rewrite Hs1. destruct g as [j ws [|]]; [apply set_nth_length|reflexivity]. }
    split; [congruence|]. split; [congruence|]. split.
    + intros k Hk. rewrite Hn2 by lia.
      destruct g as [j ws rn]. cbn [gs_new gs_file] in *.
      destruct rn.
      * destruct (Nat.eqb_spec j k) as [->|Hne].
        -- rewrite (gs_new_below (S k) gs k Hs) by lia. rewrite Hs1.
           apply nth_error_set_nth_same. exact Hk.
        -- destruct (gs_new gs k); [reflexivity|]. rewrite Hs1.
           apply nth_error_set_nth_other. exact Hne.
      * destruct (gs_new gs k); [reflexivity|]. rewrite Hs1. reflexivity.
    + intros h Hh. apply Ht2. destruct (Nat.eq_dec h (gs_file g)) as [->|Hne]; [exact Ht1|].
      rewrite Ho1 by exact Hne. exact Hh.
Qed.

(* every prefix of a run: each source file holds its original or its complete new content *)
Lemma prefix_groups : forall gs lo w tail pre post,
  gs_sorted lo gs -> Forall is_lock_eff tail ->
  flat_map gs_effs gs ++ tail = pre ++ post ->
  let w' := apply_effs w pre in
  length (w_src w') = length (w_src w) /\
  forall k, (k < length (w_src w))%nat ->
    nth_error (w_src w') k = nth_error (w_src w) k \/
    (exists c, gs_new gs k = Some c /\ nth_error (w_src w') k = Some c).
Proof.
  induction gs as [|g gs IH]; intros lo w tail pre post Hs Htail Heq.
  - cbn [flat_map app] in Heq.
    assert (Hpre : Forall is_lock_eff pre).
    { rewrite Heq in Htail. apply Forall_app in Htail. tauto. }
    cbn zeta. rewrite (apply_lock_effs_src pre w Hpre). split; [reflexivity|]. intros; left; reflexivity.
  - cbn [flat_map] in Heq. rewrite <- app_assoc in Heq.
    cbn in Hs. destruct Hs as (Hle & Hwf & Hs).
    apply app_eq_app in Heq. destruct Heq as [l [[Hg Hp]|[Hg Hp]]].
    + (* the prefix ends inside (or exactly at the end of) this group *)
      destruct l as [|x l].
      * rewrite app_nil_r in Hg. subst pre. cbn zeta.
        destruct (apply_group g w Hwf) as (_ & _ & _ & Hs1).
        split.
        { rewrite Hs1. destruct g as [j ws [|]]; [apply set_nth_length|reflexivity]. }
        intros k Hk. rewrite Hs1. destruct g as [j ws rn]. cbn [gs_new gs_file] in *.
        destruct rn; [|left; reflexivity].
        destruct (Nat.eqb_spec j k) as [->|Hne].
        -- right. exists (written ws). split; [reflexivity|].
           apply nth_error_set_nth_same. exact Hk.
        -- left. apply nth_error_set_nth_other. exact Hne.
      * destruct (apply_group_prefix g w pre (x :: l) Hwf Hg) as [Hsrc _]; [discriminate|].
        cbn zeta. rewrite Hsrc. split; [reflexivity|]. intros; left; reflexivity.
    + (* the whole group, then a prefix of the rest *)
      subst pre. cbn zeta. unfold apply_effs. rewrite fold_left_app.
      fold (apply_effs w (gs_effs g)). set (w1 := apply_effs w (gs_effs g)).
      fold (apply_effs w1 l).
      destruct (apply_group g w Hwf) as (_ & _ & _ & Hs1). fold w1 in Hs1.
      assert (Hlen1 : length (w_src w1) = length (w_src w)).
      { rewrite Hs1. destruct g as [j ws [|]]; [apply set_nth_length|reflexivity]. }
      destruct (IH (S (gs_file g)) w1 tail l post Hs Htail Hp) as [Hlen2 Hk2].
      split; [congruence|]. intros k Hk.
      destruct (Hk2 k ltac:(lia)) as [Hsame|(c & Hc & Hn)].
      * rewrite Hsame, Hs1. destruct g as [j ws rn]. cbn [gs_new gs_file] in *.
        destruct rn; [|left; reflexivity].
        destruct (Nat.eqb_spec j k) as [->|Hne].
        -- right. exists (written ws). split; [reflexivity|].
           apply nth_error_set_nth_same. exact Hk.
        -- left. apply nth_error_set_nth_other. exact Hne.
      * right. exists c. split; [|exact Hn].
        destruct g as [j ws rn]. cbn [gs_new gs_file] in *. destruct rn; [|exact Hc].
        destruct (Nat.eqb_spec j k) as [->|Hne]; [|exact Hc].
        rewrite (gs_new_below (S k) gs k Hs) in Hc by lia. discriminate.
Qed.
