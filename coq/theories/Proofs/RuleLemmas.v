(* RuleLemmas.v -- characterisation lemmas for rules of the grammar GENERATED from
   src/parser/rust_grammar.pest (Gen/Grammar.v): WHITESPACE, COMMENT and the implicit skip.
   They are proved against the generated constants, so an edit of those rules that changes
   what is skipped breaks them. *)
From Coq Require Import List Arith NArith Bool Lia String.
From Breadlog Require Import Model.Peg Model.Text Model.Glue Model.Tables.
From Breadlog Require Import Gen.Grammar.
From Breadlog Require Import Proofs.PegFacts.
Import ListNotations.
Open Scope N_scope.

(* the characters WHITESPACE accepts *)
Definition ws_chars : list N := [9; 10; 11; 12; 13; 32; 133; 8206; 8207; 8232; 8233].
Definition is_ws_char (c : N) : bool := existsb (N.eqb c) ws_chars.

Section Rules.
  Variable sk : input -> option input.

  Lemma ws_hit c r p a look :
    is_ws_char c = true ->
    run Utab sk r_WHITESPACE a look (mkIn (c :: r) p) = Ok (mkIn r (p + cplen c)) [].
  Proof.
    unfold is_ws_char, ws_chars. cbn [existsb]. intros H.
    repeat (apply orb_true_iff in H; destruct H as [H|H];
            [apply N.eqb_eq in H; subst c; destruct look; reflexivity|]).
    discriminate.
  Qed.

  Lemma ws_miss_cons c r p a look :
    is_ws_char c = false -> run Utab sk r_WHITESPACE a look (mkIn (c :: r) p) = Fail.
  Proof.
    unfold is_ws_char, ws_chars. cbn [existsb]. intros H.
    repeat (apply orb_false_iff in H; destruct H as [?H H]).
    unfold r_WHITESPACE. cbn [run strip_prefix rest].
    repeat match goal with
           | Hc : (c =? ?k) = false |- context [?k =? c] =>
               rewrite (N.eqb_sym k c), Hc; clear Hc
           end.
    destruct look; reflexivity.
  Qed.

  Lemma ws_miss_nil p a look : run Utab sk r_WHITESPACE a look (mkIn [] p) = Fail.
  Proof. destruct look; reflexivity. Qed.

  (* the next thing in the input is not whitespace *)
  Definition no_ws_ahead (t : list N) : Prop :=
    match t with [] => True | c :: _ => is_ws_char c = false end.

  Lemma ws_miss t p a look : no_ws_ahead t -> run Utab sk r_WHITESPACE a look (mkIn t p) = Fail.
  Proof. destruct t as [|c r]; [intros; apply ws_miss_nil|apply ws_miss_cons]. Qed.
End Rules.

(* WHITESPACE* in an atomic context (as inside hidden::skip) eats a run of whitespace characters *)
Lemma ws_loop : forall ws rst p fuel acc,
  forallb is_ws_char ws = true -> no_ws_ahead rst ->
  (List.length (ws ++ rst) < List.length fuel)%nat ->
  rep_loop (fun j => match do_skip idsk Atomic j with
                     | None => Diverge
                     | Some j' => run Utab idsk r_WHITESPACE Atomic false j'
                     end) fuel (mkIn (ws ++ rst) p) acc
  = Ok (mkIn rst (p + blen ws)) acc.
Proof.
  induction ws as [|c ws IH]; intros rst p fuel acc Hws Hrest Hlen.
  - cbn [app blen]. destruct fuel as [|x fuel]; [cbn in Hlen; lia|]. cbn [rep_loop do_skip].
    rewrite ws_miss by exact Hrest. rewrite N.add_0_r. reflexivity.
  - cbn [forallb] in Hws. apply andb_true_iff in Hws. destruct Hws as [Hc Hws].
    destruct fuel as [|x fuel]; [cbn in Hlen; lia|]. cbn [rep_loop do_skip app].
    rewrite ws_hit by exact Hc. cbn [pos].
    pose proof (cplen_pos c).
    destruct (N.ltb_spec p (p + cplen c)) as [_|]; [|lia].
    rewrite app_nil_r. rewrite IH; [|exact Hws|exact Hrest|cbn [List.length app] in Hlen; lia].
    cbn [blen]. rewrite N.add_assoc. reflexivity.
Qed.

Lemma ws_star ws rst p :
  forallb is_ws_char ws = true -> no_ws_ahead rst ->
  run Utab idsk (ERep r_WHITESPACE) Atomic false (mkIn (ws ++ rst) p) = Ok (mkIn rst (p + blen ws)) [].
Proof.
  intros Hws Hrest. cbn [run]. destruct ws as [|c ws].
  - cbn [app]. rewrite ws_miss by exact Hrest. cbn. rewrite N.add_0_r. reflexivity.
  - cbn [forallb] in Hws. apply andb_true_iff in Hws. destruct Hws as [Hc Hws]. cbn [app].
    rewrite ws_hit by exact Hc. cbn [pos Peg.rest]. pose proof (cplen_pos c).
    destruct (N.ltb_spec p (p + cplen c)) as [_|]; [|lia].
    rewrite ws_loop; [|exact Hws|exact Hrest|cbn [List.length]; lia].
    cbn [blen]. rewrite N.add_assoc. reflexivity.
Qed.

(* ---- one-level unfolding equations for run (so that proofs can step without unfolding the
   loop bodies) ---- *)
Section Eqns.
  Variable U : uclass -> N -> bool.
  Variable sk : input -> option input.

  Lemma run_seq x y a look i :
    run U sk (ESeq x y) a look i =
    match run U sk x a look i with
    | Ok i1 t1 => match do_skip sk a i1 with
                  | None => Diverge
                  | Some i1' => match run U sk y a look i1' with
                                | Ok i2 t2 => Ok i2 (t1 ++ t2)
                                | r => r
                                end
                  end
    | r => r
    end.
  Proof. reflexivity. Qed.

  Lemma run_choice x y a look i :
    run U sk (EChoice x y) a look i = match run U sk x a look i with Fail => run U sk y a look i | r => r end.
  Proof. reflexivity. Qed.

  Lemma run_opt x a look i :
    run U sk (EOpt x) a look i = match run U sk x a look i with Fail => Ok i [] | r => r end.
  Proof. reflexivity. Qed.

  Lemma run_rule name ty impl body a look i :
    run U sk (ERule name ty impl body) a look i =
    match run U sk body (inner_atomicity ty impl a) look i with
    | Ok i' kids =>
        if emits ty (match ty with RCompound => Compound | RNonAtomic => NonAtomic | _ => a end) look
        then Ok i' [Node name (pos i) (pos i') kids] else Ok i' kids
    | r => r
    end.
  Proof. reflexivity. Qed.

(* a silent rule that is not implicitly atomic is transparent: it adds no node and leaves the atomicity as it
   is.  This is what justifies the grammar translator inlining silent helper rules introduced after the pinned
   commit (harness/translate/src/grammar.rs). *)
  Lemma silent_rule_transparent name body a look i :
  run U sk (ERule name RSilent false body) a look i = run U sk body a look i.
  Proof.
    rewrite run_rule. cbn [inner_atomicity]. unfold emits. rewrite andb_false_r.
    destruct (run U sk body a look i); reflexivity.
  Qed.

  Definition rep_step (x : expr) (a : atomicity) (look : bool) (j : input) : res :=
    match do_skip sk a j with None => Diverge | Some j' => run U sk x a look j' end.

  Lemma run_rep x a look i :
    run U sk (ERep x) a look i =
    match run U sk x a look i with
    | Fail => Ok i []
    | Diverge => Diverge
    | Ok i1 t1 => if pos i <? pos i1 then rep_loop (rep_step x a look) (0 :: rest i1) i1 t1 else Diverge
    end.
  Proof. reflexivity. Qed.

  Lemma run_str s a look i :
    run U sk (EStr s) a look i =
    match strip_prefix s (rest i) with Some r => Ok (mkIn r (pos i + blen s)) [] | None => Fail end.
  Proof. reflexivity. Qed.

  Lemma run_neg x a look i :
    run U sk (ENeg x) a look i =
    match run U sk x a true i with Ok _ _ => Fail | Fail => Ok i [] | Diverge => Diverge end.
  Proof. reflexivity. Qed.

  Lemma run_any a look i :
    run U sk EAny a look i = match rest i with c :: r => Ok (mkIn r (pos i + cplen c)) [] | [] => Fail end.
  Proof. reflexivity. Qed.

  Lemma run_eoi a look i :
    run U sk EEoi a look i =
    match rest i with
    | [] => Ok i (if emits RNormal a look then [Node "EOI" (pos i) (pos i) []] else [])
    | _ :: _ => Fail
    end.
  Proof. reflexivity. Qed.

  Lemma run_soi a look i : run U sk ESoi a look i = if pos i =? 0 then Ok i [] else Fail.
  Proof. reflexivity. Qed.
End Eqns.

Arguments run : simpl never.

(* ---- COMMENT ---- *)
Fixpoint no_newline (t : list N) : bool :=
  match t with [] => true | c :: r => negb (c =? 10) && no_newline r end.

(* the text contains no "*/" *)
Fixpoint no_close (t : list N) : bool :=
  match t with
  | [] => true
  | c :: r => negb ((c =? 42) && match r with d :: _ => d =? 47 | [] => false end) && no_close r
  end.

(* after a line comment: end of input or a newline *)
Definition line_end (t : list N) : Prop := match t with [] => True | c :: _ => c = 10 end.

Definition line_body : expr := ESeq (ENeg (EStr [10])) EAny.

Lemma line_step_hit c r p :
  (c =? 10) = false ->
  rep_step Utab idsk line_body Atomic false (mkIn (c :: r) p) = Ok (mkIn r (p + cplen c)) [].
Proof.
  intros Hc. unfold rep_step, line_body. cbn [do_skip].
  rewrite run_seq, run_neg, run_str. cbn [Peg.rest strip_prefix]. rewrite (N.eqb_sym 10 c), Hc.
  cbn [do_skip]. rewrite run_any. reflexivity.
Qed.

Lemma line_step_miss rst p : line_end rst -> rep_step Utab idsk line_body Atomic false (mkIn rst p) = Fail.
Proof.
  intros He. unfold rep_step, line_body. cbn [do_skip]. rewrite run_seq, run_neg, run_str.
  destruct rst as [|d rst]; cbn [Peg.rest strip_prefix].
  - cbn [do_skip]. rewrite run_any. reflexivity.
  - cbn in He. subst d. reflexivity.
Qed.

Lemma line_body_loop : forall t rst p fuel acc,
  no_newline t = true -> line_end rst -> (List.length (t ++ rst) < List.length fuel)%nat ->
  rep_loop (rep_step Utab idsk line_body Atomic false) fuel (mkIn (t ++ rst) p) acc
  = Ok (mkIn rst (p + blen t)) acc.
Proof.
  induction t as [|c t IH]; intros rst p fuel acc Hn He Hlen.
  - cbn [app blen]. destruct fuel as [|x fuel]; [cbn in Hlen; lia|]. cbn [rep_loop].
    rewrite line_step_miss by exact He. rewrite N.add_0_r. reflexivity.
  - cbn [no_newline] in Hn. apply andb_true_iff in Hn. destruct Hn as [Hc Hn]. apply negb_true_iff in Hc.
    destruct fuel as [|x fuel]; [cbn in Hlen; lia|]. cbn [rep_loop app].
    rewrite line_step_hit by exact Hc. cbn [pos]. pose proof (cplen_pos c).
    destruct (N.ltb_spec p (p + cplen c)) as [_|]; [|lia].
    rewrite app_nil_r. rewrite IH; [|exact Hn|exact He|cbn [List.length app] in Hlen; lia].
    cbn [blen]. rewrite N.add_assoc. reflexivity.
Qed.

Lemma line_body_star t rst p :
  no_newline t = true -> line_end rst ->
  run Utab idsk (ERep line_body) Atomic false (mkIn (t ++ rst) p) = Ok (mkIn rst (p + blen t)) [].
Proof.
  intros Hn He. rewrite run_rep. destruct t as [|c t].
  - cbn [app]. pose proof (line_step_miss rst p He) as Hm. unfold rep_step in Hm. cbn [do_skip] in Hm.
    rewrite Hm. cbn. rewrite N.add_0_r. reflexivity.
  - cbn [no_newline] in Hn. apply andb_true_iff in Hn. destruct Hn as [Hc Hn]. apply negb_true_iff in Hc.
    cbn [app]. pose proof (line_step_hit c (t ++ rst) p Hc) as Hh. unfold rep_step in Hh. cbn [do_skip] in Hh.
    rewrite Hh. cbn [pos Peg.rest]. pose proof (cplen_pos c).
    destruct (N.ltb_spec p (p + cplen c)) as [_|]; [|lia].
    rewrite line_body_loop; [|exact Hn|exact He|cbn [List.length]; lia].
    cbn [blen]. rewrite N.add_assoc. reflexivity.
Qed.

Lemma comment_line t rst p :
  no_newline t = true -> line_end rst ->
  run Utab idsk r_COMMENT Atomic false (mkIn ([47; 47] ++ t ++ rst) p) = Ok (mkIn rst (p + 2 + blen t)) [].
Proof.
  intros Hn He. unfold r_COMMENT. rewrite run_rule. cbn [inner_atomicity].
  rewrite run_choice.
  (* "/*" does not match: the second character is '/' *)
  rewrite run_seq, run_str. cbn [app Peg.rest strip_prefix N.eqb Pos.eqb].
  rewrite run_seq, run_str. cbn [Peg.rest strip_prefix N.eqb Pos.eqb pos do_skip idsk].
  fold line_body. rewrite line_body_star by assumption.
  reflexivity.
Qed.

Definition block_body : expr := ESeq (ENeg (EStr [42; 47])) EAny.

Definition closes_here (c : N) (r : list N) : bool :=
  (c =? 42) && match r with d :: _ => d =? 47 | [] => false end.

Lemma block_step_hit c r p :
  closes_here c r = false ->
  rep_step Utab idsk block_body Atomic false (mkIn (c :: r) p) = Ok (mkIn r (p + cplen c)) [].
Proof.
  intros Hc. unfold rep_step, block_body. cbn [do_skip].
  rewrite run_seq, run_neg, run_str. cbn [Peg.rest strip_prefix].
  unfold closes_here in Hc. rewrite (N.eqb_sym 42 c).
  destruct (c =? 42).
  - cbn [andb] in Hc. destruct r as [|d r].
    + cbn [do_skip]. rewrite run_any. reflexivity.
    + rewrite (N.eqb_sym 47 d), Hc. cbn [do_skip]. rewrite run_any. reflexivity.
  - cbn [do_skip]. rewrite run_any. reflexivity.
Qed.

Lemma block_step_miss rst p :
  rep_step Utab idsk block_body Atomic false (mkIn ([42; 47] ++ rst) p) = Fail.
Proof. reflexivity. Qed.

Lemma no_close_step c (t rst : list N) :
  no_close (c :: t) = true -> closes_here c (t ++ [42; 47] ++ rst) = false.
Proof.
  cbn [no_close]. intros H. apply andb_true_iff in H. destruct H as [H _]. apply negb_true_iff in H.
  unfold closes_here. destruct (c =? 42); [|reflexivity]. cbn [andb] in *.
  destruct t as [|d t]; [reflexivity|]. exact H.
Qed.

Lemma block_body_loop : forall (t rst : list N) p fuel acc,
  no_close t = true -> (List.length (t ++ [42%N; 47%N] ++ rst) < List.length fuel)%nat ->
  rep_loop (rep_step Utab idsk block_body Atomic false) fuel (mkIn (t ++ [42; 47] ++ rst) p) acc
  = Ok (mkIn ([42; 47] ++ rst) (p + blen t)) acc.
Proof.
  induction t as [|c t IH]; intros rst p fuel acc Hn Hlen.
  - cbn [app blen]. destruct fuel as [|x fuel]; [cbn in Hlen; lia|]. cbn [rep_loop].
    change (42 :: 47 :: rst) with (([42; 47] ++ rst)%list). rewrite block_step_miss. rewrite N.add_0_r. reflexivity.
  - pose proof (no_close_step c t rst Hn) as Hc.
    cbn [no_close] in Hn. apply andb_true_iff in Hn. destruct Hn as [_ Hn].
    destruct fuel as [|x fuel]; [cbn in Hlen; lia|]. cbn [rep_loop].
    change (((c :: t) ++ [42; 47] ++ rst)%list) with (c :: (t ++ [42; 47] ++ rst)%list).
    rewrite block_step_hit by exact Hc. cbn [pos]. pose proof (cplen_pos c).
    destruct (N.ltb_spec p (p + cplen c)) as [_|]; [|lia].
    rewrite app_nil_r. rewrite IH; [|exact Hn|cbn [List.length app] in Hlen |- *; lia].
    cbn [blen]. rewrite N.add_assoc. reflexivity.
Qed.

Lemma block_body_star t rst p :
  no_close t = true ->
  run Utab idsk (ERep block_body) Atomic false (mkIn (t ++ [42; 47] ++ rst) p)
  = Ok (mkIn ([42; 47] ++ rst) (p + blen t)) [].
Proof.
  intros Hn. rewrite run_rep. destruct t as [|c t].
  - cbn [app]. change (42 :: 47 :: rst) with (([42; 47] ++ rst)%list).
    pose proof (block_step_miss rst p) as Hm. unfold rep_step in Hm. cbn [do_skip] in Hm.
    rewrite Hm. cbn. rewrite N.add_0_r. reflexivity.
  - pose proof (no_close_step c t rst Hn) as Hc.
    cbn [no_close] in Hn. apply andb_true_iff in Hn. destruct Hn as [_ Hn].
    change (((c :: t) ++ [42; 47] ++ rst)%list) with (c :: (t ++ [42; 47] ++ rst)%list).
    pose proof (block_step_hit c (t ++ [42; 47] ++ rst) p Hc) as Hh. unfold rep_step in Hh. cbn [do_skip] in Hh.
    rewrite Hh. cbn [pos Peg.rest]. pose proof (cplen_pos c).
    destruct (N.ltb_spec p (p + cplen c)) as [_|]; [|lia].
    rewrite block_body_loop; [|exact Hn|cbn [List.length]; lia].
    cbn [blen]. rewrite N.add_assoc. reflexivity.
Qed.

Lemma comment_block t rst p :
  no_close t = true ->
  run Utab idsk r_COMMENT Atomic false (mkIn ([47; 42] ++ t ++ [42; 47] ++ rst) p)
  = Ok (mkIn rst (p + 2 + blen t + 2)) [].
Proof.
  intros Hn. unfold r_COMMENT. rewrite run_rule. cbn [inner_atomicity].
  rewrite run_choice, run_seq, run_str. cbn [app Peg.rest strip_prefix N.eqb Pos.eqb].
  cbn [do_skip idsk pos]. rewrite run_seq. fold block_body.
  change (t ++ 42 :: 47 :: rst)%list with (t ++ [42; 47] ++ rst)%list.
  rewrite block_body_star by exact Hn. cbn [do_skip idsk]. rewrite run_str.
  cbn [app Peg.rest strip_prefix N.eqb Pos.eqb pos]. reflexivity.
Qed.

(* a comment cannot start at something that is neither "/*" nor "//" *)
Definition no_comment_ahead (t : list N) : Prop :=
  match t with
  | 47 :: 42 :: _ => False
  | 47 :: 47 :: _ => False
  | _ => True
  end.

Lemma comment_miss t p : no_comment_ahead t -> run Utab idsk r_COMMENT Atomic false (mkIn t p) = Fail.
Proof.
  intros H. unfold r_COMMENT. rewrite run_rule, run_choice, run_seq, run_str. cbn [inner_atomicity Peg.rest].
  destruct t as [|c t]; [reflexivity|].
  cbn [strip_prefix]. destruct (N.eqb_spec 47 c) as [<-|Hc].
  - destruct t as [|d t]; [reflexivity|]. cbn [strip_prefix].
    destruct (N.eqb_spec 42 d) as [<-|Hd]; [contradiction|].
    rewrite run_seq, run_str. cbn [Peg.rest strip_prefix].
    replace (47 =? 47) with true by reflexivity.
    destruct (N.eqb_spec 47 d) as [<-|Hd2]; [contradiction|]. reflexivity.
  - rewrite run_seq, run_str. cbn [Peg.rest strip_prefix].
    destruct (N.eqb_spec 47 c); [congruence|]. reflexivity.
Qed.

(* ---- hidden::skip on arbitrary layout: whitespace, then comments each followed by whitespace ---- *)
Inductive cmt := CLine (t : list N) | CBlock (t : list N).

Definition render_cmt (c : cmt) : list N :=
  match c with
  | CLine t => ([47; 47] ++ t)%list
  | CBlock t => ([47; 42] ++ t ++ [42; 47])%list
  end.

Fixpoint render_groups (gs : list (cmt * list N)) : list N :=
  match gs with
  | [] => []
  | (c, ws) :: r => (render_cmt c ++ ws ++ render_groups r)%list
  end.

(* what may follow the layout: neither whitespace nor a comment *)
Definition code_ahead (t : list N) : Prop := no_ws_ahead t /\ no_comment_ahead t.

Fixpoint groups_ok (gs : list (cmt * list N)) (tail : list N) : Prop :=
  match gs with
  | [] => True
  | (c, ws) :: r =>
      forallb is_ws_char ws = true /\
      match c with
      | CLine t => no_newline t = true /\ line_end (ws ++ render_groups r ++ tail)%list
      | CBlock t => no_close t = true
      end /\ groups_ok r tail
  end.

Lemma render_groups_head gs tail :
  code_ahead tail -> no_ws_ahead (render_groups gs ++ tail)%list /\
  (gs = [] -> no_comment_ahead (render_groups gs ++ tail)%list).
Proof.
  intros [Hw Hc]. destruct gs as [|[c ws] r].
  - cbn. split; [exact Hw|intros _; exact Hc].
  - split; [|discriminate]. destruct c; cbn; reflexivity.
Qed.

Definition group_body : expr := ESeq r_COMMENT (ERep r_WHITESPACE).

Lemma group_step c ws rst p :
  forallb is_ws_char ws = true -> no_ws_ahead rst ->
  match c with CLine t => no_newline t = true /\ line_end (ws ++ rst)%list | CBlock t => no_close t = true end ->
  rep_step Utab idsk group_body Atomic false (mkIn (render_cmt c ++ ws ++ rst)%list p)
  = Ok (mkIn rst (p + blen (render_cmt c) + blen ws)) [].
Proof.
  intros Hws Hrst Hc. unfold rep_step, group_body. cbn [do_skip idsk]. rewrite run_seq.
  destruct c as [t|t]; cbn [render_cmt].
  - destruct Hc as [Hn He]. rewrite <- app_assoc. rewrite comment_line by assumption.
    cbn [do_skip idsk]. rewrite ws_star by assumption.
    rewrite blen_app. cbn [blen cplen N.ltb N.compare Pos.compare Pos.compare_cont app].
    f_equal. f_equal. lia.
  - rewrite <- !app_assoc. rewrite comment_block by exact Hc.
    cbn [do_skip idsk]. rewrite ws_star by assumption.
    rewrite !blen_app. cbn [app blen cplen N.ltb N.compare Pos.compare Pos.compare_cont]. f_equal. f_equal. lia.
Qed.

Lemma group_miss t p : no_comment_ahead t -> rep_step Utab idsk group_body Atomic false (mkIn t p) = Fail.
Proof. intros H. unfold rep_step, group_body. cbn [do_skip idsk]. rewrite run_seq, comment_miss by exact H. reflexivity. Qed.

Lemma render_cmt_len c : 2 <= blen (render_cmt c).
Proof. destruct c; cbn [render_cmt]; rewrite blen_app; cbn [blen cplen N.ltb N.compare Pos.compare Pos.compare_cont]; lia. Qed.

Lemma render_cmt_nonempty c : (2 <= List.length (render_cmt c))%nat.
Proof. destruct c; cbn [render_cmt]; rewrite app_length; cbn; lia. Qed.

Lemma groups_loop : forall gs tail p fuel acc,
  groups_ok gs tail -> code_ahead tail ->
  (List.length (render_groups gs ++ tail) < List.length fuel)%nat ->
  rep_loop (rep_step Utab idsk group_body Atomic false) fuel (mkIn (render_groups gs ++ tail)%list p) acc
  = Ok (mkIn tail (p + blen (render_groups gs))) acc.
Proof.
  induction gs as [|[c ws] gs IH]; intros tail p fuel acc Hok Hta Hlen.
  - cbn [render_groups app blen]. destruct fuel as [|x fuel]; [cbn in Hlen; lia|]. cbn [rep_loop].
    rewrite group_miss by (apply Hta). rewrite N.add_0_r. reflexivity.
  - cbn [groups_ok] in Hok. destruct Hok as (Hws & Hc & Hok).
    destruct fuel as [|x fuel]; [cbn in Hlen; lia|]. cbn [rep_loop render_groups].
    rewrite <- !app_assoc.
    rewrite group_step; [|exact Hws|apply render_groups_head; exact Hta|].
    2:{ destruct c; [|exact Hc]. destruct Hc as [Hn He]. split; [exact Hn|]. rewrite <- ?app_assoc in He |- *. exact He. }
    cbn [pos]. pose proof (render_cmt_len c).
    destruct (N.ltb_spec p (p + blen (render_cmt c) + blen ws)) as [_|]; [|lia].
    rewrite app_nil_r. rewrite IH; [|exact Hok|exact Hta|].
    + rewrite !blen_app. f_equal. f_equal. lia.
    + cbn [render_groups] in Hlen. rewrite <- !app_assoc in Hlen. rewrite !app_length in Hlen.
      pose proof (render_cmt_nonempty c). cbn [List.length] in Hlen. rewrite app_length. lia.
Qed.

Lemma groups_star gs tail p :
  groups_ok gs tail -> code_ahead tail ->
  run Utab idsk (ERep group_body) Atomic false (mkIn (render_groups gs ++ tail)%list p)
  = Ok (mkIn tail (p + blen (render_groups gs))) [].
Proof.
  intros Hok Hta. rewrite run_rep. destruct gs as [|[c ws] gs].
  - cbn [render_groups app]. pose proof (group_miss tail p (proj2 Hta)) as Hm. unfold rep_step in Hm.
    cbn [do_skip idsk] in Hm. rewrite Hm. cbn. rewrite N.add_0_r. reflexivity.
  - cbn [groups_ok] in Hok. destruct Hok as (Hws & Hc & Hok). cbn [render_groups]. rewrite <- !app_assoc.
    pose proof (group_step c ws (render_groups gs ++ tail)%list p Hws
                  (proj1 (render_groups_head gs tail Hta))) as Hs.
    unfold rep_step in Hs. cbn [do_skip idsk] in Hs. rewrite Hs.
    2:{ destruct c; [|exact Hc]. destruct Hc as [Hn He]. split; [exact Hn|]. rewrite <- ?app_assoc in He |- *. exact He. }
    cbn [pos Peg.rest]. pose proof (render_cmt_len c).
    destruct (N.ltb_spec p (p + blen (render_cmt c) + blen ws)) as [_|]; [|lia].
    rewrite groups_loop; [|exact Hok|exact Hta|cbn [List.length]; lia].
    rewrite !blen_app. f_equal. f_equal. lia.
Qed.

(* THE SKIP LEMMA: for any layout -- a run of whitespace characters followed by any number of
   comments (line comments with any text up to the line end, block comments with any text not
   containing the closing delimiter), each followed by a run of whitespace -- pest's implicit skip
   consumes exactly the layout and stops at the code that follows. *)
Theorem skip_layout ws0 gs tail p :
  forallb is_ws_char ws0 = true -> groups_ok gs tail -> code_ahead tail ->
  skipf Utab g_whitespace g_comment (mkIn (ws0 ++ render_groups gs ++ tail)%list p)
  = Some (mkIn tail (p + blen ws0 + blen (render_groups gs))).
Proof.
  intros Hws Hok Hta. unfold skipf, g_whitespace, g_comment. cbn [skip_expr].
  fold group_body. rewrite run_seq.
  rewrite ws_star; [|exact Hws|apply render_groups_head; exact Hta].
  cbn [do_skip idsk]. rewrite groups_star by assumption. reflexivity.
Qed.

(* ---- a file that consists of layout only ---- *)
Lemma nothing_at_eof sk p :
  run Utab sk (EChoice r_log_macro (EChoice r_other_name EAny)) NonAtomic false (mkIn [] p) = Fail.
Proof. reflexivity. Qed.

Lemma skip_at_eof p : skipf Utab g_whitespace g_comment (mkIn [] p) = Some (mkIn [] p).
Proof.
  pose proof (skip_layout [] [] [] p eq_refl I (conj I I)) as H. cbn [app render_groups blen] in H.
  rewrite !N.add_0_r in H. exact H.
Qed.

Theorem parse_layout_only ws0 gs :
  forallb is_ws_char ws0 = true -> groups_ok gs [] ->
  let code := (ws0 ++ render_groups gs)%list in
  parse_file code = Ok (mkIn [] (blen code)) [Node "file" 0 (blen code) [Node "EOI" (blen code) (blen code) []]].
Proof.
  intros Hws Hok code. unfold parse_file, parse, g_file, r_file.
  rewrite run_rule. cbn [inner_atomicity]. rewrite run_seq, run_soi. cbn [pos N.eqb do_skip].
  assert (Hcode : code = (ws0 ++ render_groups gs ++ [])%list) by (unfold code; rewrite app_nil_r; reflexivity).
  rewrite Hcode at 1. rewrite (skip_layout ws0 gs [] 0 Hws Hok (conj I I)).
  rewrite N.add_0_l. replace (blen ws0 + blen (render_groups gs)) with (blen code) by (unfold code; rewrite blen_app; reflexivity).
  rewrite run_seq, run_rep, nothing_at_eof. cbn [do_skip]. rewrite skip_at_eof. rewrite run_eoi.
  reflexivity.
Qed.

Theorem find_layout_only cfg ws0 gs :
  forallb is_ws_char ws0 = true -> groups_ok gs [] ->
  find cfg (ws0 ++ render_groups gs)%list = Done [].
Proof.
  intros Hws Hok. unfold find, entries. cbn [p_U p_ws p_comment p_file the_params].
  pose proof (parse_layout_only ws0 gs Hws Hok) as Hp. unfold parse_file in Hp. cbv zeta in Hp. rewrite Hp.
  reflexivity.
Qed.
