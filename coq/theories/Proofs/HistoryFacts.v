(* HistoryFacts.v -- the lock-file invariant over arbitrary histories (C02). *)
From Coq Require Import List Arith NArith Bool Lia Sorted.
From Breadlog Require Import Model.Peg Model.Text Model.Regex Model.Glue Model.Utf8 Model.Driver Model.History.
From Breadlog Require Import Proofs.RewriteFacts Proofs.WorldFacts Proofs.DriverFacts Proofs.AllocFacts Proofs.RunFacts.
Import ListNotations.
Open Scope N_scope.

Section Hist.
  Variable P : params.
  Variable finder : config -> text -> outcome (list entry).
  Variable start_id : N.
  Hypothesis start_ge_1 : 1 <= start_id.
  Hypothesis start_le_max : start_id <= u32max.

  Definition hinv (h : hstate) : Prop :=
    NoDup (h_ghost h) /\
    match h_lock h with
    | LValid L => L <= u32max /\ forall g, In g (h_ghost h) -> g < L
    | LAbsent => h_ghost h = []
    | LCorrupt => False
    end.

  Lemma nodup_app_disjoint {A} (l l' : list A) :
    NoDup l -> NoDup l' -> (forall a, In a l -> ~ In a l') -> NoDup (l ++ l').
  Proof.
    intros Hl Hl' Hd. induction Hl as [|x l Hx Hl IH]; [exact Hl'|].
    cbn. constructor.
    - intros Hin. apply in_app_or in Hin. destruct Hin as [Hin|Hin]; [contradiction|].
      apply (Hd x); [left; reflexivity|exact Hin].
    - apply IH. intros a Ha. apply Hd. right. exact Ha.
  Qed.

  Lemma hstep_inv h ev :
    hinv h -> hist_ok P finder start_id h [ev] -> hinv (hstep P finder start_id h ev).
  Proof.
    intros [Hnd Hl] [Hev _]. destruct ev as [f|rc o|rc o]; [split; assumption| |split; assumption].
    destruct Hev as (Huc & Hlw & Hnp & Hnh). cbn [hstep]. unfold edit_of in *.
    destruct (h_files h) as [|b0 fs] eqn:Ef.
    { cbn. rewrite app_nil_r. split; assumption. }
    assert (Hne : b0 :: fs <> []) by discriminate.
    remember (h_lock h) as lk eqn:Elk.
    destruct (edit_final_lock P finder start_id start_ge_1 start_le_max rc (b0 :: fs) lk o
                Hne Huc Hlw Hnp Hnh) as [[Hi Hk]|(s & c' & Hs & Hk & Hsc & Hmax & Hb & Hnd')].
    - unfold hinv. cbn [h_ghost h_lock]. rewrite Hi, Hk. cbn [map]. rewrite app_nil_r.
      split; assumption.
    - unfold hinv. cbn [h_ghost h_lock]. rewrite Hk.
      assert (Hsb : 1 <= s <= u32max /\ forall g, In g (h_ghost h) -> g < s).
      { destruct Hs as [L0 Hc|rs s miss Hc Hp Hr Hm].
        - unfold cached_id in Hc. rewrite Huc in Hc. destruct lk as [|L|]; try discriminate.
          inversion Hc; subst. cbn in Hl. destruct Hl as [Hl2 Hl3].
          split; [lia|]. intros g Hg. specialize (Hl3 g Hg). lia.
        - assert (Hlk : lk = LAbsent).
          { unfold cached_id in Hc. rewrite Huc in Hc. destruct lk as [|L|]; [reflexivity|discriminate|contradiction]. }
          rewrite Hlk in Hl. cbn in Hl. rewrite Hl. split; [|intros g Hg; destruct Hg].
          apply (start_bounds finder start_id start_ge_1 start_le_max rc (b0 :: fs) lk o s).
          + eapply so_scanned; eauto.
          + rewrite Hc. discriminate. }
      destruct Hsb as [[Hs1 Hs2] Hold]. rewrite Forall_forall in Hb.
      assert (Hnew : forall g, In g (map (fun x : nat * N * N => snd x) (ro_ids (run_edit P finder start_id rc (Some (b0 :: fs)) lk o))) -> s <= g /\ g < c').
      { intros g Hg. apply in_map_iff in Hg. destruct Hg as (x & <- & Hx). apply (Hb x Hx). }
      split.
      + apply nodup_app_disjoint; [exact Hnd|exact Hnd'|].
        intros a Ha Hin. specialize (Hold a Ha). destruct (Hnew a Hin). lia.
      + split; [specialize (Hmax Hs2); lia|].
        intros g Hg. apply in_app_or in Hg. destruct Hg as [Hg|Hg].
        * specialize (Hold g Hg). lia.
        * destruct (Hnew g Hg). lia.
  Qed.

  (* C02: over any history of developer edits and runs -- any I/O fault oracle, any stop point,
     as long as each edit run uses the lock, can write it and ends by itself -- no ID is ever
     written twice, and the lock stays above every ID written *)
  Theorem history_invariant : forall evs h,
    hinv h -> hist_ok P finder start_id h evs -> hinv (hexec P finder start_id h evs).
  Proof.
    induction evs as [|ev evs IH]; intros h Hi Hok; [exact Hi|].
    cbn [hexec fold_left]. fold (hexec P finder start_id (hstep P finder start_id h ev) evs).
    destruct Hok as [Hev Hrest]. apply IH; [|exact Hrest].
    apply hstep_inv; [exact Hi|]. split; [exact Hev|exact I].
  Qed.
End Hist.
