(* CanonicalRun.v -- the finder theorem for canonical files (FileSpec.v) composed with the driver
   theorems: what an edit run does to a file of the canonical file language, stated on the file's
   TEXT alone (no parse tree, no entry list in the hypotheses). *)
From Coq Require Import List NArith Bool Lia.
From Breadlog Require Import Model.Peg Model.Text Model.Regex Model.Glue Model.Tables Model.Utf8 Model.Driver Model.History.
From Breadlog Require Import Gen.Consts.
From Breadlog Require Import Proofs.RewriteFacts Proofs.WorldFacts Proofs.DriverFacts Proofs.AllocFacts Proofs.RunFacts
     Proofs.StatementLemmas Proofs.ArgLemmas Proofs.FileSpec.
Import ListNotations.
Open Scope N_scope.

Lemma file_entries_canonical cfg b its fin :
  utf8_decode b = Some (render_items its fin) -> items_ok its fin ->
  file_entries find cfg false b = FEntries (expected cfg (render_items its fin) its []).
Proof.
  intros Hd Hok. unfold file_entries. rewrite Hd.
  pose proof (find_canonical cfg its fin Hok) as H. cbv zeta in H. rewrite H. reflexivity.
Qed.

(* After an edit run -- every tree, configuration, lock state, fault oracle and stop point -- a file
   whose text is a canonical file and which could be read is either byte-for-byte unchanged, or it is
   the original with one token after each chunk, the tokens standing exactly at the byte offsets
   `expected` computes from the text for the statements that lack a reference. *)
Theorem canonical_file_after_edit rc files lk o j b its fin :
  files <> [] -> nth_error files j = Some b ->
  utf8_decode b = Some (render_items its fin) -> items_ok its fin -> o_rfail2 o j = false ->
  let new := nth_error (w_src (apply_effs (mkWorld files [] lk)
                                  (ro_effs (run_edit the_params find c_START_REFERENCE_ID rc (Some files) lk o)))) j in
  let todo := filter missing_insert (expected (rc_cfg rc) (render_items its fin) its []) in
  new = Some b \/
  exists c0 chunks last,
    todo <> [] /\
    new = Some (zip_new chunks (tokens the_params todo c0) last) /\
    b = (concat chunks ++ last)%list /\
    length chunks = length todo /\
    map e_pos todo = offsets 0 chunks.
Proof.
  intros Hne Hj Hd Hok Hrf. cbv zeta.
  destruct (edit_final_content the_params find c_START_REFERENCE_ID rc files lk o j b Hne Hj)
    as [Hlen [Hsame|(c & Hc & Hokk)]].
  - left. exact Hsame.
  - right. destruct Hokk as (b' & es & c0 & _ & Hn & Hfe & Htodo & Hw).
    rewrite PeanoNat.Nat.sub_0_r in Hn. assert (b' = b) by congruence. subst b'.
    rewrite Hrf in Hfe. rewrite (file_entries_canonical (rc_cfg rc) b its fin Hd Hok) in Hfe.
    inversion Hfe; subst es.
    destruct (weave_decompose the_params _ _ _ _ _ Hw) as (chunks & last & Hl & Hout & Hb & Hoff).
    exists c0, chunks, last. repeat split; auto.
    rewrite Hc, Hout. reflexivity.
Qed.

(* ------------------------------------------------------------------------------------------ *)
(* check mode on a tree of canonical files                                                     *)
(* ------------------------------------------------------------------------------------------ *)
From Coq Require Import String.
From Breadlog Require Import Gen.Grammar Proofs.PegFacts Proofs.GlueFacts Proofs.CheckFacts Proofs.NoPanic.

Lemma find_total : forall cfg (t : list N),
  exists es, find cfg t = Done es /\ Forall (fun e => e_pos e <= blen t) es.
Proof.
  assert (Hgok : grammar_ok the_params "file"%string RNormal false
                   (ESeq ESoi (ESeq (ERep (EChoice r_log_macro (EChoice r_other_name EAny))) EEoi))).
  { unfold grammar_ok. cbn [p_file the_params p_ws p_comment]. unfold g_file, r_file.
    split; [reflexivity|]. split; [reflexivity|]. split; [vm_compute; reflexivity|]. split; vm_compute; reflexivity. }
  exact (entries_total the_params _ _ _ _ Hgok).
Qed.

(* every file of the tree is (the UTF-8 encoding of) a canonical file *)
Definition canonical_tree (files : list (list N)) (specs : list (list (lay * item) * lay)) : Prop :=
  Forall2 (fun b s => utf8_decode b = Some (render_items (fst s) (snd s)) /\ items_ok (fst s) (snd s)) files specs.

(* what check must report: file by file, the line and column `expected` gives for every statement
   that lacks a reference and has a usable position *)
Fixpoint canonical_missing (cfg : config) (specs : list (list (lay * item) * lay)) (i : nat) : list report :=
  match specs with
  | [] => []
  | s :: r => (missing_reports i (expected cfg (render_items (fst s) (snd s)) (fst s) []) ++ canonical_missing cfg r (S i))%list
  end.

Lemma expected_missing_canonical cfg rfail : forall files specs i,
  canonical_tree files specs -> (forall j, rfail j = false) ->
  expected_missing find cfg rfail files i = canonical_missing cfg specs i.
Proof.
  induction files as [|b files IH]; intros specs i Ht Hr; inversion Ht as [|? s ? specs' [Hd Hok] Hrest]; subst.
  - reflexivity.
  - cbn [expected_missing canonical_missing]. rewrite Hr.
    rewrite (file_entries_canonical cfg b (fst s) (snd s) Hd Hok). rewrite (IH specs' (S i) Hrest Hr). reflexivity.
Qed.

(* C05 / C10 / C13 composed: --check on a tree of canonical files, every readable, not interrupted *)
Theorem canonical_check_verdict rc files specs o :
  files <> [] -> canonical_tree files specs -> (forall j, o_rfail2 o j = false) -> o_stop2 o = None ->
  let out := run_check find rc (Some files) o in
  let want := canonical_missing (rc_cfg rc) specs 0 in
  filter is_missing_report (ro_reports out) = want /\
  ro_total out = Some (lenN want) /\
  (ro_exit out = XErr <-> want <> []) /\ (ro_exit out = XOk <-> want = []).
Proof.
  intros Hne Ht Hr Hst. cbv zeta.
  destruct (run_check_never_panics find find_total rc (Some files) o) as [Hnp Hnh].
  pose proof (check_verdict find rc files o Hne Hnp Hnh Hst) as H. cbv zeta in H.
  rewrite (expected_missing_canonical (rc_cfg rc) (o_rfail2 o) files specs 0 Ht Hr) in H. exact H.
Qed.

(* ------------------------------------------------------------------------------------------ *)
(* round trip at a statement of the canonical language: what is inserted is what is read back  *)
(* ------------------------------------------------------------------------------------------ *)
From Breadlog Require Import Proofs.RegexFacts Proofs.RoundTrip Proofs.DecimalFacts Proofs.RuleLemmas.

Lemma render_msg_chars t : render_msg (map MChar t) = t.
Proof. induction t as [|c t IH]; cbn [map render_msg render_unit app]; [reflexivity|]. rewrite IH. reflexivity. Qed.

Lemma render_msg_app a b : render_msg (a ++ b) = (render_msg a ++ render_msg b)%list.
Proof. induction a as [|u a IH]; cbn [app render_msg]; [reflexivity|]. rewrite IH, app_assoc. reflexivity. Qed.

(* message style: the statement whose message begins with the token [ref: id] -- wherever it stands, whatever
   the rest of the file is -- is read back, when it is reported at all, with exactly that id *)
Theorem stmt_token_roundtrip cfg code pre n l us id :
  id <= u32_max ->
  forall e, In e (step_entries (stmt_step cfg code pre n l (map MChar (default_token id) ++ us))) ->
            e_kind e = KString -> e_ref e = Some id.
Proof.
  intros Hid e Hin Hk. unfold stmt_step in Hin.
  destruct (directive_check the_params (p_ignore the_params) code (blen pre) (p_comment_re the_params)) as [[|]|];
    cbn [step_entries In] in Hin; try contradiction.
  destruct (negb (macro_of_interest (render_name n) cfg)); cbn [step_entries In] in Hin; try contradiction.
  destruct (if cfg_structured cfg then _ else _) as [nk|]; cbn [step_entries In] in Hin; try contradiction.
  destruct (cfg_structured cfg && negb nk); cbn [step_entries In] in Hin; destruct Hin as [<-|[]].
  - cbn [e_kind] in Hk. discriminate.
  - cbn [e_ref]. rewrite render_msg_app, render_msg_chars. apply extract_reference_token. exact Hid.
Qed.

(* structured style: a first key-value  ref = id ,  (what an edit run inserts when other key-values exist, and
   with ";" when none do): the statement is read back with exactly that id, from that key-value *)
Definition ref_core (id : N) (comma : bool) : kvcore :=
  mkKv (mkId 114 [101; 102]) ([32], []) None
       (Some (([32], []), mkVal (match dec id with d0 :: ds => VDigits d0 ds | [] => VDigits 48 [] end) [], no_lay)) comma.

Theorem stmtA_ref_roundtrip cfg code pre n a id comma more lsemi lafter :
  id <= u32_max -> a_kvs a = Some (ref_core id comma, more, lsemi, lafter) ->
  forall e, In e (step_entries (stmt_stepA cfg code pre n a)) ->
            e_kind e <> KString -> e_kind e = KStructuredPreExisting /\ e_ref e = Some id.
Proof.
  intros Hid Hkv e Hin Hk. unfold stmt_stepA in Hin. rewrite Hkv in Hin.
  destruct (directive_check the_params (p_ignore the_params) code (blen pre) (p_comment_re the_params)) as [[|]|];
    cbn [step_entries In] in Hin; try contradiction.
  destruct (negb (macro_of_interest (render_name n) cfg)); cbn [step_entries In] in Hin; try contradiction.
  destruct (if cfg_structured cfg then _ else _) as [nk|]; cbn [step_entries In] in Hin; try contradiction.
  destruct (cfg_structured cfg && negb nk).
  - cbn [cores_of ref_more] in Hin. unfold ref_core at 1 2 in Hin. cbn [k_val k_key k_l1 k_mod] in Hin.
    replace (text_eqb (key_span_text (ref_core id comma)) (p_ref_key the_params)) with true in Hin by reflexivity.
    cbn [step_entries In] in Hin. destruct Hin as [<-|[]]. cbn [e_kind e_ref]. split; [reflexivity|].
    destruct (dec_spec id) as (Hne & _ & _).
    assert (Hspan : value_span (mkVal (match dec id with d0 :: ds => VDigits d0 ds | [] => VDigits 48 [] end) []) no_lay
                    = (dec id ++ [] ++ [])%list).
    { unfold value_span, render_value. cbn [v_tl v_first render_tl]. destruct (dec id) as [|d0 ds]; [congruence|].
      cbn [render_first render_lay no_lay fst snd render_groups app]. rewrite !app_nil_r. reflexivity. }
    rewrite Hspan. apply (ref_value_with_layout id [] []); [exact Hid|reflexivity|left; reflexivity].
  - cbn [step_entries In] in Hin. destruct Hin as [<-|[]]. cbn [e_kind] in Hk. congruence.
Qed.
