(* CanonicalRun.v -- the finder theorem for canonical files (FileSpec.v) composed with the driver
   theorems: what an edit run does to a file of the canonical file language, stated on the file's
   TEXT alone (no parse tree, no entry list in the hypotheses). *)
From Coq Require Import List NArith Bool Lia.
From Breadlog Require Import Model.Peg Model.Text Model.Regex Model.Glue Model.Tables Model.Utf8 Model.Driver Model.History.
From Breadlog Require Import Gen.Consts.
From Breadlog Require Import Proofs.RewriteFacts Proofs.WorldFacts Proofs.DriverFacts Proofs.AllocFacts Proofs.RunFacts
     Proofs.StatementLemmas Proofs.ArgLemmas Proofs.FileSpec.
Import ListNotations.
Open Scope N_scope.

Lemma file_entries_canonical cfg b its fin :
  utf8_decode b = Some (render_items its fin) -> items_ok its fin ->
  file_entries find cfg false b = FEntries (expected cfg (render_items its fin) its []).
Proof.
  intros Hd Hok. unfold file_entries. rewrite Hd.
  pose proof (find_canonical cfg its fin Hok) as H. cbv zeta in H. rewrite H. reflexivity.
Qed.

(* After an edit run -- every tree, configuration, lock state, fault oracle and stop point -- a file
   whose text is a canonical file and which could be read is either byte-for-byte unchanged, or it is
   the original with one token after each chunk, the tokens standing exactly at the byte offsets
   `expected` computes from the text for the statements that lack a reference. *)
Theorem canonical_file_after_edit rc files lk o j b its fin :
  files <> [] -> nth_error files j = Some b ->
  utf8_decode b = Some (render_items its fin) -> items_ok its fin -> o_rfail2 o j = false ->
  let new := nth_error (w_src (apply_effs (mkWorld files [] lk)
                                  (ro_effs (run_edit the_params find c_START_REFERENCE_ID rc (Some files) lk o)))) j in
  let todo := filter missing_insert (expected (rc_cfg rc) (render_items its fin) its []) in
  new = Some b \/
  exists c0 chunks last,
    todo <> [] /\
    new = Some (zip_new chunks (tokens the_params todo c0) last) /\
    b = (concat chunks ++ last)%list /\
    length chunks = length todo /\
    map e_pos todo = offsets 0 chunks.
Proof.
  intros Hne Hj Hd Hok Hrf. cbv zeta.
  destruct (edit_final_content the_params find c_START_REFERENCE_ID rc files lk o j b Hne Hj)
    as [Hlen [Hsame|(c & Hc & Hokk)]].
  - left. exact Hsame.
  - right. destruct Hokk as (b' & es & c0 & _ & Hn & Hfe & Htodo & Hw).
    rewrite PeanoNat.Nat.sub_0_r in Hn. assert (b' = b) by congruence. subst b'.
    rewrite Hrf in Hfe. rewrite (file_entries_canonical (rc_cfg rc) b its fin Hd Hok) in Hfe.
    inversion Hfe; subst es.
    destruct (weave_decompose the_params _ _ _ _ _ Hw) as (chunks & last & Hl & Hout & Hb & Hoff).
    exists c0, chunks, last. repeat split; auto.
    rewrite Hc, Hout. reflexivity.
Qed.
