(* CanonicalRun.v -- the finder theorem for canonical files (FileSpec.v) composed with the driver
   theorems: what an edit run does to a file of the canonical file language, stated on the file's
   TEXT alone (no parse tree, no entry list in the hypotheses). *)
From Coq Require Import List NArith Bool Lia.
From Breadlog Require Import Model.Peg Model.Text Model.Regex Model.Glue Model.Tables Model.Utf8 Model.Driver Model.History.
From Breadlog Require Import Gen.Consts.
From Breadlog Require Import Proofs.RewriteFacts Proofs.WorldFacts Proofs.DriverFacts Proofs.AllocFacts Proofs.RunFacts
     Proofs.StatementLemmas Proofs.ArgLemmas Proofs.FileSpec.
Import ListNotations.
Open Scope N_scope.

Lemma file_entries_canonical cfg b its fin :
  utf8_decode b = Some (render_items its fin) -> items_ok its fin ->
  file_entries find cfg false b = FEntries (expected cfg (render_items its fin) its []).
Proof.
  intros Hd Hok. unfold file_entries. rewrite Hd.
  pose proof (find_canonical cfg its fin Hok) as H. cbv zeta in H. rewrite H. reflexivity.
Qed.

(* After an edit run -- every tree, configuration, lock state, fault oracle and stop point -- a file
   whose text is a canonical file and which could be read is either byte-for-byte unchanged, or it is
   the original with one token after each chunk, the tokens standing exactly at the byte offsets
   `expected` computes from the text for the statements that lack a reference. *)
Theorem canonical_file_after_edit rc files lk o j b its fin :
  files <> [] -> nth_error files j = Some b ->
  utf8_decode b = Some (render_items its fin) -> items_ok its fin -> o_rfail2 o j = false ->
  let new := nth_error (w_src (apply_effs (mkWorld files [] lk)
                                  (ro_effs (run_edit the_params find c_START_REFERENCE_ID rc (Some files) lk o)))) j in
  let todo := filter missing_insert (expected (rc_cfg rc) (render_items its fin) its []) in
  new = Some b \/
  exists c0 chunks last,
    todo <> [] /\
    new = Some (zip_new chunks (tokens the_params todo c0) last) /\
    b = (concat chunks ++ last)%list /\
    length chunks = length todo /\
    map e_pos todo = offsets 0 chunks.
Proof.
  intros Hne Hj Hd Hok Hrf. cbv zeta.
  destruct (edit_final_content the_params find c_START_REFERENCE_ID rc files lk o j b Hne Hj)
    as [Hlen [Hsame|(c & Hc & Hokk)]].
  - left. exact Hsame.
  - right. destruct Hokk as (b' & es & c0 & _ & Hn & Hfe & Htodo & Hw).
    rewrite PeanoNat.Nat.sub_0_r in Hn. assert (b' = b) by congruence. subst b'.
    rewrite Hrf in Hfe. rewrite (file_entries_canonical (rc_cfg rc) b its fin Hd Hok) in Hfe.
    inversion Hfe; subst es.
    destruct (weave_decompose the_params _ _ _ _ _ Hw) as (chunks & last & Hl & Hout & Hb & Hoff).
    exists c0, chunks, last. repeat split; auto.
    rewrite Hc, Hout. reflexivity.
Qed.

(* ------------------------------------------------------------------------------------------ *)
(* check mode on a tree of canonical files                                                     *)
(* ------------------------------------------------------------------------------------------ *)
From Coq Require Import String.
From Breadlog Require Import Gen.Grammar Proofs.PegFacts Proofs.GlueFacts Proofs.CheckFacts Proofs.NoPanic.

Lemma find_total : forall cfg (t : list N),
  exists es, find cfg t = Done es /\ Forall (fun e => e_pos e <= blen t) es.
Proof.
  assert (Hgok : grammar_ok the_params "file"%string RNormal false
                   (ESeq ESoi (ESeq (ERep (EChoice r_log_macro (EChoice r_other_name EAny))) EEoi))).
  { unfold grammar_ok. cbn [p_file the_params p_ws p_comment]. unfold g_file, r_file.
    split; [reflexivity|]. split; [reflexivity|]. split; [vm_compute; reflexivity|]. split; vm_compute; reflexivity. }
  exact (entries_total the_params _ _ _ _ Hgok).
Qed.

(* every file of the tree is (the UTF-8 encoding of) a canonical file *)
Definition canonical_tree (files : list (list N)) (specs : list (list (lay * item) * lay)) : Prop :=
  Forall2 (fun b s => utf8_decode b = Some (render_items (fst s) (snd s)) /\ items_ok (fst s) (snd s)) files specs.

(* what check must report: file by file, the line and column `expected` gives for every statement
   that lacks a reference and has a usable position *)
Fixpoint canonical_missing (cfg : config) (specs : list (list (lay * item) * lay)) (i : nat) : list report :=
  match specs with
  | [] => []
  | s :: r => (missing_reports i (expected cfg (render_items (fst s) (snd s)) (fst s) []) ++ canonical_missing cfg r (S i))%list
  end.

Lemma expected_missing_canonical cfg rfail : forall files specs i,
  canonical_tree files specs -> (forall j, rfail j = false) ->
  expected_missing find cfg rfail files i = canonical_missing cfg specs i.
Proof.
  induction files as [|b files IH]; intros specs i Ht Hr; inversion Ht as [|? s ? specs' [Hd Hok] Hrest]; subst.
  - reflexivity.
  - cbn [expected_missing canonical_missing]. rewrite Hr.
    rewrite (file_entries_canonical cfg b (fst s) (snd s) Hd Hok). rewrite (IH specs' (S i) Hrest Hr). reflexivity.
Qed.

(* C05 / C10 / C13 composed: --check on a tree of canonical files, every readable, not interrupted *)
Theorem canonical_check_verdict rc files specs o :
  files <> [] -> canonical_tree files specs -> (forall j, o_rfail2 o j = false) -> o_stop2 o = None ->
  let out := run_check find rc (Some files) o in
  let want := canonical_missing (rc_cfg rc) specs 0 in
  filter is_missing_report (ro_reports out) = want /\
  ro_total out = Some (lenN want) /\
  (ro_exit out = XErr <-> want <> []) /\ (ro_exit out = XOk <-> want = []).
Proof.
  intros Hne Ht Hr Hst. cbv zeta.
  destruct (run_check_never_panics find find_total rc (Some files) o) as [Hnp Hnh].
  pose proof (check_verdict find rc files o Hne Hnp Hnh Hst) as H. cbv zeta in H.
  rewrite (expected_missing_canonical (rc_cfg rc) (o_rfail2 o) files specs 0 Ht Hr) in H. exact H.
Qed.

(* ------------------------------------------------------------------------------------------ *)
(* round trip at a statement of the canonical language: what is inserted is what is read back  *)
(* ------------------------------------------------------------------------------------------ *)
From Breadlog Require Import Proofs.RegexFacts Proofs.RoundTrip Proofs.DecimalFacts Proofs.RuleLemmas.

Lemma render_msg_chars t : render_msg (map MChar t) = t.
Proof. induction t as [|c t IH]; cbn [map render_msg render_unit app]; [reflexivity|]. rewrite IH. reflexivity. Qed.

Lemma render_msg_app a b : render_msg (a ++ b) = (render_msg a ++ render_msg b)%list.
Proof. induction a as [|u a IH]; cbn [app render_msg]; [reflexivity|]. rewrite IH, app_assoc. reflexivity. Qed.

(* message style: the statement whose message begins with the token [ref: id] -- wherever it stands, whatever
   the rest of the file is -- is read back, when it is reported at all, with exactly that id *)
Theorem stmt_token_roundtrip cfg code pre n l us id :
  id <= u32_max ->
  forall e, In e (step_entries (stmt_step cfg code pre n l (map MChar (default_token id) ++ us))) ->
            e_kind e = KString -> e_ref e = Some id.
Proof.
  intros Hid e Hin Hk. unfold stmt_step in Hin.
  destruct (directive_check the_params (p_ignore the_params) code (blen pre) (p_comment_re the_params)) as [[|]|];
    cbn [step_entries In] in Hin; try contradiction.
  destruct (negb (macro_of_interest (render_name n) cfg)); cbn [step_entries In] in Hin; try contradiction.
  destruct (if cfg_structured cfg then _ else _) as [nk|]; cbn [step_entries In] in Hin; try contradiction.
  destruct (cfg_structured cfg && negb nk); cbn [step_entries In] in Hin; destruct Hin as [<-|[]].
  - cbn [e_kind] in Hk. discriminate.
  - cbn [e_ref]. rewrite render_msg_app, render_msg_chars. apply extract_reference_token. exact Hid.
Qed.

(* structured style: a first key-value  ref = id ,  (what an edit run inserts when other key-values exist, and
   with ";" when none do): the statement is read back with exactly that id, from that key-value *)
Definition ref_core (id : N) (comma : bool) : kvcore :=
  mkKv (mkId 114 [101; 102]) ([32], []) None
       (Some (([32], []), mkVal (match dec id with d0 :: ds => VDigits d0 ds | [] => VDigits 48 [] end) [], no_lay)) comma.

Theorem stmtA_ref_roundtrip cfg code pre n a id comma more lsemi lafter :
  id <= u32_max -> a_kvs a = Some (ref_core id comma, more, lsemi, lafter) ->
  forall e, In e (step_entries (stmt_stepA cfg code pre n a)) ->
            e_kind e <> KString -> e_kind e = KStructuredPreExisting /\ e_ref e = Some id.
Proof.
  intros Hid Hkv e Hin Hk. unfold stmt_stepA in Hin. rewrite Hkv in Hin.
  destruct (directive_check the_params (p_ignore the_params) code (blen pre) (p_comment_re the_params)) as [[|]|];
    cbn [step_entries In] in Hin; try contradiction.
  destruct (negb (macro_of_interest (render_name n) cfg)); cbn [step_entries In] in Hin; try contradiction.
  destruct (if cfg_structured cfg then _ else _) as [nk|]; cbn [step_entries In] in Hin; try contradiction.
  destruct (cfg_structured cfg && negb nk).
  - cbn [cores_of ref_more] in Hin. unfold ref_core at 1 2 in Hin. cbn [k_val k_key k_l1 k_mod] in Hin.
    replace (text_eqb (key_span_text (ref_core id comma)) (p_ref_key the_params)) with true in Hin by reflexivity.
    cbn [step_entries In] in Hin. destruct Hin as [<-|[]]. cbn [e_kind e_ref]. split; [reflexivity|].
    destruct (dec_spec id) as (Hne & _ & _).
    assert (Hspan : value_span (mkVal (match dec id with d0 :: ds => VDigits d0 ds | [] => VDigits 48 [] end) []) no_lay
                    = (dec id ++ [] ++ [])%list).
    { unfold value_span, render_value. cbn [v_tl v_first render_tl]. destruct (dec id) as [|d0 ds]; [congruence|].
      cbn [render_first render_lay no_lay fst snd render_groups app]. rewrite !app_nil_r. reflexivity. }
    rewrite Hspan. apply (ref_value_with_layout id [] []); [exact Hid|reflexivity|left; reflexivity].
  - cbn [step_entries In] in Hin. destruct Hin as [<-|[]]. cbn [e_kind] in Hk. congruence.
Qed.

(* ------------------------------------------------------------------------------------------ *)
(* message style: the file an edit run writes, as a canonical file again                       *)
(* ------------------------------------------------------------------------------------------ *)
From Breadlog Require Import Proofs.BytesFacts Proofs.Utf8Facts.

Definition item_step (cfg : config) (code pre1 : list N) (it : item) : step :=
  match it with
  | IStmt n l us => stmt_step cfg code pre1 n l us
  | IStmtA n a => stmt_stepA cfg code pre1 n a
  | _ => Skip
  end.

Definition step_missing (s : step) : bool := match s with Emit e => missing_insert e | _ => false end.

(* the text of a statement item up to and including the opening quote of its message, and its message *)
Definition item_head (it : item) : list N :=
  match it with
  | IStmt n l us => (render_name n ++ 33 :: 40 :: render_lay l ++ [34])%list
  | IStmtA n a => (render_name n ++ 33 :: 40 :: render_lay (a_l0 a) ++ targ_text (a_targ a) ++ kv_text (a_kvs a) ++ [34])%list
  | _ => []
  end.
Definition item_msg (it : item) : list munit :=
  match it with IStmt _ _ us => us | IStmtA _ a => a_msg a | _ => [] end.

Definition add_token (it : item) (id : N) : item :=
  match it with
  | IStmt n l us => IStmt n l (map MChar (default_token id) ++ us)
  | IStmtA n a => IStmtA n (mkArgs (a_l0 a) (a_targ a) (a_kvs a) (map MChar (default_token id) ++ a_msg a))
  | _ => it
  end.

(* structured style: the statement with  ref = id  as its first key-value, placed where an edit run places it:
   directly after the bracket (the layout that followed the bracket now follows the inserted text), or directly
   after the target argument; followed by ", " when key-values exist and by "; " when not *)
Definition push_lay (l : lay) : lay := (32 :: fst l, snd l).
Definition add_kv (it : item) (id : N) : item :=
  match it with
  | IStmt n l us => IStmtA n (mkArgs no_lay None (Some (ref_core id false, [], no_lay, push_lay l)) us)
  | IStmtA n a =>
      match a_targ a, a_kvs a with
      | None, None => IStmtA n (mkArgs no_lay None (Some (ref_core id false, [], no_lay, push_lay (a_l0 a))) (a_msg a))
      | None, Some (k1, more, lsemi, lafter) =>
          IStmtA n (mkArgs no_lay None (Some (ref_core id true, (push_lay (a_l0 a), k1) :: more, lsemi, lafter)) (a_msg a))
      | Some t, None => IStmtA n (mkArgs (a_l0 a) (Some t) (Some (ref_core id false, [], no_lay, push_lay no_lay)) (a_msg a))
      | Some t, Some (k1, more, lsemi, lafter) =>
          IStmtA n (mkArgs (a_l0 a) (Some t) (Some (ref_core id true, (push_lay no_lay, k1) :: more, lsemi, lafter)) (a_msg a))
      end
  | _ => it
  end.

(* the statement an edit run makes of a statement reported by entry e: in the message (message style, and
   structured style under the no-kvp directive) or as a key-value *)
Definition add_ref (it : item) (e : entry) (id : N) : item :=
  match e_kind e with KString => add_token it id | _ => add_kv it id end.

(* the items after an edit run that starts numbering at ctr: every statement that lacked a reference carries
   the next ID; nothing else differs *)
Fixpoint retoken (cfg : config) (code : list N) (its : list (lay * item)) (pre : list N) (ctr : N) : list (lay * item) :=
  match its with
  | [] => []
  | (l, it) :: r =>
      let pre1 := (pre ++ render_lay l)%list in
      match item_step cfg code pre1 it with
      | Emit e => if missing_insert e
                  then (l, add_ref it e ctr) :: retoken cfg code r (pre1 ++ render_item it) (ctr + 1)
                  else (l, it) :: retoken cfg code r (pre1 ++ render_item it) ctr
      | _ => (l, it) :: retoken cfg code r (pre1 ++ render_item it) ctr
      end
  end.

Lemma expected_cons cfg code l it r pre :
  expected cfg code ((l, it) :: r) pre =
  (step_entries (item_step cfg code (pre ++ render_lay l) it) ++ expected cfg code r ((pre ++ render_lay l) ++ render_item it))%list.
Proof. cbn [expected]. destruct it; reflexivity. Qed.

Lemma stmt_item_split it :
  (exists n l us, it = IStmt n l us) \/ (exists n a, it = IStmtA n a) ->
  render_item it = (item_head it ++ render_msg (item_msg it) ++ [34])%list.
Proof.
  intros [(n & l & us & ->)|(n & a & ->)]; cbn [render_item item_head item_msg].
  - rewrite <- !app_assoc. cbn [app]. rewrite <- !app_assoc. reflexivity.
  - unfold render_args. rewrite render_targpart_text, render_kvpart_text. unfold msg_lit.
    rewrite <- !app_assoc. cbn [app]. rewrite <- !app_assoc. reflexivity.
Qed.

Lemma add_token_render it id :
  (exists n l us, it = IStmt n l us) \/ (exists n a, it = IStmtA n a) ->
  render_item (add_token it id) = (item_head it ++ default_token id ++ render_msg (item_msg it) ++ [34])%list.
Proof.
  intros H. assert (H' : (exists n l us, add_token it id = IStmt n l us) \/ (exists n a, add_token it id = IStmtA n a)).
  { destruct H as [(n & l & us & ->)|(n & a & ->)]; [left|right]; cbn [add_token]; eauto. }
  rewrite (stmt_item_split _ H').
  destruct H as [(n & l & us & ->)|(n & a & ->)]; cbn [add_token item_head item_msg a_l0 a_targ a_kvs a_msg];
    rewrite render_msg_app, render_msg_chars, <- !app_assoc; reflexivity.
Qed.

Lemma default_token_insertable e id :
  e_prefix e = None -> e_suffix e = None -> insertable the_params e id = default_token id.
Proof. intros Hp Hs. unfold insertable. rewrite Hp, Hs. reflexivity. Qed.

(* ---- where the reference goes, as text: the item up to the insertion point ---- *)
Definition head_of (it : item) (e : entry) : list N :=
  match e_kind e with
  | KString => item_head it
  | _ => match it with
         | IStmt n _ _ => (render_name n ++ [33; 40])%list
         | IStmtA n a => match a_targ a with
                         | Some _ => (render_name n ++ 33 :: 40 :: render_lay (a_l0 a) ++ targ_text (a_targ a))%list
                         | None => (render_name n ++ [33; 40])%list
                         end
         | _ => []
         end
  end.

Definition ref_eq : list N := [114; 101; 102; 32; 61; 32].      (* "ref = " *)

Lemma render_ref_core id comma : render_core (ref_core id comma) = (ref_eq ++ dec id ++ render_comma comma)%list.
Proof.
  unfold render_core, ref_core. cbn [k_key k_l1 k_mod k_val k_comma render_ident i0 ics render_mod render_val render_lay fst snd render_groups app no_lay].
  unfold render_value. cbn [v_first v_tl render_tl app].
  destruct (dec_spec id) as (Hne & _ & _). destruct (dec id) as [|d0 ds]; [congruence|].
  cbn [render_first]. unfold ref_eq. cbn [app]. rewrite ?app_nil_r. reflexivity.
Qed.

Lemma render_push_lay l : render_lay (push_lay l) = 32 :: render_lay l.
Proof. reflexivity. Qed.

Lemma insertable_new e id s :
  e_prefix e = Some (fst (p_fmt_prefix the_params) ++ p_ref_key the_params ++ snd (p_fmt_prefix the_params))%list ->
  e_suffix e = Some s -> insertable the_params e id = (ref_eq ++ dec id ++ s)%list.
Proof. intros Hp Hs. unfold insertable. rewrite Hp, Hs. reflexivity. Qed.

Lemma blen_snoc1 a c : c < 128 -> blen (a ++ [c]) = blen a + 1.
Proof. intros H. rewrite blen_app. cbn [blen]. unfold cplen. destruct (N.ltb_spec c 128); lia. Qed.

Lemma pre_existing_not_missing e : e_kind e = KStructuredPreExisting -> missing_insert e = false.
Proof. intros H. unfold missing_insert, usable. rewrite H. destruct (exists_ref e); reflexivity. Qed.

Lemma step_split cfg code pre1 it e :
  item_step cfg code pre1 it = Emit e -> missing_insert e = true ->
  ((exists n l us, it = IStmt n l us) \/ (exists n a, it = IStmtA n a)) /\
  exists t, render_item it = (head_of it e ++ t)%list /\ e_pos e = blen (pre1 ++ head_of it e) /\
            forall id, render_item (add_ref it e id) = (head_of it e ++ insertable the_params e id ++ t)%list.
Proof.
  intros H Hm. destruct it as [n l us|n a|n|c]; cbn [item_step] in H; try discriminate.
  - split; [left; eauto|]. unfold stmt_step in H. remember (render_name n) as nm.
    destruct (directive_check the_params (p_ignore the_params) code (blen pre1) (p_comment_re the_params)) as [[|]|]; try discriminate.
    destruct (negb (macro_of_interest nm cfg)); try discriminate.
    destruct (if cfg_structured cfg then _ else _) as [nk|]; try discriminate.
    destruct (cfg_structured cfg && negb nk); inversion H; subst e; clear H.
    + exists (render_lay l ++ 34 :: render_msg us ++ [34])%list.
      unfold head_of, add_ref. cbn [e_kind e_pos]. rewrite <- Heqnm. split; [|split].
      * cbn [render_item]. rewrite <- Heqnm, <- !app_assoc. reflexivity.
      * rewrite !blen_app. change (blen [33; 40]) with 2. change (blen [33]) with 1. lia.
      * intros id. rewrite (insertable_new _ id [59; 32]) by reflexivity.
        cbn [add_kv render_item]. rewrite <- Heqnm. unfold render_args.
        cbn [a_l0 a_targ a_kvs a_msg render_targpart render_kvpart]. unfold render_kvs.
        rewrite render_ref_core. cbn [render_more render_comma]. rewrite render_push_lay. unfold msg_lit.
        cbn [render_lay no_lay fst snd render_groups app]. rewrite <- !app_assoc. cbn [app]. rewrite <- ?app_assoc. reflexivity.
    + exists (render_msg us ++ [34])%list.
      unfold head_of, add_ref. cbn [e_kind e_pos item_head]. rewrite <- Heqnm. split; [|split].
      * cbn [render_item]. rewrite <- Heqnm, <- !app_assoc. cbn [app]. rewrite <- ?app_assoc. reflexivity.
      * f_equal. rewrite <- ?app_assoc. cbn [app]. rewrite <- ?app_assoc. reflexivity.
      * intros id. rewrite default_token_insertable by reflexivity.
        cbn [add_token render_item]. rewrite <- Heqnm, render_msg_app, render_msg_chars, <- !app_assoc. cbn [app]. rewrite <- ?app_assoc. reflexivity.
  - split; [right; eauto|]. unfold stmt_stepA in H. remember (render_name n) as nm.
    destruct (directive_check the_params (p_ignore the_params) code (blen pre1) (p_comment_re the_params)) as [[|]|]; try discriminate.
    destruct (negb (macro_of_interest nm cfg)); try discriminate.
    destruct (if cfg_structured cfg then _ else _) as [nk|]; try discriminate.
    destruct (cfg_structured cfg && negb nk).
    + destruct (ref_more _ _) as [[prev vt]|].
      { inversion H; subst e. rewrite pre_existing_not_missing in Hm by reflexivity. discriminate. }
      destruct a as [l0 tg kvs msg]. cbn [a_l0 a_targ a_kvs a_msg] in *.
      remember (targ_text tg) as tt eqn:Ett.
      destruct tg as [[t lt]|]; injection H as He; subst e;
        unfold head_of, add_ref; cbn [e_kind e_pos a_targ a_l0 a_kvs a_msg]; rewrite <- Heqnm, <- ?Ett.
      * (* after the target *)
        exists (render_kvpart kvs (msg_lit msg [])). split; [|split].
        -- cbn [render_item]. rewrite <- Heqnm. unfold render_args. cbn [a_l0 a_targ a_kvs a_msg].
           rewrite render_targpart_text, <- Ett, <- !app_assoc. cbn [app]. rewrite <- ?app_assoc. reflexivity.
        -- f_equal. rewrite <- ?app_assoc. cbn [app]. rewrite <- ?app_assoc. reflexivity.
        -- intros id. destruct kvs as [[[[k1 more] lsemi] lafter]|].
           ++ rewrite (insertable_new _ id [44; 32]) by reflexivity.
              cbn [add_kv a_targ a_kvs a_l0 a_msg render_item]. rewrite <- Heqnm. unfold render_args.
              cbn [a_l0 a_targ a_kvs a_msg]. rewrite render_targpart_text, <- Ett. cbn [render_kvpart]. unfold render_kvs.
              rewrite render_ref_core. cbn [render_more render_comma]. rewrite render_push_lay.
              cbn [render_lay no_lay fst snd render_groups app]. rewrite <- ?app_assoc. cbn [app]. rewrite <- ?app_assoc. reflexivity.
           ++ rewrite (insertable_new _ id [59; 32]) by reflexivity.
              cbn [add_kv a_targ a_kvs a_l0 a_msg render_item]. rewrite <- Heqnm. unfold render_args.
              cbn [a_l0 a_targ a_kvs a_msg]. rewrite render_targpart_text, <- Ett. cbn [render_kvpart]. unfold render_kvs.
              rewrite render_ref_core. cbn [render_more render_comma]. rewrite render_push_lay.
              cbn [render_lay no_lay fst snd render_groups app]. rewrite <- ?app_assoc. cbn [app]. rewrite <- ?app_assoc. reflexivity.
      * (* directly after the bracket *)
        exists (render_lay l0 ++ render_kvpart kvs (msg_lit msg []))%list. split; [|split].
        -- cbn [render_item]. rewrite <- Heqnm. unfold render_args. cbn [a_l0 a_targ a_kvs a_msg render_targpart].
           rewrite <- !app_assoc. reflexivity.
        -- rewrite !blen_app. change (blen [33; 40]) with 2. change (blen [33]) with 1. lia.
        -- intros id. destruct kvs as [[[[k1 more] lsemi] lafter]|].
           ++ rewrite (insertable_new _ id [44; 32]) by reflexivity.
              cbn [add_kv a_targ a_kvs a_l0 a_msg render_item]. rewrite <- Heqnm. unfold render_args.
              cbn [a_l0 a_targ a_kvs a_msg render_targpart render_kvpart]. unfold render_kvs.
              rewrite render_ref_core. cbn [render_more render_comma]. rewrite render_push_lay.
              cbn [render_lay no_lay fst snd render_groups app]. rewrite <- ?app_assoc. cbn [app]. rewrite <- ?app_assoc. reflexivity.
           ++ rewrite (insertable_new _ id [59; 32]) by reflexivity.
              cbn [add_kv a_targ a_kvs a_l0 a_msg render_item]. rewrite <- Heqnm. unfold render_args.
              cbn [a_l0 a_targ a_kvs a_msg render_targpart render_kvpart]. unfold render_kvs.
              rewrite render_ref_core. cbn [render_more render_comma]. rewrite render_push_lay.
              cbn [render_lay no_lay fst snd render_groups app]. rewrite <- ?app_assoc. cbn [app]. rewrite <- ?app_assoc. reflexivity.
    + inversion H; subst e; clear H. exists (render_msg (a_msg a) ++ [34])%list.
      unfold head_of, add_ref. cbn [e_kind e_pos item_head]. rewrite <- Heqnm. split; [|split].
      * cbn [render_item]. rewrite <- Heqnm. unfold render_args. rewrite render_targpart_text, render_kvpart_text. unfold msg_lit.
        rewrite <- !app_assoc. cbn [app]. rewrite <- ?app_assoc. reflexivity.
      * f_equal. rewrite <- ?app_assoc. cbn [app]. rewrite <- ?app_assoc. reflexivity.
      * intros id. rewrite default_token_insertable by reflexivity.
        cbn [add_token render_item]. rewrite <- Heqnm. unfold render_args. cbn [a_l0 a_targ a_kvs a_msg].
        rewrite render_targpart_text, render_kvpart_text. unfold msg_lit.
        rewrite render_msg_app, render_msg_chars, <- !app_assoc. cbn [app]. rewrite <- ?app_assoc. reflexivity.
Qed.

(* in message style a reported statement is reported at the first character of its message, with the plain
   token format *)
Lemma message_step_shape cfg code pre1 it e :
  cfg_structured cfg = false -> item_step cfg code pre1 it = Emit e ->
  ((exists n l us, it = IStmt n l us) \/ (exists n a, it = IStmtA n a)) /\
  e_pos e = blen (pre1 ++ item_head it) /\ e_prefix e = None /\ e_suffix e = None.
Proof.
  intros Hs H. destruct it as [n l us|n a|n|c]; cbn [item_step] in H; try discriminate.
  - split; [left; eauto|]. cbn [item_head]. unfold stmt_step in H. remember (render_name n) as nm. rewrite Hs in H. cbn [andb] in H.
    destruct (directive_check the_params (p_ignore the_params) code (blen pre1) (p_comment_re the_params)) as [[|]|]; try discriminate.
    destruct (negb (macro_of_interest nm cfg)); try discriminate.
    inversion H; subst e. cbn [e_pos e_prefix e_suffix]. repeat split.
    f_equal. rewrite <- ?app_assoc. cbn [app]. rewrite <- ?app_assoc. reflexivity.
  - split; [right; eauto|]. cbn [item_head]. unfold stmt_stepA in H. remember (render_name n) as nm. rewrite Hs in H. cbn [andb] in H.
    destruct (directive_check the_params (p_ignore the_params) code (blen pre1) (p_comment_re the_params)) as [[|]|]; try discriminate.
    destruct (negb (macro_of_interest nm cfg)); try discriminate.
    inversion H; subst e. cbn [e_pos e_prefix e_suffix]. repeat split.
    f_equal. rewrite <- ?app_assoc. cbn [app]. rewrite <- ?app_assoc. reflexivity.
Qed.

Lemma btake_app_exact (a b : list N) : btake (blength a) (a ++ b) = Some a.
Proof.
  induction a as [|x a IH]; cbn [blength app]; [apply btake_0|].
  rewrite btake_cons by lia. replace (1 + blength a - 1) with (blength a) by lia. rewrite IH. reflexivity.
Qed.
Lemma bdrop_app_exact (a b : list N) : bdrop (blength a) (a ++ b) = Some b.
Proof.
  induction a as [|x a IH]; cbn [blength app]; [apply bdrop_0|].
  rewrite bdrop_cons by lia. replace (1 + blength a - 1) with (blength a) by lia. exact IH.
Qed.

(* the specification of the written bytes, computed on a canonical file, either style: the encoding of the
   canonical file whose items are `retoken` of the original ones *)
Lemma weave_items cfg code fin :
  forall its pre0 pend ctr,
  weave the_params (utf8_encode (pend ++ render_items its fin)) (blen pre0)
        (filter missing_insert (expected cfg code its (pre0 ++ pend))) ctr
  = Some (utf8_encode (pend ++ render_items (retoken cfg code its (pre0 ++ pend) ctr) fin)).
Proof.
  induction its as [|[l it] r IH]; intros pre0 pend ctr.
  - reflexivity.
  - rewrite expected_cons, filter_app. cbn [retoken]. cbv zeta.
    set (pre1 := ((pre0 ++ pend) ++ render_lay l)%list).
    assert (Hskip : weave the_params (utf8_encode (pend ++ render_items ((l, it) :: r) fin)) (blen pre0)
                      (filter missing_insert (expected cfg code r (pre1 ++ render_item it))) ctr
                    = Some (utf8_encode (pend ++ render_items ((l, it) :: retoken cfg code r (pre1 ++ render_item it) ctr) fin))).
    { cbn [render_items].
      replace (pre1 ++ render_item it)%list with (pre0 ++ (pend ++ render_lay l ++ render_item it))%list
        by (unfold pre1; rewrite <- !app_assoc; reflexivity).
      replace (pend ++ render_lay l ++ render_item it ++ render_items r fin)%list
        with ((pend ++ render_lay l ++ render_item it) ++ render_items r fin)%list by (rewrite <- !app_assoc; reflexivity).
      rewrite IH. rewrite <- !app_assoc. reflexivity. }
    destruct (item_step cfg code pre1 it) as [|e|] eqn:Est; cbn [step_entries filter app]; try exact Hskip.
    destruct (missing_insert e) eqn:Em; cbn [app]; [|exact Hskip]. clear Hskip.
    destruct (step_split cfg code pre1 it e Est Em) as (_ & t & Hit & Hpos & Hnew).
    cbn [weave render_items].
    rewrite Hpos, Hit, (Hnew ctr).
    set (chunk := (pend ++ render_lay l ++ head_of it e)%list).
    assert (Hlen : blen (pre1 ++ head_of it e) - blen pre0 = blength (utf8_encode chunk)).
    { rewrite blength_encode. unfold pre1, chunk. rewrite !blen_app. lia. }
    assert (Hlt : (blen (pre1 ++ head_of it e) <? blen pre0) = false).
    { apply N.ltb_ge. unfold pre1. rewrite !blen_app. lia. }
    rewrite Hlt, Hlen.
    replace (pend ++ render_lay l ++ (head_of it e ++ t) ++ render_items r fin)%list
      with (chunk ++ (t ++ render_items r fin))%list
      by (unfold chunk; rewrite <- !app_assoc; reflexivity).
    rewrite utf8_encode_app, btake_app_exact, bdrop_app_exact.
    replace (pre1 ++ head_of it e ++ t)%list with ((pre1 ++ head_of it e) ++ t)%list by (rewrite <- !app_assoc; reflexivity).
    rewrite IH.
    f_equal. rewrite <- !utf8_encode_app. f_equal. unfold chunk. rewrite <- !app_assoc. reflexivity.
Qed.

(* After an edit run, either style -- every tree, lock state, fault oracle and stop point -- a readable
   canonical file is byte-for-byte unchanged, or its bytes are exactly the UTF-8 encoding of the canonical file
   whose statements without a reference now carry one (consecutive N from some c0, in file order): `[ref: N] ` at
   the start of the message, or `ref = N` as the first key-value (`add_ref`); same layout, same names, same
   arguments, same other statements, same everything. *)
Theorem canonical_file_rewritten rc files lk o j b its fin :
  files <> [] -> nth_error files j = Some b ->
  utf8_decode b = Some (render_items its fin) -> items_ok its fin -> o_rfail2 o j = false ->
  let new := nth_error (w_src (apply_effs (mkWorld files [] lk)
                                  (ro_effs (run_edit the_params find c_START_REFERENCE_ID rc (Some files) lk o)))) j in
  new = Some b \/
  exists c0, new = Some (utf8_encode (render_items (retoken (rc_cfg rc) (render_items its fin) its [] c0) fin)).
Proof.
  intros Hne Hj Hd Hok Hrf. cbv zeta.
  destruct (edit_final_content the_params find c_START_REFERENCE_ID rc files lk o j b Hne Hj)
    as [Hlen [Hsame|(c & Hc & Hokk)]].
  - left. exact Hsame.
  - right. destruct Hokk as (b' & es & c0 & _ & Hn & Hfe & Htodo & Hw).
    rewrite PeanoNat.Nat.sub_0_r in Hn. assert (b' = b) by congruence. subst b'.
    rewrite Hrf in Hfe. rewrite (file_entries_canonical (rc_cfg rc) b its fin Hd Hok) in Hfe.
    inversion Hfe; subst es.
    rewrite (decode_is_encode _ _ Hd) in Hw.
    pose proof (weave_items (rc_cfg rc) (render_items its fin) fin its [] [] c0) as Hwi.
    cbn [app blen] in Hwi. rewrite Hwi in Hw. inversion Hw; subst c.
    exists c0. exact Hc.
Qed.

(* which of the two: in message style always the token in the message; in structured style the key-value,
   except under the no-kvp directive *)
Lemma add_ref_message cfg code pre1 it e id :
  cfg_structured cfg = false -> item_step cfg code pre1 it = Emit e -> add_ref it e id = add_token it id.
Proof.
  intros Hs H. unfold add_ref. destruct it as [n l us|n a|n|c]; cbn [item_step] in H; try discriminate.
  - unfold stmt_step in H. rewrite Hs in H. cbn [andb] in H.
    destruct (directive_check the_params (p_ignore the_params) code (blen pre1) (p_comment_re the_params)) as [[|]|]; try discriminate.
    destruct (negb (macro_of_interest (render_name n) cfg)); try discriminate.
    injection H as <-. reflexivity.
  - unfold stmt_stepA in H. rewrite Hs in H. cbn [andb] in H.
    destruct (directive_check the_params (p_ignore the_params) code (blen pre1) (p_comment_re the_params)) as [[|]|]; try discriminate.
    destruct (negb (macro_of_interest (render_name n) cfg)); try discriminate.
    injection H as <-. reflexivity.
Qed.

(* ------------------------------------------------------------------------------------------ *)
(* the rewritten statements read back; nothing else in the item list differs                    *)
(* ------------------------------------------------------------------------------------------ *)

(* the statement with target / key-values whose message begins with the token *)
Theorem stmtA_token_roundtrip cfg code pre n a id us :
  id <= u32_max -> a_msg a = (map MChar (default_token id) ++ us)%list ->
  forall e, In e (step_entries (stmt_stepA cfg code pre n a)) -> e_kind e = KString -> e_ref e = Some id.
Proof.
  intros Hid Hmsg e Hin Hk. unfold stmt_stepA in Hin.
  destruct (directive_check the_params (p_ignore the_params) code (blen pre) (p_comment_re the_params)) as [[|]|];
    cbn [step_entries In] in Hin; try contradiction.
  destruct (negb (macro_of_interest (render_name n) cfg)); cbn [step_entries In] in Hin; try contradiction.
  destruct (if cfg_structured cfg then _ else _) as [nk|]; cbn [step_entries In] in Hin; try contradiction.
  destruct (cfg_structured cfg && negb nk).
  - destruct (ref_more _ _) as [[prev vt]|].
    + cbn [step_entries In] in Hin. destruct Hin as [<-|[]]. cbn [e_kind] in Hk. discriminate.
    + destruct (a_targ a); cbn [step_entries In] in Hin; destruct Hin as [<-|[]]; cbn [e_kind] in Hk; discriminate.
  - cbn [step_entries In] in Hin. destruct Hin as [<-|[]]. cbn [e_ref]. rewrite Hmsg, render_msg_app, render_msg_chars.
    apply extract_reference_token. exact Hid.
Qed.

(* Whatever statement `add_ref` makes -- with the token in its message or with the key-value -- is read back with
   exactly that ID when it is reported in the same way, at any place of any file under any configuration *)
Theorem rewritten_statement_reads_back it e0 id :
  id <= u32_max ->
  ((exists n l us, it = IStmt n l us) \/ (exists n a, it = IStmtA n a)) ->
  forall cfg code pre e, In e (step_entries (item_step cfg code pre (add_ref it e0 id))) ->
  (e_kind e0 = KString -> e_kind e = KString -> e_ref e = Some id) /\
  (e_kind e0 <> KString -> e_kind e <> KString -> e_kind e = KStructuredPreExisting /\ e_ref e = Some id).
Proof.
  intros Hid Hit cfg code pre e Hin. unfold add_ref in Hin. split; intros H0 Hk.
  - rewrite H0 in Hin. destruct Hit as [(n & l & us & ->)|(n & a & ->)]; cbn [add_token item_step] in Hin.
    + exact (stmt_token_roundtrip cfg code pre n l us id Hid e Hin Hk).
    + eapply (stmtA_token_roundtrip cfg code pre n _ id (a_msg a) Hid); [|exact Hin|exact Hk]. reflexivity.
  - assert (Hin' : In e (step_entries (item_step cfg code pre (add_kv it id)))).
    { destruct (e_kind e0); try exact Hin. congruence. }
    clear Hin. destruct Hit as [(n & l & us & ->)|(n & a & ->)]; cbn [add_kv] in Hin'.
    + cbn [item_step] in Hin'. eapply stmtA_ref_roundtrip; eauto. reflexivity.
    + destruct (a_targ a) as [t|]; destruct (a_kvs a) as [[[[k1 more] lsemi] lafter]|]; cbn [item_step] in Hin';
        (eapply stmtA_ref_roundtrip; [exact Hid| |exact Hin'|exact Hk]; reflexivity).
Qed.

(* the item list after the run differs from the one before only at statements, and there only by `add_ref` *)
Theorem retoken_shape cfg code : forall its pre ctr,
  Forall2 (fun x y => fst y = fst x /\ (snd y = snd x \/ exists e id, snd y = add_ref (snd x) e id))
          its (retoken cfg code its pre ctr).
Proof.
  induction its as [|[l it] r IH]; intros pre ctr; cbn [retoken]; [constructor|]. cbv zeta.
  destruct (item_step cfg code (pre ++ render_lay l) it) as [|e|].
  1,3: constructor; [cbn [fst snd]; split; [reflexivity|left; reflexivity]|apply IH].
  destruct (missing_insert e); constructor; try apply IH; cbn [fst snd]; split; try reflexivity.
  - right. eauto.
  - left. reflexivity.
Qed.

(* ------------------------------------------------------------------------------------------ *)
(* the written file is valid UTF-8 again and decodes to the rewritten text                      *)
(* ------------------------------------------------------------------------------------------ *)

Lemma emit_formats cfg code pre1 it e :
  item_step cfg code pre1 it = Emit e ->
  (e_prefix e = None /\ e_suffix e = None) \/
  (e_prefix e = Some ref_eq /\ (e_suffix e = Some [44; 32] \/ e_suffix e = Some [59; 32])).
Proof.
  intros H. destruct it as [n l us|n a|n|c]; cbn [item_step] in H; try discriminate.
  - unfold stmt_step in H.
    destruct (directive_check the_params (p_ignore the_params) code (blen pre1) (p_comment_re the_params)) as [[|]|]; try discriminate.
    destruct (negb (macro_of_interest (render_name n) cfg)); try discriminate.
    destruct (if cfg_structured cfg then _ else _) as [nk|]; try discriminate.
    destruct (cfg_structured cfg && negb nk); injection H as <-; cbn [e_prefix e_suffix].
    + right. split; [reflexivity|right; reflexivity].
    + left. split; reflexivity.
  - unfold stmt_stepA in H.
    destruct (directive_check the_params (p_ignore the_params) code (blen pre1) (p_comment_re the_params)) as [[|]|]; try discriminate.
    destruct (negb (macro_of_interest (render_name n) cfg)); try discriminate.
    destruct (if cfg_structured cfg then _ else _) as [nk|]; try discriminate.
    destruct (cfg_structured cfg && negb nk).
    + destruct (ref_more _ _) as [[prev vt]|].
      { injection H as <-. left. split; reflexivity. }
      destruct (a_targ a); injection H as <-; cbn [e_prefix e_suffix]; right; (split; [reflexivity|]);
        destruct (a_kvs a); [left|right|left|right]; reflexivity.
    + injection H as <-. left. split; reflexivity.
Qed.

Lemma dec_ascii id c : In c (dec id) -> c < 128.
Proof.
  intros H. destruct (dec_spec id) as (_ & Hd & _). rewrite forallb_forall in Hd. specialize (Hd c H).
  unfold is_ascii_digit in Hd. apply andb_true_iff in Hd. destruct Hd as [_ Hd]. apply N.leb_le in Hd. lia.
Qed.

Lemma insertable_ascii cfg code pre1 it e id c :
  item_step cfg code pre1 it = Emit e -> In c (insertable the_params e id) -> c < 128.
Proof.
  intros H Hin. destruct (emit_formats cfg code pre1 it e H) as [[Hp Hs]|[Hp Hs]].
  - rewrite (default_token_insertable e id Hp Hs) in Hin. unfold default_token in Hin.
    apply in_app_or in Hin. destruct Hin as [Hin|Hin].
    + cbn in Hin. repeat (destruct Hin as [<-|Hin]; [lia|]). contradiction.
    + apply in_app_or in Hin. destruct Hin as [Hin|Hin]; [exact (dec_ascii id c Hin)|].
      cbn in Hin. repeat (destruct Hin as [<-|Hin]; [lia|]). contradiction.
  - assert (Hi : exists s, insertable the_params e id = (ref_eq ++ dec id ++ s)%list /\ (s = [44; 32] \/ s = [59; 32])).
    { destruct Hs as [Hs|Hs]; eexists; (split; [apply insertable_new; [rewrite Hp; reflexivity|exact Hs]|]); tauto. }
    destruct Hi as (s & Hi & Hs'). rewrite Hi in Hin.
    apply in_app_or in Hin. destruct Hin as [Hin|Hin].
    + cbn in Hin. repeat (destruct Hin as [<-|Hin]; [lia|]). contradiction.
    + apply in_app_or in Hin. destruct Hin as [Hin|Hin]; [exact (dec_ascii id c Hin)|].
      destruct Hs' as [-> | ->]; cbn in Hin; repeat (destruct Hin as [<-|Hin]; [lia|]); contradiction.
Qed.

(* every character of the rewritten text is a character of the old text or an ASCII character of an inserted reference *)
Lemma retoken_chars cfg code fin : forall its pre ctr c,
  In c (render_items (retoken cfg code its pre ctr) fin) -> In c (render_items its fin) \/ c < 128.
Proof.
  induction its as [|[l it] r IH]; intros pre ctr c Hin; cbn [retoken] in Hin; [left; exact Hin|]. cbv zeta in Hin.
  set (pre1 := (pre ++ render_lay l)%list) in *.
  assert (Hsame : forall ctr', In c (render_items ((l, it) :: retoken cfg code r (pre1 ++ render_item it) ctr') fin) ->
                               In c (render_items ((l, it) :: r) fin) \/ c < 128).
  { intros ctr' H. cbn [render_items] in *. apply in_app_or in H. destruct H as [H|H]; [left; apply in_or_app; left; exact H|].
    apply in_app_or in H. destruct H as [H|H]; [left; apply in_or_app; right; apply in_or_app; left; exact H|].
    destruct (IH _ _ _ H) as [H'|H']; [left; apply in_or_app; right; apply in_or_app; right; exact H'|right; exact H']. }
  destruct (item_step cfg code pre1 it) as [|e|] eqn:Est; try exact (Hsame _ Hin).
  destruct (missing_insert e) eqn:Em; [|exact (Hsame _ Hin)].
  destruct (step_split cfg code pre1 it e Est Em) as (_ & t & Hit & _ & Hnew).
  cbn [render_items] in *. rewrite (Hnew ctr) in Hin. rewrite Hit.
  apply in_app_or in Hin. destruct Hin as [H|H]; [left; apply in_or_app; left; exact H|].
  apply in_app_or in H. destruct H as [H|H].
  - apply in_app_or in H. destruct H as [H|H]; [left; apply in_or_app; right; apply in_or_app; left; apply in_or_app; left; exact H|].
    apply in_app_or in H. destruct H as [H|H]; [right; exact (insertable_ascii cfg code pre1 it e ctr c Est H)|].
    left. apply in_or_app; right. apply in_or_app; left. apply in_or_app; right. exact H.
  - destruct (IH _ _ _ H) as [H'|H']; [left; apply in_or_app; right; apply in_or_app; right; exact H'|right; exact H'].
Qed.

Lemma scalar_ascii c : c < 128 -> scalar c = true.
Proof. intros H. unfold scalar. destruct (N.ltb_spec c 55296); [reflexivity|lia]. Qed.

(* After an edit run a readable canonical file is READABLE again, and its text is the rewritten canonical text *)
Theorem canonical_file_rewritten_text rc files lk o j b its fin :
  files <> [] -> nth_error files j = Some b ->
  utf8_decode b = Some (render_items its fin) -> items_ok its fin -> o_rfail2 o j = false ->
  let new := nth_error (w_src (apply_effs (mkWorld files [] lk)
                                  (ro_effs (run_edit the_params find c_START_REFERENCE_ID rc (Some files) lk o)))) j in
  exists b', new = Some b' /\
    (utf8_decode b' = Some (render_items its fin) \/
     exists c0, utf8_decode b' = Some (render_items (retoken (rc_cfg rc) (render_items its fin) its [] c0) fin)).
Proof.
  intros Hne Hj Hd Hok Hrf. cbv zeta.
  destruct (canonical_file_rewritten rc files lk o j b its fin Hne Hj Hd Hok Hrf) as [H|(c0 & H)].
  - exists b. split; [exact H|left; exact Hd].
  - eexists. split; [exact H|right]. exists c0. apply encode_decode.
    apply forallb_forall. intros c Hc.
    destruct (retoken_chars _ _ _ _ _ _ _ Hc) as [Hc'|Hc'].
    + pose proof (decode_scalars _ _ Hd) as Hsc. rewrite forallb_forall in Hsc. exact (Hsc c Hc').
    + exact (scalar_ascii c Hc').
Qed.
