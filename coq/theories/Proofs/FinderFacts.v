(* FinderFacts.v -- which files the finder selects, and where paths resolve (C15). *)
From Coq Require Import List NArith Bool Lia.
From Breadlog Require Import Model.Peg Model.Text Model.Utf8 Model.Finder.
Import ListNotations.
Open Scope N_scope.

Scheme fsnode_mut := Induction for fsnode Sort Prop
  with fslist_mut := Induction for fslist Sort Prop.

(* the regular file with content b is reached from node n by descending through directories only,
   along the component list p *)
Inductive reaches : fsnode -> list name -> bytes -> Prop :=
| r_file : forall b, reaches (FFile b) [] b
| r_dir : forall es nm p b, reaches_in es nm p b -> reaches (FDir es) (nm :: p) b
with reaches_in : fslist -> name -> list name -> bytes -> Prop :=
| ri_here : forall nm node r p b, reaches node p b -> reaches_in (FCons nm node r) nm p b
| ri_later : forall nm' node r nm p b, reaches_in r nm p b -> reaches_in (FCons nm' node r) nm p b.

Combined Scheme fs_mutind from fsnode_mut, fslist_mut.

Lemma walk_sound_complete :
  (forall n prefix pth b, In (pth, b) (walk prefix n) <-> exists p, pth = prefix ++ p /\ reaches n p b) /\
  (forall es prefix pth b, In (pth, b) (walk_list prefix es) <->
                           exists nm p, pth = prefix ++ nm :: p /\ reaches_in es nm p b).
Proof.
  apply fs_mutind.
  - (* FFile *)
    intros content prefix pth b. cbn. split.
    + intros [H|[]]. inversion H; subst. exists []. rewrite app_nil_r. split; [reflexivity|constructor].
    + intros (p & -> & Hr). inversion Hr; subst. rewrite app_nil_r. left. reflexivity.
  - (* FSymlink *)
    intros prefix pth b. cbn. split; [intros []|intros (p & _ & Hr); inversion Hr].
  - (* FDir *)
    intros es IH prefix pth b. cbn [walk]. rewrite IH. split.
    + intros (nm & p & -> & Hr). exists (nm :: p). split; [reflexivity|constructor; exact Hr].
    + intros (p & -> & Hr). inversion Hr; subst. eauto.
  - (* FNil *)
    intros prefix pth b. cbn. split; [intros []|intros (nm & p & _ & Hr); inversion Hr].
  - (* FCons *)
    intros nm node IHn r IHr prefix pth b. cbn [walk_list]. rewrite in_app_iff, IHn, IHr. split.
    + intros [(p & -> & Hr)|(nm2 & p & -> & Hr)].
      * exists nm, p. split; [rewrite <- app_assoc; reflexivity|constructor; exact Hr].
      * exists nm2, p. split; [reflexivity|apply ri_later; exact Hr].
    + intros (nm2 & p & -> & Hr). inversion Hr; subst.
      * left. exists p. split; [rewrite <- app_assoc; reflexivity|assumption].
      * right. exists nm2, p. split; [reflexivity|assumption].
Qed.

(* C15: the finder selects exactly the regular files below the source directory, reached through
   directories only (never through or as a symbolic link, never a directory itself), whose file name
   has one of the configured extensions -- compared exactly *)
Theorem find_files_spec exts es pth b :
  In (pth, b) (match find_files exts (FDir es) with Some l => l | None => [] end) <->
  exists nm p, pth = nm :: p /\ reaches_in es nm p b /\ in_scope exts (last_name pth) = true.
Proof.
  cbn [find_files]. rewrite filter_In. cbn [fst].
  destruct walk_sound_complete as [_ Hl]. rewrite (Hl es [] pth b). cbn [app].
  split.
  - intros [(nm & p & -> & Hr) Hs]. exists nm, p. repeat split; assumption.
  - intros (nm & p & -> & Hr & Hs). split; [exists nm, p; split; [reflexivity|exact Hr]|exact Hs].
Qed.

Lemma find_files_not_dir exts : find_files exts FSymlink = None /\ forall b, find_files exts (FFile b) = None.
Proof. split; reflexivity. Qed.

(* extension membership is exact: text_eqb is equality *)
Lemma in_scope_spec exts n :
  in_scope exts n = true <-> exists e, extension n = Some e /\ In e exts.
Proof.
  unfold in_scope. destruct (extension n) as [e|]; [|split; [discriminate|intros (e & H & _); discriminate]].
  rewrite existsb_exists. split.
  - intros (x & Hin & Hx). exists e. split; [reflexivity|].
    assert (e = x).
    { clear - Hx. revert x Hx. induction e as [|c e IH]; intros [|y x] H; cbn in H; try discriminate; [reflexivity|].
      apply andb_true_iff in H. destruct H as [H1 H2]. apply N.eqb_eq in H1. rewrite (IH _ H2), H1. reflexivity. }
    subst. exact Hin.
  - intros (e' & He & Hin). inversion He; subst. exists e'. split; [exact Hin|].
    clear. induction e' as [|c e IH]; cbn; [reflexivity|]. rewrite N.eqb_refl. exact IH.
Qed.

(* paths: a relative source directory is resolved against the directory that contains the
   configuration file, whatever the working directory is; the lock file lives in that directory *)
Theorem source_dir_relative_to_config cwd cfgfile src :
  p_abs src = false ->
  resolve cwd (effective_source_dir cfgfile src) = pjoin (resolve cwd (config_dir cfgfile)) src.
Proof.
  intros Hs. unfold resolve, effective_source_dir, pjoin, config_dir, pparent. rewrite Hs. cbn [p_abs p_comps].
  destruct (p_abs cfgfile); cbn [p_abs p_comps]; [reflexivity|]. rewrite app_assoc. reflexivity.
Qed.

Theorem source_dir_absolute_kept cwd cfgfile src :
  p_abs src = true -> resolve cwd (effective_source_dir cfgfile src) = src.
Proof. intros Hs. unfold resolve, effective_source_dir, pjoin. rewrite Hs. cbn. rewrite Hs. reflexivity. Qed.

Theorem lock_next_to_config cwd cfgfile lock_name :
  resolve cwd (lock_path cfgfile lock_name) =
  pjoin (resolve cwd (config_dir cfgfile)) (mkPath false [lock_name]).
Proof.
  unfold resolve, lock_path, pjoin, config_dir, pparent. cbn [p_abs p_comps].
  destruct (p_abs cfgfile); cbn [p_abs p_comps]; [reflexivity|]. rewrite app_assoc. reflexivity.
Qed.
