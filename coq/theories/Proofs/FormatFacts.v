(* FormatFacts.v -- prefixing a format string with brace-free text prefixes the formatted message
   and changes nothing else (C09). *)
From Coq Require Import List Arith Wf_nat NArith Bool Lia.
From Breadlog Require Import Model.Peg Model.FormatStr.
Import ListNotations.
Open Scope N_scope.

(* ---- step equations of pieces_go ---- *)
Lemma pg_end x f : pieces_go (x :: f) [] = Some [].
Proof. reflexivity. Qed.

Lemma pg_char x f c r :
  c <> 123 -> c <> 125 -> pieces_go (x :: f) (c :: r) = option_map (cons (PChar c)) (pieces_go f r).
Proof.
  intros H1 H2. destruct c as [|pc]; [reflexivity|]. revert H1 H2. clear.
  do 7 (destruct pc as [pc|pc|]; try reflexivity); congruence.
Qed.

Lemma pg_open2 x f r : pieces_go (x :: f) (123 :: 123 :: r) = option_map (cons (PChar 123)) (pieces_go f r).
Proof. reflexivity. Qed.

Lemma pg_close2 x f r : pieces_go (x :: f) (125 :: 125 :: r) = option_map (cons (PChar 125)) (pieces_go f r).
Proof. reflexivity. Qed.

Lemma pg_hole x f d r :
  d <> 123 ->
  pieces_go (x :: f) (123 :: d :: r) =
  match hole_body (d :: r) [] with
  | Some (spec, r') => option_map (cons (PHole spec)) (pieces_go f r')
  | None => None
  end.
Proof.
  intros H. destruct d as [|pd]; [reflexivity|]. revert H. clear.
  do 7 (destruct pd as [pd|pd|]; try reflexivity); congruence.
Qed.

Lemma pg_hole_end x f : pieces_go (x :: f) [123] = None.
Proof. reflexivity. Qed.

Lemma pg_close1 x f d r : d <> 125 -> pieces_go (x :: f) (125 :: d :: r) = None.
Proof.
  intros H. destruct d as [|pd]; [reflexivity|]. revert H. clear.
  do 7 (destruct pd as [pd|pd|]; try reflexivity); congruence.
Qed.

Lemma pg_close1_end x f : pieces_go (x :: f) [125] = None.
Proof. reflexivity. Qed.

Lemma hole_body_other c r acc : c <> 125 -> hole_body (c :: r) acc = hole_body r (c :: acc).
Proof.
  intros H. destruct c as [|pc]; [reflexivity|]. revert H. clear.
  do 7 (destruct pc as [pc|pc|]; try reflexivity); congruence.
Qed.

Lemma hole_body_shrinks : forall r0 acc spec r', hole_body r0 acc = Some (spec, r') -> (length r' < length r0)%nat.
Proof.
  induction r0 as [|d r0 IHr]; intros acc spec r' Hh; [discriminate|].
  destruct (N.eq_dec d 125) as [->|Hd].
  - cbn in Hh. inversion Hh; subst. cbn. lia.
  - rewrite hole_body_other in Hh by exact Hd. specialize (IHr _ _ _ Hh). cbn. lia.
Qed.

Lemma pieces_go_prefix : forall p fuel t,
  no_brace p = true -> (length (p ++ t) <= length fuel)%nat ->
  pieces_go fuel (p ++ t) =
  match pieces_go (skipn (length p) fuel) t with
  | Some ps => Some (map PChar p ++ ps)
  | None => None
  end.
Proof.
  induction p as [|c p IH]; intros fuel t Hnb Hlen.
  - cbn. destruct (pieces_go fuel t); reflexivity.
  - cbn [no_brace] in Hnb. apply andb_true_iff in Hnb. destruct Hnb as [Hc Hnb].
    apply andb_true_iff in Hc. destruct Hc as [H1 H2]. apply negb_true_iff in H1, H2.
    apply N.eqb_neq in H1, H2.
    destruct fuel as [|x fuel]; [cbn in Hlen; lia|].
    cbn [app length skipn]. rewrite pg_char by assumption.
    rewrite IH by (try exact Hnb; cbn in Hlen; lia).
    destruct (pieces_go (skipn (length p) fuel) t); reflexivity.
Qed.

Lemma pieces_go_fuel : forall n fuel1 fuel2 t,
  length t = n -> (n <= length fuel1)%nat -> (n <= length fuel2)%nat -> pieces_go fuel1 t = pieces_go fuel2 t.
Proof.
  induction n as [n IHn] using lt_wf_ind. intros fuel1 fuel2 t Hn H1 H2.
  destruct t as [|c r].
  - destruct fuel1, fuel2; reflexivity.
  - destruct fuel1 as [|x1 f1]; [cbn in *; lia|]. destruct fuel2 as [|x2 f2]; [cbn in *; lia|].
    cbn [length] in *.
    assert (Hrec : forall t', (length t' < n)%nat -> pieces_go f1 t' = pieces_go f2 t').
    { intros t' Hlt. apply (IHn (length t') Hlt f1 f2 t' eq_refl); lia. }
    destruct (N.eq_dec c 123) as [->|E1].
    { destruct r as [|d r2]; [reflexivity|].
      destruct (N.eq_dec d 123) as [->|Hd].
      - rewrite !pg_open2. rewrite (Hrec r2) by (cbn in *; lia). reflexivity.
      - rewrite !pg_hole by exact Hd.
        destruct (hole_body (d :: r2) []) as [[spec r']|] eqn:Eh; [|reflexivity].
        pose proof (hole_body_shrinks _ _ _ _ Eh). rewrite (Hrec r') by (cbn in *; lia). reflexivity. }
    destruct (N.eq_dec c 125) as [->|E2].
    { destruct r as [|d r2]; [reflexivity|].
      destruct (N.eq_dec d 125) as [->|Hd].
      - rewrite !pg_close2. rewrite (Hrec r2) by (cbn in *; lia). reflexivity.
      - rewrite !pg_close1 by exact Hd. reflexivity. }
    rewrite !pg_char by assumption. rewrite (Hrec r) by lia. reflexivity.
Qed.

(* the pieces of (brace-free prefix ++ format string) are the prefix as literal text followed by the
   pieces of the format string *)
Theorem pieces_prefix p t :
  no_brace p = true ->
  pieces (p ++ t) = match pieces t with Some ps => Some (map PChar p ++ ps) | None => None end.
Proof.
  intros Hnb. unfold pieces. rewrite pieces_go_prefix by (try exact Hnb; lia).
  rewrite (pieces_go_fuel (length t) (skipn (length p) (p ++ t)) t t eq_refl); [reflexivity| |lia].
  rewrite skipn_app, skipn_all, Nat.sub_diag. cbn. lia.
Qed.

Lemma render_chars p ps vals : render (map PChar p ++ ps) vals = p ++ render ps vals.
Proof. induction p as [|c p IH]; cbn; [reflexivity|]. rewrite IH. reflexivity. Qed.

(* C09, message style: prefixing the format string of a statement with brace-free text gives a
   record with the same level, target and key-values, whose message is the prefix followed by the
   old message; and it compiles iff it compiled before *)
Theorem edit_message_record tok s :
  no_brace tok = true ->
  expand (edit_message tok s) =
  match expand s with
  | Some r => Some (mkRecord (r_level r) (r_target r) (r_kvs r) (tok ++ r_message r))
  | None => None
  end.
Proof.
  intros Hnb. unfold expand, edit_message. cbn [s_fmt s_level s_target s_kvs s_vals].
  rewrite pieces_prefix by exact Hnb. destruct (pieces (s_fmt s)) as [ps|]; [|reflexivity].
  cbn. rewrite render_chars. reflexivity.
Qed.

(* C09, structured style: adding a key-value in front gives the same record plus that key-value *)
Theorem edit_structured_record key value s :
  expand (edit_structured key value s) =
  match expand s with
  | Some r => Some (mkRecord (r_level r) (r_target r) ((key, value) :: r_kvs r) (r_message r))
  | None => None
  end.
Proof. unfold expand, edit_structured. cbn [s_fmt s_level s_target s_kvs s_vals]. destruct (pieces (s_fmt s)); reflexivity. Qed.
