(* LockFacts.v -- what Breadlog writes into Breadlog.lock is read back as the same number. *)
From Coq Require Import List Arith NArith Bool Lia.
From Breadlog Require Import Model.Peg Model.Text Model.Lock.
From Breadlog Require Import Gen.Consts.
From Breadlog Require Import Proofs.DecimalFacts.
Import ListNotations.
Open Scope N_scope.

(* ---- decimal printing has no leading zero ---- *)
Lemma dec_pos_fuel_head f : forall n acc,
  (N.size_nat n <= f)%nat -> 0 < n ->
  exists d r, dec_pos_fuel (S f) n acc = d :: r /\ d <> 48.
Proof.
  induction f as [|f IH]; intros n acc Hsz Hpos.
  - exfalso. destruct n; [lia|]. destruct p; cbn in Hsz; lia.
  - rewrite dec_pos_fuel_S. destruct (N.ltb_spec n 10) as [Hlt|Hge].
    + exists (digit_cp n), acc. split; [reflexivity|]. unfold digit_cp. lia.
    + pose proof (size_nat_div10 n Hge) as Hd.
      assert (Hq : 0 < n / 10) by (apply N.div_str_pos; lia).
      apply IH; [lia|exact Hq].
Qed.

Lemma dec_canonical n : canonical_digits (dec n) = true.
Proof.
  destruct (dec_spec n) as (Hne & Hdig & _).
  destruct (N.eq_dec n 0) as [->|Hn]; [reflexivity|].
  destruct (dec_pos_fuel_head (N.size_nat n) n [] (le_n _) ltac:(lia)) as (d & r & Heq & Hd).
  unfold dec in Hdig |- *. rewrite Heq in Hdig |- *. unfold canonical_digits. destruct r as [|e r']; [exact Hdig|].
  rewrite Hdig. destruct (N.eqb_spec d 48); [congruence|reflexivity].
Qed.

Lemma dec_digits n : forall c, In c (dec n) -> is_ascii_digit c = true.
Proof. destruct (dec_spec n) as (_ & Hdig & _). rewrite forallb_forall in Hdig. exact Hdig. Qed.

(* ---- lines ---- *)
Lemma split_nl_nonempty : forall t cur, split_nl t cur <> [].
Proof.
  induction t as [|c t IH]; intros cur; cbn [split_nl]; [discriminate|].
  destruct (c =? 10); [discriminate|apply IH].
Qed.

Lemma removelast_cons {A} (x : A) l : l <> [] -> removelast (x :: l) = x :: removelast l.
Proof. destruct l; [congruence|reflexivity]. Qed.
Lemma last_cons {A} (x : A) l d : l <> [] -> last (x :: l) d = last l d.
Proof. destruct l; [congruence|reflexivity]. Qed.

Lemma split_nl_app : forall a b cur,
  split_nl (a ++ b) cur = (removelast (split_nl a cur) ++ split_nl b (rev (last (split_nl a cur) [])))%list.
Proof.
  induction a as [|c a IH]; intros b cur; cbn [app split_nl].
  - cbn [removelast last app]. rewrite rev_involutive. reflexivity.
  - destruct (c =? 10).
    + rewrite removelast_cons by apply split_nl_nonempty. rewrite last_cons by apply split_nl_nonempty.
      cbn [app]. f_equal. apply IH.
    + apply IH.
Qed.

Definition no_nl (t : text) : bool := forallb (fun c => negb (c =? 10)) t.

Lemma split_nl_line : forall l r cur, no_nl l = true -> split_nl (l ++ 10 :: r) cur = (rev cur ++ l)%list :: split_nl r [].
Proof.
  induction l as [|c l IH]; intros r cur H; cbn [app split_nl].
  - rewrite app_nil_r. reflexivity.
  - cbn [no_nl forallb] in H. apply andb_true_iff in H. destruct H as [Hc Hl]. destruct (c =? 10); [discriminate|].
    rewrite IH by exact Hl. cbn [rev]. rewrite <- app_assoc. reflexivity.
Qed.

(* ---- trimming a text that neither begins nor ends with white space ---- *)
Lemma drop_sp_head c t : is_sp c = false -> drop_sp (c :: t) = c :: t.
Proof. intros H. cbn [drop_sp]. rewrite H. reflexivity. Qed.

Lemma trim_sp_id c mid d : is_sp c = false -> is_sp d = false -> trim_sp (c :: mid ++ [d]) = (c :: mid ++ [d])%list.
Proof.
  intros Hc Hd. unfold trim_sp. rewrite (drop_sp_head c _ Hc).
  change (c :: mid ++ [d])%list with ((c :: mid) ++ [d])%list. rewrite rev_app_distr. cbn [rev app].
  rewrite (drop_sp_head d _ Hd). change (d :: rev mid ++ [c])%list with ([d] ++ rev (c :: mid))%list.
  rewrite rev_app_distr, rev_involutive. reflexivity.
Qed.

Lemma digit_not_sp c : is_ascii_digit c = true -> is_sp c = false.
Proof.
  unfold is_ascii_digit, is_sp. intros H. apply andb_true_iff in H. destruct H as [H1 H2].
  apply N.leb_le in H1. apply N.leb_le in H2.
  destruct (N.eqb_spec c 32); [lia|]. destruct (N.eqb_spec c 9); [lia|]. destruct (N.eqb_spec c 13); [lia|]. reflexivity.
Qed.

Lemma digit_not_nl c : is_ascii_digit c = true -> negb (c =? 10) = true.
Proof.
  unfold is_ascii_digit. intros H. apply andb_true_iff in H. destruct H as [H1 _]. apply N.leb_le in H1.
  destruct (N.eqb_spec c 10); [lia|reflexivity].
Qed.

(* a non-empty text as first ++ middle ++ last, or a single character *)
Lemma first_last (t : text) : t <> [] -> (exists c, t = [c]) \/ exists c mid d, t = (c :: mid ++ [d])%list.
Proof.
  destruct t as [|c t]; [congruence|]. intros _. destruct t as [|e t']; [left; eexists; reflexivity|].
  right. destruct (exists_last (l := e :: t') ltac:(discriminate)) as (mid & d & Heq). exists c, mid, d. rewrite Heq. reflexivity.
Qed.

Lemma strip_prefix_same p r : strip_prefix p (p ++ r)%list = Some r.
Proof. induction p as [|c p IH]; cbn [strip_prefix app]; [reflexivity|]. rewrite N.eqb_refl. exact IH. Qed.

Lemma trim_sp_single c : is_sp c = false -> trim_sp [c] = [c].
Proof. intros H. unfold trim_sp. cbn [drop_sp rev app]. rewrite H. cbn [rev app drop_sp]. rewrite H. reflexivity. Qed.

Lemma trim_sp_nonsp t :
  t <> [] -> (forall c, hd_error t = Some c -> is_sp c = false) -> (forall d, hd_error (rev t) = Some d -> is_sp d = false) ->
  trim_sp t = t.
Proof.
  intros Hne Hh Hl. destruct (first_last t Hne) as [(c & ->)|(c & mid & d & ->)].
  - apply trim_sp_single. apply Hh. reflexivity.
  - apply trim_sp_id; [apply Hh; reflexivity|]. apply Hl.
    change (c :: mid ++ [d])%list with ((c :: mid) ++ [d])%list. rewrite rev_app_distr. reflexivity.
Qed.

Lemma sig_head c t : is_sp c = false -> c <> 35 -> significant (c :: t) = true.
Proof.
  intros Hs H35. unfold significant. rewrite (drop_sp_head c t Hs).
  destruct c as [|p]; [reflexivity|]. destruct (N.eq_dec (N.pos p) 35) as [E|E]; [congruence|].
  clear Hs H35. do 6 (destruct p as [p|p|]; try reflexivity). congruence.
Qed.

(* the key, as translated from struct Cache on this run: an identifier *)
Lemma lock_field_shape :
  exists k0 krest, c_lock_field = k0 :: krest /\ is_sp k0 = false /\ k0 <> 35 /\ (k0 =? 45) = false /\
                   no_nl c_lock_field = true.
Proof. unfold c_lock_field. eexists. eexists. split; [reflexivity|]. repeat split; try discriminate; vm_compute; reflexivity. Qed.

Lemma dec_last_digit n : forall d, hd_error (rev (dec n)) = Some d -> is_ascii_digit d = true.
Proof.
  intros d H. apply dec_digits with (n := n). apply in_rev.
  destruct (rev (dec n)) as [|x r]; [discriminate|]. inversion H; subst. left. reflexivity.
Qed.
Lemma dec_first_digit n : forall c, hd_error (dec n) = Some c -> is_ascii_digit c = true.
Proof.
  intros c H. apply dec_digits with (n := n). destruct (dec n) as [|x r]; [discriminate|]. inversion H; subst. left. reflexivity.
Qed.

(* WHAT THE TOOL WRITES IS READ BACK: for every ID a lock can record *)
Theorem lock_roundtrip n : n <= u32_max -> lock_read (lock_text n) = RValid n.
Proof.
  intros Hn. destruct (dec_spec n) as (Hdne & Hdig & Hval).
  destruct lock_field_shape as (k0 & krest & Hkey & Hk0 & Hk35 & Hk45 & Hknl).
  set (K := (c_lock_field ++ [58; 32] ++ dec n)%list).
  assert (HKnl : no_nl K = true).
  { unfold K, no_nl. rewrite !forallb_app. fold (no_nl c_lock_field). rewrite Hknl. cbn [forallb andb].
    apply forallb_forall. intros c Hc. apply digit_not_nl. apply (dec_digits n c Hc). }
  assert (HKhead : K = k0 :: (krest ++ [58; 32] ++ dec n)%list) by (unfold K; rewrite Hkey; reflexivity).
  assert (Htrim : trim_sp K = K).
  { apply trim_sp_nonsp.
    - rewrite HKhead. discriminate.
    - intros c Hc. rewrite HKhead in Hc. inversion Hc; subst. exact Hk0.
    - intros d Hd. unfold K in Hd. rewrite !rev_app_distr in Hd.
      destruct (rev (dec n)) as [|x r] eqn:Er; [exfalso; apply Hdne; rewrite <- (rev_involutive (dec n)), Er; reflexivity|].
      cbn [app hd_error] in Hd. inversion Hd; subst. apply digit_not_sp. apply (dec_last_digit n). rewrite Er. reflexivity. }
  assert (Htrimv : trim_sp (32 :: dec n) = dec n).
  { unfold trim_sp. cbn [drop_sp is_sp N.eqb Pos.eqb orb].
    change (rev (drop_sp (rev (drop_sp (dec n))))) with (trim_sp (dec n)).
    apply trim_sp_nonsp; [exact Hdne| |].
    - intros c Hc. apply digit_not_sp. apply (dec_first_digit n c Hc).
    - intros d Hd. apply digit_not_sp. apply (dec_last_digit n d Hd). }
  unfold lock_read, lock_text.
  replace (c_CACHE_EDIT_WARNING ++ c_lock_field ++ [58; 32] ++ dec n ++ [10])%list
    with (c_CACHE_EDIT_WARNING ++ (K ++ 10 :: []))%list by (unfold K; rewrite <- !app_assoc; reflexivity).
  rewrite split_nl_app.
  assert (HW1 : filter significant (removelast (split_nl c_CACHE_EDIT_WARNING [])) = []) by (vm_compute; reflexivity).
  assert (HW2 : last (split_nl c_CACHE_EDIT_WARNING []) [] = []) by (vm_compute; reflexivity).
  rewrite HW2. cbn [rev]. rewrite (split_nl_line K [] [] HKnl). cbn [rev app split_nl].
  rewrite filter_app, HW1. cbn [app filter].
  assert (HsigK : significant K = true) by (rewrite HKhead; apply (sig_head k0 _ Hk0 Hk35)).
  rewrite HsigK. replace (significant []) with false by reflexivity. cbn iota.
  rewrite Htrim.
  assert (Hnot_doc : text_eqb K [45; 45; 45] = false).
  { rewrite HKhead. cbn [text_eqb]. rewrite Hk45. reflexivity. }
  rewrite Hnot_doc.
  unfold read_key_line. rewrite Htrim. unfold K at 1. rewrite strip_prefix_same.
  cbn [app drop_sp]. change (is_sp 58) with false. cbn iota. change (is_sp 32) with true. cbn iota. rewrite Htrimv.
  rewrite dec_canonical, Hval. destruct (N.leb_spec n u32_max); [reflexivity|lia].
Qed.

(* the other shapes of a lock that still holds the number: explicit document start (older versions),
   CRLF line ends, comment lines after the entry, indentation, blanks before the colon *)
Example lock_variants_read :
  let key := c_lock_field in
  lock_read (c_CACHE_EDIT_WARNING ++ [45; 45; 45; 10] ++ key ++ [58; 32; 49; 48; 48; 10]) = RValid 100 /\
  lock_read (flat_map (fun c => if c =? 10 then [13; 10] else [c]) (lock_text 100)) = RValid 100 /\
  lock_read (lock_text 100 ++ [35; 32; 109; 101; 114; 103; 101; 100; 10]) = RValid 100 /\
  lock_read ([32; 32] ++ key ++ [32; 58; 9; 55; 32; 32; 10]) = RValid 7 /\
  lock_read [] = RCorrupt /\ lock_read c_CACHE_EDIT_WARNING = RCorrupt /\
  lock_read (key ++ [58; 32; 53; 48; 48; 48; 48; 48; 48; 48; 48; 48; 10]) = RCorrupt /\
  lock_read (key ++ [58; 32; 48; 48; 55; 10]) = RUnknown.
Proof. vm_compute. repeat split; reflexivity. Qed.
