(* Utf8Facts.v -- a byte string that decodes to a text has as many bytes as the text's UTF-8
   length (so byte offsets computed on the text are offsets into the file). *)
From Coq Require Import List NArith Bool Lia.
From Breadlog Require Import Model.Peg Model.Utf8.
From Breadlog Require Import Proofs.PegFacts.
Import ListNotations.
Open Scope N_scope.

Lemma in_rng_spec lo hi b : in_rng lo hi b = true -> lo <= b /\ b <= hi.
Proof. unfold in_rng. intros H. apply andb_true_iff in H. destruct H as [H1 H2]. apply N.leb_le in H1, H2. lia. Qed.

Lemma is_cont_spec b : is_cont b = true -> 128 <= b /\ b <= 191.
Proof. unfold is_cont. intros H. apply andb_true_iff in H. destruct H as [H1 H2]. apply N.leb_le in H1, H2. lia. Qed.

Lemma cplen_1 c : c < 128 -> cplen c = 1.
Proof. intros H. unfold cplen. destruct (N.ltb_spec c 128); [reflexivity|lia]. Qed.
Lemma cplen_2 c : 128 <= c -> c < 2048 -> cplen c = 2.
Proof. intros H1 H2. unfold cplen. destruct (N.ltb_spec c 128); [lia|]. destruct (N.ltb_spec c 2048); [reflexivity|lia]. Qed.
Lemma cplen_3 c : 2048 <= c -> c < 65536 -> cplen c = 3.
Proof.
  intros H1 H2. unfold cplen. destruct (N.ltb_spec c 128); [lia|]. destruct (N.ltb_spec c 2048); [lia|].
  destruct (N.ltb_spec c 65536); [reflexivity|lia].
Qed.
Lemma cplen_4 c : 65536 <= c -> cplen c = 4.
Proof.
  intros H1. unfold cplen. destruct (N.ltb_spec c 128); [lia|]. destruct (N.ltb_spec c 2048); [lia|].
  destruct (N.ltb_spec c 65536); [lia|reflexivity].
Qed.

Lemma blen_rev_cons c acc : blen (rev (c :: acc)) = blen (rev acc) + cplen c.
Proof. cbn [rev]. rewrite blen_app. cbn [blen]. lia. Qed.

Lemma decode_go_length : forall fuel b acc t,
  utf8_decode_go fuel b acc = Some t -> blen t = blen (rev acc) + blength b.
Proof.
  induction fuel as [|x fuel IH]; intros b acc t H.
  - destruct b as [|b0 r0]; cbn in H; [|discriminate]. inversion H; subst. cbn. lia.
  - destruct b as [|b0 r0]; [cbn in H; inversion H; subst; cbn; lia|].
    cbn [utf8_decode_go] in H.
    destruct (N.ltb_spec b0 128) as [Hlt|Hge].
    { apply IH in H. rewrite blen_rev_cons, cplen_1 in H by exact Hlt. cbn [blength]. lia. }
    destruct (in_rng 194 223 b0) eqn:E2.
    { apply in_rng_spec in E2. destruct r0 as [|b1 r1]; [discriminate|].
      destruct (is_cont b1) eqn:Ec; [|discriminate]. apply is_cont_spec in Ec.
      apply IH in H. rewrite blen_rev_cons, cplen_2 in H by lia. cbn [blength]. lia. }
    destruct (in_rng 224 239 b0) eqn:E3.
    { apply in_rng_spec in E3. destruct r0 as [|b1 [|b2 r2]]; try discriminate.
      destruct ((if b0 =? 224 then in_rng 160 191 b1 else if b0 =? 237 then in_rng 128 159 b1 else is_cont b1)
                && is_cont b2) eqn:Ec; [|discriminate].
      apply andb_true_iff in Ec. destruct Ec as [E1 Ec2]. apply is_cont_spec in Ec2.
      assert (Hb1 : 128 <= b1 /\ b1 <= 191 /\ (b0 = 224 -> 160 <= b1)).
      { destruct (N.eqb_spec b0 224).
        - apply in_rng_spec in E1. lia.
        - destruct (N.eqb_spec b0 237); [apply in_rng_spec in E1|apply is_cont_spec in E1]; lia. }
      apply IH in H. rewrite blen_rev_cons, cplen_3 in H; cbn [blength]; lia. }
    destruct (in_rng 240 244 b0) eqn:E4; [|discriminate].
    apply in_rng_spec in E4. destruct r0 as [|b1 [|b2 [|b3 r3]]]; try discriminate.
    destruct ((if b0 =? 240 then in_rng 144 191 b1 else if b0 =? 244 then in_rng 128 143 b1 else is_cont b1)
              && is_cont b2 && is_cont b3) eqn:Ec; [|discriminate].
    apply andb_true_iff in Ec. destruct Ec as [Ec Ec3]. apply andb_true_iff in Ec. destruct Ec as [E1 Ec2].
    apply is_cont_spec in Ec2, Ec3.
    assert (Hb1 : 128 <= b1 /\ b1 <= 191 /\ (b0 = 240 -> 144 <= b1)).
    { destruct (N.eqb_spec b0 240).
      - apply in_rng_spec in E1. lia.
      - destruct (N.eqb_spec b0 244); [apply in_rng_spec in E1|apply is_cont_spec in E1]; lia. }
    apply IH in H. rewrite blen_rev_cons, cplen_4 in H; cbn [blength]; lia.
Qed.

Theorem decode_length b t : utf8_decode b = Some t -> blength b = blen t.
Proof. unfold utf8_decode. intros H. apply decode_go_length in H. cbn in H. lia. Qed.

(* ------------------------------------------------------------------------------------------ *)
(* strict decoding is the inverse of encoding: a byte string that decodes IS the encoding      *)
(* ------------------------------------------------------------------------------------------ *)
Require Import ZArith ZifyN ZifyBool.
Ltac Zify.zify_post_hook ::= Z.div_mod_to_equations.

Lemma utf8_encode_app a b : utf8_encode (a ++ b) = (utf8_encode a ++ utf8_encode b)%list.
Proof. induction a as [|c a IH]; cbn [app utf8_encode]; [reflexivity|]. rewrite IH, app_assoc. reflexivity. Qed.

Lemma enc1 b0 : b0 < 128 -> encode_cp b0 = [b0].
Proof. intros H. unfold encode_cp. destruct (N.ltb_spec b0 128); [reflexivity|lia]. Qed.

Lemma enc2 b0 b1 : 194 <= b0 -> b0 <= 223 -> 128 <= b1 -> b1 <= 191 ->
  encode_cp ((b0 - 192) * 64 + (b1 - 128)) = [b0; b1].
Proof.
  intros. set (c := (b0 - 192) * 64 + (b1 - 128)). unfold encode_cp.
  destruct (N.ltb_spec c 128); [unfold c in *; lia|]. destruct (N.ltb_spec c 2048); [|unfold c in *; lia].
  assert (c / 64 = b0 - 192) by (unfold c; lia). assert (c mod 64 = b1 - 128) by (unfold c; lia).
  f_equal; [lia|]. f_equal. lia.
Qed.

Lemma enc3 b0 b1 b2 : 224 <= b0 -> b0 <= 239 -> 128 <= b1 -> b1 <= 191 -> (b0 = 224 -> 160 <= b1) ->
  128 <= b2 -> b2 <= 191 ->
  encode_cp ((b0 - 224) * 4096 + (b1 - 128) * 64 + (b2 - 128)) = [b0; b1; b2].
Proof.
  intros. set (c := (b0 - 224) * 4096 + (b1 - 128) * 64 + (b2 - 128)). unfold encode_cp.
  destruct (N.ltb_spec c 128); [unfold c in *; lia|]. destruct (N.ltb_spec c 2048); [unfold c in *; lia|].
  destruct (N.ltb_spec c 65536); [|unfold c in *; lia].
  assert (c / 4096 = b0 - 224) by (unfold c; lia).
  assert ((c / 64) mod 64 = b1 - 128) by (unfold c; lia).
  assert (c mod 64 = b2 - 128) by (unfold c; lia).
  f_equal; [lia|]. f_equal; [lia|]. f_equal. lia.
Qed.

Lemma enc4 b0 b1 b2 b3 : 240 <= b0 -> b0 <= 244 -> 128 <= b1 -> b1 <= 191 -> (b0 = 240 -> 144 <= b1) ->
  128 <= b2 -> b2 <= 191 -> 128 <= b3 -> b3 <= 191 ->
  encode_cp ((b0 - 240) * 262144 + (b1 - 128) * 4096 + (b2 - 128) * 64 + (b3 - 128)) = [b0; b1; b2; b3].
Proof.
  intros. set (c := (b0 - 240) * 262144 + (b1 - 128) * 4096 + (b2 - 128) * 64 + (b3 - 128)). unfold encode_cp.
  destruct (N.ltb_spec c 128); [unfold c in *; lia|]. destruct (N.ltb_spec c 2048); [unfold c in *; lia|].
  destruct (N.ltb_spec c 65536); [unfold c in *; lia|].
  assert (c / 262144 = b0 - 240) by (unfold c; lia).
  assert ((c / 4096) mod 64 = b1 - 128) by (unfold c; lia).
  assert ((c / 64) mod 64 = b2 - 128) by (unfold c; lia).
  assert (c mod 64 = b3 - 128) by (unfold c; lia).
  f_equal; [lia|]. f_equal; [lia|]. f_equal; [lia|]. f_equal. lia.
Qed.

Lemma encode_rev_cons c acc : utf8_encode (rev (c :: acc)) = (utf8_encode (rev acc) ++ encode_cp c)%list.
Proof. cbn [rev]. rewrite utf8_encode_app. cbn [utf8_encode]. rewrite app_nil_r. reflexivity. Qed.

Lemma decode_go_encode : forall fuel b acc t,
  utf8_decode_go fuel b acc = Some t -> utf8_encode t = (utf8_encode (rev acc) ++ b)%list.
Proof.
  induction fuel as [|x fuel IH]; intros b acc t H.
  - destruct b as [|b0 r0]; cbn in H; [|discriminate]. inversion H; subst. rewrite app_nil_r. reflexivity.
  - destruct b as [|b0 r0]; [cbn in H; inversion H; subst; rewrite app_nil_r; reflexivity|].
    cbn [utf8_decode_go] in H.
    destruct (N.ltb_spec b0 128) as [Hlt|Hge].
    { apply IH in H. rewrite H, encode_rev_cons, (enc1 b0 Hlt), <- app_assoc. reflexivity. }
    destruct (in_rng 194 223 b0) eqn:E2.
    { apply in_rng_spec in E2. destruct r0 as [|b1 r1]; [discriminate|].
      destruct (is_cont b1) eqn:Ec; [|discriminate]. apply is_cont_spec in Ec.
      apply IH in H. rewrite H, encode_rev_cons, enc2 by lia. rewrite <- app_assoc. reflexivity. }
    destruct (in_rng 224 239 b0) eqn:E3.
    { apply in_rng_spec in E3. destruct r0 as [|b1 [|b2 r2]]; try discriminate.
      destruct ((if b0 =? 224 then in_rng 160 191 b1 else if b0 =? 237 then in_rng 128 159 b1 else is_cont b1)
                && is_cont b2) eqn:Ec; [|discriminate].
      apply andb_true_iff in Ec. destruct Ec as [E1 Ec2]. apply is_cont_spec in Ec2.
      assert (Hb1 : 128 <= b1 /\ b1 <= 191 /\ (b0 = 224 -> 160 <= b1)).
      { destruct (N.eqb_spec b0 224).
        - apply in_rng_spec in E1. lia.
        - destruct (N.eqb_spec b0 237); [apply in_rng_spec in E1|apply is_cont_spec in E1]; lia. }
      apply IH in H. rewrite H, encode_rev_cons, enc3 by lia. rewrite <- app_assoc. reflexivity. }
    destruct (in_rng 240 244 b0) eqn:E4; [|discriminate].
    apply in_rng_spec in E4. destruct r0 as [|b1 [|b2 [|b3 r3]]]; try discriminate.
    destruct ((if b0 =? 240 then in_rng 144 191 b1 else if b0 =? 244 then in_rng 128 143 b1 else is_cont b1)
              && is_cont b2 && is_cont b3) eqn:Ec; [|discriminate].
    apply andb_true_iff in Ec. destruct Ec as [Ec Ec3]. apply andb_true_iff in Ec. destruct Ec as [E1 Ec2].
    apply is_cont_spec in Ec2, Ec3.
    assert (Hb1 : 128 <= b1 /\ b1 <= 191 /\ (b0 = 240 -> 144 <= b1)).
    { destruct (N.eqb_spec b0 240).
      - apply in_rng_spec in E1. lia.
      - destruct (N.eqb_spec b0 244); [apply in_rng_spec in E1|apply is_cont_spec in E1]; lia. }
    apply IH in H. rewrite H, encode_rev_cons, enc4 by lia. rewrite <- app_assoc. reflexivity.
Qed.

Theorem decode_is_encode b t : utf8_decode b = Some t -> b = utf8_encode t.
Proof. unfold utf8_decode. intros H. apply decode_go_encode in H. cbn in H. symmetry. exact H. Qed.

Lemma blength_app a b : blength (a ++ b) = blength a + blength b.
Proof. induction a as [|x a IH]; cbn [app blength]; [lia|]. rewrite IH. lia. Qed.

Lemma blength_encode_cp c : blength (encode_cp c) = cplen c.
Proof.
  unfold encode_cp, cplen. destruct (c <? 128); [reflexivity|]. destruct (c <? 2048); [reflexivity|].
  destruct (c <? 65536); reflexivity.
Qed.

Lemma blength_encode t : blength (utf8_encode t) = blen t.
Proof. induction t as [|c t IH]; cbn [utf8_encode blength blen]; [reflexivity|]. rewrite blength_app, blength_encode_cp, IH. reflexivity. Qed.

(* ---- the other direction: the encoding of a text of scalar values decodes to it ---- *)
Definition scalar (c : N) : bool := (c <? 55296) || ((57344 <=? c) && (c <=? 1114111)).

Lemma decode_step c x fuel r acc :
  scalar c = true ->
  utf8_decode_go (x :: fuel) (encode_cp c ++ r) acc = utf8_decode_go fuel r (c :: acc).
Proof.
  intros Hs. unfold scalar in Hs. unfold encode_cp.
  destruct (N.ltb_spec c 128) as [H1|H1].
  { cbn [app utf8_decode_go]. destruct (N.ltb_spec c 128); [reflexivity|lia]. }
  destruct (N.ltb_spec c 2048) as [H2|H2].
  { cbn [app utf8_decode_go]. set (b0 := 192 + c / 64). set (b1 := 128 + c mod 64).
    assert (Hb0 : 194 <= b0 /\ b0 <= 223) by (unfold b0; lia).
    assert (Hb1 : 128 <= b1 /\ b1 <= 191) by (unfold b1; lia).
    destruct (N.ltb_spec b0 128); [lia|].
    unfold in_rng, is_cont.
    replace (194 <=? b0) with true by (symmetry; apply N.leb_le; lia).
    replace (b0 <=? 223) with true by (symmetry; apply N.leb_le; lia).
    replace (128 <=? b1) with true by (symmetry; apply N.leb_le; lia).
    replace (b1 <=? 191) with true by (symmetry; apply N.leb_le; lia).
    cbn [andb]. f_equal. f_equal. unfold b0, b1. lia. }
  destruct (N.ltb_spec c 65536) as [H3|H3].
  { cbn [app utf8_decode_go]. set (b0 := 224 + c / 4096). set (b1 := 128 + (c / 64) mod 64). set (b2 := 128 + c mod 64).
    assert (Hs' : c < 55296 \/ 57344 <= c).
    { destruct (N.ltb_spec c 55296); [left; assumption|]. cbn [orb] in Hs. apply andb_true_iff in Hs.
      right. apply N.leb_le. tauto. }
    assert (Hb0 : 224 <= b0 /\ b0 <= 239) by (unfold b0; lia).
    assert (Hb1 : 128 <= b1 /\ b1 <= 191) by (unfold b1; lia).
    assert (Hb2 : 128 <= b2 /\ b2 <= 191) by (unfold b2; lia).
    destruct (N.ltb_spec b0 128); [lia|].
    unfold in_rng, is_cont.
    replace (194 <=? b0) with true by (symmetry; apply N.leb_le; lia).
    replace (b0 <=? 223) with false by (symmetry; apply N.leb_gt; lia).
    replace (224 <=? b0) with true by (symmetry; apply N.leb_le; lia).
    replace (b0 <=? 239) with true by (symmetry; apply N.leb_le; lia).
    cbn [andb].
    replace (128 <=? b2) with true by (symmetry; apply N.leb_le; lia).
    replace (b2 <=? 191) with true by (symmetry; apply N.leb_le; lia).
    assert (Hok : (if b0 =? 224 then (160 <=? b1) && (b1 <=? 191)
                   else if b0 =? 237 then (128 <=? b1) && (b1 <=? 159) else (128 <=? b1) && (b1 <=? 191)) = true).
    { destruct (N.eqb_spec b0 224) as [E|E].
      - apply andb_true_iff. split; apply N.leb_le; unfold b0, b1 in *; lia.
      - destruct (N.eqb_spec b0 237) as [E'|E'].
        + apply andb_true_iff. split; apply N.leb_le; unfold b0, b1 in *; lia.
        + apply andb_true_iff. split; apply N.leb_le; lia. }
    rewrite Hok. cbn [andb]. f_equal. f_equal. unfold b0, b1, b2. lia. }
  cbn [app utf8_decode_go].
  set (b0 := 240 + c / 262144). set (b1 := 128 + (c / 4096) mod 64). set (b2 := 128 + (c / 64) mod 64). set (b3 := 128 + c mod 64).
  assert (Hc : c <= 1114111).
  { destruct (N.ltb_spec c 55296); [lia|]. cbn [orb] in Hs. apply andb_true_iff in Hs. apply N.leb_le. tauto. }
  assert (Hb0 : 240 <= b0 /\ b0 <= 244) by (unfold b0; lia).
  assert (Hb1 : 128 <= b1 /\ b1 <= 191) by (unfold b1; lia).
  assert (Hb2 : 128 <= b2 /\ b2 <= 191) by (unfold b2; lia).
  assert (Hb3 : 128 <= b3 /\ b3 <= 191) by (unfold b3; lia).
  destruct (N.ltb_spec b0 128); [lia|].
  unfold in_rng, is_cont.
  replace (194 <=? b0) with true by (symmetry; apply N.leb_le; lia).
  replace (b0 <=? 223) with false by (symmetry; apply N.leb_gt; lia).
  replace (224 <=? b0) with true by (symmetry; apply N.leb_le; lia).
  replace (b0 <=? 239) with false by (symmetry; apply N.leb_gt; lia).
  replace (240 <=? b0) with true by (symmetry; apply N.leb_le; lia).
  replace (b0 <=? 244) with true by (symmetry; apply N.leb_le; lia).
  cbn [andb].
  replace (128 <=? b2) with true by (symmetry; apply N.leb_le; lia).
  replace (b2 <=? 191) with true by (symmetry; apply N.leb_le; lia).
  replace (128 <=? b3) with true by (symmetry; apply N.leb_le; lia).
  replace (b3 <=? 191) with true by (symmetry; apply N.leb_le; lia).
  assert (Hok : (if b0 =? 240 then (144 <=? b1) && (b1 <=? 191)
                 else if b0 =? 244 then (128 <=? b1) && (b1 <=? 143) else (128 <=? b1) && (b1 <=? 191)) = true).
  { destruct (N.eqb_spec b0 240) as [E|E].
    - apply andb_true_iff. split; apply N.leb_le; unfold b0, b1 in *; lia.
    - destruct (N.eqb_spec b0 244) as [E'|E'].
      + apply andb_true_iff. split; apply N.leb_le; unfold b0, b1 in *; lia.
      + apply andb_true_iff. split; apply N.leb_le; lia. }
  rewrite Hok. cbn [andb]. f_equal. f_equal. unfold b0, b1, b2, b3. lia.
Qed.

Lemma encode_cp_nonempty c : encode_cp c <> [].
Proof. unfold encode_cp. destruct (c <? 128); [discriminate|]. destruct (c <? 2048); [discriminate|]. destruct (c <? 65536); discriminate. Qed.

Lemma decode_go_encoded : forall t fuel acc,
  forallb scalar t = true -> (length t <= length fuel)%nat ->
  utf8_decode_go fuel (utf8_encode t) acc = Some (rev acc ++ t)%list.
Proof.
  induction t as [|c t IH]; intros fuel acc Hs Hl.
  - cbn [utf8_encode]. destruct fuel; cbn [utf8_decode_go]; rewrite app_nil_r; reflexivity.
  - cbn [forallb] in Hs. apply andb_true_iff in Hs. destruct Hs as [Hc Hs].
    destruct fuel as [|x fuel]; [cbn [length] in Hl; lia|].
    cbn [utf8_encode]. rewrite (decode_step c x fuel _ acc Hc).
    rewrite IH; [|exact Hs|cbn [length] in Hl; lia]. cbn [rev]. rewrite <- app_assoc. reflexivity.
Qed.

Lemma encode_length_ge t : (length t <= length (utf8_encode t))%nat.
Proof.
  induction t as [|c t IH]; cbn [utf8_encode length]; [lia|]. rewrite app_length.
  pose proof (encode_cp_nonempty c). destruct (encode_cp c); [congruence|]. cbn [length]. lia.
Qed.

Theorem encode_decode t : forallb scalar t = true -> utf8_decode (utf8_encode t) = Some t.
Proof. intros H. unfold utf8_decode. rewrite decode_go_encoded; [reflexivity|exact H|apply encode_length_ge]. Qed.

(* ... and what the strict decoder yields are scalar values *)
Lemma forallb_rev_scalar acc : forallb scalar (rev acc) = forallb scalar acc.
Proof.
  induction acc as [|c acc IH]; [reflexivity|]. cbn [rev forallb]. rewrite forallb_app, IH. cbn [forallb].
  rewrite andb_true_r. apply andb_comm.
Qed.

Lemma decode_go_scalars : forall fuel b acc t,
  forallb scalar acc = true -> utf8_decode_go fuel b acc = Some t -> forallb scalar t = true.
Proof.
  induction fuel as [|x fuel IH]; intros b acc t Ha H.
  - destruct b as [|b0 r0]; cbn in H; [|discriminate]. inversion H; subst. rewrite forallb_rev_scalar. exact Ha.
  - destruct b as [|b0 r0]; [cbn in H; inversion H; subst; rewrite forallb_rev_scalar; exact Ha|].
    cbn [utf8_decode_go] in H.
    destruct (N.ltb_spec b0 128) as [Hlt|Hge].
    { apply IH in H; [exact H|]. cbn [forallb]. rewrite Ha, andb_true_r. unfold scalar.
      destruct (N.ltb_spec b0 55296); [reflexivity|lia]. }
    destruct (in_rng 194 223 b0) eqn:E2.
    { apply in_rng_spec in E2. destruct r0 as [|b1 r1]; [discriminate|].
      destruct (is_cont b1) eqn:Ec; [|discriminate]. apply is_cont_spec in Ec.
      apply IH in H; [exact H|]. cbn [forallb]. rewrite Ha, andb_true_r. unfold scalar.
      destruct (N.ltb_spec ((b0 - 192) * 64 + (b1 - 128)) 55296); [reflexivity|lia]. }
    destruct (in_rng 224 239 b0) eqn:E3.
    { apply in_rng_spec in E3. destruct r0 as [|b1 [|b2 r2]]; try discriminate.
      destruct ((if b0 =? 224 then in_rng 160 191 b1 else if b0 =? 237 then in_rng 128 159 b1 else is_cont b1)
                && is_cont b2) eqn:Ec; [|discriminate].
      apply andb_true_iff in Ec. destruct Ec as [E1 Ec2]. apply is_cont_spec in Ec2.
      assert (Hb1 : 128 <= b1 /\ b1 <= 191 /\ (b0 = 237 -> b1 <= 159)).
      { destruct (N.eqb_spec b0 224).
        - apply in_rng_spec in E1. lia.
        - destruct (N.eqb_spec b0 237); [apply in_rng_spec in E1|apply is_cont_spec in E1]; lia. }
      apply IH in H; [exact H|]. cbn [forallb]. rewrite Ha, andb_true_r. unfold scalar.
      set (c := (b0 - 224) * 4096 + (b1 - 128) * 64 + (b2 - 128)).
      destruct (N.ltb_spec c 55296); [reflexivity|]. cbn [orb]. apply andb_true_iff. split; apply N.leb_le; unfold c in *; lia. }
    destruct (in_rng 240 244 b0) eqn:E4; [|discriminate].
    apply in_rng_spec in E4. destruct r0 as [|b1 [|b2 [|b3 r3]]]; try discriminate.
    destruct ((if b0 =? 240 then in_rng 144 191 b1 else if b0 =? 244 then in_rng 128 143 b1 else is_cont b1)
              && is_cont b2 && is_cont b3) eqn:Ec; [|discriminate].
    apply andb_true_iff in Ec. destruct Ec as [Ec Ec3]. apply andb_true_iff in Ec. destruct Ec as [E1 Ec2].
    apply is_cont_spec in Ec2, Ec3.
    assert (Hb1 : 128 <= b1 /\ b1 <= 191 /\ (b0 = 240 -> 144 <= b1) /\ (b0 = 244 -> b1 <= 143)).
    { destruct (N.eqb_spec b0 240).
      - apply in_rng_spec in E1. lia.
      - destruct (N.eqb_spec b0 244); [apply in_rng_spec in E1|apply is_cont_spec in E1]; lia. }
    apply IH in H; [exact H|]. cbn [forallb]. rewrite Ha, andb_true_r. unfold scalar.
    set (c := (b0 - 240) * 262144 + (b1 - 128) * 4096 + (b2 - 128) * 64 + (b3 - 128)).
    destruct (N.ltb_spec c 55296); [reflexivity|]. cbn [orb]. apply andb_true_iff. split; apply N.leb_le; unfold c in *; lia.
Qed.

Theorem decode_scalars b t : utf8_decode b = Some t -> forallb scalar t = true.
Proof. unfold utf8_decode. apply decode_go_scalars. reflexivity. Qed.

(* the two directions together: the strict decoder is the inverse of the encoder on texts of scalar values *)
Theorem decode_iff b t : utf8_decode b = Some t <-> (b = utf8_encode t /\ forallb scalar t = true).
Proof.
  split.
  - intros H. split; [apply decode_is_encode; exact H|apply (decode_scalars b); exact H].
  - intros [-> H]. apply encode_decode. exact H.
Qed.
