(* RunFacts.v -- generate_code / check_references as a whole (Model/Driver.v: run_edit, run_check):
   the shape of a run, and the run-level statements behind the property theorems. *)
From Coq Require Import List Arith NArith Bool Lia Sorted.
From Breadlog Require Import Model.Peg Model.Text Model.Regex Model.Glue Model.Utf8 Model.Driver.
From Breadlog Require Import Proofs.BytesFacts Proofs.RewriteFacts Proofs.WorldFacts
     Proofs.DriverFacts Proofs.AllocFacts.
Import ListNotations.
Open Scope N_scope.

Section Run.
  Variable P : params.
  Variable finder : config -> text -> outcome (list entry).
  Variable start_id : N.
  Hypothesis start_ge_1 : 1 <= start_id.
  Hypothesis start_le_max : start_id <= u32max.

  (* where the counter of an edit run starts *)
  Inductive start_of (rc : runcfg) (files : list (list N)) (lk : lockst) (o : oracle) : N -> Prop :=
  | so_cached : forall L, cached_id rc lk = Some L -> start_of rc files lk o (N.max L start_id)
  | so_scanned : forall rs s miss,
      cached_id rc lk = None ->
      pass_nextid finder (rc_cfg rc) (o_stop1 o) (o_rfail1 o) files 0 [] = POk rs ->
      nextid_reduce start_id rs = (s, miss) -> miss <> 0 ->
      start_of rc files lk o s.

  Definition st0 (s : N) : istate := mkIst s false 0 [] [].

  (* an edit run either does not reach the insert pass (and then changes nothing), or is the
     insert pass -- described by its events -- followed (unless it panicked) by the lock write *)
  Inductive edit_shape (rc : runcfg) (files : list (list N)) (lk : lockst) (o : oracle)
            (out : run_out) : Prop :=
  | es_none : ro_effs out = [] -> ro_ids out = [] ->
              (ro_exit out = XOk -> ro_total out = None) -> edit_shape rc files lk o out
  | es_pass : forall s evs,
      start_of rc files lk o s ->
      events_ok P finder (rc_cfg rc) (o_rfail2 o) (o_fault o) 0 files s evs ->
      let st' := fold_left ev_apply evs (st0 s) in
      let res := pass_insert P finder (rc_cfg rc) (o_stop2 o) (o_rfail2 o) (o_fault o) files 0 (st0 s) in
      pres_state res = st' ->
      ro_ids out = is_ids st' ->
      (match res with
       | POk _ => ro_effs out = is_effs st' ++ lock_effs rc o (is_ctr st') /\
                  ro_exit out = (if is_failure st' then XErr else XOk) /\
                  ro_total out = Some (is_count st') /\ length evs = length files
       | PStop _ => ro_effs out = is_effs st' ++ lock_effs rc o (is_ctr st') /\ ro_exit out = XErr
       | PPanic _ => ro_effs out = is_effs st' /\ ro_exit out = XPanic
       | PHang _ => ro_effs out = is_effs st' /\ ro_exit out = XHang
       end) ->
      edit_shape rc files lk o out.

  Lemma run_edit_shape rc files lk o :
    files <> [] ->
    edit_shape rc files lk o (run_edit P finder start_id rc (Some files) lk o).
  Proof.
    intros Hne. unfold run_edit. destruct files as [|b0 files0] eqn:Ef; [congruence|].
    rewrite <- Ef. clear Hne.
    assert (Hgo : forall s, start_of rc files lk o s ->
      edit_shape rc files lk o
        match pass_insert P finder (rc_cfg rc) (o_stop2 o) (o_rfail2 o) (o_fault o) files 0 (st0 s) with
        | PPanic st => mkOut XPanic (is_effs st) [] None (is_ids st)
        | PHang st => mkOut XHang (is_effs st) [] None (is_ids st)
        | PStop st => mkOut XErr (is_effs st ++ lock_effs rc o (is_ctr st)) [] None (is_ids st)
        | POk st => mkOut (if is_failure st then XErr else XOk)
                          (is_effs st ++ lock_effs rc o (is_ctr st)) [] (Some (is_count st)) (is_ids st)
        end).
    { intros s Hs.
      destruct (pass_insert_events P finder (rc_cfg rc) (o_stop2 o) (o_rfail2 o) (o_fault o) files 0 (st0 s))
        as (evs & Hok & Hst & Hlen).
      apply (es_pass rc files lk o _ s evs Hs Hok); [exact Hst| |].
      - destruct (pass_insert _ _ _ _ _ _ _ _ _) as [st|st|st|st]; cbn in Hst |- *; rewrite Hst; reflexivity.
      - destruct (pass_insert _ _ _ _ _ _ _ _ _) as [st|st|st|st] eqn:Ep; cbn in Hst |- *;
          rewrite <- Hst; repeat split; try reflexivity.
        destruct (Hlen eq_refl) as [Hl _]. exact Hl. }
    destruct (cached_id rc lk) as [id|] eqn:Ec.
    - apply Hgo. apply so_cached. exact Ec.
    - destruct (pass_nextid finder (rc_cfg rc) (o_stop1 o) (o_rfail1 o) files 0 []) as [a|a|a|rs] eqn:Ep1;
        try (apply es_none; cbn; try reflexivity; discriminate).
      destruct (nextid_reduce start_id rs) as [next miss] eqn:Er.
      destruct (N.eqb_spec miss 0) as [->|Hm].
      + apply es_none; reflexivity.
      + apply Hgo. eapply so_scanned; eauto.
  Qed.

  (* ---------------------------------------------------------------- C04 *)
  Lemma run_check_no_effects rc disc o :
    ro_effs (run_check finder rc disc o) = [].
  Proof.
    unfold run_check. destruct disc as [[|b files]|]; try reflexivity.
    destruct (pass_count _ _ _ _ _ _ _ _) as [[? ?]|[? ?]|[? ?]|[? ?]]; reflexivity.
  Qed.

  (* ---------------------------------------------------------------- C01 *)
  (* every reference of every statement the first pass could read *)
  Definition existing_ref (rc : runcfg) (files : list (list N)) (o : oracle) (id : N) : Prop :=
    exists k b es e, nth_error files k = Some b /\
      file_entries finder (rc_cfg rc) (o_rfail1 o k) b = FEntries es /\ In e es /\ e_ref e = Some id.

  Lemma start_above_existing rc files lk o s :
    start_of rc files lk o s ->
    cached_id rc lk = None ->
    1 <= s /\ forall id, existing_ref rc files o id -> id < s \/ s = u32max.
  Proof.
    intros Hs Hc. destruct Hs as [s Hc'|rs s miss _ Hp Hr Hm]; [congruence|].
    destruct (nextid_reduce_above start_id rs s miss start_ge_1 Hr) as [H1 H2].
    split; [exact H1|]. intros id (k & b & es & e & Hn & Hfe & Hin & Href).
    destruct (pass_nextid_ok finder (rc_cfg rc) (o_stop1 o) (o_rfail1 o) files 0 [] rs Hp)
      as (news & -> & Hall & _). cbn [rev app] in *.
    specialize (Hall k b es Hn Hfe).
    destruct (nextid_map_spec es 0 0) as (_ & Hmax & _).
    specialize (Hmax e id Hin Href).
    destruct (nextid_map es 0 0) as [m kk] eqn:Em. cbn [fst] in Hmax.
    destruct (H2 m kk Hall) as [Hlt|Heq]; [left; lia|right; exact Heq].
  Qed.

  Lemma start_bounds rc files lk o s :
    start_of rc files lk o s ->
    (forall L, cached_id rc lk = Some L -> L <= u32max) ->
    1 <= s <= u32max.
  Proof.
    intros Hs Hlock. destruct Hs as [L Hc|rs s miss Hc Hp Hr Hm]; [specialize (Hlock L Hc); lia|].
    split; [eapply nextid_reduce_above; eauto|].
    unfold nextid_reduce in Hr. destruct (nextid_reduce_go rs 0 0) as [mx ms].
    destruct (mx =? 0); inversion Hr; subst; [exact start_le_max|].
    unfold sat_succ. destruct (N.ltb_spec mx u32max); lia.
  Qed.

  Theorem edit_ids_unique_in_range rc files lk o :
    files <> [] ->
    (forall L, cached_id rc lk = Some L -> L <= u32max) ->
    let out := run_edit P finder start_id rc (Some files) lk o in
    NoDup (map id3 (ro_ids out)) /\
    (forall x, In x (ro_ids out) -> 1 <= id3 x /\ id3 x < u32max) /\
    (cached_id rc lk = None ->
       forall x id, In x (ro_ids out) -> existing_ref rc files o id -> id < id3 x) /\
    (forall L, cached_id rc lk = Some L ->
       (forall id, existing_ref rc files o id -> id < L) ->
       forall x id, In x (ro_ids out) -> existing_ref rc files o id -> id < id3 x).
  Proof.
    intros Hne Hlock out. pose proof (run_edit_shape rc files lk o Hne) as Hsh. fold out in Hsh.
    destruct Hsh as [He Hi _|s evs Hs Hok st' res Hst Hids Hres].
    { rewrite Hi. cbn. repeat split; try constructor; intros; contradiction. }
    destruct (events_ids P finder (rc_cfg rc) (o_rfail2 o) (o_fault o) evs 0 files s (st0 s) Hok eq_refl)
      as (Hle & Hmax & news & Hnews & Hb & Hsorted).
    fold st' in Hle, Hmax, Hnews, Hb. cbn [st0 is_ids app] in Hnews. rewrite Hids, Hnews.
    destruct (start_bounds rc files lk o s Hs Hlock) as [Hs1 Hs2].
    specialize (Hmax Hs2).
    assert (Hlt : forall x, In x news -> s <= id3 x /\ id3 x < is_ctr st').
    { rewrite Forall_forall in Hb. exact Hb. }
    split.
    { (* strictly increasing ids are pairwise different *)
      clear - Hsorted. induction Hsorted as [|x l Hl IH Hx]; cbn; constructor; [|exact IH].
      intros Hin. apply in_map_iff in Hin. destruct Hin as (y & Hy & Hin).
      rewrite Forall_forall in Hx. specialize (Hx y Hin). lia. }
    split.
    { intros x Hx. destruct (Hlt x Hx). lia. }
    split.
    - intros Hc x id Hx Hex. destruct (Hlt x Hx) as [H1 H2].
      destruct (start_above_existing rc files lk o s Hs Hc) as [_ Habove].
      destruct (Habove id Hex) as [H|H]; lia.
    - intros L Hc Hahead x id Hx Hex. destruct (Hlt x Hx) as [H1 H2].
      destruct Hs as [L' Hc'|rs s miss Hc' _ _ _]; [|congruence].
      rewrite Hc in Hc'. inversion Hc'; subst. specialize (Hahead id Hex). lia.
  Qed.

  (* ---------------------------------------------------------------- C03 / C07 / C08 *)
  Lemma lock_effs_are_lock rc o id : Forall is_lock_eff (lock_effs rc o id).
  Proof.
    unfold lock_effs. destruct (rc_use_cache rc); [|constructor].
    destruct (o_lock_fault o).
    - constructor; [left; reflexivity|]. constructor; [right; eexists; reflexivity|constructor].
    - constructor.
    - constructor; [left; reflexivity|constructor].
  Qed.

  Lemma edit_effs_decomp rc files lk o :
    files <> [] ->
    let out := run_edit P finder start_id rc (Some files) lk o in
    exists gs tail,
      ro_effs out = flat_map gs_effs gs ++ tail /\ Forall is_lock_eff tail /\ gs_sorted 0 gs /\
      (forall k c, gs_new gs k = Some c ->
         new_content_ok P finder (rc_cfg rc) (o_rfail2 o) 0 files k c).
  Proof.
    intros Hne. cbv zeta. pose proof (run_edit_shape rc files lk o Hne) as Hsh.
    set (out := run_edit P finder start_id rc (Some files) lk o) in *. clearbody out.
    destruct Hsh as [He Hi _|s evs Hs Hok st' res Hst Hids Hres].
    { exists [], []. rewrite He. repeat split; try constructor. intros k c H. discriminate. }
    destruct (events_groups P finder (rc_cfg rc) (o_rfail2 o) (o_fault o) evs 0 files s (st0 s) Hok eq_refl)
      as (gs & Heffs & Hsorted & Hcontent & _).
    fold st' in Heffs. cbn [st0 is_effs app] in Heffs.
    destruct res as [a|a|a|a]; cbn in Hres.
    - destruct Hres as [He _]. exists gs, (lock_effs rc o (is_ctr st')). rewrite He, Heffs.
      repeat split; auto. apply lock_effs_are_lock.
    - destruct Hres as [He _]. exists gs, []. rewrite He, Heffs, app_nil_r. repeat split; auto.
    - destruct Hres as [He _]. exists gs, []. rewrite He, Heffs, app_nil_r. repeat split; auto.
    - destruct Hres as [He _]. exists gs, (lock_effs rc o (is_ctr st')). rewrite He, Heffs.
      repeat split; auto. apply lock_effs_are_lock.
  Qed.

  Lemma nth_error_lt {A} (l : list A) j x : nth_error l j = Some x -> (j < length l)%nat.
  Proof. intros H. apply nth_error_Some. congruence. Qed.

  (* the state of the source files after a complete run *)
  Theorem edit_final_content rc files lk o j b :
    files <> [] -> nth_error files j = Some b ->
    let out := run_edit P finder start_id rc (Some files) lk o in
    let wf := apply_effs (mkWorld files [] lk) (ro_effs out) in
    length (w_src wf) = length files /\
    (nth_error (w_src wf) j = Some b \/
     exists c, nth_error (w_src wf) j = Some c /\
               new_content_ok P finder (rc_cfg rc) (o_rfail2 o) 0 files j c).
  Proof.
    intros Hne Hj. cbv zeta.
    destruct (edit_effs_decomp rc files lk o Hne) as (gs & tail & He & Htail & Hs & Hc).
    set (out := run_edit P finder start_id rc (Some files) lk o) in *. clearbody out.
    rewrite He. unfold apply_effs. rewrite fold_left_app.
    fold (apply_effs (mkWorld files [] lk) (flat_map gs_effs gs)).
    set (w1 := apply_effs (mkWorld files [] lk) (flat_map gs_effs gs)).
    fold (apply_effs w1 tail). rewrite (apply_lock_effs_src tail w1 Htail).
    destruct (apply_all_groups gs 0 (mkWorld files [] lk) Hs) as (_ & Hlen & Hn & _).
    fold w1 in Hlen, Hn. cbn [w_src] in Hlen, Hn. split; [exact Hlen|].
    rewrite (Hn j (nth_error_lt _ _ _ Hj)).
    destruct (gs_new gs j) as [c|] eqn:Eg; [right|left; exact Hj].
    exists c. split; [reflexivity|]. apply Hc. exact Eg.
  Qed.

  (* every crash point: each source file is its original or its complete new content *)
  Theorem edit_crash_atomic rc files lk o k partial j b :
    files <> [] -> nth_error files j = Some b ->
    let out := run_edit P finder start_id rc (Some files) lk o in
    let w0 := mkWorld files [] lk in
    let wk := crash_world w0 (ro_effs out) k partial in
    let wf := apply_effs w0 (ro_effs out) in
    length (w_src wk) = length files /\
    (nth_error (w_src wk) j = Some b \/ nth_error (w_src wk) j = nth_error (w_src wf) j).
  Proof.
    intros Hne Hj. cbv zeta.
    destruct (edit_effs_decomp rc files lk o Hne) as (gs & tail & He & Htail & Hs & Hc).
    set (out := run_edit P finder start_id rc (Some files) lk o) in *. clearbody out.
    set (w0 := mkWorld files [] lk).
    set (wk := crash_world w0 (ro_effs out) k partial).
    assert (Hsrc : w_src wk = w_src (apply_effs w0 (firstn k (ro_effs out)))).
    { unfold wk, crash_world. destruct partial as [p|]; [|reflexivity].
      destruct (nth_error (ro_effs out) k) as [[f|f bs|f|f| |n]|]; try reflexivity.
      cbn [apply_eff]. destruct (tmp_get _ f); reflexivity. }
    rewrite Hsrc.
    assert (Hsplit : flat_map gs_effs gs ++ tail = firstn k (ro_effs out) ++ skipn k (ro_effs out)).
    { rewrite firstn_skipn. symmetry. exact He. }
    destruct (prefix_groups gs 0 w0 tail _ _ Hs Htail Hsplit) as [Hlen Hk].
    cbn [w0 w_src] in Hlen, Hk. split; [exact Hlen|].
    destruct (Hk j (nth_error_lt _ _ _ Hj)) as [Hsame|(c & Hg & Hn)].
    - left. rewrite Hsame. exact Hj.
    - right. rewrite Hn. rewrite He. unfold apply_effs. rewrite fold_left_app.
      fold (apply_effs w0 (flat_map gs_effs gs)).
      set (w1 := apply_effs w0 (flat_map gs_effs gs)).
      fold (apply_effs w1 tail). rewrite (apply_lock_effs_src tail w1 Htail).
      destruct (apply_all_groups gs 0 w0 Hs) as (_ & _ & Hn1 & _). fold w1 in Hn1.
      rewrite (Hn1 j (nth_error_lt _ _ _ Hj)), Hg. reflexivity.
  Qed.

  (* no temporary file survives a run that ends by itself *)
  Theorem edit_no_temp_left rc files lk o :
    files <> [] ->
    let out := run_edit P finder start_id rc (Some files) lk o in
    forall h, tmp_get (w_tmp (apply_effs (mkWorld files [] lk) (ro_effs out))) h = None.
  Proof.
    intros Hne. cbv zeta. intros h.
    destruct (edit_effs_decomp rc files lk o Hne) as (gs & tail & He & Htail & Hs & _).
    set (out := run_edit P finder start_id rc (Some files) lk o) in *. clearbody out.
    rewrite He. unfold apply_effs. rewrite fold_left_app.
    fold (apply_effs (mkWorld files [] lk) (flat_map gs_effs gs)).
    set (w1 := apply_effs (mkWorld files [] lk) (flat_map gs_effs gs)).
    fold (apply_effs w1 tail).
    rewrite (apply_lock_effs_tmp tail w1 Htail).
    destruct (apply_all_groups gs 0 (mkWorld files [] lk) Hs) as (_ & _ & _ & Htmp).
    apply Htmp. reflexivity.
  Qed.

  Lemma file_entries_inj rfl b cfg0 es es' :
    file_entries finder cfg0 rfl b = FEntries es -> file_entries finder cfg0 rfl b = FEntries es' -> es = es'.
  Proof. intros H1 H2. rewrite H1 in H2. inversion H2. reflexivity. Qed.

  (* a run that exits 0 either had nothing to insert, or has replaced -- completely -- every
     file it could read that lacked a reference, and reports exactly the ids it wrote *)
  Theorem edit_ok_complete rc files lk o :
    files <> [] ->
    let out := run_edit P finder start_id rc (Some files) lk o in
    let wf := apply_effs (mkWorld files [] lk) (ro_effs out) in
    ro_exit out = XOk ->
    (ro_total out = None /\ ro_effs out = [] /\ ro_ids out = []) \/
    (((forall j, o_fault o j <> FRename) -> ro_total out = Some (lenN (ro_ids out))) /\
     forall j b es, nth_error files j = Some b ->
       file_entries finder (rc_cfg rc) (o_rfail2 o j) b = FEntries es ->
       (filter missing_insert es = [] /\ nth_error (w_src wf) j = Some b) \/
       exists c0 c, weave P b 0 (filter missing_insert es) c0 = Some c /\
         nth_error (w_src wf) j = Some c /\
         (forall pos id, In (pos, id) (ids_of (filter missing_insert es) c0) ->
                         In (j, pos, id) (ro_ids out))).
  Proof.
    intros Hne. cbv zeta. pose proof (run_edit_shape rc files lk o Hne) as Hsh.
    set (out := run_edit P finder start_id rc (Some files) lk o) in *. clearbody out.
    intros Hx.
    destruct Hsh as [He Hi Ht|s evs Hs Hok st' res Hst Hids Hres].
    { left. repeat split; auto. }
    right.
    destruct res as [a|a|a|a]; cbn in Hres;
      try (destruct Hres as [_ Hex]; rewrite Hex in Hx; discriminate).
    destruct Hres as (He & Hex & Htot & Hlen).
    destruct (is_failure st') eqn:Efail; [rewrite Hex in Hx; discriminate|].
    split.
    { intros Hnr. rewrite Htot, Hids. f_equal.
      apply (events_count P finder (rc_cfg rc) (o_rfail2 o) (o_fault o) evs 0 files s (st0 s) Hok eq_refl Hnr).
      reflexivity. }
    destruct (events_groups P finder (rc_cfg rc) (o_rfail2 o) (o_fault o) evs 0 files s (st0 s) Hok eq_refl)
      as (gs & Heffs & Hsorted & Hcontent & Hev).
    fold st' in Heffs. cbn [st0 is_effs app] in Heffs.
    destruct (events_success P finder (rc_cfg rc) (o_rfail2 o) (o_fault o) evs 0 files s (st0 s) Hok eq_refl Efail)
      as [_ Hsucc].
    intros j b es Hj Hfe.
    (* the final world *)
    assert (Hfinal : nth_error (w_src (apply_effs (mkWorld files [] lk) (ro_effs out))) j =
                     match gs_new gs j with Some c => Some c | None => Some b end).
    { rewrite He, Heffs. unfold apply_effs. rewrite fold_left_app.
      fold (apply_effs (mkWorld files [] lk) (flat_map gs_effs gs)).
      set (w1 := apply_effs (mkWorld files [] lk) (flat_map gs_effs gs)).
      fold (apply_effs w1 (lock_effs rc o (is_ctr st'))).
      rewrite (apply_lock_effs_src _ w1 (lock_effs_are_lock rc o _)).
      destruct (apply_all_groups gs 0 (mkWorld files [] lk) Hsorted) as (_ & _ & Hn & _).
      fold w1 in Hn. cbn [w_src] in Hn. rewrite (Hn j (nth_error_lt _ _ _ Hj)).
      destruct (gs_new gs j); [reflexivity|exact Hj]. }
    destruct (filter missing_insert es) as [|e0 t0] eqn:Etodo.
    - left. split; [reflexivity|]. rewrite Hfinal.
      destruct (gs_new gs j) as [c|] eqn:Eg; [|reflexivity].
      destruct (Hcontent j c Eg) as (b' & es' & c0 & _ & Hn' & Hfe' & Hne' & _).
      rewrite Nat.sub_0_r, Hj in Hn'. inversion Hn'; subst b'.
      rewrite (file_entries_inj _ _ _ _ _ Hfe Hfe') in Etodo. congruence.
    - right. rewrite <- Etodo.
      assert (Hjlt : (j < length evs)%nat) by (rewrite Hlen; eapply nth_error_lt; eauto).
      destruct (events_nth P finder (rc_cfg rc) (o_rfail2 o) (o_fault o) evs 0 files s j b Hok Hjlt Hj)
        as [[_ Hun]|(es' & c & r & Hin)]; cbn [Nat.add] in *; [congruence|].
      destruct (events_in P finder (rc_cfg rc) (o_rfail2 o) (o_fault o) _ _ _ _ _ _ _ _ _ Hok Hin)
        as (_ & _ & Hfe' & Him).
      pose proof (file_entries_inj _ _ _ _ _ Hfe Hfe') as <-.
      destruct (Hsucc j b es c r Hin) as [Hren|[Hnil _]]; [|congruence].
      destruct Hren as (Hr & _).
      destruct (Hev j b es c r Hin Hr) as (Hg & Hgn & Hidr).
      destruct (gs_new gs j) as [cnew|] eqn:Eg; [|congruence].
      exists c, cnew. split; [symmetry; exact Hg|]. split; [exact Hfinal|].
      intros pos id Hpi. rewrite Hids. unfold st'.
      eapply events_ids_in; [exact Hin|]. rewrite Hidr. exact Hpi.
  Qed.
  (* ---------------------------------------------------------------- C02 *)
  Lemma sorted_nodup (l : list (nat * N * N)) :
    StronglySorted (fun x y => id3 x < id3 y) l -> NoDup (map id3 l).
  Proof.
    intros Hs. induction Hs as [|x l Hl IH Hx]; cbn; constructor; [|exact IH].
    intros Hin. apply in_map_iff in Hin. destruct Hin as (y & Hy & Hin).
    rewrite Forall_forall in Hx. specialize (Hx y Hin). lia.
  Qed.

  (* how an edit run that ends by itself (no panic) leaves the lock, with the cache in use
     and the lock write succeeding *)
  Theorem edit_final_lock rc files lk o :
    files <> [] -> rc_use_cache rc = true -> o_lock_fault o = LkOk ->
    let out := run_edit P finder start_id rc (Some files) lk o in
    let wf := apply_effs (mkWorld files [] lk) (ro_effs out) in
    ro_exit out <> XPanic -> ro_exit out <> XHang ->
    (ro_ids out = [] /\ w_lock wf = lk) \/
    exists s c',
      start_of rc files lk o s /\ w_lock wf = LValid c' /\ s <= c' /\ (s <= u32max -> c' <= u32max) /\
      Forall (fun x => s <= id3 x /\ id3 x < c') (ro_ids out) /\ NoDup (map id3 (ro_ids out)).
  Proof.
    intros Hne Huc Hlw. cbv zeta. pose proof (run_edit_shape rc files lk o Hne) as Hsh.
    set (out := run_edit P finder start_id rc (Some files) lk o) in *. clearbody out.
    intros Hnp Hnh.
    destruct Hsh as [He Hi Ht|s evs Hs Hok st' res Hst Hids Hres].
    { left. rewrite He. split; [exact Hi|reflexivity]. }
    right.
    destruct (events_ids P finder (rc_cfg rc) (o_rfail2 o) (o_fault o) evs 0 files s (st0 s) Hok eq_refl)
      as (Hle & Hmax & news & Hnews & Hb & Hsorted).
    fold st' in Hle, Hmax, Hnews, Hb. cbn [st0 is_ids app] in Hnews.
    destruct (events_groups P finder (rc_cfg rc) (o_rfail2 o) (o_fault o) evs 0 files s (st0 s) Hok eq_refl)
      as (gs & Heffs & Hgs & _).
    fold st' in Heffs. cbn [st0 is_effs app] in Heffs.
    assert (Heff : ro_effs out = flat_map gs_effs gs ++ [ELockTrunc; ELockWrite (is_ctr st')]).
    { unfold lock_effs in Hres. rewrite Huc, Hlw in Hres.
      destruct res as [a|a|a|a]; cbn in Hres.
      - destruct Hres as [-> _]. rewrite Heffs. reflexivity.
      - destruct Hres as [_ Hx]. congruence.
      - destruct Hres as [_ Hx]. congruence.
      - destruct Hres as [-> _]. rewrite Heffs. reflexivity. }
    exists s, (is_ctr st'). split; [exact Hs|]. split.
    { rewrite Heff. unfold apply_effs. rewrite fold_left_app. cbn [fold_left apply_eff w_lock].
      reflexivity. }
    split; [exact Hle|]. split; [exact Hmax|].
    rewrite Hids, Hnews. split; [exact Hb|apply sorted_nodup; exact Hsorted].
  Qed.
  (* ---------------------------------------------------------------- C06 *)
  (* nothing lacks a reference in any file the run can read *)
  Definition tree_complete (cfg : config) (rfail : nat -> bool) (files : list (list N)) : Prop :=
    forall k b es, nth_error files k = Some b ->
      file_entries finder cfg (rfail k) b = FEntries es -> filter missing_insert es = [].

  Lemma insert_map_nothing i b es ctr flt :
    filter missing_insert es = [] -> insert_map P i b es ctr flt = IRes (mkIres false 0 ctr [] [] false).
  Proof. intros H. unfold insert_map. rewrite H. reflexivity. Qed.

  Lemma pass_insert_complete cfg stop rfail flt : forall files i st,
    (forall k b es, nth_error files k = Some b ->
       file_entries finder cfg (rfail (i + k)%nat) b = FEntries es -> filter missing_insert es = []) ->
    (forall k b, nth_error files k = Some b -> file_entries finder cfg (rfail (i + k)%nat) b <> FPanics /\
                                              file_entries finder cfg (rfail (i + k)%nat) b <> FHangs) ->
    let r := pass_insert P finder cfg stop rfail flt files i st in
    is_effs (pres_state r) = is_effs st /\ is_ctr (pres_state r) = is_ctr st /\
    is_ids (pres_state r) = is_ids st /\ is_failure (pres_state r) = is_failure st /\
    is_count (pres_state r) = is_count st /\
    (stop = None -> pres_ok r = true).
  Proof.
    induction files as [|b files IH]; intros i st Hc Hnp; cbn [pass_insert].
    - destruct (stops stop i) eqn:Es; cbn; repeat split; auto.
      intros ->. cbn in Es. discriminate.
    - destruct (stops stop i) eqn:Es.
      { cbn. repeat split; auto. intros ->. cbn in Es. discriminate. }
      assert (Hc' : forall k b0 es, nth_error files k = Some b0 ->
                file_entries finder cfg (rfail (S i + k)%nat) b0 = FEntries es -> filter missing_insert es = []).
      { intros k b0 es Hn Hf. apply (Hc (S k) b0 es Hn). replace (i + S k)%nat with (S i + k)%nat by lia. exact Hf. }
      assert (Hnp' : forall k b0, nth_error files k = Some b0 ->
                file_entries finder cfg (rfail (S i + k)%nat) b0 <> FPanics /\
                file_entries finder cfg (rfail (S i + k)%nat) b0 <> FHangs).
      { intros k b0 Hn. replace (S i + k)%nat with (i + S k)%nat by lia. apply (Hnp (S k) b0 Hn). }
      pose proof (Hnp 0%nat b eq_refl) as [Hp Hh]. rewrite Nat.add_0_r in Hp, Hh.
      destruct (file_entries finder cfg (rfail i) b) as [| | |es] eqn:Efe; try congruence.
      + apply IH; assumption.
      + rewrite (insert_map_nothing i b es (is_ctr st) (flt i)).
        * cbn [ir_ctr ir_failure ir_count ir_effs ir_ids].
          assert (Hst : mkIst (is_ctr st) (is_failure st || false) (is_count st + 0) (is_effs st ++ [])
                              (is_ids st ++ map (fun pi : N * N => (i, fst pi, snd pi)) []) = st).
          { destruct st as [c f n e d]. cbn. rewrite orb_false_r, N.add_0_r, !app_nil_r. reflexivity. }
          rewrite Hst. apply IH; assumption.
        * apply (Hc 0%nat b es eq_refl). rewrite Nat.add_0_r. exact Efe.
  Qed.

  (* a tree in which no statement lacks a reference is a fixpoint: an edit run changes no source
     byte and leaves the lock value as it is, and a check run passes *)
  Theorem complete_tree_is_fixpoint rc files lk o :
    files <> [] -> o_stop1 o = None -> o_stop2 o = None ->
    tree_complete (rc_cfg rc) (o_rfail1 o) files -> tree_complete (rc_cfg rc) (o_rfail2 o) files ->
    (forall k b rf, nth_error files k = Some b ->
       file_entries finder (rc_cfg rc) rf b <> FPanics /\ file_entries finder (rc_cfg rc) rf b <> FHangs) ->
    let out := run_edit P finder start_id rc (Some files) lk o in
    let wf := apply_effs (mkWorld files [] lk) (ro_effs out) in
    ro_exit out = XOk /\ ro_ids out = [] /\ w_src wf = files /\
    (w_lock wf = lk \/ exists L, lk = LValid L /\ (w_lock wf = LValid (N.max L start_id) \/ w_lock wf = LCorrupt)).
  Proof.
    intros Hne Hs1 Hs2 Hc1 Hc2 Hnp. cbv zeta. unfold run_edit.
    destruct files as [|b0 fs] eqn:Ef; [congruence|]. rewrite <- Ef in *. clear Hne.
    destruct (cached_id rc lk) as [L|] eqn:Ec.
    - (* cached: the insert pass finds nothing to do; the lock is rewritten with the same value *)
      pose proof (pass_insert_complete (rc_cfg rc) (o_stop2 o) (o_rfail2 o) (o_fault o) files 0 (mkIst (N.max L start_id) false 0 [] []))
        as Hp. cbn [Nat.add] in Hp.
      destruct (Hp Hc2 (fun k b Hn => Hnp k b _ Hn)) as (A & B & Cc & D & E & F). clear Hp.
      specialize (F Hs2).
      destruct (pass_insert P finder (rc_cfg rc) (o_stop2 o) (o_rfail2 o) (o_fault o) files 0 (mkIst (N.max L start_id) false 0 [] []))
        as [st|st|st|st]; cbn in F; try discriminate. cbn [pres_state is_effs is_ctr is_ids is_failure] in *.
      rewrite A, B, Cc, D. cbn [ro_exit ro_ids ro_effs app].
      split; [reflexivity|]. split; [reflexivity|].
      assert (HL : lk = LValid L).
      { unfold cached_id in Ec. destruct (rc_use_cache rc); [|discriminate]. destruct lk; try discriminate.
        inversion Ec. reflexivity. }
      unfold lock_effs. destruct (rc_use_cache rc); [|split; [reflexivity|left; reflexivity]].
      destruct (o_lock_fault o); cbn; (split; [reflexivity|]).
      + right. exists L. split; [exact HL|left; reflexivity].
      + left. reflexivity.
      + right. exists L. split; [exact HL|right; reflexivity].
    - (* first pass: zero missing references, nothing to do *)
      destruct (pass_nextid finder (rc_cfg rc) (o_stop1 o) (o_rfail1 o) files 0 []) as [a|a|a|rs] eqn:Ep1.
      + exfalso. rewrite Hs1 in Ep1. clear - Ep1. revert Ep1. generalize 0%nat, (@nil (N * N)).
        induction files as [|b files IH]; intros i acc H; cbn [pass_nextid stops] in H; [discriminate|].
        destruct (file_entries finder (rc_cfg rc) (o_rfail1 o i) b); try discriminate; eauto.
      + exfalso. clear - Ep1 Hnp. 
        assert (G : forall fl i acc, (forall k b, nth_error fl k = Some b -> exists k', nth_error files k' = Some b) ->
                  pass_nextid finder (rc_cfg rc) (o_stop1 o) (o_rfail1 o) fl i acc <> PPanic a).
        { induction fl as [|b fl IH]; intros i acc Hsub; cbn [pass_nextid].
          - destruct (stops (o_stop1 o) i); discriminate.
          - destruct (stops (o_stop1 o) i); [discriminate|].
            destruct (Hsub 0%nat b eq_refl) as [k' Hk'].
            destruct (Hnp k' b (o_rfail1 o i) Hk') as [Hp _].
            destruct (file_entries finder (rc_cfg rc) (o_rfail1 o i) b); try congruence; try discriminate;
              apply IH; intros k b1 Hn; apply (Hsub (S k) b1 Hn). }
        apply (G files 0%nat [] (fun k b Hn => ex_intro _ k Hn)). exact Ep1.
      + exfalso. clear - Ep1 Hnp.
        assert (G : forall fl i acc, (forall k b, nth_error fl k = Some b -> exists k', nth_error files k' = Some b) ->
                  pass_nextid finder (rc_cfg rc) (o_stop1 o) (o_rfail1 o) fl i acc <> PHang a).
        { induction fl as [|b fl IH]; intros i acc Hsub; cbn [pass_nextid].
          - destruct (stops (o_stop1 o) i); discriminate.
          - destruct (stops (o_stop1 o) i); [discriminate|].
            destruct (Hsub 0%nat b eq_refl) as [k' Hk'].
            destruct (Hnp k' b (o_rfail1 o i) Hk') as [_ Hh].
            destruct (file_entries finder (rc_cfg rc) (o_rfail1 o i) b); try congruence; try discriminate;
              apply IH; intros k b1 Hn; apply (Hsub (S k) b1 Hn). }
        apply (G files 0%nat [] (fun k b Hn => ex_intro _ k Hn)). exact Ep1.
      + destruct (pass_nextid_ok finder (rc_cfg rc) (o_stop1 o) (o_rfail1 o) files 0 [] rs Ep1)
          as (news & -> & _ & Hinv). cbn [rev app].
        assert (Hzero : forall mk, In mk news -> snd mk = 0).
        { intros mk Hin. destruct (Hinv mk Hin) as (k & b & es & Hn & Hfe & ->).
          destruct (nextid_map_spec es 0 0) as (_ & _ & Hsnd). rewrite Hsnd.
          rewrite (Hc1 k b es Hn Hfe). reflexivity. }
        unfold nextid_reduce. destruct (nextid_reduce_go news 0 0) as [mx miss] eqn:Ego.
        pose proof (nextid_reduce_go_spec news 0 0) as Hspec. rewrite Ego in Hspec. cbn [fst snd] in Hspec.
        destruct Hspec as (_ & _ & Hmiss).
        assert (Hm0 : miss = 0).
        { rewrite Hmiss. clear - Hzero. assert (G : forall (l : list (N * N)) (acc : N), (forall mk, In mk l -> snd mk = 0) ->
                   fold_left (fun a (mk : N * N) => a + snd mk) l acc = acc).
          { induction l as [|x l IH]; intros acc H; [reflexivity|]. cbn [fold_left].
            rewrite (H x (or_introl eq_refl)), N.add_0_r. apply IH. intros mk Hin. apply H. right. exact Hin. }
          apply G. exact Hzero. }
        clear Hmiss. subst miss. destruct (mx =? 0); cbn; (split; [reflexivity|]); (split; [reflexivity|]);
          (split; [reflexivity|left; reflexivity]).
  Qed.
End Run.
