(* DecimalFacts.v -- decimal printing / parsing round trip (Display for u32 vs str::parse::<u32>). *)
From Coq Require Import List NArith Bool Lia PeanoNat.
From Breadlog Require Import Model.Peg Model.Text.
Import ListNotations.
Open Scope N_scope.

Arguments N.add : simpl never.
Arguments N.mul : simpl never.
Arguments N.sub : simpl never.
Arguments N.div : simpl never.
Arguments N.modulo : simpl never.
Arguments N.ltb : simpl never.
Arguments N.leb : simpl never.
Arguments N.eqb : simpl never.

Lemma is_ascii_digit_digit_cp d : d < 10 -> is_ascii_digit (digit_cp d) = true.
Proof.
  intros H. unfold is_ascii_digit, digit_cp.
  apply andb_true_intro; split; apply N.leb_le; lia.
Qed.

Lemma digit_cp_val d : digit_cp d - 48 = d.
Proof. unfold digit_cp. lia. Qed.

Lemma digits_value_app xs ys a :
  digits_value (xs ++ ys) a =
  match digits_value xs a with Some v => digits_value ys v | None => None end.
Proof.
  revert a; induction xs as [|x xs IH]; intros a; cbn [app digits_value]; [reflexivity|].
  destruct (is_ascii_digit x); [apply IH|reflexivity].
Qed.

(* size_nat drops under division by ten *)
Lemma size_nat_div2 n : 2 <= n -> S (N.size_nat (N.div2 n)) = N.size_nat n.
Proof.
  destruct n as [|p]; [lia|]. destruct p as [p|p|]; cbn; try reflexivity; lia.
Qed.

Lemma size_nat_mono n m : n <= m -> (N.size_nat n <= N.size_nat m)%nat.
Proof.
  destruct n as [|p], m as [|q]; cbn; intros H; try lia.
  destruct (Pos.eq_dec p q) as [->|Hne]; [lia|].
  apply Pos.size_nat_monotone. lia.
Qed.

Lemma size_nat_div10 n : 10 <= n -> (N.size_nat (n / 10) < N.size_nat n)%nat.
Proof.
  intros H.
  assert (Hle : n / 10 <= N.div2 n).
  { rewrite N.div2_div. apply N.div_le_compat_l; lia. }
  apply size_nat_mono in Hle.
  pose proof (size_nat_div2 n ltac:(lia)). lia.
Qed.

Lemma dec_pos_fuel_S f n acc :
  dec_pos_fuel (S f) n acc =
  if n <? 10 then digit_cp n :: acc else dec_pos_fuel f (n / 10) (digit_cp (n mod 10) :: acc).
Proof. reflexivity. Qed.

(* the digits produced in front of acc are ASCII digits whose value is n *)
Lemma dec_pos_fuel_spec f : forall n acc,
  (N.size_nat n <= f)%nat ->
  exists ds, dec_pos_fuel (S f) n acc = ds ++ acc
             /\ ds <> [] /\ forallb is_ascii_digit ds = true
             /\ (forall b, digits_value ds b = Some (b * 10 ^ N.of_nat (length ds) + n)).
Proof.
  induction f as [|f IH]; intros n acc Hsz.
  - (* size 0 -> n = 0 *)
    assert (n = 0) by (destruct n; cbn in Hsz; [reflexivity|destruct p; cbn in Hsz; lia]).
    subst n. cbn [dec_pos_fuel]. exists [digit_cp 0]. repeat split; try discriminate.
    all: try (intros b; cbn; f_equal; lia).
  - rewrite dec_pos_fuel_S. destruct (N.ltb_spec n 10) as [Hlt|Hge].
    + exists [digit_cp n]. repeat split; try discriminate.
      * cbn [forallb]. rewrite is_ascii_digit_digit_cp by assumption. reflexivity.
      * intros b. cbn [digits_value length]. rewrite is_ascii_digit_digit_cp by assumption.
        rewrite digit_cp_val. apply f_equal. change (N.of_nat 1) with 1. lia.
    + pose proof (size_nat_div10 n Hge) as Hd.
      destruct (IH (n / 10) (digit_cp (n mod 10) :: acc) ltac:(lia)) as (ds & Heq & Hne & Hall & Hval).
      exists (ds ++ [digit_cp (n mod 10)]).
      assert (Hm : n mod 10 < 10) by (apply N.mod_lt; lia).
      repeat split.
      * rewrite Heq. rewrite <- app_assoc. reflexivity.
      * destruct ds; discriminate.
      * rewrite forallb_app, Hall. cbn [forallb]. rewrite is_ascii_digit_digit_cp by assumption. reflexivity.
      * intros b. rewrite digits_value_app, Hval. cbn [digits_value].
        rewrite is_ascii_digit_digit_cp by assumption. rewrite digit_cp_val.
        apply f_equal. rewrite app_length. cbn [length]. rewrite Nat.add_1_r, Nat2N.inj_succ, N.pow_succ_r'.
        pose proof (N.div_mod n 10 ltac:(lia)). lia.
Qed.

Lemma dec_spec n :
  dec n <> [] /\ forallb is_ascii_digit (dec n) = true /\ digits_value (dec n) 0 = Some n.
Proof.
  unfold dec.
  destruct (dec_pos_fuel_spec (N.size_nat n) n [] (le_n _)) as (ds & Heq & Hne & Hall & Hval).
  rewrite Heq, app_nil_r. repeat split; try assumption. rewrite Hval. apply f_equal. lia.
Qed.

(* value bounds, generalised: v >= a * 10^(length l) *)
Lemma digits_value_ge l : forall a v,
  digits_value l a = Some v -> a * 10 ^ N.of_nat (length l) <= v.
Proof.
  induction l as [|x l IH]; intros a v Hv.
  - cbn in *. injection Hv as <-. lia.
  - cbn [digits_value] in Hv. destruct (is_ascii_digit x); [|discriminate].
    apply IH in Hv. cbn [length]. rewrite Nat2N.inj_succ, N.pow_succ_r'.
    nia.
Qed.

Lemma dec_no_leading_zero_fuel f : forall n acc,
  (N.size_nat n <= f)%nat -> 0 < n -> hd 0 (dec_pos_fuel (S f) n acc) <> 48.
Proof.
  induction f as [|f IH]; intros n acc Hsz Hpos.
  - destruct n; [lia|]. destruct p; cbn in Hsz; lia.
  - rewrite dec_pos_fuel_S. destruct (N.ltb_spec n 10) as [Hlt|Hge].
    + cbn [hd]. unfold digit_cp. lia.
    + apply IH.
      * pose proof (size_nat_div10 n Hge). lia.
      * apply N.div_str_pos. lia.
Qed.

Lemma dec_length_le n k : n < 10 ^ N.of_nat k -> (0 < k)%nat -> (length (dec n) <= k)%nat.
Proof.
  intros Hlt Hk.
  destruct (dec_spec n) as (Hne & Hall & Hval).
  destruct (N.eq_dec n 0) as [->|Hn0].
  { change (dec 0) with [digit_cp 0]. cbn [length]. lia. }
  remember (dec n) as ds eqn:Hds.
  destruct ds as [|d ds]; [contradiction|].
  cbn [digits_value] in Hval. cbn [forallb] in Hall. apply andb_true_iff in Hall as [Hd Hall].
  rewrite Hd in Hval.
  assert (Hlead : d <> 48).
  { pose proof (dec_no_leading_zero_fuel (N.size_nat n) n [] (le_n _) ltac:(lia)) as H.
    unfold dec in Hds. rewrite <- Hds in H. exact H. }
  assert (Hd1 : 1 <= 0 * 10 + (d - 48)).
  { unfold is_ascii_digit in Hd. apply andb_true_iff in Hd as [Ha Hb]. apply N.leb_le in Ha, Hb. lia. }
  apply digits_value_ge in Hval.
  cbn [length].
  destruct (Nat.le_gt_cases (S (length ds)) k) as [Hok|Hbad]; [exact Hok|exfalso].
  assert (Hpow : 10 ^ N.of_nat k <= 10 ^ N.of_nat (length ds)).
  { apply N.pow_le_mono_r; lia. }
  nia.
Qed.

Lemma dec_u32_length n : n <= u32_max -> (1 <= length (dec n) <= 10)%nat.
Proof.
  intros H. split.
  - destruct (dec_spec n) as (Hne & _). destruct (dec n); [contradiction|cbn; lia].
  - apply dec_length_le; [|lia]. unfold u32_max in H. change (N.of_nat 10) with 10. 
    change (10 ^ 10) with 10000000000. lia.
Qed.

Lemma parse_u32_nonplus d ds : d <> 43 ->
  parse_u32 (d :: ds) =
  match digits_value (d :: ds) 0 with
  | Some v => if v <=? u32_max then Some v else None
  | None => None
  end.
Proof.
  intros Hd. unfold parse_u32. destruct d as [|p]; [reflexivity|].
  do 6 (destruct p as [p|p|]; try reflexivity). contradiction Hd; reflexivity.
Qed.

Lemma parse_u32_dec n : n <= u32_max -> parse_u32 (dec n) = Some n.
Proof.
  intros H. destruct (dec_spec n) as (Hne & Hall & Hval).
  remember (dec n) as ds eqn:Hds.
  destruct ds as [|d ds]; [contradiction|].
  assert (Hd : d <> 43).
  { cbn [forallb] in Hall. apply andb_true_iff in Hall as [Hd _].
    unfold is_ascii_digit in Hd. apply andb_true_iff in Hd as [Ha Hb]. apply N.leb_le in Ha, Hb. lia. }
  rewrite parse_u32_nonplus by assumption. rewrite Hval.
  destruct (N.leb_spec n u32_max); [reflexivity|lia].
Qed.
