(* CommentSpec.v -- the translated comment regex on EVERY line: a closed form for what `captures` finds
   (the leftmost `//` followed by at least one character, or `/*` .. the LAST `*/` of the line with at least one
   character between -- whichever starts first), and what the directive scan therefore decides on every line. *)
From Coq Require Import List NArith Bool Lia.
From Breadlog Require Import Model.Peg Model.Text Model.Regex Model.Glue Model.Tables.
From Breadlog Require Import Gen.Regexes.
From Breadlog Require Import Proofs.RegexFacts Proofs.GlueSpec Proofs.CommentRegex.
Import ListNotations.
Open Scope N_scope.

Notation RE := re_RUST_COMMENT_PATTERN.
Notation TP := the_params.

(* ---- greedy `.+` followed by ANY continuation: the split points are tried from the longest to the shortest ---- *)
Section Backoff.
  Variable ma : (rst -> option caps) -> rst -> option caps.
  Hypothesis ma_hit : forall k0 c t i cs, in_ranges dot c = true -> ma k0 (mkR (c :: t) i cs) = k0 (mkR t (i + 1) cs).
  Hypothesis ma_eof : forall k0 i cs, ma k0 (mkR [] i cs) = None.
  Variable k : rst -> option caps.

  Fixpoint backoff (u : text) (i : N) (cs : caps) (n : N) : option caps :=
    match u with
    | [] => if 1 <=? n then k (mkR [] i cs) else None
    | c :: r => match backoff r (i + 1) cs (n + 1) with
                | Some x => Some x
                | None => if 1 <=? n then k (mkR u i cs) else None
                end
    end.

  Lemma rep_m_backoff : forall u n fuel i cs,
    dots u = true -> (length u < length fuel)%nat ->
    rep_m ma k 1 None true fuel n (mkR u i cs) = backoff u i cs n.
  Proof.
    induction u as [|b u IH]; intros n fuel i cs Hd Hlen.
    - destruct fuel as [|x f]; cbn [rep_m backoff]; [reflexivity|]. rewrite ma_eof. reflexivity.
    - cbn [dots forallb] in Hd. apply andb_true_iff in Hd. destruct Hd as [Hb Hd].
      destruct fuel as [|x f]; [cbn in Hlen; lia|]. cbn [rep_m backoff]. rewrite (ma_hit _ b u i cs Hb). cbn [ridx].
      destruct (N.ltb_spec i (i + 1)) as [_|]; [|lia].
      rewrite (IH (n + 1) f (i + 1) cs Hd) by (cbn [length] in Hlen; lia). reflexivity.
  Qed.
End Backoff.

(* the body of a block comment whose opener has just been read: everything up to the LAST "*/" of the rest of the
   line, provided at least one character stands before it (n counts the characters already taken) *)
Definition starts_close (u : text) : bool :=
  match u with c :: d :: _ => (c =? 42) && (d =? 47) | _ => false end.

Fixpoint bbody (n : N) (u : text) : option text :=
  match u with
  | [] => None
  | c :: r => match bbody (n + 1) r with
              | Some b => Some (c :: b)
              | None => if (1 <=? n) && starts_close u then Some [] else None
              end
  end.

Lemma starts_close_split u : starts_close u = true -> exists q, u = (42 :: 47 :: q)%list.
Proof.
  destruct u as [|c [|d q]]; try discriminate. cbn [starts_close]. intros H. apply andb_true_iff in H.
  destruct H as [Hc Hd]. apply N.eqb_eq in Hc, Hd. subst. eauto.
Qed.

Lemma bbody_split : forall u n b, bbody n u = Some b -> exists q, u = (b ++ [42; 47] ++ q)%list /\ 1 <= n + tlen b.
Proof.
  induction u as [|c r IH]; intros n b H; cbn [bbody] in H; [discriminate|].
  destruct (bbody (n + 1) r) as [b'|] eqn:E.
  - inversion H; subst. destruct (IH _ _ E) as (q & -> & Hn). exists q. split; [reflexivity|cbn [tlen]; lia].
  - destruct ((1 <=? n) && starts_close (c :: r)) eqn:Ec; [|discriminate]. inversion H; subst.
    apply andb_true_iff in Ec. destruct Ec as [Hn Hs]. apply N.leb_le in Hn.
    destruct (starts_close_split _ Hs) as [q ->]. exists q. split; [reflexivity|cbn [tlen]; lia].
Qed.

(* ---- the block alternative, after its opener ---- *)
Definition Kblock (idx : N) : rst -> option caps :=
  fun s' => m (RLit [42; 47]) (kfin idx) (mkR (rrem s') (ridx s') (set_cap (rcaps s') 2 (idx + 2, ridx s'))).

Lemma Kblock_eval idx w j :
  Kblock idx (mkR w j []) = if starts_close w then Some [(2, (idx + 2, j)); (0, (idx, j + 2))] else None.
Proof.
  unfold Kblock. rewrite m_lit. cbn [rrem ridx rcaps strip_prefix starts_close].
  destruct w as [|c [|d q]]; [reflexivity| |].
  - cbn [strip_prefix starts_close]. destruct (42 =? c); reflexivity.
  - cbn [strip_prefix starts_close]. rewrite (N.eqb_sym c 42), (N.eqb_sym d 47).
    destruct (42 =? c); [|reflexivity]. destruct (47 =? d); [|reflexivity]. cbn [andb].
    cbn [kfin rcaps ridx set_cap tlen]. change (2 =? 0) with false. cbn iota.
    replace (j + (1 + (1 + 0))) with (j + 2) by lia. reflexivity.
Qed.

Lemma backoff_block idx : forall u i n,
  backoff (Kblock idx) u i [] n =
  match bbody n u with
  | Some b => Some [(2, (idx + 2, i + tlen b)); (0, (idx, i + tlen b + 2))]
  | None => None
  end.
Proof.
  induction u as [|c r IH]; intros i n; cbn [backoff bbody].
  - rewrite Kblock_eval. cbn [starts_close]. destruct (1 <=? n); reflexivity.
  - rewrite IH. destruct (bbody (n + 1) r) as [b|].
    + cbn [tlen]. replace (i + 1 + tlen b) with (i + (1 + tlen b)) by lia. reflexivity.
    + rewrite Kblock_eval. destruct (1 <=? n); cbn [andb]; [|reflexivity].
      destruct (starts_close (c :: r)); [|reflexivity]. cbn [tlen]. rewrite N.add_0_r. reflexivity.
Qed.

Lemma block_alt_spec idx u :
  dots u = true ->
  m block_alt (kfin idx) (mkR (47 :: 42 :: u) idx []) =
  match bbody 0 u with
  | Some b => Some [(2, (idx + 2, idx + 2 + tlen b)); (0, (idx, idx + 2 + tlen b + 2))]
  | None => None
  end.
Proof.
  intros Hd. unfold block_alt. rewrite m_cat, m_lit.
  cbn [rrem strip_prefix ridx rcaps tlen]. rewrite !N.eqb_refl.
  replace (idx + (1 + (1 + 0))) with (idx + 2) by lia.
  rewrite m_cat, m_cap, m_rep. cbn [rrem ridx].
  change (fun s' : rst => m (RLit [42; 47]) (kfin idx) (mkR (rrem s') (ridx s') (set_cap (rcaps s') 2 (idx + 2, ridx s'))))
    with (Kblock idx).
  rewrite (rep_m_backoff _ m_dot_hit m_dot_eof (Kblock idx) u 0 (0 :: u) (idx + 2) [] Hd) by (cbn [length]; lia).
  apply backoff_block.
Qed.

Lemma line_alt_spec idx u :
  dots u = true ->
  m line_alt (kfin idx) (mkR (47 :: 47 :: u) idx []) =
  match u with
  | [] => None
  | _ => Some [(1, (idx + 2, idx + 2 + tlen u)); (0, (idx, idx + 2 + tlen u))]
  end.
Proof.
  intros Hd. destruct u as [|b u']; [reflexivity|].
  change (47 :: 47 :: b :: u') with ([47; 47] ++ (b :: u'))%list.
  apply line_alt_hit; [discriminate|exact Hd].
Qed.

(* ---- what the regex finds AT a position, and the leftmost match ---- *)
Definition at_comment (t : text) (idx : N) : option caps :=
  match t with
  | c :: d :: u =>
      if c =? 47 then
        if d =? 47 then match u with
                        | [] => None
                        | _ => Some [(1, (idx + 2, idx + 2 + tlen u)); (0, (idx, idx + 2 + tlen u))]
                        end
        else if d =? 42 then match bbody 0 u with
                             | Some b => Some [(2, (idx + 2, idx + 2 + tlen b)); (0, (idx, idx + 2 + tlen b + 2))]
                             | None => None
                             end
        else None
      else None
  | _ => None
  end.

Fixpoint find_comment (t : text) (idx : N) : option caps :=
  match at_comment t idx with
  | Some c => Some c
  | None => match t with [] => None | _ :: r => find_comment r (idx + 1) end
  end.

Lemma lit2_miss a b c d r k idx : (a =? c) && (b =? d) = false ->
  m (RLit [a; b]) k (mkR (c :: d :: r) idx []) = None.
Proof.
  intros H. rewrite m_lit. cbn [rrem strip_prefix]. destruct (a =? c); [|reflexivity].
  cbn [andb] in H. rewrite H. reflexivity.
Qed.

Lemma m_RE_at t idx : dots t = true -> m RE (kfin idx) (mkR t idx []) = at_comment t idx.
Proof.
  intros Hd. rewrite RE_unfold, m_alt. destruct t as [|c [|d u]].
  - reflexivity.
  - unfold line_alt, block_alt. rewrite !m_cat, !m_lit. cbn [rrem strip_prefix]. destruct (47 =? c); reflexivity.
  - cbn [at_comment]. assert (Hdu : dots u = true).
    { cbn [dots forallb] in Hd. apply andb_true_iff in Hd. destruct Hd as [_ Hd]. apply andb_true_iff in Hd. tauto. }
    destruct (N.eqb_spec c 47) as [->|Hc].
    + destruct (N.eqb_spec d 47) as [->|Hd47].
      * rewrite (line_alt_spec idx u Hdu). destruct u; [|reflexivity].
        unfold block_alt. rewrite m_cat. rewrite lit2_miss by reflexivity. reflexivity.
      * unfold line_alt at 1. rewrite m_cat. rewrite lit2_miss
          by (cbn [andb]; rewrite N.eqb_refl; cbn [andb]; apply N.eqb_neq; congruence).
        destruct (N.eqb_spec d 42) as [->|Hd42].
        -- apply block_alt_spec. exact Hdu.
        -- unfold block_alt. rewrite m_cat. rewrite lit2_miss
             by (rewrite N.eqb_refl; cbn [andb]; apply N.eqb_neq; congruence). reflexivity.
    + unfold line_alt, block_alt. rewrite !m_cat.
      rewrite !lit2_miss by (apply andb_false_iff; left; apply N.eqb_neq; congruence). reflexivity.
Qed.

Theorem search_spec : forall t idx, dots t = true -> search_from RE t idx = find_comment t idx.
Proof.
  induction t as [|c t IH]; intros idx Hd; cbn [search_from find_comment].
  - change (fun s : rst => Some (set_cap (rcaps s) 0 (idx, ridx s))) with (kfin idx). rewrite (m_RE_at [] idx Hd). reflexivity.
  - change (fun s : rst => Some (set_cap (rcaps s) 0 (idx, ridx s))) with (kfin idx). rewrite (m_RE_at (c :: t) idx Hd).
    destruct (at_comment (c :: t) idx); [reflexivity|]. apply IH.
    cbn [dots forallb] in Hd. apply andb_true_iff in Hd. tauto.
Qed.

(* ---- the same on the text: the body of the leftmost comment the regex sees ---- *)
Definition at_body (t : text) : option text :=
  match t with
  | c :: d :: u =>
      if c =? 47 then
        if d =? 47 then match u with [] => None | _ => Some u end
        else if d =? 42 then bbody 0 u
        else None
      else None
  | _ => None
  end.

Fixpoint first_comment (t : text) : option text :=
  match at_body t with
  | Some b => Some b
  | None => match t with [] => None | _ :: r => first_comment r end
  end.

Lemma at_none t idx : at_comment t idx = None -> at_body t = None.
Proof.
  destruct t as [|c [|d u]]; try reflexivity. cbn [at_comment at_body].
  destruct (c =? 47); [|reflexivity]. destruct (d =? 47); [destruct u; [reflexivity|discriminate]|].
  destruct (d =? 42); [|reflexivity]. destruct (bbody 0 u); [discriminate|reflexivity].
Qed.

Lemma tlen_snoc2 pre a b : tlen (pre ++ [a; b]) = tlen pre + 2.
Proof. rewrite tlen_app. cbn [tlen]. lia. Qed.

Lemma at_texts t pre c :
  at_comment t (tlen pre) = Some c ->
  exists g s e ws we b x,
    c = [(g, (s, e)); (0, (ws, we))] /\ (g = 1 \/ g = 2) /\ at_body t = Some b /\
    cap_text (pre ++ t) (s, e) = b /\ cap_text (pre ++ t) (ws, we) = 47 :: x.
Proof.
  destruct t as [|c0 [|d u]]; try discriminate. cbn [at_comment at_body].
  destruct (N.eqb_spec c0 47) as [->|]; [|discriminate].
  destruct (N.eqb_spec d 47) as [->|Hd].
  - destruct u as [|b0 u']; [discriminate|]. set (u := b0 :: u'). intros H. inversion H; subst c.
    exists 1, (tlen pre + 2), (tlen pre + 2 + tlen u), (tlen pre), (tlen pre + 2 + tlen u), u, (47 :: u).
    split; [reflexivity|]. split; [left; reflexivity|]. split; [reflexivity|]. split.
    + replace (pre ++ 47 :: 47 :: u)%list with ((pre ++ [47; 47]) ++ u)%list by (rewrite <- app_assoc; reflexivity).
      rewrite <- (tlen_snoc2 pre 47 47). rewrite <- tlen_app. apply cap_text_after.
    + replace (tlen pre + 2 + tlen u) with (tlen (pre ++ 47 :: 47 :: u)) by (rewrite tlen_app; cbn [tlen]; lia).
      apply cap_text_after.
  - destruct (N.eqb_spec d 42) as [->|]; [|discriminate].
    destruct (bbody 0 u) as [b|] eqn:Eb; [|discriminate]. intros H. inversion H; subst c.
    destruct (bbody_split _ _ _ Eb) as (q & -> & _).
    exists 2, (tlen pre + 2), (tlen pre + 2 + tlen b), (tlen pre), (tlen pre + 2 + tlen b + 2), b, (42 :: b ++ [42; 47])%list.
    split; [reflexivity|]. split; [right; reflexivity|]. split; [reflexivity|]. split.
    + replace (pre ++ 47 :: 42 :: b ++ [42; 47] ++ q)%list with ((pre ++ [47; 42]) ++ b ++ ([42; 47] ++ q))%list
        by (rewrite <- app_assoc; reflexivity).
      rewrite <- (tlen_snoc2 pre 47 42). apply cap_text_mid.
    + replace (pre ++ 47 :: 42 :: b ++ [42; 47] ++ q)%list with (pre ++ (47 :: 42 :: b ++ [42; 47]) ++ q)%list
        by (cbn [app]; rewrite <- app_assoc; reflexivity).
      replace (tlen pre + 2 + tlen b + 2) with (tlen pre + tlen (47 :: 42 :: b ++ [42; 47]))
        by (cbn [tlen]; rewrite tlen_app; cbn [tlen]; lia).
      apply cap_text_mid.
Qed.

Lemma find_comment_texts : forall t pre c,
  find_comment t (tlen pre) = Some c ->
  exists g s e ws we b x,
    c = [(g, (s, e)); (0, (ws, we))] /\ (g = 1 \/ g = 2) /\ first_comment t = Some b /\
    cap_text (pre ++ t) (s, e) = b /\ cap_text (pre ++ t) (ws, we) = 47 :: x.
Proof.
  induction t as [|c0 t IH]; intros pre c H; cbn [find_comment first_comment] in *.
  - destruct (at_comment [] (tlen pre)) eqn:E; [|discriminate]. cbn in E. discriminate.
  - destruct (at_comment (c0 :: t) (tlen pre)) as [c'|] eqn:E.
    + inversion H; subst c'. destruct (at_texts _ _ _ E) as (g & s & e & ws & we & b & x & H1 & H2 & H3 & H4 & H5).
      rewrite H3. exists g, s, e, ws, we, b, x. repeat split; assumption.
    + rewrite (at_none _ _ E).
      replace (tlen pre + 1) with (tlen (pre ++ [c0])) in H by (rewrite tlen_app; cbn [tlen]; lia).
      destruct (IH _ _ H) as (g & s & e & ws & we & b & x & H1 & H2 & H3 & H4 & H5).
      rewrite <- app_assoc in H4, H5. cbn [app] in H4, H5.
      exists g, s, e, ws, we, b, x. repeat split; assumption.
Qed.

Lemma find_comment_none : forall t idx, find_comment t idx = None -> first_comment t = None.
Proof.
  induction t as [|c0 t IH]; intros idx H; cbn [find_comment first_comment] in *.
  - reflexivity.
  - destruct (at_comment (c0 :: t) idx) eqn:E; [discriminate|]. rewrite (at_none _ _ E). eapply IH; eauto.
Qed.

(* THE DIRECTIVE SCAN ON EVERY LINE.  The nearest non-blank line above the statement, trimmed, decides: the directive
   is in force iff the body of the leftmost comment the regex sees on it -- text after the first "//" that is
   followed by a character, or between "/*" and the LAST "*/" of the line with a character between, whichever starts
   first, wherever on the line, whatever stands before and after it -- lower-cased and trimmed, is the directive. *)
Theorem scan_lines_spec d l ls :
  hd_error d <> Some 47 -> dots (trim (p_is_ws TP) l) = true ->
  scan_lines TP d RE (l :: ls) =
  match trim (p_is_ws TP) l with
  | [] => scan_lines TP d RE ls
  | l' => match first_comment l' with
          | Some b => text_eqb (norm b) d
          | None => false
          end
  end.
Proof.
  intros Hd Hdots. cbn [scan_lines]. destruct (trim (p_is_ws TP) l) as [|c0 t] eqn:El; [reflexivity|].
  unfold captures. rewrite (search_spec _ 0 Hdots).
  destruct (find_comment (c0 :: t) 0) as [c|] eqn:Ef.
  - change 0 with (tlen []) in Ef.
    destruct (find_comment_texts _ [] _ Ef) as (g & s & e & ws & we & b & x & -> & Hg & Hfc & Hb & Hw).
    cbn [app] in Hb, Hw. rewrite Hfc.
    change (S (N.to_nat (max_group RE))) with 3%nat.
    destruct Hg as [-> | ->].
    + cbn [group_texts get_cap]. change (1 =? 0) with false. change (0 =? 0) with true. cbn iota.
      change (0 + 1) with 1. change (1 =? 1) with true. cbn iota. change (1 + 1) with 2.
      change (1 =? 2) with false. change (0 =? 2) with false. cbn iota.
      rewrite Hb, Hw. cbn [existsb]. fold (norm (47 :: x)). fold (norm b).
      rewrite (whole_line_never d x Hd), orb_false_r. reflexivity.
    + cbn [group_texts get_cap]. change (2 =? 0) with false. change (0 =? 0) with true. cbn iota.
      change (0 + 1) with 1. change (2 =? 1) with false. change (0 =? 1) with false. cbn iota. change (1 + 1) with 2.
      change (2 =? 2) with true. cbn iota.
      rewrite Hb, Hw. cbn [existsb]. fold (norm (47 :: x)). fold (norm b).
      rewrite (whole_line_never d x Hd), orb_false_r. reflexivity.
  - rewrite (find_comment_none _ _ Ef). reflexivity.
Qed.

(* ---- the whole scan, for texts of scalar values: no hypothesis on the lines is left ---- *)
Definition verdict (d l' : text) : bool :=
  match first_comment l' with Some b => text_eqb (norm b) d | None => false end.

Fixpoint decide (d : text) (ls : list text) : bool :=
  match ls with
  | [] => false
  | l :: r => match trim (p_is_ws TP) l with [] => decide d r | l' => verdict d l' end
  end.

Lemma scan_lines_decide d : hd_error d <> Some 47 -> forall ls,
  Forall (fun l => dots (trim (p_is_ws TP) l) = true) ls -> scan_lines TP d RE ls = decide d ls.
Proof.
  intros Hd. induction ls as [|l ls IH]; intros H; [reflexivity|].
  inversion H as [|? ? Hl Hls]; subst. rewrite (scan_lines_spec d l ls Hd Hl). cbn [decide].
  destruct (trim (p_is_ws TP) l); [apply IH; exact Hls|reflexivity].
Qed.

Definition ok_char (c : N) : Prop := c <> 10 /\ c <= 1114111.

Lemma lines_go_cons c r cur acc :
  lines_go (c :: r) cur acc =
  if c =? 10 then lines_go r [] (rev (strip_cr_rev cur) :: acc) else lines_go r (c :: cur) acc.
Proof. destruct c as [|p]; [reflexivity|]. do 4 (destruct p as [p|p|]; try reflexivity). Qed.

Lemma strip_cr_rev_incl rl : forall c, In c (strip_cr_rev rl) -> In c rl.
Proof.
  intros c H. destruct rl as [|x r]; [exact H|]. unfold strip_cr_rev in H.
  destruct x as [|p]; [exact H|]. do 4 (destruct p as [p|p|]; try exact H). right. exact H.
Qed.

Lemma lines_go_chars : forall t cur acc,
  (forall c, In c t -> c <= 1114111) ->
  Forall ok_char cur -> Forall (Forall ok_char) acc -> Forall (Forall ok_char) (lines_go t cur acc).
Proof.
  induction t as [|c r IH]; intros cur acc Ht Hcur Hacc.
  - cbn [lines_go]. destruct cur as [|x cur']; [apply Forall_rev; exact Hacc|].
    apply Forall_rev. constructor; [apply Forall_rev; exact Hcur|exact Hacc].
  - rewrite lines_go_cons. destruct (N.eqb_spec c 10) as [->|Hc].
    + apply IH; [intros x Hx; apply Ht; right; exact Hx|constructor|].
      constructor; [|exact Hacc]. apply Forall_rev. rewrite Forall_forall in Hcur |- *.
      intros x Hx. apply Hcur. apply strip_cr_rev_incl. exact Hx.
    + apply IH; [intros x Hx; apply Ht; right; exact Hx| |exact Hacc].
      constructor; [|exact Hcur]. split; [exact Hc|apply Ht; left; reflexivity].
Qed.

Lemma trim_start_incl (is_ws : N -> bool) t : forall c, In c (trim_start is_ws t) -> In c t.
Proof.
  induction t as [|x t IH]; intros c H; [exact H|]. cbn [trim_start] in H.
  destruct (is_ws x); [right; apply IH; exact H|exact H].
Qed.

Lemma trim_incl (is_ws : N -> bool) t : forall c, In c (trim is_ws t) -> In c t.
Proof.
  intros c H. unfold trim in H. apply in_rev in H. apply trim_start_incl in H. apply in_rev in H.
  apply trim_start_incl in H. exact H.
Qed.

Lemma dots_of_ok t : Forall ok_char t -> dots t = true.
Proof.
  intros H. unfold dots. apply forallb_forall. intros c Hc. rewrite Forall_forall in H. apply in_dot. exact (H c Hc).
Qed.

(* THE DIRECTIVE DECISION IN CLOSED FORM, for every text whose characters are scalar values (every decodable file)
   and every position at which the glue asks (a character boundary): the lines of the text up to and including the
   first character of the statement, in reverse, without the statement's own line: the nearest non-blank one decides
   by the leftmost comment the regex sees on it (`decide`) *)
Theorem directive_check_closed d t p :
  hd_error d <> Some 47 -> (forall c, In c t -> c <= 1114111) ->
  directive_check TP d t p RE =
  match first_char_len t p with
  | None => None
  | Some l => match take_bytes t (p + l) with
              | None => None
              | Some pre => Some (decide d (tl (rev (lines pre))))
              end
  end.
Proof.
  intros Hd Ht. unfold directive_check. destruct (first_char_len t p) as [l|]; [|reflexivity].
  destruct (take_bytes t (p + l)) as [pre|] eqn:Etb; [|reflexivity]. f_equal.
  apply scan_lines_decide; [exact Hd|].
  assert (Hpre : forall c, In c pre -> c <= 1114111).
  { clear -Etb Ht. revert t Ht pre Etb. generalize (p + l) as n. intros n t. revert n.
    induction t as [|x t IH]; intros n Ht pre H; cbn [take_bytes] in H.
    - destruct (n =? 0); inversion H; subst; intros c [].
    - destruct (n =? 0); [inversion H; subst; intros c []|].
      destruct (cplen x <=? n); [|discriminate].
      destruct (take_bytes t (n - cplen x)) as [q|] eqn:E; [|discriminate]. inversion H; subst.
      intros c [<-|Hc]; [apply Ht; left; reflexivity|].
      eapply IH; [intros y Hy; apply Ht; right; exact Hy|exact E|exact Hc]. }
  pose proof (lines_go_chars pre [] [] Hpre ltac:(constructor) ltac:(constructor)) as Hl. fold (lines pre) in Hl.
  assert (Hrev : Forall (Forall ok_char) (tl (rev (lines pre)))).
  { apply Forall_rev in Hl. destruct (rev (lines pre)) as [|x r]; [constructor|]. inversion Hl; assumption. }
  rewrite Forall_forall in Hrev |- *. intros l0 Hl0. apply dots_of_ok.
  specialize (Hrev l0 Hl0). rewrite Forall_forall in Hrev |- *. intros c Hc. apply Hrev. eapply trim_incl. exact Hc.
Qed.
