(* TokenFacts.v -- where the tokens (pairs) produced by a parse lie, for ANY grammar: every
   node's span is delimited by char boundaries of the text, children are nested in their parent,
   siblings are ordered, and rules whose body always consumes have non-empty spans. *)
From Coq Require Import List Arith NArith Bool Lia String.
From Breadlog Require Import Model.Peg Model.Text Model.Glue.
From Breadlog Require Import Proofs.PegFacts.
Import ListNotations.
Open Scope N_scope.

(* p is the byte length of a prefix of code: a char boundary inside the text *)
Definition bnd (code : list N) (p : N) : Prop := exists pre post, code = pre ++ post /\ blen pre = p.

(* the parser state i is a suffix of code at its own position *)
Definition suffix (code : list N) (i : input) : Prop := exists pre, code = pre ++ rest i /\ pos i = blen pre.

Lemma suffix_bnd code i : suffix code i -> bnd code (pos i).
Proof. intros (pre & H1 & H2). exists pre, (rest i). split; [exact H1|symmetry; exact H2]. Qed.

Lemma suffix_adv code i j : suffix code i -> adv i j -> suffix code j.
Proof.
  intros (pre & H1 & H2) (c & H3 & H4). exists (pre ++ c). split.
  - rewrite H1, H3, app_assoc. reflexivity.
  - rewrite blen_app. lia.
Qed.

Lemma suffix_init code : suffix code (mkIn code 0).
Proof. exists []. split; reflexivity. Qed.

Lemma bnd_le_len code p : bnd code p -> p <= blen code.
Proof. intros (pre & post & -> & <-). rewrite blen_app. lia. Qed.

Section Forest.
  Variable T : ptree -> Prop.
  Fixpoint forest_in (lo hi : N) (l : list ptree) : Prop :=
    match l with
    | [] => lo <= hi
    | k :: l' => lo <= node_start k /\ node_start k <= node_end k /\ T k /\ forest_in (node_end k) hi l'
    end.

  Lemma forest_in_le : forall l lo hi, forest_in lo hi l -> lo <= hi.
  Proof.
    induction l as [|k l IH]; intros lo hi H; cbn in H; [exact H|].
    destruct H as (H1 & H2 & _ & H3). specialize (IH _ _ H3). lia.
  Qed.

  Lemma forest_in_weaken : forall l lo hi lo' hi',
    forest_in lo hi l -> lo' <= lo -> hi <= hi' -> forest_in lo' hi' l.
  Proof.
    induction l as [|k l IH]; intros lo hi lo' hi' H Hl Hh; cbn in *; [lia|].
    destruct H as (H1 & H2 & H3 & H4). repeat split; try lia; auto.
    eapply IH; [exact H4|lia|exact Hh].
  Qed.

  Lemma forest_in_app : forall l1 l2 lo mid hi,
    forest_in lo mid l1 -> forest_in mid hi l2 -> forest_in lo hi (l1 ++ l2).
  Proof.
    induction l1 as [|k l1 IH]; intros l2 lo mid hi H1 H2; cbn [app].
    - cbn in H1. eapply forest_in_weaken; [exact H2|exact H1|lia].
    - cbn in H1 |- *. destruct H1 as (A & B & Cc & D). repeat split; auto. eapply IH; eauto.
  Qed.
End Forest.

Section Tokens.
  Variable code : list N.
  Variable strict : string -> bool.          (* rule names whose span must be non-empty *)

  Definition node_ok (r : string) (s e : N) : Prop :=
    bnd code s /\ bnd code e /\ (strict r = true -> s < e).

  Fixpoint tree_ok (t : ptree) : Prop :=
    match t with
    | Node r s e kids => node_ok r s e /\ forest_in tree_ok s e kids
    end.

  (* strict names are only given to rules whose body always consumes (and never to EOI) *)
  Fixpoint strict_ok (e : expr) : bool :=
    match e with
    | EEoi => negb (strict "EOI")
    | ERule name _ _ body => (negb (strict name) || consumes body) && strict_ok body
    | ESeq a b | EChoice a b => strict_ok a && strict_ok b
    | EOpt x | ERep x | EPos x | ENeg x => strict_ok x
    | _ => true
    end.

  Variable U : uclass -> N -> bool.
  Variable sk : input -> option input.
  Hypothesis sk_adv : forall j j', sk j = Some j' -> adv j j'.

  Lemma rep_loop_tokens (f : input -> res) :
    (forall j j' t, suffix code j -> f j = Ok j' t -> adv j j' /\ forest_in tree_ok (pos j) (pos j') t) ->
    forall fuel i acc i' t lo,
      suffix code i -> forest_in tree_ok lo (pos i) acc ->
      rep_loop f fuel i acc = Ok i' t -> forest_in tree_ok lo (pos i') t.
  Proof.
    intros Hf. induction fuel as [|x fuel IH]; intros i acc i' t lo Hs Hacc H; cbn [rep_loop] in H; [discriminate|].
    destruct (f i) as [| |j tj] eqn:Ef.
    - inversion H; subst. exact Hacc.
    - discriminate.
    - destruct (pos i <? pos j); [|discriminate].
      destruct (Hf _ _ _ Hs Ef) as [Ha Ht].
      eapply IH; [eapply suffix_adv; eauto| |exact H].
      eapply forest_in_app; eauto.
  Qed.

  Theorem run_tokens : forall e a look i i' t,
    strict_ok e = true -> suffix code i ->
    run U sk e a look i = Ok i' t -> forest_in tree_ok (pos i) (pos i') t.
  Proof.
    induction e as [s|lo hi| | | |c|name ty impl body IHb|x IHx y IHy|x IHx y IHy|x IHx|x IHx|ss|x IHx|x IHx];
      intros a look i i' t Hso Hs H; pose proof (adv_pos_le _ _ (run_consumes U sk sk_adv _ _ _ _ _ _ H)) as Hle;
      cbn [strict_ok] in Hso; cbn [run] in H.
    - destruct (strip_prefix s (rest i)); [|discriminate]. inversion H; subst. exact Hle.
    - destruct (rest i) as [|c r]; [discriminate|]. destruct ((lo <=? c) && (c <=? hi)); [|discriminate].
      inversion H; subst. exact Hle.
    - destruct (rest i) as [|c r]; [discriminate|]. inversion H; subst. exact Hle.
    - destruct (pos i =? 0); [|discriminate]. inversion H; subst. exact Hle.
    - destruct (rest i); [|discriminate]. inversion H; subst.
      destruct (emits RNormal a look); cbn; [|lia].
      repeat split; try lia; try (apply suffix_bnd; exact Hs).
      intros Hst. apply negb_true_iff in Hso. congruence.
    - destruct (rest i) as [|d r]; [discriminate|]. destruct (U c d); [|discriminate]. inversion H; subst. exact Hle.
    - apply andb_true_iff in Hso. destruct Hso as [Hname Hbody].
      destruct (run U sk body (inner_atomicity ty impl a) look i) as [| |j kids] eqn:Eb; try discriminate.
      pose proof (IHb _ _ _ _ _ Hbody Hs Eb) as Hk.
      pose proof (run_consumes U sk sk_adv _ _ _ _ _ _ Eb) as Ha.
      destruct (emits ty _ look); inversion H; subst; [|exact Hk].
      cbn [forest_in node_start node_end tree_ok]. split; [lia|]. split; [exact (adv_pos_le _ _ Ha)|].
      split; [|lia]. split; [|exact Hk].
      split; [apply suffix_bnd; exact Hs|]. split; [apply suffix_bnd; eapply suffix_adv; eauto|].
      intros Hst. rewrite Hst in Hname. cbn in Hname.
      (* sk never fails is not needed: consumes_progress only needs sk_adv *)
      eapply consumes_progress; eauto.
    - apply andb_true_iff in Hso. destruct Hso as [Hx Hy].
      destruct (run U sk x a look i) as [| |i1 t1] eqn:Ex; try discriminate.
      destruct (do_skip sk a i1) as [i1'|] eqn:Es; [|discriminate].
      destruct (run U sk y a look i1') as [| |i2 t2] eqn:Ey; try discriminate. inversion H; subst.
      pose proof (run_consumes U sk sk_adv _ _ _ _ _ _ Ex) as A1.
      pose proof (do_skip_adv sk sk_adv _ _ _ Es) as A2.
      eapply forest_in_app; [eapply IHx; eauto|].
      eapply forest_in_weaken; [eapply IHy; [exact Hy| |exact Ey]| |lia].
      + eapply suffix_adv; [eapply suffix_adv; eauto|exact A2].
      + exact (adv_pos_le _ _ A2).
    - apply andb_true_iff in Hso. destruct Hso as [Hx Hy].
      destruct (run U sk x a look i) as [| |i1 t1] eqn:Ex.
      + eapply IHy; eauto.
      + discriminate.
      + inversion H; subst. eapply IHx; eauto.
    - destruct (run U sk x a look i) as [| |i1 t1] eqn:Ex.
      + inversion H; subst. cbn. lia.
      + discriminate.
      + inversion H; subst. eapply IHx; eauto.
    - destruct (run U sk x a look i) as [| |i1 t1] eqn:Ex.
      + inversion H; subst. cbn. lia.
      + discriminate.
      + destruct (pos i <? pos i1); [|discriminate].
        pose proof (run_consumes U sk sk_adv _ _ _ _ _ _ Ex) as A1.
        eapply rep_loop_tokens; [| |eapply IHx; eauto|exact H].
        * intros j j' tj Hsj Hj. cbn beta in Hj.
          destruct (do_skip sk a j) as [j1|] eqn:Es; [|discriminate].
          pose proof (do_skip_adv sk sk_adv _ _ _ Es) as A2.
          pose proof (run_consumes U sk sk_adv _ _ _ _ _ _ Hj) as A3.
          split; [eapply adv_trans; eauto|].
          eapply forest_in_weaken; [eapply IHx; [exact Hso| |exact Hj]| |lia].
          -- eapply suffix_adv; eauto.
          -- exact (adv_pos_le _ _ A2).
        * eapply suffix_adv; eauto.
    - inversion H; subst. exact Hle.
    - destruct (run U sk x a true i) as [| |i1 t1]; try discriminate. inversion H; subst. cbn. lia.
    - destruct (run U sk x a true i) as [| |i1 t1]; try discriminate. inversion H; subst. cbn. lia.
  Qed.
End Tokens.

(* ---- the first character of the span of certain rules (e.g. the bracket of macro_args): known from the rule's
   body, it makes `start + 1` a character boundary ---- *)
Section First.
  Variable code : list N.
  Variable first : string -> option N.

  Definition node_first (r : string) (s : N) : Prop :=
    match first r with
    | Some c => exists pre post, code = (pre ++ c :: post)%list /\ blen pre = s
    | None => True
    end.

  Fixpoint tree_first (t : ptree) : Prop :=
    match t with
    | Node r s e kids =>
        node_first r s /\
        (fix all (l : list ptree) : Prop := match l with [] => True | k :: l' => tree_first k /\ all l' end) kids
    end.

  Fixpoint all_first (l : list ptree) : Prop := match l with [] => True | k :: l' => tree_first k /\ all_first l' end.

  Lemma tree_first_unfold r s e kids : tree_first (Node r s e kids) <-> node_first r s /\ all_first kids.
  Proof.
    cbn [tree_first]. split; intros [H1 H2]; (split; [exact H1|]); clear H1;
      induction kids as [|k kids IH]; cbn [all_first] in *; auto; destruct H2 as [Hk H2]; split; auto.
  Qed.

  Lemma all_first_app a b : all_first a -> all_first b -> all_first (a ++ b).
  Proof. induction a as [|k a IH]; cbn [app all_first]; [auto|]. intros [Hk Ha] Hb. split; auto. Qed.

  Fixpoint first_ok (e : expr) : bool :=
    match e with
    | ERule name _ _ body =>
        (match first name with
         | Some c => match body with ESeq (EStr [c']) _ => c' =? c | _ => false end
         | None => true
         end) && first_ok body
    | ESeq a b | EChoice a b => first_ok a && first_ok b
    | EOpt x | ERep x | EPos x | ENeg x => first_ok x
    | _ => true
    end.

  Hypothesis eoi_none : forall c, first "EOI"%string = Some c -> False.
  Variable U : uclass -> N -> bool.
  Variable sk : input -> option input.
  Hypothesis sk_adv : forall j j', sk j = Some j' -> adv j j'.

  Lemma rep_loop_first (f : input -> res) :
    (forall j j' t, suffix code j -> f j = Ok j' t -> adv j j' /\ all_first t) ->
    forall fuel i acc i' t,
      suffix code i -> all_first acc -> rep_loop f fuel i acc = Ok i' t -> all_first t.
  Proof.
    intros Hf. induction fuel as [|x fuel IH]; intros i acc i' t Hs Hacc H; cbn [rep_loop] in H; [discriminate|].
    destruct (f i) as [| |j tj] eqn:Ef.
    - inversion H; subst. exact Hacc.
    - discriminate.
    - destruct (pos i <? pos j); [|discriminate].
      destruct (Hf _ _ _ Hs Ef) as [Ha Ht].
      eapply IH; [eapply suffix_adv; eauto| |exact H]. apply all_first_app; assumption.
  Qed.

  Theorem run_first : forall e a look i i' t,
    first_ok e = true -> suffix code i -> run U sk e a look i = Ok i' t -> all_first t.
  Proof.
    induction e as [s|lo hi| | | |c|name ty impl body IHb|x IHx y IHy|x IHx y IHy|x IHx|x IHx|ss|x IHx|x IHx];
      intros a look i i' t Hso Hs H; cbn [first_ok] in Hso; cbn [run] in H.
    - destruct (strip_prefix s (rest i)); [|discriminate]. inversion H; subst. exact I.
    - destruct (rest i) as [|c r]; [discriminate|]. destruct ((lo <=? c) && (c <=? hi)); [|discriminate].
      inversion H; subst. exact I.
    - destruct (rest i) as [|c r]; [discriminate|]. inversion H; subst. exact I.
    - destruct (pos i =? 0); [|discriminate]. inversion H; subst. exact I.
    - destruct (rest i); [|discriminate]. inversion H; subst.
      destruct (emits RNormal a look); cbn [all_first]; [|exact I]. split; [|exact I].
      apply tree_first_unfold. split; [|exact I]. unfold node_first.
      (* EOI never has a first character: first "EOI" must be None -- required below *)
      pose proof eoi_none as Hen. destruct (first "EOI"%string) as [c0|]; [|exact I]. exfalso. exact (Hen c0 eq_refl).
    - destruct (rest i) as [|d r]; [discriminate|]. destruct (U c d); [|discriminate]. inversion H; subst. exact I.
    - apply andb_true_iff in Hso. destruct Hso as [Hname Hbody].
      destruct (run U sk body (inner_atomicity ty impl a) look i) as [| |j kids] eqn:Eb; try discriminate.
      pose proof (IHb _ _ _ _ _ Hbody Hs Eb) as Hk.
      destruct (emits ty _ look); inversion H; subst; [|exact Hk].
      cbn [all_first]. split; [|exact I]. apply tree_first_unfold. split; [|exact Hk].
      unfold node_first. destruct (first name) as [c|]; [|exact I].
      destruct body as [ | | | | | | |bx by_| | | | | | ]; try discriminate.
      destruct bx as [sx| | | | | | | | | | | | | ]; try discriminate.
      destruct sx as [|c' [|? ?]]; try discriminate. apply N.eqb_eq in Hname. subst c'.
      cbn [run] in Eb. destruct (strip_prefix [c] (rest i)) as [r|] eqn:Esp; [|discriminate].
      destruct Hs as (pre & Hc & Hp). exists pre.
      cbn [strip_prefix] in Esp. destruct (rest i) as [|d r']; [discriminate|].
      destruct (N.eqb_spec c d) as [<-|]; [|discriminate]. exists r'. split; [exact Hc|symmetry; exact Hp].
    - apply andb_true_iff in Hso. destruct Hso as [Hx Hy].
      destruct (run U sk x a look i) as [| |i1 t1] eqn:Ex; try discriminate.
      destruct (do_skip sk a i1) as [i1'|] eqn:Es; [|discriminate].
      destruct (run U sk y a look i1') as [| |i2 t2] eqn:Ey; try discriminate. inversion H; subst.
      pose proof (run_consumes U sk sk_adv _ _ _ _ _ _ Ex) as A1.
      pose proof (do_skip_adv sk sk_adv _ _ _ Es) as A2.
      apply all_first_app; [eapply IHx; eauto|].
      eapply IHy; [exact Hy| |exact Ey]. eapply suffix_adv; [eapply suffix_adv; eauto|exact A2].
    - apply andb_true_iff in Hso. destruct Hso as [Hx Hy].
      destruct (run U sk x a look i) as [| |i1 t1] eqn:Ex.
      + eapply IHy; eauto.
      + discriminate.
      + inversion H; subst. eapply IHx; eauto.
    - destruct (run U sk x a look i) as [| |i1 t1] eqn:Ex.
      + inversion H; subst. exact I.
      + discriminate.
      + inversion H; subst. eapply IHx; eauto.
    - destruct (run U sk x a look i) as [| |i1 t1] eqn:Ex.
      + inversion H; subst. exact I.
      + discriminate.
      + destruct (pos i <? pos i1); [|discriminate].
        pose proof (run_consumes U sk sk_adv _ _ _ _ _ _ Ex) as A1.
        eapply rep_loop_first; [| |eapply IHx; eauto|exact H].
        * intros j j' tj Hsj Hj. cbn beta in Hj.
          destruct (do_skip sk a j) as [j1|] eqn:Es; [|discriminate].
          pose proof (do_skip_adv sk sk_adv _ _ _ Es) as A2.
          pose proof (run_consumes U sk sk_adv _ _ _ _ _ _ Hj) as A3.
          split; [eapply adv_trans; eauto|].
          eapply IHx; [exact Hso| |exact Hj]. eapply suffix_adv; eauto.
        * eapply suffix_adv; eauto.
    - inversion H; subst. exact I.
    - destruct (run U sk x a true i) as [| |i1 t1]; try discriminate. inversion H; subst. exact I.
    - destruct (run U sk x a true i) as [| |i1 t1]; try discriminate. inversion H; subst. exact I.
  Qed.
End First.

(* ---- which rule names can appear at the top level of the tokens of an expression ---- *)
Fixpoint top_names (e : expr) (a : atomicity) (look : bool) : list string :=
  match e with
  | EEoi => if emits RNormal a look then ["EOI"%string] else []
  | ERule name ty impl body =>
      if emits ty (match ty with RCompound => Compound | RNonAtomic => NonAtomic | _ => a end) look
      then [name] else top_names body (inner_atomicity ty impl a) look
  | ESeq x y | EChoice x y => top_names x a look ++ top_names y a look
  | EOpt x | ERep x => top_names x a look
  | _ => []
  end.

Section TopNames.
  Variable U : uclass -> N -> bool.
  Variable sk : input -> option input.

  Definition named_in (names : list string) (t : list ptree) : Prop :=
    Forall (fun n => In (node_rule n) names) t.

  Lemma named_in_app names a b : named_in names a -> named_in names b -> named_in names (a ++ b).
  Proof. intros. apply Forall_app. split; assumption. Qed.

  Lemma named_in_mono n1 n2 t : (forall x, In x n1 -> In x n2) -> named_in n1 t -> named_in n2 t.
  Proof. intros H. apply Forall_impl. intros n. apply H. Qed.

  Lemma rep_loop_names names (f : input -> res) :
    (forall j j' t, f j = Ok j' t -> named_in names t) ->
    forall fuel i acc i' t, named_in names acc -> rep_loop f fuel i acc = Ok i' t -> named_in names t.
  Proof.
    intros Hf. induction fuel as [|x fuel IH]; intros i acc i' t Ha H; cbn [rep_loop] in H; [discriminate|].
    destruct (f i) as [| |j tj] eqn:Ef.
    - inversion H; subst. exact Ha.
    - discriminate.
    - destruct (pos i <? pos j); [|discriminate].
      eapply IH; [|exact H]. apply named_in_app; [exact Ha|eapply Hf; eauto].
  Qed.

  Theorem run_top_names : forall e a look i i' t,
    run U sk e a look i = Ok i' t -> named_in (top_names e a look) t.
  Proof.
    induction e as [s|lo hi| | | |c|name ty impl body IHb|x IHx y IHy|x IHx y IHy|x IHx|x IHx|ss|x IHx|x IHx];
      intros a look i i' t H; cbn [run] in H; cbn [top_names].
    - destruct (strip_prefix s (rest i)); [|discriminate]. inversion H; constructor.
    - destruct (rest i) as [|c r]; [discriminate|]. destruct ((lo <=? c) && (c <=? hi)); [|discriminate].
      inversion H; constructor.
    - destruct (rest i); [discriminate|]. inversion H; constructor.
    - destruct (pos i =? 0); [|discriminate]. inversion H; constructor.
    - destruct (rest i); [|discriminate]. inversion H; subst.
      destruct (emits RNormal a look); repeat constructor.
    - destruct (rest i) as [|d r]; [discriminate|]. destruct (U c d); [|discriminate]. inversion H; constructor.
    - destruct (run U sk body (inner_atomicity ty impl a) look i) as [| |j kids] eqn:Eb; try discriminate.
      destruct (emits ty _ look); inversion H; subst.
      + constructor; [left; reflexivity|constructor].
      + eapply IHb; eauto.
    - destruct (run U sk x a look i) as [| |i1 t1] eqn:Ex; try discriminate.
      destruct (do_skip sk a i1) as [i1'|]; [|discriminate].
      destruct (run U sk y a look i1') as [| |i2 t2] eqn:Ey; try discriminate. inversion H; subst.
      apply named_in_app.
      + eapply named_in_mono; [|eapply IHx; eauto]. intros; apply in_or_app; left; assumption.
      + eapply named_in_mono; [|eapply IHy; eauto]. intros; apply in_or_app; right; assumption.
    - destruct (run U sk x a look i) as [| |i1 t1] eqn:Ex.
      + eapply named_in_mono; [|eapply IHy; eauto]. intros; apply in_or_app; right; assumption.
      + discriminate.
      + inversion H; subst. eapply named_in_mono; [|eapply IHx; eauto]. intros; apply in_or_app; left; assumption.
    - destruct (run U sk x a look i) as [| |i1 t1] eqn:Ex.
      + inversion H; constructor.
      + discriminate.
      + inversion H; subst. eapply IHx; eauto.
    - destruct (run U sk x a look i) as [| |i1 t1] eqn:Ex.
      + inversion H; constructor.
      + discriminate.
      + destruct (pos i <? pos i1); [|discriminate].
        eapply rep_loop_names; [|eapply IHx; eauto|exact H].
        intros j j' tj Hj. cbn beta in Hj. destruct (do_skip sk a j); [|discriminate]. eapply IHx; eauto.
    - inversion H; constructor.
    - destruct (run U sk x a true i) as [| |i1 t1]; try discriminate. inversion H; constructor.
    - destruct (run U sk x a true i) as [| |i1 t1]; try discriminate. inversion H; constructor.
  Qed.

  (* a token-producing rule yields exactly one node whose children come from its body *)
  Lemma rule_node_shape name ty impl body a look i i' t :
    emits ty (match ty with RCompound => Compound | RNonAtomic => NonAtomic | _ => a end) look = true ->
    run U sk (ERule name ty impl body) a look i = Ok i' t ->
    exists kids, t = [Node name (pos i) (pos i') kids] /\
                 named_in (top_names body (inner_atomicity ty impl a) look) kids.
  Proof.
    intros He H. cbn [run] in H.
    destruct (run U sk body (inner_atomicity ty impl a) look i) as [| |j kids] eqn:Eb; try discriminate.
    rewrite He in H. inversion H; subst. exists kids. split; [reflexivity|]. eapply run_top_names; eauto.
  Qed.
End TopNames.
