(* FileSpec.v -- the parser specification theorem for a canonical FILE language, against the
   GENERATED grammar: a file is any sequence of items, each preceded by any layout (whitespace and
   comments of both kinds with arbitrary text), where an item is
     - a statement  <name> !( <layout> "<message>"   with a simple or module-qualified name,
     - a name (identifier or path) that does not start a statement,
     - any other single character,
   followed by a final layout.  For every such file the parse tree is computed in closed form
   (file_parse), and from it the finder's result for every configuration in both styles
   (find_canonical): exactly the statements with a configured name and no ignore directive, each at
   the place the property texts demand. *)
From Coq Require Import List Arith NArith Bool Lia String.
From Breadlog Require Import Model.Peg Model.Text Model.Regex Model.Glue Model.Tables.
From Breadlog Require Import Gen.Grammar.
From Breadlog Require Import Proofs.PegFacts Proofs.TokenFacts Proofs.GlueFacts Proofs.RuleLemmas Proofs.GlueSpec
     Proofs.StatementLemmas Proofs.ArgLemmas.
Import ListNotations.
Open Scope N_scope.

Arguments run : simpl never.

(* ------------------------------------------------------------------------------------------ *)
(* names: c0 ("::")? (d ("::")?)*                                                               *)
(* ------------------------------------------------------------------------------------------ *)
Definition sepr (s : bool) : list N := if s then [58; 58] else [].

Fixpoint render_units (us : list (N * bool)) : list N :=
  match us with
  | [] => []
  | (d, s) :: r => (d :: sepr s ++ render_units r)%list
  end.

Record qname := mkQ { q0 : N; qs0 : bool; qus : list (N * bool) }.

Definition render_name (n : qname) : list N := (q0 n :: sepr (qs0 n) ++ render_units (qus n))%list.

Definition units_ok (us : list (N * bool)) : bool := forallb (fun u => Utab XidContinue (fst u)) us.
Definition qname_ok (n : qname) : bool := name_start_ok (q0 n) && units_ok (qus n).

Lemma no_sep_units us rst : units_ok us = true -> name_end rst -> no_sep_ahead (render_units us ++ rst)%list.
Proof.
  intros Hus Hend. destruct us as [|[d s] r]; [exact (proj2 Hend)|].
  cbn [units_ok forallb fst] in Hus. apply andb_true_iff in Hus. cbn [render_units app].
  apply no_sep_continue. tauto.
Qed.

Lemma cont_step_hit_sep sk d t p :
  Utab XidContinue d = true ->
  rep_step Utab sk cont_body Atomic false (mkIn (d :: 58 :: 58 :: t) p) = Ok (mkIn t (p + cplen d + 2)) [].
Proof.
  intros Hd. unfold rep_step, cont_body. cbn [do_skip]. rewrite run_seq.
  change (run Utab sk (EClass XidContinue) Atomic false (mkIn (d :: 58 :: 58 :: t) p))
    with (if Utab XidContinue d then Ok (mkIn (58 :: 58 :: t) (p + cplen d)) [] else Fail).
  rewrite Hd. cbn [do_skip]. rewrite run_opt, run_str. reflexivity.
Qed.

Lemma blen_sepr s : blen (sepr s) = if s then 2 else 0.
Proof. destruct s; reflexivity. Qed.

Lemma units_loop sk : forall us rst p fuel acc,
  units_ok us = true -> name_end rst ->
  (List.length (render_units us ++ rst) < List.length fuel)%nat ->
  rep_loop (rep_step Utab sk cont_body Atomic false) fuel (mkIn (render_units us ++ rst)%list p) acc
  = Ok (mkIn rst (p + blen (render_units us))) acc.
Proof.
  induction us as [|[d s] us IH]; intros rst p fuel acc Hus Hend Hlen.
  - cbn [render_units app blen]. destruct fuel as [|x fuel]; [cbn in Hlen; lia|]. cbn [rep_loop].
    rewrite cont_step_miss by exact (proj1 Hend). rewrite N.add_0_r. reflexivity.
  - cbn [units_ok forallb fst] in Hus. apply andb_true_iff in Hus. destruct Hus as [Hd Hus].
    destruct fuel as [|x fuel]; [cbn in Hlen; lia|]. cbn [rep_loop render_units]. pose proof (cplen_pos d) as Hc.
    destruct s; cbn [sepr app].
    + rewrite cont_step_hit_sep by exact Hd. cbn [pos].
      destruct (N.ltb_spec p (p + cplen d + 2)) as [_|]; [|lia]. rewrite app_nil_r.
      rewrite IH; [|exact Hus|exact Hend|cbn [render_units sepr List.length app] in Hlen |- *; lia].
      f_equal. f_equal. cbn [blen cplen N.ltb N.compare Pos.compare Pos.compare_cont]. lia.
    + rewrite cont_step_hit; [|exact Hd|apply no_sep_units; assumption]. cbn [pos].
      destruct (N.ltb_spec p (p + cplen d)) as [_|]; [|lia]. rewrite app_nil_r.
      rewrite IH; [|exact Hus|exact Hend|cbn [render_units sepr List.length app] in Hlen |- *; lia].
      f_equal. f_equal. cbn [blen]. lia.
Qed.

Lemma first_char_ok sk c0 t p :
  name_start_ok c0 = true ->
  match run Utab sk (EClass XidStart) Atomic false (mkIn (c0 :: t) p) with
  | Fail => run Utab sk (EStr [95]) Atomic false (mkIn (c0 :: t) p)
  | r => r
  end = Ok (mkIn t (p + cplen c0)) [].
Proof.
  intros H0.
  change (run Utab sk (EClass XidStart) Atomic false (mkIn (c0 :: t) p))
    with (if Utab XidStart c0 then Ok (mkIn t (p + cplen c0)) [] else Fail).
  unfold name_start_ok in H0. destruct (Utab XidStart c0); [reflexivity|].
  cbn [orb] in H0. apply N.eqb_eq in H0. subst c0. reflexivity.
Qed.

Lemma first_char_bad sk c t p :
  name_start_ok c = false ->
  match run Utab sk (EClass XidStart) Atomic false (mkIn (c :: t) p) with
  | Fail => run Utab sk (EStr [95]) Atomic false (mkIn (c :: t) p)
  | r => r
  end = Fail.
Proof.
  intros H0.
  change (run Utab sk (EClass XidStart) Atomic false (mkIn (c :: t) p))
    with (if Utab XidStart c then Ok (mkIn t (p + cplen c)) [] else Fail).
  unfold name_start_ok in H0. apply orb_false_iff in H0. destruct H0 as [H1 H2]. rewrite H1.
  rewrite run_str. cbn [Peg.rest strip_prefix]. rewrite N.eqb_sym, H2. reflexivity.
Qed.

(* the body of macro_name, run atomically, on a name followed by something that ends it *)
Definition name_body : expr :=
  ESeq (EChoice (EClass XidStart) (EStr [95])) (ESeq (EOpt (EStr [58; 58])) (ERep cont_body)).

Lemma name_body_spec sk n rst p :
  qname_ok n = true -> name_end rst ->
  run Utab sk name_body Atomic false (mkIn (render_name n ++ rst)%list p)
  = Ok (mkIn rst (p + blen (render_name n))) [].
Proof.
  intros Hn Hend. unfold qname_ok in Hn. apply andb_true_iff in Hn. destruct Hn as [H0 Hus].
  destruct n as [c0 s0 us]. cbn [q0 qs0 qus] in *. unfold render_name. cbn [q0 qs0 qus app].
  unfold name_body. rewrite run_seq, run_choice. rewrite <- app_assoc.
  rewrite (first_char_ok sk c0 _ p H0). cbn [do_skip]. rewrite run_seq, run_opt, run_str. cbn [Peg.rest pos].
  pose proof (cplen_pos c0) as Hc0.
  assert (Hrep : forall p1, run Utab sk (ERep cont_body) Atomic false (mkIn (render_units us ++ rst)%list p1)
                            = Ok (mkIn rst (p1 + blen (render_units us))) []).
  { intros p1. rewrite run_rep. destruct us as [|[d s] us2].
    - cbn [render_units app]. pose proof (cont_step_miss sk rst p1 (proj1 Hend)) as Hm.
      unfold rep_step in Hm. cbn [do_skip] in Hm. rewrite Hm. cbn [blen]. rewrite N.add_0_r. reflexivity.
    - cbn [units_ok forallb fst] in Hus. apply andb_true_iff in Hus. destruct Hus as [Hd Hus2].
      pose proof (cplen_pos d) as Hc. cbn [render_units app]. destruct s; cbn [sepr app].
      + pose proof (cont_step_hit_sep sk d (render_units us2 ++ rst)%list p1 Hd) as Hh.
        unfold rep_step in Hh. cbn [do_skip] in Hh. rewrite Hh. cbn [pos Peg.rest].
        destruct (N.ltb_spec p1 (p1 + cplen d + 2)) as [_|]; [|lia].
        rewrite units_loop; [|exact Hus2|exact Hend|cbn [List.length]; lia].
        f_equal. f_equal. cbn [blen cplen N.ltb N.compare Pos.compare Pos.compare_cont]. lia.
      + pose proof (cont_step_hit sk d (render_units us2 ++ rst)%list p1 Hd (no_sep_units _ _ Hus2 Hend)) as Hh.
        unfold rep_step in Hh. cbn [do_skip] in Hh. rewrite Hh. cbn [pos Peg.rest].
        destruct (N.ltb_spec p1 (p1 + cplen d)) as [_|]; [|lia].
        rewrite units_loop; [|exact Hus2|exact Hend|cbn [List.length]; lia].
        f_equal. f_equal. cbn [blen]. lia. }
  destruct s0; cbn [sepr app].
  - cbn [strip_prefix N.eqb Pos.eqb do_skip]. rewrite Hrep. cbn [app]. f_equal. f_equal. cbn [blen pos].
    cbn [blen cplen N.ltb N.compare Pos.compare Pos.compare_cont]. lia.
  - rewrite (no_sep_strip _ (no_sep_units us rst Hus Hend)). cbn [do_skip]. rewrite Hrep. cbn [app]. f_equal.
    f_equal. cbn [blen]. lia.
Qed.

Lemma name_body_miss sk c t p :
  name_start_ok c = false -> run Utab sk name_body Atomic false (mkIn (c :: t) p) = Fail.
Proof. intros H. unfold name_body. rewrite run_seq, run_choice, (first_char_bad sk c t p H). reflexivity. Qed.

Lemma name_body_eof sk p : run Utab sk name_body Atomic false (mkIn [] p) = Fail.
Proof. reflexivity. Qed.

Lemma r_macro_name_unfold : r_macro_name = ERule "macro_name" RAtomic false name_body.
Proof. reflexivity. Qed.

Lemma macro_name_q sk a n rst p :
  qname_ok n = true -> name_end rst ->
  run Utab sk r_macro_name a false (mkIn (render_name n ++ rst)%list p)
  = Ok (mkIn rst (p + blen (render_name n)))
       (match a with Atomic => [] | _ => [Node "macro_name" p (p + blen (render_name n)) []] end).
Proof.
  intros Hn Hend. rewrite r_macro_name_unfold, run_rule. cbn [inner_atomicity].
  rewrite (name_body_spec sk n rst p Hn Hend). cbn [pos]. destruct a; reflexivity.
Qed.

Lemma macro_name_miss sk a c t p :
  name_start_ok c = false -> run Utab sk r_macro_name a false (mkIn (c :: t) p) = Fail.
Proof. intros H. rewrite r_macro_name_unfold, run_rule. cbn [inner_atomicity]. rewrite (name_body_miss sk c t p H). reflexivity. Qed.

(* ------------------------------------------------------------------------------------------ *)
(* the canonical file language                                                                 *)
(* ------------------------------------------------------------------------------------------ *)
Inductive item :=
| IStmt (n : qname) (l : lay) (us : list munit)     (* name !( layout "message"   *)
| IStmtA (n : qname) (a : sargs)                     (* name !( layout [target: "t",] [key-values;] "message" *)
| IName (n : qname)                                  (* a name that starts no statement *)
| IChar (c : N).                                     (* any other character *)

Definition render_item (it : item) : list N :=
  match it with
  | IStmt n l us => (render_name n ++ 33 :: 40 :: render_lay l ++ 34 :: render_msg us ++ [34])%list
  | IStmtA n a => (render_name n ++ 33 :: render_args a [])%list
  | IName n => render_name n
  | IChar c => [c]
  end.

Fixpoint render_items (its : list (lay * item)) (fin : lay) : list N :=
  match its with
  | [] => render_lay fin
  | (l, it) :: r => (render_lay l ++ render_item it ++ render_items r fin)%list
  end.

(* the implicit skip in front of the next item (or of the end of the file) *)
Definition code_of (its : list (lay * item)) (fin : lay) : list N :=
  match its with [] => [] | (_, it) :: r => (render_item it ++ render_items r fin)%list end.
Definition lead (its : list (lay * item)) (fin : lay) : lay :=
  match its with [] => fin | (l, _) :: _ => l end.

(* the first character of code (after the leading layout) *)
Definition first_code (its : list (lay * item)) : option N :=
  match its with [] => None | (_, it) :: _ => hd_error (render_item it) end.

(* a name does not begin a macro call whose bracket is followed by a name, a string literal or
   `target:` : either the code after the name is not "!", or what follows the "!" is not "(", or what
   follows the "(" (after any layout) starts with a character that is neither a name start nor a
   quote -- vec![..], a != b, assert!(!x), m!(1 + 2), f!((a, b)).  (A bracketed call whose first
   argument is a name, such as assert!(a > b), is outside this language; println!("..") is a statement.) *)
Definition args_start_plain (r3 : list (lay * item)) : Prop :=
  match first_code r3 with Some c => name_start_ok c = false /\ c <> 34 | None => True end.
(* ... or with a simple identifier that is followed (after any layout) by a character that neither
   continues it nor lets a key-value list go on:  assert!(a > b), dbg!(x), m!(x.y), f!(a + b) *)
Definition qname_simple (n : qname) : bool := negb (qs0 n) && forallb (fun u => negb (snd u)) (qus n).
Definition stop_char (c : N) : Prop :=
  Utab XidContinue c = false /\ name_start_ok c = false /\ c <> 61 /\ c <> 58 /\ c <> 44 /\ c <> 59.
Definition args_start_ident (r3 : list (lay * item)) (fin : lay) : Prop :=
  match r3 with
  | (_, IName n3) :: (_, it4) :: _ =>
      qname_simple n3 = true /\
      match hd_error (render_item it4) with Some c => stop_char c | None => False end /\
      strip_prefix target_word (code_of r3 fin) = None
  | _ => False
  end.
Definition not_a_call (r : list (lay * item)) (fin : lay) : Prop :=
  match r with
  | (_, IChar 33) :: r2 =>
      first_code r2 = Some 40 ->
      match r2 with _ :: r3 => args_start_plain r3 \/ args_start_ident r3 fin | [] => True end
  | _ => True
  end.

Definition item_ok (it : item) (r : list (lay * item)) (fin : lay) : Prop :=
  let tail := render_items r fin in
  match it with
  | IStmt n l us => qname_ok n = true /\ lay_ok l (34 :: render_msg us ++ 34 :: tail)%list /\ forallb munit_ok us = true
  | IStmtA n a => qname_ok n = true /\ args_ok a tail
  | IName n => qname_ok n = true /\ name_end tail /\ not_a_call r fin
  | IChar c => is_ws_char c = false /\ name_start_ok c = false /\ no_comment_ahead (c :: tail)
  end.

Fixpoint items_ok (its : list (lay * item)) (fin : lay) : Prop :=
  match its with
  | [] => lay_ok fin []
  | (l, it) :: r =>
      lay_ok l (render_item it ++ render_items r fin)%list /\ item_ok it r fin /\ items_ok r fin
  end.

(* ---- the parse tree ---- *)
Definition stmt_node (n : qname) (l : lay) (us : list munit) (p : N) : ptree :=
  let nm := render_name n in
  let a0 := p + blen nm + 1 in
  let q := a0 + 1 + blen (render_lay l) in
  let e := q + 1 + blen (render_msg us) + 1 in
  Node "log_macro" p e
    [Node "macro_name" p (p + blen nm) [];
     Node "macro_args" a0 e [Node "string_literal" q e [Node "string_value" (q + 1) (q + 1 + blen (render_msg us)) []]]].

Definition stmtA_node (n : qname) (a : sargs) (p : N) : ptree :=
  let nm := render_name n in
  let a0 := p + blen nm + 1 in
  Node "log_macro" p (args_end a a0)
    [Node "macro_name" p (p + blen nm) []; Node "macro_args" a0 (args_end a a0) (args_kids a a0)].

Definition item_nodes (it : item) (p : N) : list ptree :=
  match it with
  | IStmt n l us => [stmt_node n l us p]
  | IStmtA n a => [stmtA_node n a p]
  | IName n => [Node "other_name" p (p + blen (render_name n)) []]
  | IChar _ => []
  end.

Fixpoint nodes (its : list (lay * item)) (p : N) : list ptree :=
  match its with
  | [] => []
  | (l, it) :: r =>
      let p1 := p + blen (render_lay l) in
      (item_nodes it p1 ++ nodes r (p1 + blen (render_item it)))%list
  end.

Fixpoint span (its : list (lay * item)) : N :=
  match its with
  | [] => 0
  | (l, it) :: r => blen (render_lay l) + blen (render_item it) + span r
  end.

(* ---- basic facts ---- *)
Lemma render_name_cons n : render_name n = (q0 n :: (sepr (qs0 n) ++ render_units (qus n)))%list.
Proof. reflexivity. Qed.

Lemma qname_start n : qname_ok n = true -> name_start_ok (q0 n) = true.
Proof. unfold qname_ok. intros H. apply andb_true_iff in H. tauto. Qed.

Lemma blen_item_pos it : 1 <= blen (render_item it).
Proof.
  destruct it as [n l us|n a|n|c]; cbn [render_item]; try rewrite render_name_cons; cbn [app blen];
    match goal with |- context [cplen ?c] => pose proof (cplen_pos c) end; lia.
Qed.

Lemma length_item_pos it : (1 <= List.length (render_item it))%nat.
Proof.
  destruct it as [n l us|n a|n|c]; cbn [render_item]; try rewrite render_name_cons; cbn [app List.length]; lia.
Qed.

Lemma item_code_ahead it r fin : item_ok it r fin -> code_ahead (render_item it ++ render_items r fin)%list.
Proof.
  destruct it as [n l us|n a|n|c]; cbn [item_ok render_item].
  - intros (Hn & _). rewrite render_name_cons. cbn [app]. apply (name_start_not_layout _ (qname_start n Hn)).
  - intros (Hn & _). rewrite render_name_cons. cbn [app]. apply (name_start_not_layout _ (qname_start n Hn)).
  - intros (Hn & _). rewrite render_name_cons. cbn [app]. apply (name_start_not_layout _ (qname_start n Hn)).
  - intros (Hw & Hs & Hc). cbn [app]. split; [exact Hw|exact Hc].
Qed.

Lemma code_ahead_nil : code_ahead [].
Proof. split; exact I. Qed.

Lemma render_items_lead its fin : render_items its fin = (render_lay (lead its fin) ++ code_of its fin)%list.
Proof. destruct its as [|[l it] r]; cbn [render_items lead code_of]; [rewrite app_nil_r|]; reflexivity. Qed.

Lemma skip_lead its fin p :
  items_ok its fin ->
  SK (mkIn (render_items its fin) p) = Some (mkIn (code_of its fin) (p + blen (render_lay (lead its fin)))).
Proof.
  intros H. rewrite render_items_lead. unfold render_lay. rewrite <- app_assoc, blen_app, N.add_assoc.
  destruct its as [|[l it] r]; cbn [items_ok lead code_of] in *.
  - destruct H as [Hw Hg]. apply skip_layout; [exact Hw|exact Hg|exact code_ahead_nil].
  - destruct H as ((Hw & Hg) & Hit & _). apply skip_layout; [exact Hw|exact Hg|eapply item_code_ahead; exact Hit].
Qed.

Lemma first_code_head its fin : hd_error (code_of its fin) = first_code its.
Proof.
  destruct its as [|[l it] r]; cbn [code_of first_code]; [reflexivity|].
  pose proof (length_item_pos it). destruct (render_item it); [cbn in *; lia|reflexivity].
Qed.

(* ---- the three kinds of item under the file rule's alternative ---- *)
Lemma stmt_app n l us tail :
  (render_item (IStmt n l us) ++ tail)%list
  = (render_name n ++ 33 :: 40 :: render_lay l ++ 34 :: render_msg us ++ 34 :: tail)%list.
Proof. cbn [render_item]. rewrite <- !app_assoc. cbn [app]. rewrite <- !app_assoc. cbn [app]. rewrite <- !app_assoc. reflexivity. Qed.

Lemma log_macro_q n l us rst p :
  qname_ok n = true -> lay_ok l (34 :: render_msg us ++ 34 :: rst)%list -> forallb munit_ok us = true ->
  run Utab SK r_log_macro NonAtomic false
      (mkIn (render_name n ++ 33 :: 40 :: render_lay l ++ 34 :: render_msg us ++ 34 :: rst)%list p)
  = Ok (mkIn rst (p + blen (render_item (IStmt n l us)))) [stmt_node n l us p].
Proof.
  intros Hn [Hws Hgs] Hus. unfold r_log_macro. rewrite run_rule. cbn [inner_atomicity].
  rewrite run_seq.
  rewrite (macro_name_q SK NonAtomic n _ p Hn (bang_name_end _)).
  cbn [do_skip]. rewrite (skip_none _ _ (bang_ahead _)).
  rewrite run_seq, run_str. cbn [Peg.rest strip_prefix N.eqb Pos.eqb pos do_skip].
  set (a0 := p + blen (render_name n) + 1).
  replace (p + blen (render_name n) + blen [33]) with a0
    by (unfold a0; cbn [blen cplen N.ltb N.compare Pos.compare Pos.compare_cont]; lia).
  rewrite (skip_none _ _ (paren_ahead _)).
  pose proof (macro_args_spec (fst l) (snd l) us rst a0 Hws Hgs Hus) as Hm. cbv zeta in Hm.
  fold (render_lay l) in Hm. rewrite Hm. cbn [emits negb andb app pos]. unfold stmt_node. fold a0.
  f_equal. f_equal. cbn [render_item]. repeat (rewrite blen_app || (progress cbn [blen])).
  cbn [cplen N.ltb N.compare Pos.compare Pos.compare_cont]. unfold a0. lia.
Qed.

Lemma item_stmt n l us r fin p :
  item_ok (IStmt n l us) r fin ->
  run Utab SK file_item NonAtomic false (mkIn (render_item (IStmt n l us) ++ render_items r fin)%list p)
  = Ok (mkIn (render_items r fin) (p + blen (render_item (IStmt n l us)))) [stmt_node n l us p].
Proof.
  intros (Hn & Hl & Hus). unfold file_item. rewrite run_choice, stmt_app.
  rewrite (log_macro_q n l us _ p Hn Hl Hus). reflexivity.
Qed.

Lemma log_macro_miss_char c t p :
  name_start_ok c = false -> run Utab SK r_log_macro NonAtomic false (mkIn (c :: t) p) = Fail.
Proof.
  intros H. unfold r_log_macro. rewrite run_rule. cbn [inner_atomicity]. rewrite run_seq.
  rewrite (macro_name_miss SK NonAtomic c t p H). reflexivity.
Qed.

Lemma other_name_miss_char c t p :
  name_start_ok c = false -> run Utab SK r_other_name NonAtomic false (mkIn (c :: t) p) = Fail.
Proof.
  intros H. unfold r_other_name. rewrite run_rule. cbn [inner_atomicity].
  rewrite (macro_name_miss SK Atomic c t p H). reflexivity.
Qed.

Lemma item_char c r fin p :
  item_ok (IChar c) r fin ->
  run Utab SK file_item NonAtomic false (mkIn (render_item (IChar c) ++ render_items r fin)%list p)
  = Ok (mkIn (render_items r fin) (p + blen (render_item (IChar c)))) [].
Proof.
  intros (Hw & Hs & Hc). unfold file_item. cbn [render_item app]. rewrite run_choice, (log_macro_miss_char c _ p Hs).
  rewrite run_choice, (other_name_miss_char c _ p Hs), run_any. cbn [Peg.rest pos blen]. rewrite N.add_0_r. reflexivity.
Qed.

Lemma file_item_eof p : run Utab SK file_item NonAtomic false (mkIn [] p) = Fail.
Proof. reflexivity. Qed.

(* a name that starts no statement: log_macro fails after the name, other_name takes it *)
Lemma str_miss c t p sk a look :
  hd_error t <> Some c -> run Utab sk (EStr [c]) a look (mkIn t p) = Fail.
Proof.
  intros H. rewrite run_str. cbn [Peg.rest strip_prefix]. destruct t as [|d t']; [reflexivity|].
  destruct (N.eqb_spec c d) as [->|]; [exfalso; apply H; reflexivity|reflexivity].
Qed.

Lemma option_N_eq_dec (a b : option N) : {a = b} + {a <> b}.
Proof. decide equality. apply N.eq_dec. Qed.

Lemma log_macro_miss_name n r fin p :
  qname_ok n = true -> name_end (render_items r fin) -> not_a_call r fin -> items_ok r fin ->
  run Utab SK r_log_macro NonAtomic false (mkIn (render_name n ++ render_items r fin)%list p) = Fail.
Proof.
  intros Hn Hend Hnc Hr. unfold r_log_macro. rewrite run_rule. cbn [inner_atomicity]. rewrite run_seq.
  rewrite (macro_name_q SK NonAtomic n _ p Hn Hend). cbn [do_skip].
  rewrite (skip_lead r fin _ Hr). rewrite run_seq.
  destruct r as [|[l1 it1] r2].
  - cbn [code_of]. rewrite str_miss by (cbn; discriminate). reflexivity.
  - destruct (N.eq_dec (match hd_error (render_item it1) with Some c => c | None => 0 end) 33) as [E|E].
    + (* the next code character is "!" : then the one after it is not "(" *)
      destruct it1 as [n1 l1' us1|n1 a1|n1|c1].
      * exfalso. destruct Hr as (_ & (Hn1 & _) & _). apply qname_start in Hn1. cbn [render_item] in E.
        rewrite render_name_cons in E. cbn [app hd_error] in E. rewrite E in Hn1. vm_compute in Hn1. discriminate.
      * exfalso. destruct Hr as (_ & (Hn1 & _) & _). apply qname_start in Hn1. cbn [render_item] in E.
        rewrite render_name_cons in E. cbn [app hd_error] in E. rewrite E in Hn1. vm_compute in Hn1. discriminate.
      * exfalso. destruct Hr as (_ & (Hn1 & _) & _). apply qname_start in Hn1. cbn [render_item] in E.
        rewrite render_name_cons in E. cbn [hd_error] in E. rewrite E in Hn1. vm_compute in Hn1. discriminate.
      * cbn [render_item hd_error] in E. subst c1. cbn [not_a_call] in Hnc.
        cbn [code_of render_item app]. rewrite run_str. cbn [Peg.rest strip_prefix N.eqb Pos.eqb pos do_skip].
        destruct Hr as (_ & _ & Hr2). rewrite (skip_lead r2 fin _ Hr2).
        unfold r_macro_args. rewrite run_rule. cbn [inner_atomicity]. rewrite run_seq.
        destruct (option_N_eq_dec (first_code r2) (Some 40)) as [E40|E40].
        -- (* "(" follows: then the arguments start with a plain character *)
           specialize (Hnc E40). destruct r2 as [|[l2 it2] r3]; [discriminate|].
           assert (Hit2 : render_item it2 = [40]).
           { cbn [first_code] in E40. destruct Hr2 as (_ & Hi2 & _).
             destruct it2 as [n2 l2' us2|n2 a2|n2|c2]; cbn [render_item item_ok] in *;
               try (exfalso; destruct Hi2 as (Hn2 & _); apply qname_start in Hn2; rewrite render_name_cons in E40;
                    cbn [app hd_error] in E40; inversion E40 as [E']; rewrite E' in Hn2; vm_compute in Hn2; discriminate).
             cbn [hd_error] in E40. inversion E40. reflexivity. }
           cbn [code_of]. rewrite Hit2. cbn [app]. rewrite run_str. cbn [Peg.rest strip_prefix N.eqb Pos.eqb pos do_skip].
           destruct Hr2 as (_ & _ & Hr3). rewrite (skip_lead r3 fin _ Hr3).
           destruct Hnc as [Hnc|Hid].
           { unfold args_start_plain in Hnc. rewrite <- (first_code_head r3 fin) in Hnc.
             destruct (code_of r3 fin) as [|c t] eqn:Ec; cbn [hd_error] in Hnc.
             - reflexivity.
             - destruct Hnc as (Hns & H34).
               assert (Hca : code_ahead (c :: t)).
               { rewrite <- Ec. destruct r3 as [|[l3 it3] r4]; [discriminate|]. cbn [code_of].
                 destruct Hr3 as (_ & Hi3 & _). eapply item_code_ahead; exact Hi3. }
               rewrite run_seq, run_opt. rewrite target_arg_miss.
               2:{ unfold target_word. cbn [strip_prefix]. destruct (N.eqb_spec 116 c) as [<-|]; [vm_compute in Hns; discriminate|reflexivity]. }
               cbn [do_skip]. rewrite (skip_none _ _ Hca). rewrite run_seq, run_opt.
               assert (Hkvp : forall q, run Utab SK r_kvp_args NonAtomic false (mkIn (c :: t) q) = Fail).
               { intros q. change r_kvp_args with (ERule "kvp_args" RNormal false (ESeq (ESeq kv_body (ERep kv_body)) (EStr [59]))). rewrite run_rule. cbn [inner_atomicity].
                 rewrite run_seq, run_seq. unfold kv_body at 1. rewrite run_seq. rewrite (kvp_key_miss c t q Hns). reflexivity. }
               rewrite Hkvp. cbn [do_skip]. rewrite (skip_none _ _ Hca).
               rewrite (string_literal_miss c t _ NonAtomic H34). reflexivity. }
           (* the first argument is a simple identifier followed by a stopping character *)
           destruct r3 as [|[l3 [n3' l3' us3|n3' a3|n3|c3]] [|[l4 it4] r5]]; cbn [args_start_ident] in Hid; try contradiction.
           destruct Hid as (Hsimple & Hstop & Htw).
           destruct Hr3 as (_ & (Hn3 & _) & Hr4).
           pose proof Hr4 as (Hl4 & Hi4 & _).
           pose proof (length_item_pos it4) as Hlen4.
           destruct (render_item it4) as [|c t4] eqn:E4; [cbn in Hlen4; lia|]. cbn [hd_error] in Hstop.
           destruct Hstop as (Hcont & Hns & H61 & H58 & H44 & H59).
           assert (Hname : render_name n3 = render_ident (mkId (q0 n3) (map fst (qus n3)))).
           { unfold qname_simple in Hsimple. apply andb_true_iff in Hsimple. destruct Hsimple as [Hs0 Hus].
             unfold render_name, render_ident. cbn [i0 ics]. destruct (qs0 n3); [discriminate|]. cbn [sepr app]. f_equal.
             clear - Hus. induction (qus n3) as [|[d sp] us IH]; cbn [render_units map fst forallb snd] in *; [reflexivity|].
             apply andb_true_iff in Hus. destruct Hus as [Hsp Hus]. destruct sp; [discriminate|]. cbn [sepr app]. f_equal. apply IH. exact Hus. }
           assert (Hident : ident_ok (mkId (q0 n3) (map fst (qus n3))) = true).
           { unfold qname_ok in Hn3. apply andb_true_iff in Hn3. destruct Hn3 as [H0 Hus]. unfold ident_ok. cbn [i0 ics].
             rewrite H0. cbn [andb]. clear - Hus. unfold units_ok in Hus. induction (qus n3) as [|u us IH]; cbn [forallb map] in *; [reflexivity|].
             apply andb_true_iff in Hus. destruct Hus as [Hu Hus]. rewrite Hu, IH by exact Hus. reflexivity. }
           assert (Htext : code_of ((l3, IName n3) :: (l4, it4) :: r5) fin
                           = (render_ident (mkId (q0 n3) (map fst (qus n3))) ++ render_lay l4 ++ c :: (t4 ++ render_items r5 fin))%list).
           { cbn [code_of render_item render_items]. rewrite Hname, E4. cbn [app]. reflexivity. }
           rewrite Htext in *.
           assert (Hca4 : code_ahead (c :: t4 ++ render_items r5 fin)).
           { pose proof (item_code_ahead it4 r5 fin Hi4) as H. rewrite E4 in H. exact H. }
           assert (Hl4' : lay_ok l4 (c :: t4 ++ render_items r5 fin)).
           { exact Hl4. }
           rewrite (macro_args_tail_fail_ident _ l4 c _ _ Hident Hl4' Hca4 Hcont Hns H61 H58 H44 H59 Htw). reflexivity.
        -- rewrite str_miss; [reflexivity|]. rewrite first_code_head. exact E40.
    + cbn [code_of]. rewrite str_miss; [reflexivity|].
      pose proof (length_item_pos it1) as Hl. destruct (render_item it1) as [|d t1]; [cbn in Hl; lia|].
      cbn [app hd_error] in *. intros Heq. inversion Heq. congruence.
Qed.

Lemma item_name n r fin p :
  item_ok (IName n) r fin -> items_ok r fin ->
  run Utab SK file_item NonAtomic false (mkIn (render_item (IName n) ++ render_items r fin)%list p)
  = Ok (mkIn (render_items r fin) (p + blen (render_item (IName n)))) [Node "other_name" p (p + blen (render_name n)) []].
Proof.
  intros (Hn & Hend & Hnc) Hr. unfold file_item. cbn [render_item]. rewrite run_choice.
  rewrite (log_macro_miss_name n r fin p Hn Hend Hnc Hr). rewrite run_choice.
  unfold r_other_name. rewrite run_rule. cbn [inner_atomicity].
  rewrite (macro_name_q SK Atomic n _ p Hn Hend). cbn [emits negb andb pos]. reflexivity.
Qed.

Lemma stmtA_app n a tail :
  (render_item (IStmtA n a) ++ tail)%list = (render_name n ++ 33 :: render_args a tail)%list.
Proof. cbn [render_item]. rewrite <- app_assoc. cbn [app]. rewrite (render_args_app a tail). reflexivity. Qed.

Lemma blen_stmtA n a : blen (render_item (IStmtA n a)) = blen (render_name n) + 1 + blen (render_args a []).
Proof. cbn [render_item]. rewrite blen_app. cbn [blen cplen N.ltb N.compare Pos.compare Pos.compare_cont]. lia. Qed.

Lemma log_macro_A n a rst p :
  qname_ok n = true -> args_ok a rst ->
  run Utab SK r_log_macro NonAtomic false (mkIn (render_name n ++ 33 :: render_args a rst)%list p)
  = Ok (mkIn rst (p + blen (render_item (IStmtA n a)))) [stmtA_node n a p].
Proof.
  intros Hn Ha. unfold r_log_macro. rewrite run_rule. cbn [inner_atomicity]. rewrite run_seq.
  rewrite (macro_name_q SK NonAtomic n _ p Hn (bang_name_end _)).
  cbn [do_skip]. rewrite (skip_none _ _ (bang_ahead _)).
  rewrite run_seq, run_str. cbn [Peg.rest strip_prefix N.eqb Pos.eqb pos do_skip].
  set (a0 := p + blen (render_name n) + 1).
  replace (p + blen (render_name n) + blen [33]) with a0
    by (unfold a0; cbn [blen cplen N.ltb N.compare Pos.compare Pos.compare_cont]; lia).
  assert (Hpa : code_ahead (render_args a rst)) by (unfold render_args; apply paren_ahead).
  rewrite (skip_none _ _ Hpa). rewrite (macro_args_gen a rst a0 Ha).
  cbn [emits negb andb app pos]. unfold stmtA_node. fold a0.
  replace (p + blen (render_item (IStmtA n a))) with (args_end a a0); [reflexivity|].
  rewrite blen_stmtA, blen_render_args. unfold args_end, a0. lia.
Qed.

Lemma item_stmtA n a r fin p :
  item_ok (IStmtA n a) r fin ->
  run Utab SK file_item NonAtomic false (mkIn (render_item (IStmtA n a) ++ render_items r fin)%list p)
  = Ok (mkIn (render_items r fin) (p + blen (render_item (IStmtA n a)))) [stmtA_node n a p].
Proof.
  intros (Hn & Ha). unfold file_item. rewrite run_choice, stmtA_app.
  rewrite (log_macro_A n a _ p Hn Ha). reflexivity.
Qed.

Lemma item_any it r fin p :
  item_ok it r fin -> items_ok r fin ->
  run Utab SK file_item NonAtomic false (mkIn (render_item it ++ render_items r fin)%list p)
  = Ok (mkIn (render_items r fin) (p + blen (render_item it))) (item_nodes it p).
Proof.
  intros Hit Hr. destruct it as [n l us|n a|n|c]; cbn [item_nodes].
  - apply item_stmt; exact Hit.
  - apply item_stmtA; exact Hit.
  - apply item_name; assumption.
  - apply item_char; exact Hit.
Qed.

(* ---- the repetition of the file rule over all items ---- *)
Lemma length_render_items_cons l it r fin :
  (List.length (render_items r fin) < List.length (render_items ((l, it) :: r) fin))%nat.
Proof.
  cbn [render_items]. rewrite !app_length. pose proof (length_item_pos it). lia.
Qed.

Lemma loop_items : forall its fin p fuel acc,
  items_ok its fin ->
  (List.length (render_items its fin) < List.length fuel)%nat ->
  rep_loop (rep_step Utab SK file_item NonAtomic false) fuel (mkIn (render_items its fin) p) acc
  = Ok (mkIn (render_lay fin) (p + span its)) (acc ++ nodes its p)%list.
Proof.
  induction its as [|[l it] r IH]; intros fin p fuel acc Hok Hlen.
  - destruct fuel as [|x fuel]; [cbn in Hlen; lia|]. cbn [rep_loop]. unfold rep_step. cbn [do_skip].
    rewrite (skip_lead [] fin p Hok). cbn [code_of]. rewrite file_item_eof.
    cbn [render_items span nodes]. rewrite N.add_0_r, app_nil_r. reflexivity.
  - destruct fuel as [|x fuel]; [cbn in Hlen; lia|]. cbn [rep_loop]. unfold rep_step at 1. cbn [do_skip].
    rewrite (skip_lead _ fin p Hok). cbn [code_of lead].
    destruct Hok as (Hl & Hit & Hr).
    rewrite (item_any it r fin _ Hit Hr). cbn [pos].
    pose proof (blen_item_pos it) as Hb.
    destruct (N.ltb_spec p (p + blen (render_lay l) + blen (render_item it))) as [_|]; [|lia].
    rewrite IH; [|exact Hr|pose proof (length_render_items_cons l it r fin); cbn [List.length] in Hlen; lia].
    cbn [span nodes]. f_equal; [f_equal; lia|]. rewrite app_assoc. reflexivity.
Qed.

Lemma items_ok_fin its fin : items_ok its fin -> items_ok [] fin.
Proof. induction its as [|[l it] r IH]; cbn [items_ok]; [tauto|]. intros (_ & _ & H). apply IH. exact H. Qed.

Lemma blen_render_items its fin : blen (render_items its fin) = span its + blen (render_lay fin).
Proof. induction its as [|[l0 it0] r0 IH0]; cbn [render_items span]; [lia|]. rewrite !blen_app, IH0. lia. Qed.

(* THE PARSE TREE of every canonical file *)
Theorem file_parse its fin :
  items_ok its fin ->
  let code := render_items its fin in
  parse_file code = Ok (mkIn [] (blen code)) [Node "file" 0 (blen code) (nodes its 0 ++ [Node "EOI" (blen code) (blen code) []])].
Proof.
  intros Hok code. unfold parse_file, parse, g_file, r_file. rewrite run_rule. cbn [inner_atomicity].
  rewrite run_seq, run_soi. cbn [pos N.eqb do_skip]. fold file_item.
  pose proof (items_ok_fin its fin Hok) as Hfin.
  unfold code. rewrite (skip_lead its fin 0 Hok). rewrite run_seq, run_rep.
  destruct its as [|[l it] r].
  - cbn [code_of lead]. rewrite file_item_eof. cbn [do_skip]. rewrite skip_at_eof, run_eoi.
    cbn [Peg.rest emits negb andb app pos nodes render_items]. rewrite N.add_0_l. reflexivity.
  - cbn [code_of lead]. destruct Hok as (Hl & Hit & Hr).
    rewrite (item_any it r fin _ Hit Hr). cbn [pos Peg.rest].
    pose proof (blen_item_pos it) as Hb.
    destruct (N.ltb_spec (0 + blen (render_lay l)) (0 + blen (render_lay l) + blen (render_item it))) as [_|]; [|lia].
    rewrite loop_items; [|exact Hr|cbn [List.length]; lia].
    cbn [do_skip]. pose proof (skip_lead [] fin (0 + blen (render_lay l) + blen (render_item it) + span r) Hfin) as Hs.
    cbn [render_items code_of lead] in Hs. rewrite Hs. rewrite run_eoi.
    cbn [Peg.rest emits negb andb app pos nodes].
    rewrite (blen_render_items ((l, it) :: r) fin). cbn [span].
    replace (0 + blen (render_lay l) + blen (render_item it) + span r + blen (render_lay fin))
      with (blen (render_lay l) + blen (render_item it) + span r + blen (render_lay fin)) by lia.
    rewrite <- !app_assoc. reflexivity.
Qed.

(* ------------------------------------------------------------------------------------------ *)
(* from the parse tree to the entries                                                          *)
(* ------------------------------------------------------------------------------------------ *)
Notation TP := the_params.

(* what the glue makes of one statement whose name begins after the text `pre` *)
Definition stmt_step (cfg : config) (code pre : list N) (n : qname) (l : lay) (us : list munit) : step :=
  let nm := render_name n in
  let pre_paren := (pre ++ nm ++ [33])%list in                       (* text before the bracket *)
  let pre_msg := (pre_paren ++ 40 :: render_lay l ++ [34])%list in   (* text before the message value *)
  match directive_check TP (p_ignore TP) code (blen pre) (p_comment_re TP) with
  | None => StepPanic
  | Some true => Skip
  | Some false =>
      if negb (macro_of_interest nm cfg) then Skip else
      match (if cfg_structured cfg
             then directive_check TP (p_no_kvp TP) code (blen pre_paren) (p_comment_re TP)
             else Some true) with
      | None => StepPanic
      | Some nk =>
          if cfg_structured cfg && negb nk
          then Emit (mkEntry (blen pre_paren + 1)
                             (fst (line_col_go pre_paren 1 1)) (snd (line_col_go pre_paren 1 1) + 1)
                             None (short_name nm) KStructuredNew
                             (Some (fst (p_fmt_prefix TP) ++ p_ref_key TP ++ snd (p_fmt_prefix TP))%list)
                             (Some (nth 1 (p_suffixes TP) [])))
          else Emit (mkEntry (blen pre_msg)
                             (fst (line_col_go pre_msg 1 1)) (snd (line_col_go pre_msg 1 1))
                             (extract_reference TP (render_msg us)) (short_name nm) KString None None)
      end
  end.

Lemma one_macro_stmt cfg pre n l us tail :
  let code := (pre ++ render_item (IStmt n l us) ++ tail)%list in
  one_macro TP cfg code (stmt_node n l us (blen pre)) = stmt_step cfg code pre n l us.
Proof.
  intros code. set (nm := render_name n). set (msg := render_msg us).
  set (pre_paren := (pre ++ nm ++ [33])%list). set (pre_msg := (pre_paren ++ 40 :: render_lay l ++ [34])%list).
  assert (Hc1 : code = (pre ++ nm ++ (33 :: 40 :: render_lay l ++ 34 :: msg ++ 34 :: tail))%list).
  { unfold code. rewrite stmt_app. reflexivity. }
  assert (Hc2 : code = (pre_paren ++ 40 :: render_lay l ++ 34 :: msg ++ 34 :: tail)%list).
  { rewrite Hc1. unfold pre_paren. rewrite <- !app_assoc. reflexivity. }
  assert (Hc3 : code = (pre_msg ++ msg ++ 34 :: tail)%list).
  { rewrite Hc2. unfold pre_msg. rewrite <- !app_assoc. cbn [app]. rewrite <- !app_assoc. reflexivity. }
  assert (Hp : blen pre + blen nm + 1 = blen pre_paren).
  { unfold pre_paren. rewrite !blen_app. cbn [blen cplen N.ltb N.compare Pos.compare Pos.compare_cont]. lia. }
  assert (Hm : blen pre_paren + 1 + blen (render_lay l) + 1 = blen pre_msg).
  { unfold pre_msg. rewrite !blen_app. cbn [blen]. rewrite blen_app.
    cbn [blen cplen N.ltb N.compare Pos.compare Pos.compare_cont]. lia. }
  unfold stmt_node, one_macro, stmt_step. fold nm msg pre_paren pre_msg.
  cbn [node_kids is_rule node_rule node_start node_end String.eqb Ascii.eqb Bool.eqb negb].
  destruct (directive_check TP (p_ignore TP) code (blen pre) (p_comment_re TP)) as [[|]|]; [reflexivity| |reflexivity].
  rewrite Hc1 at 1. rewrite (str_slice_mid pre nm). destruct (macro_of_interest nm cfg); [|reflexivity]. cbn [negb].
  cbn [scan_args sc_target sc_after_target sc_msg sc_kvs andb is_rule node_rule node_kids String.eqb Ascii.eqb Bool.eqb].
  rewrite Hp.
  destruct (if cfg_structured cfg then directive_check TP (p_no_kvp TP) code (blen pre_paren) (p_comment_re TP) else Some true)
    as [nk|]; [|reflexivity].
  destruct (cfg_structured cfg && negb nk).
  - cbn [find_ref_kv]. rewrite Hc2 at 1. rewrite line_col_prefix.
    destruct (line_col_go pre_paren 1 1) as [l0 c0]. reflexivity.
  - cbn [node_start node_end]. rewrite Hm.
    rewrite Hc3 at 1. rewrite line_col_prefix. rewrite Hc3. rewrite (str_slice_mid pre_msg msg).
    destruct (line_col_go pre_msg 1 1) as [l0 c0]. reflexivity.
Qed.

(* ---- statements with a target argument and / or key-values ---- *)
Definition targ_text (o : option (targ * lay)) : list N :=
  match o with Some (t, lt) => (render_targ t ++ render_lay lt)%list | None => [] end.
Definition kv_text (o : option (kvcore * list (lay * kvcore) * lay * lay)) : list N :=
  match o with Some (k1, more, lsemi, lafter) => render_kvs k1 more lsemi (render_lay lafter) | None => [] end.

Lemma render_targpart_text o t : render_targpart o t = (targ_text o ++ t)%list.
Proof. destruct o as [[tg lt]|]; cbn [render_targpart targ_text]; [rewrite <- app_assoc|]; reflexivity. Qed.
Lemma render_kvpart_text o t : render_kvpart o t = (kv_text o ++ t)%list.
Proof.
  destruct o as [[[[k1 more] lsemi] lafter]|]; cbn [render_kvpart kv_text]; [|reflexivity].
  unfold render_kvs. rewrite render_more_app, <- app_assoc. reflexivity.
Qed.
Lemma blen_targ_text o : blen (targ_text o) = targpart_len o.
Proof. destruct o as [[tg lt]|]; cbn [targ_text targpart_len]; [rewrite blen_app|]; reflexivity. Qed.
Lemma blen_kv_text o : blen (kv_text o) = kvpart_len o.
Proof.
  destruct o as [[[[k1 more] lsemi] lafter]|]; cbn [kv_text kvpart_len]; [|reflexivity].
  unfold render_kvs. rewrite blen_app, blen_render_more. lia.
Qed.

(* the text a key node spans (pest keeps the layout after a one-character identifier) and the text a
   value node spans (it keeps the layout up to the delimiter) *)
Definition key_span_text (k : kvcore) : list N :=
  (render_ident (k_key k) ++ match ics (k_key k) with [] => render_lay (k_l1 k) | _ => [] end)%list.
Definition is_ref_kv (k : kvcore) : bool :=
  text_eqb (key_span_text k) (p_ref_key TP) && match k_val k with Some _ => true | None => false end.

(* the first key-value that holds a reference: (text before its value, text of the value's span) *)
Fixpoint ref_more (more : list (lay * kvcore)) (pre : list N) : option (list N * list N) :=
  match more with
  | [] => None
  | (ld, k) :: r =>
      let pre1 := (pre ++ render_lay ld)%list in
      match k_val k with
      | Some (le, v, lv) =>
          if text_eqb (key_span_text k) (p_ref_key TP)
          then Some ((pre1 ++ render_ident (k_key k) ++ render_lay (k_l1 k) ++ render_mod (k_mod k) ++ 61 :: render_lay le)%list,
                     value_span v lv)
          else ref_more r (pre1 ++ render_core k)
      | None => ref_more r (pre1 ++ render_core k)
      end
  end.

Lemma key_slice pre k rest :
  str_slice (pre ++ render_core k ++ rest)%list (blen pre) (id_end (k_key k) (k_l1 k) (blen pre)) = Some (key_span_text k).
Proof.
  unfold render_core, key_span_text, id_end, render_ident. destruct (ics (k_key k)) as [|c cs] eqn:E; cbn [rep_end].
  - replace (blen pre + cplen (i0 (k_key k)) + blen (render_lay (k_l1 k)))
      with (blen pre + blen ([i0 (k_key k)] ++ render_lay (k_l1 k))) by (rewrite blen_app; cbn [blen]; lia).
    rewrite <- (str_slice_mid pre ([i0 (k_key k)] ++ render_lay (k_l1 k))
                  ((render_mod (k_mod k) ++ render_val (k_val k) ++ render_comma (k_comma k)) ++ rest)).
    f_equal. cbn [app]. rewrite <- !app_assoc. reflexivity.
  - rewrite app_nil_r.
    replace (blen pre + cplen (i0 (k_key k)) + blen (c :: cs)) with (blen pre + blen (i0 (k_key k) :: c :: cs)) by (cbn [blen]; lia).
    rewrite <- (str_slice_mid pre (i0 (k_key k) :: c :: cs)
                  ((render_lay (k_l1 k) ++ render_mod (k_mod k) ++ render_val (k_val k) ++ render_comma (k_comma k)) ++ rest)).
    f_equal. cbn [app]. rewrite <- !app_assoc. reflexivity.
Qed.

Definition ref_rel (code : list N) (spec : option (list N * list N)) (res : option ptree) : Prop :=
  match spec, res with
  | Some (prev, vt), Some vs =>
      node_start vs = blen prev /\ node_end vs = blen prev + blen vt /\ exists post, code = (prev ++ vt ++ post)%list
  | None, None => True
  | _, _ => False
  end.

Lemma find_ref_more code lsemi tail : forall more pre,
  code = (pre ++ render_more more lsemi tail)%list ->
  exists res, find_ref_kv TP code (more_pairs more (blen pre)) = Done res /\ ref_rel code (ref_more more pre) res.
Proof.
  induction more as [|[ld k] r IH]; intros pre Hcode; cbn [ref_more more_pairs find_ref_kv].
  - exists None. split; [reflexivity|exact I].
  - assert (Hcode1 : code = ((pre ++ render_lay ld) ++ render_core k ++ render_more r lsemi tail)%list).
    { rewrite Hcode. cbn [render_more]. rewrite <- !app_assoc. reflexivity. }
    assert (Hcode2 : code = (((pre ++ render_lay ld) ++ render_core k) ++ render_more r lsemi tail)%list).
    { rewrite Hcode1, <- !app_assoc. reflexivity. }
    rewrite <- blen_app. unfold core_pair at 1. cbn [node_start node_end fst snd].
    assert (Hks : str_slice code (blen (pre ++ render_lay ld)%list) (id_end (k_key k) (k_l1 k) (blen (pre ++ render_lay ld)%list))
                  = Some (key_span_text k)) by (rewrite Hcode1; apply key_slice).
    rewrite Hks.
    specialize (IH ((pre ++ render_lay ld) ++ render_core k)%list Hcode2). rewrite blen_app in IH.
    destruct IH as (res & IH1 & IH2).
    destruct (k_val k) as [[[le v] lv]|] eqn:Ev.
    + destruct (text_eqb (key_span_text k) (p_ref_key TP)); [|exists res; split; assumption].
      eexists. split; [reflexivity|]. cbn [ref_rel node_start node_end].
      assert (Hstart : blen (pre ++ render_lay ld) + blen (render_ident (k_key k)) + blen (render_lay (k_l1 k)) +
                       blen (render_mod (k_mod k)) + 1 + blen (render_lay le)
                       = blen ((pre ++ render_lay ld) ++ render_ident (k_key k) ++ render_lay (k_l1 k) ++
                               render_mod (k_mod k) ++ 61 :: render_lay le)%list).
      { repeat (rewrite blen_app || (progress cbn [blen])). cbn [cplen N.ltb N.compare Pos.compare Pos.compare_cont]. lia. }
      split; [exact Hstart|split].
      * unfold value_end. rewrite Hstart. reflexivity.
      * rewrite Hcode1. unfold render_core. rewrite Ev. cbn [render_val]. unfold value_span.
        destruct (v_tl v); eexists; rewrite <- !app_assoc; cbn [app]; rewrite <- !app_assoc; reflexivity.
    + destruct (text_eqb (key_span_text k) (p_ref_key TP)); exists res; split; assumption.
Qed.

Definition cores_of (o : option (kvcore * list (lay * kvcore) * lay * lay)) : list (lay * kvcore) :=
  match o with Some (k1, more, _, _) => (no_lay, k1) :: more | None => [] end.

Definition stmt_stepA (cfg : config) (code pre : list N) (n : qname) (a : sargs) : step :=
  let nm := render_name n in
  let pre_paren := (pre ++ nm ++ [33])%list in
  let pre_pk := (pre_paren ++ 40 :: render_lay (a_l0 a) ++ targ_text (a_targ a))%list in   (* before the key-values *)
  let pre_msg := (pre_pk ++ kv_text (a_kvs a) ++ [34])%list in
  match directive_check TP (p_ignore TP) code (blen pre) (p_comment_re TP) with
  | None => StepPanic
  | Some true => Skip
  | Some false =>
      if negb (macro_of_interest nm cfg) then Skip else
      match (if cfg_structured cfg
             then directive_check TP (p_no_kvp TP) code (blen pre_paren) (p_comment_re TP)
             else Some true) with
      | None => StepPanic
      | Some nk =>
          if cfg_structured cfg && negb nk
          then match ref_more (cores_of (a_kvs a)) pre_pk with
               | Some (prev, vt) =>
                   Emit (mkEntry (blen prev) (fst (line_col_go prev 1 1)) (snd (line_col_go prev 1 1))
                                 (ref_value TP vt) (short_name nm) KStructuredPreExisting None None)
               | None =>
                   let sfx := Some (match a_kvs a with Some _ => nth 0 (p_suffixes TP) [] | None => nth 1 (p_suffixes TP) [] end) in
                   let pfx := Some (fst (p_fmt_prefix TP) ++ p_ref_key TP ++ snd (p_fmt_prefix TP))%list in
                   match a_targ a with
                   | Some _ => Emit (mkEntry (blen pre_pk) (fst (line_col_go pre_pk 1 1)) (snd (line_col_go pre_pk 1 1))
                                             None (short_name nm) KStructuredNew pfx sfx)
                   | None => Emit (mkEntry (blen pre_paren + 1) (fst (line_col_go pre_paren 1 1))
                                           (snd (line_col_go pre_paren 1 1) + 1) None (short_name nm) KStructuredNew pfx sfx)
                   end
               end
          else Emit (mkEntry (blen pre_msg)
                             (fst (line_col_go pre_msg 1 1)) (snd (line_col_go pre_msg 1 1))
                             (extract_reference TP (render_msg (a_msg a))) (short_name nm) KString None None)
      end
  end.

Lemma kv_wf_core k p : kv_wf (core_pair k p).
Proof. unfold kv_wf, core_pair. cbn [fst snd]. split; [reflexivity|]. destruct (k_val k) as [[[le v] lv]|]; [split; reflexivity|exact I]. Qed.

Lemma kv_wf_more : forall more p, Forall kv_wf (more_pairs more p).
Proof. induction more as [|[ld k] r IH]; intros p; cbn [more_pairs]; constructor; [apply kv_wf_core|apply IH]. Qed.

Lemma pairs_cores k1 more p : kvs_pairs k1 more p = more_pairs ((no_lay, k1) :: more) p.
Proof. unfold kvs_pairs. cbn [more_pairs]. change (blen (render_lay no_lay)) with 0. rewrite N.add_0_r. reflexivity. Qed.

Definition pairs_of (o : option (kvcore * list (lay * kvcore) * lay * lay)) (pk : N) : list (ptree * option ptree) :=
  more_pairs (cores_of o) pk.

Lemma args_kids_canon a p :
  let pt := p + 1 + blen (render_lay (a_l0 a)) in
  let pk := pt + targpart_len (a_targ a) in
  let q := pk + kvpart_len (a_kvs a) in
  let e := q + 1 + blen (render_msg (a_msg a)) + 1 in
  args_kids a p =
  canon_args (match a_targ a with Some (t, _) => Some (targ_node t pt) | None => None end)
             (pairs_of (a_kvs a) pk) pk
             (match a_kvs a with Some (k1, more, lsemi, _) => kvs_end k1 more lsemi pk | None => 0 end)
             q e (Node "string_value" (q + 1) (q + 1 + blen (render_msg (a_msg a))) []).
Proof.
  cbv zeta. unfold args_kids, canon_args, pairs_of.
  destruct (a_targ a) as [[t lt]|]; destruct (a_kvs a) as [[[[k1 more] lsemi] lafter]|]; cbn [cores_of];
    try rewrite <- pairs_cores; try reflexivity.
Qed.

Lemma one_macro_stmtA cfg pre n a tail :
  let code := (pre ++ render_item (IStmtA n a) ++ tail)%list in
  one_macro TP cfg code (stmtA_node n a (blen pre)) = stmt_stepA cfg code pre n a.
Proof.
  intros code. set (nm := render_name n). set (msg := render_msg (a_msg a)).
  set (pre_paren := (pre ++ nm ++ [33])%list).
  set (pre_pk := (pre_paren ++ 40 :: render_lay (a_l0 a) ++ targ_text (a_targ a))%list).
  set (pre_msg := (pre_pk ++ kv_text (a_kvs a) ++ [34])%list).
  set (m := msg_lit (a_msg a) tail).
  assert (Hc1 : code = (pre ++ nm ++ (33 :: render_args a tail))%list).
  { unfold code. rewrite stmtA_app. reflexivity. }
  assert (Hc2 : code = (pre_paren ++ render_args a tail)%list).
  { rewrite Hc1. unfold pre_paren. rewrite <- !app_assoc. reflexivity. }
  assert (Hc3 : code = (pre_pk ++ render_kvpart (a_kvs a) m)%list).
  { rewrite Hc2. unfold pre_pk, render_args. fold m. rewrite render_targpart_text. rewrite <- !app_assoc. cbn [app].
    rewrite <- !app_assoc. reflexivity. }
  assert (Hc4 : code = (pre_msg ++ msg ++ 34 :: tail)%list).
  { rewrite Hc3. unfold pre_msg. rewrite render_kvpart_text. unfold m, msg_lit. rewrite <- !app_assoc. reflexivity. }
  set (a0 := blen pre + blen nm + 1).
  assert (Hp : a0 = blen pre_paren).
  { unfold a0, pre_paren. rewrite !blen_app. cbn [blen cplen N.ltb N.compare Pos.compare Pos.compare_cont]. lia. }
  set (pt := a0 + 1 + blen (render_lay (a_l0 a))). set (pk := pt + targpart_len (a_targ a)).
  set (q := pk + kvpart_len (a_kvs a)).
  assert (Hpk : pk = blen pre_pk).
  { unfold pk, pt, pre_pk. rewrite blen_app. cbn [blen]. rewrite blen_app, blen_targ_text, <- Hp.
    cbn [cplen N.ltb N.compare Pos.compare Pos.compare_cont]. lia. }
  assert (Hq : q + 1 = blen pre_msg).
  { unfold q, pre_msg. rewrite !blen_app, blen_kv_text, <- Hpk. cbn [blen cplen N.ltb N.compare Pos.compare Pos.compare_cont]. lia. }
  unfold stmtA_node, one_macro, stmt_stepA. fold nm msg pre_paren pre_pk pre_msg a0.
  cbn [node_kids is_rule node_rule node_start node_end String.eqb Ascii.eqb Bool.eqb negb].
  destruct (directive_check TP (p_ignore TP) code (blen pre) (p_comment_re TP)) as [[|]|]; [reflexivity| |reflexivity].
  rewrite Hc1 at 1. rewrite (str_slice_mid pre nm). destruct (macro_of_interest nm cfg); [|reflexivity]. cbn [negb].
  pose proof (args_kids_canon a a0) as Hk. cbv zeta in Hk. fold pt pk q in Hk. rewrite Hk.
  rewrite scan_args_canon;
    [|destruct (a_targ a) as [[t lt]|]; [reflexivity|exact I]|apply kv_wf_more].
  cbn [sc_msg sc_kvs sc_target sc_after_target]. rewrite Hp.
  destruct (if cfg_structured cfg then directive_check TP (p_no_kvp TP) code (blen pre_paren) (p_comment_re TP) else Some true)
    as [nk|]; [|reflexivity].
  destruct (cfg_structured cfg && negb nk).
  - (* structured *)
    assert (Hfind : exists res, find_ref_kv TP code (pairs_of (a_kvs a) pk) = Done res /\
                                ref_rel code (ref_more (cores_of (a_kvs a)) pre_pk) res).
    { unfold pairs_of. rewrite Hpk.
      destruct (a_kvs a) as [[[[k1 more] lsemi] lafter]|] eqn:Ek; cbn [cores_of].
      - apply (find_ref_more code lsemi (render_lay lafter ++ m)%list ((no_lay, k1) :: more) pre_pk).
        rewrite Hc3. cbn [render_kvpart render_more]. reflexivity.
      - exists None. split; [reflexivity|exact I]. }
    destruct Hfind as (res & Hf & Hrel). rewrite Hf.
    destruct (ref_more (cores_of (a_kvs a)) pre_pk) as [[prev vt]|]; destruct res as [vs|]; cbn [ref_rel] in Hrel; try contradiction.
    + destruct Hrel as (Hs & He & post & Hcode). rewrite Hs, He.
      rewrite Hcode at 1. rewrite line_col_prefix. rewrite Hcode. rewrite (str_slice_mid prev vt post).
      destruct (line_col_go prev 1 1) as [l0 c0]. reflexivity.
    + destruct (a_targ a) as [[t lt]|] eqn:Et.
      * assert (Hfa : first_after_target (pairs_of (a_kvs a) pk) pk q = blen pre_pk).
        { unfold first_after_target, pairs_of, q. destruct (a_kvs a) as [[[[k1 more] lsemi] lafter]|]; cbn [cores_of more_pairs kvpart_len].
          - exact Hpk.
          - rewrite N.add_0_r. exact Hpk. }
        rewrite Hfa. rewrite Hc3 at 1. rewrite line_col_prefix.
        destruct (line_col_go pre_pk 1 1) as [l0 c0]. cbn [fst snd].
        unfold pairs_of. destruct (a_kvs a) as [[[[k1 more] lsemi] lafter]|]; reflexivity.
      * rewrite Hc2 at 1. rewrite line_col_prefix. destruct (line_col_go pre_paren 1 1) as [l0 c0]. cbn [fst snd].
        unfold pairs_of. destruct (a_kvs a) as [[[[k1 more] lsemi] lafter]|]; reflexivity.
  - cbn [node_start node_end]. rewrite Hq.
    rewrite Hc4 at 1. rewrite line_col_prefix. rewrite Hc4. rewrite (str_slice_mid pre_msg msg).
    destruct (line_col_go pre_msg 1 1) as [l0 c0]. reflexivity.
Qed.

(* the entries the property texts demand for a canonical file *)
Definition step_entries (s : step) : list entry := match s with Emit e => [e] | _ => [] end.

Fixpoint expected (cfg : config) (code : list N) (its : list (lay * item)) (pre : list N) : list entry :=
  match its with
  | [] => []
  | (l, it) :: r =>
      let pre1 := (pre ++ render_lay l)%list in
      (match it with
       | IStmt n l1 us => step_entries (stmt_step cfg code pre1 n l1 us)
       | IStmtA n a => step_entries (stmt_stepA cfg code pre1 n a)
       | _ => []
       end ++ expected cfg code r (pre1 ++ render_item it))%list
  end.

Lemma collect_items cfg code fin eoi : forall its pre acc es,
  code = (pre ++ render_items its fin)%list ->
  collect TP cfg code (nodes its (blen pre) ++ [Node "EOI" eoi eoi []]) acc = Done es ->
  es = (rev acc ++ expected cfg code its pre)%list.
Proof.
  induction its as [|[l it] r IH]; intros pre acc es Hcode H.
  - cbn [nodes app collect is_rule node_rule String.eqb Ascii.eqb Bool.eqb orb] in H.
    inversion H. cbn [expected]. rewrite app_nil_r. reflexivity.
  - cbn [nodes expected] in *. rewrite <- blen_app in H.
    assert (Hcode' : code = ((pre ++ render_lay l) ++ render_item it ++ render_items r fin)%list).
    { rewrite Hcode. cbn [render_items]. rewrite <- !app_assoc. reflexivity. }
    assert (Hcode'' : code = (((pre ++ render_lay l) ++ render_item it) ++ render_items r fin)%list).
    { rewrite Hcode'. rewrite <- !app_assoc. reflexivity. }
    rewrite <- blen_app in H.
    destruct it as [n l1 us|n a|n|c]; cbn [item_nodes app] in H.
    + cbn [collect] in H. replace (is_rule (stmt_node n l1 us (blen (pre ++ render_lay l)%list)) "log_macro") with true in H by reflexivity.
      pose proof (one_macro_stmt cfg (pre ++ render_lay l)%list n l1 us (render_items r fin)) as Hone.
      cbv zeta in Hone. rewrite <- Hcode' in Hone. rewrite Hone in H.
      destruct (stmt_step cfg code (pre ++ render_lay l)%list n l1 us) as [|e|]; cbn [step_entries app].
      * apply (IH _ _ _ Hcode'' H).
      * rewrite (IH _ _ _ Hcode'' H). cbn [rev]. rewrite <- app_assoc. reflexivity.
      * discriminate.
    + cbn [collect] in H. replace (is_rule (stmtA_node n a (blen (pre ++ render_lay l)%list)) "log_macro") with true in H by reflexivity.
      pose proof (one_macro_stmtA cfg (pre ++ render_lay l)%list n a (render_items r fin)) as Hone.
      cbv zeta in Hone. rewrite <- Hcode' in Hone. rewrite Hone in H.
      destruct (stmt_stepA cfg code (pre ++ render_lay l)%list n a) as [|e|]; cbn [step_entries app].
      * apply (IH _ _ _ Hcode'' H).
      * rewrite (IH _ _ _ Hcode'' H). cbn [rev]. rewrite <- app_assoc. reflexivity.
      * discriminate.
    + cbn [collect is_rule node_rule String.eqb Ascii.eqb Bool.eqb orb] in H. apply (IH _ _ _ Hcode'' H).
    + apply (IH _ _ _ Hcode'' H).
Qed.

(* THE FINDER on every canonical file, every configuration, both styles *)
Theorem find_canonical cfg its fin :
  items_ok its fin ->
  let code := render_items its fin in
  find cfg code = Done (expected cfg code its []).
Proof.
  intros Hok code.
  assert (Hgok : grammar_ok TP "file" RNormal false
                   (ESeq ESoi (ESeq (ERep (EChoice r_log_macro (EChoice r_other_name EAny))) EEoi))).
  { unfold grammar_ok. cbn [p_file the_params p_ws p_comment]. unfold g_file, r_file.
    split; [reflexivity|]. split; [reflexivity|]. split; [vm_compute; reflexivity|]. split; vm_compute; reflexivity. }
  destruct (entries_total TP _ _ _ _ Hgok cfg code) as (es & Hes & _).
  unfold find. rewrite Hes. unfold entries in Hes. cbn [p_U p_ws p_comment p_file the_params] in Hes.
  pose proof (file_parse its fin Hok) as Hp. cbv zeta in Hp. unfold parse_file in Hp. fold code in Hp.
  rewrite Hp in Hes. cbn [node_kids] in Hes.
  change 0 with (blen []) in Hes at 1.
  rewrite (collect_items cfg code fin (blen code) its [] [] es eq_refl Hes). reflexivity.
Qed.

(* only statements with a configured name contribute: names, other characters, comments, statements of
   other macros never do *)
Lemma stmt_step_unconfigured cfg code pre n l us :
  macro_of_interest (render_name n) cfg = false -> step_entries (stmt_step cfg code pre n l us) = [].
Proof.
  intros H. unfold stmt_step. rewrite H.
  destruct (directive_check TP (p_ignore TP) code (blen pre) (p_comment_re TP)) as [[|]|]; reflexivity.
Qed.

Lemma stmt_stepA_unconfigured cfg code pre n a :
  macro_of_interest (render_name n) cfg = false -> step_entries (stmt_stepA cfg code pre n a) = [].
Proof.
  intros H. unfold stmt_stepA. rewrite H.
  destruct (directive_check TP (p_ignore TP) code (blen pre) (p_comment_re TP)) as [[|]|]; reflexivity.
Qed.

(* the name of a statement item *)
Definition stmt_name (it : item) : option qname :=
  match it with IStmt n _ _ => Some n | IStmtA n _ => Some n | _ => None end.

Lemma expected_none cfg code : forall its pre,
  (forall l it n, In (l, it) its -> stmt_name it = Some n -> macro_of_interest (render_name n) cfg = false) ->
  expected cfg code its pre = [].
Proof.
  induction its as [|[l it] r IH]; intros pre H; cbn [expected]; [reflexivity|].
  rewrite IH by (intros; eapply H; [right|]; eauto). rewrite app_nil_r.
  destruct it as [n l1 us|n a| |]; try reflexivity.
  - apply stmt_step_unconfigured. eapply H; [left; reflexivity|reflexivity].
  - apply stmt_stepA_unconfigured. eapply H; [left; reflexivity|reflexivity].
Qed.

(* an ignore directive in force: no entry for that statement *)
Lemma stmt_step_ignored cfg code pre n l us :
  directive_check TP (p_ignore TP) code (blen pre) (p_comment_re TP) = Some true ->
  stmt_step cfg code pre n l us = Skip.
Proof. intros H. unfold stmt_step. rewrite H. reflexivity. Qed.

Lemma stmt_stepA_ignored cfg code pre n a :
  directive_check TP (p_ignore TP) code (blen pre) (p_comment_re TP) = Some true ->
  stmt_stepA cfg code pre n a = Skip.
Proof. intros H. unfold stmt_stepA. rewrite H. reflexivity. Qed.

Theorem find_canonical_none cfg its fin :
  items_ok its fin ->
  (forall l it n, In (l, it) its -> stmt_name it = Some n -> macro_of_interest (render_name n) cfg = false) ->
  find cfg (render_items its fin) = Done [].
Proof.
  intros Hok Hnone. pose proof (find_canonical cfg its fin Hok) as H. cbv zeta in H.
  rewrite H. rewrite (expected_none cfg _ its [] Hnone). reflexivity.
Qed.

Theorem find_canonical_only_statements cfg its fin :
  items_ok its fin ->
  let code := render_items its fin in
  find cfg code = Done (expected cfg code its []) /\
  (forall pre n l us, macro_of_interest (render_name n) cfg = false -> step_entries (stmt_step cfg code pre n l us) = []) /\
  (forall pre n a, macro_of_interest (render_name n) cfg = false -> step_entries (stmt_stepA cfg code pre n a) = []) /\
  (forall pre n l us, directive_check TP (p_ignore TP) code (blen pre) (p_comment_re TP) = Some true ->
                      stmt_step cfg code pre n l us = Skip) /\
  (forall pre n a, directive_check TP (p_ignore TP) code (blen pre) (p_comment_re TP) = Some true ->
                   stmt_stepA cfg code pre n a = Skip).
Proof.
  intros Hok code. split; [exact (find_canonical cfg its fin Hok)|]. repeat split; intros.
  - apply stmt_step_unconfigured. assumption.
  - apply stmt_stepA_unconfigured. assumption.
  - apply stmt_step_ignored. assumption.
  - apply stmt_stepA_ignored. assumption.
Qed.

(* structured style, statement not ignored and not under a no-kvp directive: spelled out *)
Theorem stmt_stepA_structured cfg code pre n a :
  let nm := render_name n in
  let pre_paren := (pre ++ nm ++ [33])%list in
  let pre_pk := (pre_paren ++ 40 :: render_lay (a_l0 a) ++ targ_text (a_targ a))%list in
  cfg_structured cfg = true -> macro_of_interest nm cfg = true ->
  directive_check TP (p_ignore TP) code (blen pre) (p_comment_re TP) = Some false ->
  directive_check TP (p_no_kvp TP) code (blen pre_paren) (p_comment_re TP) = Some false ->
  stmt_stepA cfg code pre n a =
  match ref_more (cores_of (a_kvs a)) pre_pk with
  | Some (prev, vt) =>
      (* the first key-value with key `ref` and a value: the entry is AT that value, whose text, trimmed,
         is read as the reference (None = not an integer: unusable, never "missing") *)
      Emit (mkEntry (blen prev) (fst (line_col_go prev 1 1)) (snd (line_col_go prev 1 1))
                    (ref_value TP vt) (short_name nm) KStructuredPreExisting None None)
  | None =>
      let sfx := Some (match a_kvs a with Some _ => nth 0 (p_suffixes TP) [] | None => nth 1 (p_suffixes TP) [] end) in
      let pfx := Some (fst (p_fmt_prefix TP) ++ p_ref_key TP ++ snd (p_fmt_prefix TP))%list in
      match a_targ a with
      | Some _ => Emit (mkEntry (blen pre_pk) (fst (line_col_go pre_pk 1 1)) (snd (line_col_go pre_pk 1 1))
                                None (short_name nm) KStructuredNew pfx sfx)
      | None => Emit (mkEntry (blen pre_paren + 1) (fst (line_col_go pre_paren 1 1))
                              (snd (line_col_go pre_paren 1 1) + 1) None (short_name nm) KStructuredNew pfx sfx)
      end
  end.
Proof.
  intros nm pre_paren pre_pk Hs Hm Hi Hn. unfold stmt_stepA. fold nm pre_paren pre_pk.
  rewrite Hi, Hm, Hs, Hn. reflexivity.
Qed.

(* message style, or a no-kvp directive: the entry is at the first character of the message value
   whatever target and key-values precede it *)
Theorem stmt_stepA_message cfg code pre n a :
  let nm := render_name n in
  let pre_paren := (pre ++ nm ++ [33])%list in
  let pre_msg := (pre_paren ++ 40 :: render_lay (a_l0 a) ++ targ_text (a_targ a) ++ kv_text (a_kvs a) ++ [34])%list in
  (cfg_structured cfg = false \/
   directive_check TP (p_no_kvp TP) code (blen pre_paren) (p_comment_re TP) = Some true) ->
  macro_of_interest nm cfg = true ->
  directive_check TP (p_ignore TP) code (blen pre) (p_comment_re TP) = Some false ->
  stmt_stepA cfg code pre n a =
  Emit (mkEntry (blen pre_msg) (fst (line_col_go pre_msg 1 1)) (snd (line_col_go pre_msg 1 1))
                (extract_reference TP (render_msg (a_msg a))) (short_name nm) KString None None).
Proof.
  intros nm pre_paren pre_msg Hmode Hm Hi. unfold stmt_stepA. fold nm pre_paren.
  rewrite Hi, Hm. cbn [negb].
  assert (Hpm : ((pre_paren ++ 40 :: render_lay (a_l0 a) ++ targ_text (a_targ a)) ++ kv_text (a_kvs a) ++ [34])%list = pre_msg).
  { unfold pre_msg. rewrite <- !app_assoc. cbn [app]. rewrite <- !app_assoc. reflexivity. }
  destruct Hmode as [Hs|Hd].
  - rewrite Hs. cbn [andb]. rewrite Hpm. reflexivity.
  - destruct (cfg_structured cfg); [rewrite Hd|]; cbn [negb andb]; rewrite Hpm; reflexivity.
Qed.

(* the key `ref` is recognised by the key's own text: the layout pest leaves inside the span of a
   one-character key never makes a difference *)
Lemma key_is_ref k tail :
  lay_ok (k_l1 k) tail ->
  text_eqb (key_span_text k) (p_ref_key TP) = text_eqb (render_ident (k_key k)) (p_ref_key TP).
Proof.
  intros [Hw Hg]. unfold key_span_text. destruct (ics (k_key k)) as [|c cs] eqn:E; [|rewrite app_nil_r; reflexivity].
  unfold render_ident. rewrite E. change (p_ref_key TP) with [114; 101; 102].
  cbn [app text_eqb]. destruct (i0 (k_key k) =? 114); [|reflexivity]. cbn [andb].
  unfold render_lay. destruct (fst (k_l1 k)) as [|w ws].
  - cbn [app]. destruct (snd (k_l1 k)) as [|[cm ws'] r]; [reflexivity|]. cbn [render_groups].
    destruct cm; reflexivity.
  - cbn [app forallb] in *. apply andb_true_iff in Hw. destruct Hw as [Hw _].
    cbn [text_eqb]. destruct (N.eqb_spec w 101) as [->|]; [vm_compute in Hw; discriminate|reflexivity].
Qed.
