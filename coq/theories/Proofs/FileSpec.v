(* FileSpec.v -- the parser specification theorem for a canonical FILE language, against the
   GENERATED grammar: a file is any sequence of items, each preceded by any layout (whitespace and
   comments of both kinds with arbitrary text), where an item is
     - a statement  <name> !( <layout> "<message>"   with a simple or module-qualified name,
     - a name (identifier or path) that does not start a statement,
     - any other single character,
   followed by a final layout.  For every such file the parse tree is computed in closed form
   (file_parse), and from it the finder's result for every configuration in both styles
   (find_canonical): exactly the statements with a configured name and no ignore directive, each at
   the place the property texts demand. *)
From Coq Require Import List Arith NArith Bool Lia String.
From Breadlog Require Import Model.Peg Model.Text Model.Regex Model.Glue Model.Tables.
From Breadlog Require Import Gen.Grammar.
From Breadlog Require Import Proofs.PegFacts Proofs.TokenFacts Proofs.GlueFacts Proofs.RuleLemmas Proofs.GlueSpec
     Proofs.StatementLemmas.
Import ListNotations.
Open Scope N_scope.

Arguments run : simpl never.

(* ------------------------------------------------------------------------------------------ *)
(* names: c0 ("::")? (d ("::")?)*                                                               *)
(* ------------------------------------------------------------------------------------------ *)
Definition sepr (s : bool) : list N := if s then [58; 58] else [].

Fixpoint render_units (us : list (N * bool)) : list N :=
  match us with
  | [] => []
  | (d, s) :: r => (d :: sepr s ++ render_units r)%list
  end.

Record qname := mkQ { q0 : N; qs0 : bool; qus : list (N * bool) }.

Definition render_name (n : qname) : list N := (q0 n :: sepr (qs0 n) ++ render_units (qus n))%list.

Definition units_ok (us : list (N * bool)) : bool := forallb (fun u => Utab XidContinue (fst u)) us.
Definition qname_ok (n : qname) : bool := name_start_ok (q0 n) && units_ok (qus n).

Lemma no_sep_units us rst : units_ok us = true -> name_end rst -> no_sep_ahead (render_units us ++ rst)%list.
Proof.
  intros Hus Hend. destruct us as [|[d s] r]; [exact (proj2 Hend)|].
  cbn [units_ok forallb fst] in Hus. apply andb_true_iff in Hus. cbn [render_units app].
  apply no_sep_continue. tauto.
Qed.

Lemma cont_step_hit_sep sk d t p :
  Utab XidContinue d = true ->
  rep_step Utab sk cont_body Atomic false (mkIn (d :: 58 :: 58 :: t) p) = Ok (mkIn t (p + cplen d + 2)) [].
Proof.
  intros Hd. unfold rep_step, cont_body. cbn [do_skip]. rewrite run_seq.
  change (run Utab sk (EClass XidContinue) Atomic false (mkIn (d :: 58 :: 58 :: t) p))
    with (if Utab XidContinue d then Ok (mkIn (58 :: 58 :: t) (p + cplen d)) [] else Fail).
  rewrite Hd. cbn [do_skip]. rewrite run_opt, run_str. reflexivity.
Qed.

Lemma blen_sepr s : blen (sepr s) = if s then 2 else 0.
Proof. destruct s; reflexivity. Qed.

Lemma units_loop sk : forall us rst p fuel acc,
  units_ok us = true -> name_end rst ->
  (List.length (render_units us ++ rst) < List.length fuel)%nat ->
  rep_loop (rep_step Utab sk cont_body Atomic false) fuel (mkIn (render_units us ++ rst)%list p) acc
  = Ok (mkIn rst (p + blen (render_units us))) acc.
Proof.
  induction us as [|[d s] us IH]; intros rst p fuel acc Hus Hend Hlen.
  - cbn [render_units app blen]. destruct fuel as [|x fuel]; [cbn in Hlen; lia|]. cbn [rep_loop].
    rewrite cont_step_miss by exact (proj1 Hend). rewrite N.add_0_r. reflexivity.
  - cbn [units_ok forallb fst] in Hus. apply andb_true_iff in Hus. destruct Hus as [Hd Hus].
    destruct fuel as [|x fuel]; [cbn in Hlen; lia|]. cbn [rep_loop render_units]. pose proof (cplen_pos d) as Hc.
    destruct s; cbn [sepr app].
    + rewrite cont_step_hit_sep by exact Hd. cbn [pos].
      destruct (N.ltb_spec p (p + cplen d + 2)) as [_|]; [|lia]. rewrite app_nil_r.
      rewrite IH; [|exact Hus|exact Hend|cbn [render_units sepr List.length app] in Hlen |- *; lia].
      f_equal. f_equal. cbn [blen cplen N.ltb N.compare Pos.compare Pos.compare_cont]. lia.
    + rewrite cont_step_hit; [|exact Hd|apply no_sep_units; assumption]. cbn [pos].
      destruct (N.ltb_spec p (p + cplen d)) as [_|]; [|lia]. rewrite app_nil_r.
      rewrite IH; [|exact Hus|exact Hend|cbn [render_units sepr List.length app] in Hlen |- *; lia].
      f_equal. f_equal. cbn [blen]. lia.
Qed.

Lemma first_char_ok sk c0 t p :
  name_start_ok c0 = true ->
  match run Utab sk (EClass XidStart) Atomic false (mkIn (c0 :: t) p) with
  | Fail => run Utab sk (EStr [95]) Atomic false (mkIn (c0 :: t) p)
  | r => r
  end = Ok (mkIn t (p + cplen c0)) [].
Proof.
  intros H0.
  change (run Utab sk (EClass XidStart) Atomic false (mkIn (c0 :: t) p))
    with (if Utab XidStart c0 then Ok (mkIn t (p + cplen c0)) [] else Fail).
  unfold name_start_ok in H0. destruct (Utab XidStart c0); [reflexivity|].
  cbn [orb] in H0. apply N.eqb_eq in H0. subst c0. reflexivity.
Qed.

Lemma first_char_bad sk c t p :
  name_start_ok c = false ->
  match run Utab sk (EClass XidStart) Atomic false (mkIn (c :: t) p) with
  | Fail => run Utab sk (EStr [95]) Atomic false (mkIn (c :: t) p)
  | r => r
  end = Fail.
Proof.
  intros H0.
  change (run Utab sk (EClass XidStart) Atomic false (mkIn (c :: t) p))
    with (if Utab XidStart c then Ok (mkIn t (p + cplen c)) [] else Fail).
  unfold name_start_ok in H0. apply orb_false_iff in H0. destruct H0 as [H1 H2]. rewrite H1.
  rewrite run_str. cbn [Peg.rest strip_prefix]. rewrite N.eqb_sym, H2. reflexivity.
Qed.

(* the body of macro_name, run atomically, on a name followed by something that ends it *)
Definition name_body : expr :=
  ESeq (EChoice (EClass XidStart) (EStr [95])) (ESeq (EOpt (EStr [58; 58])) (ERep cont_body)).

Lemma name_body_spec sk n rst p :
  qname_ok n = true -> name_end rst ->
  run Utab sk name_body Atomic false (mkIn (render_name n ++ rst)%list p)
  = Ok (mkIn rst (p + blen (render_name n))) [].
Proof.
  intros Hn Hend. unfold qname_ok in Hn. apply andb_true_iff in Hn. destruct Hn as [H0 Hus].
  destruct n as [c0 s0 us]. cbn [q0 qs0 qus] in *. unfold render_name. cbn [q0 qs0 qus app].
  unfold name_body. rewrite run_seq, run_choice. rewrite <- app_assoc.
  rewrite (first_char_ok sk c0 _ p H0). cbn [do_skip]. rewrite run_seq, run_opt, run_str. cbn [Peg.rest pos].
  pose proof (cplen_pos c0) as Hc0.
  assert (Hrep : forall p1, run Utab sk (ERep cont_body) Atomic false (mkIn (render_units us ++ rst)%list p1)
                            = Ok (mkIn rst (p1 + blen (render_units us))) []).
  { intros p1. rewrite run_rep. destruct us as [|[d s] us2].
    - cbn [render_units app]. pose proof (cont_step_miss sk rst p1 (proj1 Hend)) as Hm.
      unfold rep_step in Hm. cbn [do_skip] in Hm. rewrite Hm. cbn [blen]. rewrite N.add_0_r. reflexivity.
    - cbn [units_ok forallb fst] in Hus. apply andb_true_iff in Hus. destruct Hus as [Hd Hus2].
      pose proof (cplen_pos d) as Hc. cbn [render_units app]. destruct s; cbn [sepr app].
      + pose proof (cont_step_hit_sep sk d (render_units us2 ++ rst)%list p1 Hd) as Hh.
        unfold rep_step in Hh. cbn [do_skip] in Hh. rewrite Hh. cbn [pos Peg.rest].
        destruct (N.ltb_spec p1 (p1 + cplen d + 2)) as [_|]; [|lia].
        rewrite units_loop; [|exact Hus2|exact Hend|cbn [List.length]; lia].
        f_equal. f_equal. cbn [blen cplen N.ltb N.compare Pos.compare Pos.compare_cont]. lia.
      + pose proof (cont_step_hit sk d (render_units us2 ++ rst)%list p1 Hd (no_sep_units _ _ Hus2 Hend)) as Hh.
        unfold rep_step in Hh. cbn [do_skip] in Hh. rewrite Hh. cbn [pos Peg.rest].
        destruct (N.ltb_spec p1 (p1 + cplen d)) as [_|]; [|lia].
        rewrite units_loop; [|exact Hus2|exact Hend|cbn [List.length]; lia].
        f_equal. f_equal. cbn [blen]. lia. }
  destruct s0; cbn [sepr app].
  - cbn [strip_prefix N.eqb Pos.eqb do_skip]. rewrite Hrep. cbn [app]. f_equal. f_equal. cbn [blen pos].
    cbn [blen cplen N.ltb N.compare Pos.compare Pos.compare_cont]. lia.
  - rewrite (no_sep_strip _ (no_sep_units us rst Hus Hend)). cbn [do_skip]. rewrite Hrep. cbn [app]. f_equal.
    f_equal. cbn [blen]. lia.
Qed.

Lemma name_body_miss sk c t p :
  name_start_ok c = false -> run Utab sk name_body Atomic false (mkIn (c :: t) p) = Fail.
Proof. intros H. unfold name_body. rewrite run_seq, run_choice, (first_char_bad sk c t p H). reflexivity. Qed.

Lemma name_body_eof sk p : run Utab sk name_body Atomic false (mkIn [] p) = Fail.
Proof. reflexivity. Qed.

Lemma r_macro_name_unfold : r_macro_name = ERule "macro_name" RAtomic false name_body.
Proof. reflexivity. Qed.

Lemma macro_name_q sk a n rst p :
  qname_ok n = true -> name_end rst ->
  run Utab sk r_macro_name a false (mkIn (render_name n ++ rst)%list p)
  = Ok (mkIn rst (p + blen (render_name n)))
       (match a with Atomic => [] | _ => [Node "macro_name" p (p + blen (render_name n)) []] end).
Proof.
  intros Hn Hend. rewrite r_macro_name_unfold, run_rule. cbn [inner_atomicity].
  rewrite (name_body_spec sk n rst p Hn Hend). cbn [pos]. destruct a; reflexivity.
Qed.

Lemma macro_name_miss sk a c t p :
  name_start_ok c = false -> run Utab sk r_macro_name a false (mkIn (c :: t) p) = Fail.
Proof. intros H. rewrite r_macro_name_unfold, run_rule. cbn [inner_atomicity]. rewrite (name_body_miss sk c t p H). reflexivity. Qed.

(* ------------------------------------------------------------------------------------------ *)
(* the canonical file language                                                                 *)
(* ------------------------------------------------------------------------------------------ *)
Definition lay := (list N * list (cmt * list N))%type.
Definition render_lay (l : lay) : list N := (fst l ++ render_groups (snd l))%list.
Definition lay_ok (l : lay) (tail : list N) : Prop :=
  forallb is_ws_char (fst l) = true /\ groups_ok (snd l) tail.

Inductive item :=
| IStmt (n : qname) (l : lay) (us : list munit)     (* name !( layout "message"   *)
| IName (n : qname)                                  (* a name that starts no statement *)
| IChar (c : N).                                     (* any other character *)

Definition render_item (it : item) : list N :=
  match it with
  | IStmt n l us => (render_name n ++ 33 :: 40 :: render_lay l ++ 34 :: render_msg us ++ [34])%list
  | IName n => render_name n
  | IChar c => [c]
  end.

Fixpoint render_items (its : list (lay * item)) (fin : lay) : list N :=
  match its with
  | [] => render_lay fin
  | (l, it) :: r => (render_lay l ++ render_item it ++ render_items r fin)%list
  end.

(* the first character of code (after the leading layout) *)
Definition first_code (its : list (lay * item)) : option N :=
  match its with [] => None | (_, it) :: _ => hd_error (render_item it) end.

(* a name is not followed by "!" "(" (with any layout in between): it does not begin a macro call
   with a bracket.  (A macro call with "(" whose arguments do not begin with a string literal, such
   as assert!(a > b), is outside this language.) *)
Definition not_a_call (r : list (lay * item)) : Prop :=
  match r with
  | (_, IChar 33) :: r2 => first_code r2 <> Some 40
  | _ => True
  end.

Definition item_ok (it : item) (r : list (lay * item)) (fin : lay) : Prop :=
  let tail := render_items r fin in
  match it with
  | IStmt n l us => qname_ok n = true /\ lay_ok l (34 :: render_msg us ++ 34 :: tail)%list /\ forallb munit_ok us = true
  | IName n => qname_ok n = true /\ name_end tail /\ not_a_call r
  | IChar c => is_ws_char c = false /\ name_start_ok c = false /\ no_comment_ahead (c :: tail)
  end.

Fixpoint items_ok (its : list (lay * item)) (fin : lay) : Prop :=
  match its with
  | [] => lay_ok fin []
  | (l, it) :: r =>
      lay_ok l (render_item it ++ render_items r fin)%list /\ item_ok it r fin /\ items_ok r fin
  end.

(* ---- the parse tree ---- *)
Definition stmt_node (n : qname) (l : lay) (us : list munit) (p : N) : ptree :=
  let nm := render_name n in
  let a0 := p + blen nm + 1 in
  let q := a0 + 1 + blen (render_lay l) in
  let e := q + 1 + blen (render_msg us) + 1 in
  Node "log_macro" p e
    [Node "macro_name" p (p + blen nm) [];
     Node "macro_args" a0 e [Node "string_literal" q e [Node "string_value" (q + 1) (q + 1 + blen (render_msg us)) []]]].

Definition item_nodes (it : item) (p : N) : list ptree :=
  match it with
  | IStmt n l us => [stmt_node n l us p]
  | IName n => [Node "other_name" p (p + blen (render_name n)) []]
  | IChar _ => []
  end.

Fixpoint nodes (its : list (lay * item)) (p : N) : list ptree :=
  match its with
  | [] => []
  | (l, it) :: r =>
      let p1 := p + blen (render_lay l) in
      (item_nodes it p1 ++ nodes r (p1 + blen (render_item it)))%list
  end.

Fixpoint span (its : list (lay * item)) : N :=
  match its with
  | [] => 0
  | (l, it) :: r => blen (render_lay l) + blen (render_item it) + span r
  end.

(* ---- basic facts ---- *)
Lemma render_name_cons n : render_name n = (q0 n :: (sepr (qs0 n) ++ render_units (qus n)))%list.
Proof. reflexivity. Qed.

Lemma qname_start n : qname_ok n = true -> name_start_ok (q0 n) = true.
Proof. unfold qname_ok. intros H. apply andb_true_iff in H. tauto. Qed.

Lemma blen_item_pos it : 1 <= blen (render_item it).
Proof.
  destruct it as [n l us|n|c]; cbn [render_item]; try rewrite render_name_cons; cbn [app blen];
    match goal with |- context [cplen ?c] => pose proof (cplen_pos c) end; lia.
Qed.

Lemma length_item_pos it : (1 <= List.length (render_item it))%nat.
Proof.
  destruct it as [n l us|n|c]; cbn [render_item]; try rewrite render_name_cons; cbn [app List.length]; lia.
Qed.

Lemma item_code_ahead it r fin : item_ok it r fin -> code_ahead (render_item it ++ render_items r fin)%list.
Proof.
  destruct it as [n l us|n|c]; cbn [item_ok render_item].
  - intros (Hn & _). rewrite render_name_cons. cbn [app]. apply (name_start_not_layout _ (qname_start n Hn)).
  - intros (Hn & _). rewrite render_name_cons. cbn [app]. apply (name_start_not_layout _ (qname_start n Hn)).
  - intros (Hw & Hs & Hc). cbn [app]. split; [exact Hw|exact Hc].
Qed.

Lemma code_ahead_nil : code_ahead [].
Proof. split; exact I. Qed.

(* the implicit skip in front of the next item (or of the end of the file) *)
Definition code_of (its : list (lay * item)) (fin : lay) : list N :=
  match its with [] => [] | (_, it) :: r => (render_item it ++ render_items r fin)%list end.
Definition lead (its : list (lay * item)) (fin : lay) : lay :=
  match its with [] => fin | (l, _) :: _ => l end.

Lemma render_items_lead its fin : render_items its fin = (render_lay (lead its fin) ++ code_of its fin)%list.
Proof. destruct its as [|[l it] r]; cbn [render_items lead code_of]; [rewrite app_nil_r|]; reflexivity. Qed.

Lemma skip_lead its fin p :
  items_ok its fin ->
  SK (mkIn (render_items its fin) p) = Some (mkIn (code_of its fin) (p + blen (render_lay (lead its fin)))).
Proof.
  intros H. rewrite render_items_lead. unfold render_lay. rewrite <- app_assoc, blen_app, N.add_assoc.
  destruct its as [|[l it] r]; cbn [items_ok lead code_of] in *.
  - destruct H as [Hw Hg]. apply skip_layout; [exact Hw|exact Hg|exact code_ahead_nil].
  - destruct H as ((Hw & Hg) & Hit & _). apply skip_layout; [exact Hw|exact Hg|eapply item_code_ahead; exact Hit].
Qed.

Lemma first_code_head its fin : hd_error (code_of its fin) = first_code its.
Proof.
  destruct its as [|[l it] r]; cbn [code_of first_code]; [reflexivity|].
  pose proof (length_item_pos it). destruct (render_item it); [cbn in *; lia|reflexivity].
Qed.

(* ---- the three kinds of item under the file rule's alternative ---- *)
Lemma stmt_app n l us tail :
  (render_item (IStmt n l us) ++ tail)%list
  = (render_name n ++ 33 :: 40 :: render_lay l ++ 34 :: render_msg us ++ 34 :: tail)%list.
Proof. cbn [render_item]. rewrite <- !app_assoc. cbn [app]. rewrite <- !app_assoc. cbn [app]. rewrite <- !app_assoc. reflexivity. Qed.

Lemma log_macro_q n l us rst p :
  qname_ok n = true -> lay_ok l (34 :: render_msg us ++ 34 :: rst)%list -> forallb munit_ok us = true ->
  run Utab SK r_log_macro NonAtomic false
      (mkIn (render_name n ++ 33 :: 40 :: render_lay l ++ 34 :: render_msg us ++ 34 :: rst)%list p)
  = Ok (mkIn rst (p + blen (render_item (IStmt n l us)))) [stmt_node n l us p].
Proof.
  intros Hn [Hws Hgs] Hus. unfold r_log_macro. rewrite run_rule. cbn [inner_atomicity].
  rewrite run_seq.
  rewrite (macro_name_q SK NonAtomic n _ p Hn (bang_name_end _)).
  cbn [do_skip]. rewrite (skip_none _ _ (bang_ahead _)).
  rewrite run_seq, run_str. cbn [Peg.rest strip_prefix N.eqb Pos.eqb pos do_skip].
  set (a0 := p + blen (render_name n) + 1).
  replace (p + blen (render_name n) + blen [33]) with a0
    by (unfold a0; cbn [blen cplen N.ltb N.compare Pos.compare Pos.compare_cont]; lia).
  rewrite (skip_none _ _ (paren_ahead _)).
  pose proof (macro_args_spec (fst l) (snd l) us rst a0 Hws Hgs Hus) as Hm. cbv zeta in Hm.
  fold (render_lay l) in Hm. rewrite Hm. cbn [emits negb andb app pos]. unfold stmt_node. fold a0.
  f_equal. f_equal. cbn [render_item]. repeat (rewrite blen_app || (progress cbn [blen])).
  cbn [cplen N.ltb N.compare Pos.compare Pos.compare_cont]. unfold a0. lia.
Qed.

Lemma item_stmt n l us r fin p :
  item_ok (IStmt n l us) r fin ->
  run Utab SK file_item NonAtomic false (mkIn (render_item (IStmt n l us) ++ render_items r fin)%list p)
  = Ok (mkIn (render_items r fin) (p + blen (render_item (IStmt n l us)))) [stmt_node n l us p].
Proof.
  intros (Hn & Hl & Hus). unfold file_item. rewrite run_choice, stmt_app.
  rewrite (log_macro_q n l us _ p Hn Hl Hus). reflexivity.
Qed.

Lemma log_macro_miss_char c t p :
  name_start_ok c = false -> run Utab SK r_log_macro NonAtomic false (mkIn (c :: t) p) = Fail.
Proof.
  intros H. unfold r_log_macro. rewrite run_rule. cbn [inner_atomicity]. rewrite run_seq.
  rewrite (macro_name_miss SK NonAtomic c t p H). reflexivity.
Qed.

Lemma other_name_miss_char c t p :
  name_start_ok c = false -> run Utab SK r_other_name NonAtomic false (mkIn (c :: t) p) = Fail.
Proof.
  intros H. unfold r_other_name. rewrite run_rule. cbn [inner_atomicity].
  rewrite (macro_name_miss SK Atomic c t p H). reflexivity.
Qed.

Lemma item_char c r fin p :
  item_ok (IChar c) r fin ->
  run Utab SK file_item NonAtomic false (mkIn (render_item (IChar c) ++ render_items r fin)%list p)
  = Ok (mkIn (render_items r fin) (p + blen (render_item (IChar c)))) [].
Proof.
  intros (Hw & Hs & Hc). unfold file_item. cbn [render_item app]. rewrite run_choice, (log_macro_miss_char c _ p Hs).
  rewrite run_choice, (other_name_miss_char c _ p Hs), run_any. cbn [Peg.rest pos blen]. rewrite N.add_0_r. reflexivity.
Qed.

Lemma file_item_eof p : run Utab SK file_item NonAtomic false (mkIn [] p) = Fail.
Proof. reflexivity. Qed.

(* a name that starts no statement: log_macro fails after the name, other_name takes it *)
Lemma str_miss c t p sk a look :
  hd_error t <> Some c -> run Utab sk (EStr [c]) a look (mkIn t p) = Fail.
Proof.
  intros H. rewrite run_str. cbn [Peg.rest strip_prefix]. destruct t as [|d t']; [reflexivity|].
  destruct (N.eqb_spec c d) as [->|]; [exfalso; apply H; reflexivity|reflexivity].
Qed.

Lemma log_macro_miss_name n r fin p :
  qname_ok n = true -> name_end (render_items r fin) -> not_a_call r -> items_ok r fin ->
  run Utab SK r_log_macro NonAtomic false (mkIn (render_name n ++ render_items r fin)%list p) = Fail.
Proof.
  intros Hn Hend Hnc Hr. unfold r_log_macro. rewrite run_rule. cbn [inner_atomicity]. rewrite run_seq.
  rewrite (macro_name_q SK NonAtomic n _ p Hn Hend). cbn [do_skip].
  rewrite (skip_lead r fin _ Hr). rewrite run_seq.
  destruct r as [|[l1 it1] r2].
  - cbn [code_of]. rewrite str_miss by (cbn; discriminate). reflexivity.
  - destruct (N.eq_dec (match hd_error (render_item it1) with Some c => c | None => 0 end) 33) as [E|E].
    + (* the next code character is "!" : then the one after it is not "(" *)
      destruct it1 as [n1 l1' us1|n1|c1].
      * exfalso. destruct Hr as (_ & (Hn1 & _) & _). apply qname_start in Hn1. cbn [render_item] in E.
        rewrite render_name_cons in E. cbn [app hd_error] in E. rewrite E in Hn1. vm_compute in Hn1. discriminate.
      * exfalso. destruct Hr as (_ & (Hn1 & _) & _). apply qname_start in Hn1. cbn [render_item] in E.
        rewrite render_name_cons in E. cbn [hd_error] in E. rewrite E in Hn1. vm_compute in Hn1. discriminate.
      * cbn [render_item hd_error] in E. subst c1. cbn [not_a_call] in Hnc.
        cbn [code_of render_item app]. rewrite run_str. cbn [Peg.rest strip_prefix N.eqb Pos.eqb pos do_skip].
        destruct Hr as (_ & _ & Hr2). rewrite (skip_lead r2 fin _ Hr2).
        unfold r_macro_args. rewrite run_rule. cbn [inner_atomicity]. rewrite run_seq.
        rewrite str_miss; [reflexivity|]. rewrite first_code_head. exact Hnc.
    + cbn [code_of]. rewrite str_miss; [reflexivity|].
      pose proof (length_item_pos it1) as Hl. destruct (render_item it1) as [|d t1]; [cbn in Hl; lia|].
      cbn [app hd_error] in *. intros Heq. inversion Heq. congruence.
Qed.

Lemma item_name n r fin p :
  item_ok (IName n) r fin -> items_ok r fin ->
  run Utab SK file_item NonAtomic false (mkIn (render_item (IName n) ++ render_items r fin)%list p)
  = Ok (mkIn (render_items r fin) (p + blen (render_item (IName n)))) [Node "other_name" p (p + blen (render_name n)) []].
Proof.
  intros (Hn & Hend & Hnc) Hr. unfold file_item. cbn [render_item]. rewrite run_choice.
  rewrite (log_macro_miss_name n r fin p Hn Hend Hnc Hr). rewrite run_choice.
  unfold r_other_name. rewrite run_rule. cbn [inner_atomicity].
  rewrite (macro_name_q SK Atomic n _ p Hn Hend). cbn [emits negb andb pos]. reflexivity.
Qed.

Lemma item_any it r fin p :
  item_ok it r fin -> items_ok r fin ->
  run Utab SK file_item NonAtomic false (mkIn (render_item it ++ render_items r fin)%list p)
  = Ok (mkIn (render_items r fin) (p + blen (render_item it))) (item_nodes it p).
Proof.
  intros Hit Hr. destruct it as [n l us|n|c]; cbn [item_nodes].
  - apply item_stmt; exact Hit.
  - apply item_name; assumption.
  - apply item_char; exact Hit.
Qed.

(* ---- the repetition of the file rule over all items ---- *)
Lemma length_render_items_cons l it r fin :
  (List.length (render_items r fin) < List.length (render_items ((l, it) :: r) fin))%nat.
Proof.
  cbn [render_items]. rewrite !app_length. pose proof (length_item_pos it). lia.
Qed.

Lemma loop_items : forall its fin p fuel acc,
  items_ok its fin ->
  (List.length (render_items its fin) < List.length fuel)%nat ->
  rep_loop (rep_step Utab SK file_item NonAtomic false) fuel (mkIn (render_items its fin) p) acc
  = Ok (mkIn (render_lay fin) (p + span its)) (acc ++ nodes its p)%list.
Proof.
  induction its as [|[l it] r IH]; intros fin p fuel acc Hok Hlen.
  - destruct fuel as [|x fuel]; [cbn in Hlen; lia|]. cbn [rep_loop]. unfold rep_step. cbn [do_skip].
    rewrite (skip_lead [] fin p Hok). cbn [code_of]. rewrite file_item_eof.
    cbn [render_items span nodes]. rewrite N.add_0_r, app_nil_r. reflexivity.
  - destruct fuel as [|x fuel]; [cbn in Hlen; lia|]. cbn [rep_loop]. unfold rep_step at 1. cbn [do_skip].
    rewrite (skip_lead _ fin p Hok). cbn [code_of lead].
    destruct Hok as (Hl & Hit & Hr).
    rewrite (item_any it r fin _ Hit Hr). cbn [pos].
    pose proof (blen_item_pos it) as Hb.
    destruct (N.ltb_spec p (p + blen (render_lay l) + blen (render_item it))) as [_|]; [|lia].
    rewrite IH; [|exact Hr|pose proof (length_render_items_cons l it r fin); cbn [List.length] in Hlen; lia].
    cbn [span nodes]. f_equal; [f_equal; lia|]. rewrite app_assoc. reflexivity.
Qed.

Lemma items_ok_fin its fin : items_ok its fin -> items_ok [] fin.
Proof. induction its as [|[l it] r IH]; cbn [items_ok]; [tauto|]. intros (_ & _ & H). apply IH. exact H. Qed.

Lemma blen_render_items its fin : blen (render_items its fin) = span its + blen (render_lay fin).
Proof. induction its as [|[l0 it0] r0 IH0]; cbn [render_items span]; [lia|]. rewrite !blen_app, IH0. lia. Qed.

(* THE PARSE TREE of every canonical file *)
Theorem file_parse its fin :
  items_ok its fin ->
  let code := render_items its fin in
  parse_file code = Ok (mkIn [] (blen code)) [Node "file" 0 (blen code) (nodes its 0 ++ [Node "EOI" (blen code) (blen code) []])].
Proof.
  intros Hok code. unfold parse_file, parse, g_file, r_file. rewrite run_rule. cbn [inner_atomicity].
  rewrite run_seq, run_soi. cbn [pos N.eqb do_skip]. fold file_item.
  pose proof (items_ok_fin its fin Hok) as Hfin.
  unfold code. rewrite (skip_lead its fin 0 Hok). rewrite run_seq, run_rep.
  destruct its as [|[l it] r].
  - cbn [code_of lead]. rewrite file_item_eof. cbn [do_skip]. rewrite skip_at_eof, run_eoi.
    cbn [Peg.rest emits negb andb app pos nodes render_items]. rewrite N.add_0_l. reflexivity.
  - cbn [code_of lead]. destruct Hok as (Hl & Hit & Hr).
    rewrite (item_any it r fin _ Hit Hr). cbn [pos Peg.rest].
    pose proof (blen_item_pos it) as Hb.
    destruct (N.ltb_spec (0 + blen (render_lay l)) (0 + blen (render_lay l) + blen (render_item it))) as [_|]; [|lia].
    rewrite loop_items; [|exact Hr|cbn [List.length]; lia].
    cbn [do_skip]. pose proof (skip_lead [] fin (0 + blen (render_lay l) + blen (render_item it) + span r) Hfin) as Hs.
    cbn [render_items code_of lead] in Hs. rewrite Hs. rewrite run_eoi.
    cbn [Peg.rest emits negb andb app pos nodes].
    rewrite (blen_render_items ((l, it) :: r) fin). cbn [span].
    replace (0 + blen (render_lay l) + blen (render_item it) + span r + blen (render_lay fin))
      with (blen (render_lay l) + blen (render_item it) + span r + blen (render_lay fin)) by lia.
    rewrite <- !app_assoc. reflexivity.
Qed.

(* ------------------------------------------------------------------------------------------ *)
(* from the parse tree to the entries                                                          *)
(* ------------------------------------------------------------------------------------------ *)
Notation TP := the_params.

(* what the glue makes of one statement whose name begins after the text `pre` *)
Definition stmt_step (cfg : config) (code pre : list N) (n : qname) (l : lay) (us : list munit) : step :=
  let nm := render_name n in
  let pre_paren := (pre ++ nm ++ [33])%list in                       (* text before the bracket *)
  let pre_msg := (pre_paren ++ 40 :: render_lay l ++ [34])%list in   (* text before the message value *)
  match directive_check TP (p_ignore TP) code (blen pre) (p_comment_re TP) with
  | None => StepPanic
  | Some true => Skip
  | Some false =>
      if negb (macro_of_interest nm cfg) then Skip else
      match (if cfg_structured cfg
             then directive_check TP (p_no_kvp TP) code (blen pre_paren) (p_comment_re TP)
             else Some true) with
      | None => StepPanic
      | Some nk =>
          if cfg_structured cfg && negb nk
          then Emit (mkEntry (blen pre_paren + 1)
                             (fst (line_col_go pre_paren 1 1)) (snd (line_col_go pre_paren 1 1) + 1)
                             None (short_name nm) KStructuredNew
                             (Some (fst (p_fmt_prefix TP) ++ p_ref_key TP ++ snd (p_fmt_prefix TP))%list)
                             (Some (nth 1 (p_suffixes TP) [])))
          else Emit (mkEntry (blen pre_msg)
                             (fst (line_col_go pre_msg 1 1)) (snd (line_col_go pre_msg 1 1))
                             (extract_reference TP (render_msg us)) (short_name nm) KString None None)
      end
  end.

Lemma one_macro_stmt cfg pre n l us tail :
  let code := (pre ++ render_item (IStmt n l us) ++ tail)%list in
  one_macro TP cfg code (stmt_node n l us (blen pre)) = stmt_step cfg code pre n l us.
Proof.
  intros code. set (nm := render_name n). set (msg := render_msg us).
  set (pre_paren := (pre ++ nm ++ [33])%list). set (pre_msg := (pre_paren ++ 40 :: render_lay l ++ [34])%list).
  assert (Hc1 : code = (pre ++ nm ++ (33 :: 40 :: render_lay l ++ 34 :: msg ++ 34 :: tail))%list).
  { unfold code. rewrite stmt_app. reflexivity. }
  assert (Hc2 : code = (pre_paren ++ 40 :: render_lay l ++ 34 :: msg ++ 34 :: tail)%list).
  { rewrite Hc1. unfold pre_paren. rewrite <- !app_assoc. reflexivity. }
  assert (Hc3 : code = (pre_msg ++ msg ++ 34 :: tail)%list).
  { rewrite Hc2. unfold pre_msg. rewrite <- !app_assoc. cbn [app]. rewrite <- !app_assoc. reflexivity. }
  assert (Hp : blen pre + blen nm + 1 = blen pre_paren).
  { unfold pre_paren. rewrite !blen_app. cbn [blen cplen N.ltb N.compare Pos.compare Pos.compare_cont]. lia. }
  assert (Hm : blen pre_paren + 1 + blen (render_lay l) + 1 = blen pre_msg).
  { unfold pre_msg. rewrite !blen_app. cbn [blen]. rewrite blen_app.
    cbn [blen cplen N.ltb N.compare Pos.compare Pos.compare_cont]. lia. }
  unfold stmt_node, one_macro, stmt_step. fold nm msg pre_paren pre_msg.
  cbn [node_kids is_rule node_rule node_start node_end String.eqb Ascii.eqb Bool.eqb negb].
  destruct (directive_check TP (p_ignore TP) code (blen pre) (p_comment_re TP)) as [[|]|]; [reflexivity| |reflexivity].
  rewrite Hc1 at 1. rewrite (str_slice_mid pre nm). destruct (macro_of_interest nm cfg); [|reflexivity]. cbn [negb].
  cbn [scan_args sc_target sc_after_target sc_msg sc_kvs andb is_rule node_rule node_kids String.eqb Ascii.eqb Bool.eqb].
  rewrite Hp.
  destruct (if cfg_structured cfg then directive_check TP (p_no_kvp TP) code (blen pre_paren) (p_comment_re TP) else Some true)
    as [nk|]; [|reflexivity].
  destruct (cfg_structured cfg && negb nk).
  - cbn [find_ref_kv]. rewrite Hc2 at 1. rewrite line_col_prefix.
    destruct (line_col_go pre_paren 1 1) as [l0 c0]. reflexivity.
  - cbn [node_start node_end]. rewrite Hm.
    rewrite Hc3 at 1. rewrite line_col_prefix. rewrite Hc3. rewrite (str_slice_mid pre_msg msg).
    destruct (line_col_go pre_msg 1 1) as [l0 c0]. reflexivity.
Qed.

(* the entries the property texts demand for a canonical file *)
Definition step_entries (s : step) : list entry := match s with Emit e => [e] | _ => [] end.

Fixpoint expected (cfg : config) (code : list N) (its : list (lay * item)) (pre : list N) : list entry :=
  match its with
  | [] => []
  | (l, it) :: r =>
      let pre1 := (pre ++ render_lay l)%list in
      (match it with
       | IStmt n l1 us => step_entries (stmt_step cfg code pre1 n l1 us)
       | _ => []
       end ++ expected cfg code r (pre1 ++ render_item it))%list
  end.

Lemma collect_items cfg code fin eoi : forall its pre acc es,
  code = (pre ++ render_items its fin)%list ->
  collect TP cfg code (nodes its (blen pre) ++ [Node "EOI" eoi eoi []]) acc = Done es ->
  es = (rev acc ++ expected cfg code its pre)%list.
Proof.
  induction its as [|[l it] r IH]; intros pre acc es Hcode H.
  - cbn [nodes app collect is_rule node_rule String.eqb Ascii.eqb Bool.eqb orb] in H.
    inversion H. cbn [expected]. rewrite app_nil_r. reflexivity.
  - cbn [nodes expected] in *. rewrite <- blen_app in H.
    assert (Hcode' : code = ((pre ++ render_lay l) ++ render_item it ++ render_items r fin)%list).
    { rewrite Hcode. cbn [render_items]. rewrite <- !app_assoc. reflexivity. }
    assert (Hcode'' : code = (((pre ++ render_lay l) ++ render_item it) ++ render_items r fin)%list).
    { rewrite Hcode'. rewrite <- !app_assoc. reflexivity. }
    rewrite <- blen_app in H.
    destruct it as [n l1 us|n|c]; cbn [item_nodes app] in H.
    + cbn [collect] in H. replace (is_rule (stmt_node n l1 us (blen (pre ++ render_lay l)%list)) "log_macro") with true in H by reflexivity.
      pose proof (one_macro_stmt cfg (pre ++ render_lay l)%list n l1 us (render_items r fin)) as Hone.
      cbv zeta in Hone. rewrite <- Hcode' in Hone. rewrite Hone in H.
      destruct (stmt_step cfg code (pre ++ render_lay l)%list n l1 us) as [|e|]; cbn [step_entries app].
      * apply (IH _ _ _ Hcode'' H).
      * rewrite (IH _ _ _ Hcode'' H). cbn [rev]. rewrite <- app_assoc. reflexivity.
      * discriminate.
    + cbn [collect is_rule node_rule String.eqb Ascii.eqb Bool.eqb orb] in H. apply (IH _ _ _ Hcode'' H).
    + apply (IH _ _ _ Hcode'' H).
Qed.

(* THE FINDER on every canonical file, every configuration, both styles *)
Theorem find_canonical cfg its fin :
  items_ok its fin ->
  let code := render_items its fin in
  find cfg code = Done (expected cfg code its []).
Proof.
  intros Hok code.
  assert (Hgok : grammar_ok TP "file" RNormal false
                   (ESeq ESoi (ESeq (ERep (EChoice r_log_macro (EChoice r_other_name EAny))) EEoi))).
  { unfold grammar_ok. cbn [p_file the_params p_ws p_comment]. unfold g_file, r_file.
    split; [reflexivity|]. split; [reflexivity|]. split; [vm_compute; reflexivity|]. split; vm_compute; reflexivity. }
  destruct (entries_total TP _ _ _ _ Hgok cfg code) as (es & Hes & _).
  unfold find. rewrite Hes. unfold entries in Hes. cbn [p_U p_ws p_comment p_file the_params] in Hes.
  pose proof (file_parse its fin Hok) as Hp. cbv zeta in Hp. unfold parse_file in Hp. fold code in Hp.
  rewrite Hp in Hes. cbn [node_kids] in Hes.
  change 0 with (blen []) in Hes at 1.
  rewrite (collect_items cfg code fin (blen code) its [] [] es eq_refl Hes). reflexivity.
Qed.

(* only statements with a configured name contribute: names, other characters, comments, statements of
   other macros never do *)
Lemma stmt_step_unconfigured cfg code pre n l us :
  macro_of_interest (render_name n) cfg = false -> step_entries (stmt_step cfg code pre n l us) = [].
Proof.
  intros H. unfold stmt_step. rewrite H.
  destruct (directive_check TP (p_ignore TP) code (blen pre) (p_comment_re TP)) as [[|]|]; reflexivity.
Qed.

Lemma expected_none cfg code : forall its pre,
  (forall l n l1 us, In (l, IStmt n l1 us) its -> macro_of_interest (render_name n) cfg = false) ->
  expected cfg code its pre = [].
Proof.
  induction its as [|[l it] r IH]; intros pre H; cbn [expected]; [reflexivity|].
  rewrite IH by (intros; eapply H; right; eauto). rewrite app_nil_r.
  destruct it as [n l1 us| |]; try reflexivity.
  apply stmt_step_unconfigured. eapply H. left. reflexivity.
Qed.

(* an ignore directive in force: no entry for that statement *)
Lemma stmt_step_ignored cfg code pre n l us :
  directive_check TP (p_ignore TP) code (blen pre) (p_comment_re TP) = Some true ->
  stmt_step cfg code pre n l us = Skip.
Proof. intros H. unfold stmt_step. rewrite H. reflexivity. Qed.

Theorem find_canonical_none cfg its fin :
  items_ok its fin ->
  (forall l n l1 us, In (l, IStmt n l1 us) its -> macro_of_interest (render_name n) cfg = false) ->
  find cfg (render_items its fin) = Done [].
Proof.
  intros Hok Hnone. pose proof (find_canonical cfg its fin Hok) as H. cbv zeta in H.
  rewrite H. rewrite (expected_none cfg _ its [] Hnone). reflexivity.
Qed.

Theorem find_canonical_only_statements cfg its fin :
  items_ok its fin ->
  let code := render_items its fin in
  find cfg code = Done (expected cfg code its []) /\
  (forall pre n l us, macro_of_interest (render_name n) cfg = false -> step_entries (stmt_step cfg code pre n l us) = []) /\
  (forall pre n l us, directive_check TP (p_ignore TP) code (blen pre) (p_comment_re TP) = Some true ->
                      stmt_step cfg code pre n l us = Skip).
Proof.
  intros Hok code. split; [exact (find_canonical cfg its fin Hok)|]. split.
  - intros. apply stmt_step_unconfigured. assumption.
  - intros. apply stmt_step_ignored. assumption.
Qed.
