(* ValidUtf8.v -- for EVERY readable file (not only the canonical ones): what an edit run writes is the UTF-8
   encoding of the old TEXT with the references inserted at CHARACTER positions (`tweave`, the char-level twin of
   the byte-level specification `weave`), and it is valid UTF-8 again.  The byte offsets the finder reports are
   character boundaries (GlueFacts.entries_bnd), the strict decoder is the inverse of the encoder
   (Utf8Facts.decode_iff), and everything inserted is ASCII. *)
From Coq Require Import List NArith Bool Lia String.
From Breadlog Require Import Model.Peg Model.Text Model.Regex Model.Glue Model.Tables Model.Utf8 Model.Driver Model.History.
From Breadlog Require Import Gen.Grammar Gen.Consts.
From Breadlog Require Import Proofs.PegFacts Proofs.TokenFacts Proofs.GlueFacts Proofs.BytesFacts Proofs.Utf8Facts
     Proofs.RewriteFacts Proofs.WorldFacts Proofs.DriverFacts Proofs.AllocFacts Proofs.RunFacts Proofs.DecimalFacts
     Proofs.RegexFacts Proofs.CanonicalRun.
Import ListNotations.
Open Scope N_scope.

Section TextWeave.
  Variable P : params.

  (* the rewriter at the level of characters: cut the text at the (byte) positions of the entries -- `take_bytes` /
     `drop_bytes` answer None off a character boundary -- and put one reference after each cut *)
  Fixpoint tweave (t : list N) (cursor : N) (todo : list entry) (ctr : N) : option (list N) :=
    match todo with
    | [] => Some t
    | e :: r =>
        if e_pos e <? cursor then None else
        match take_bytes t (e_pos e - cursor), drop_bytes t (e_pos e - cursor) with
        | Some chunk, Some t' =>
            match tweave t' (e_pos e) r (ctr + 1) with
            | Some x => Some (chunk ++ insertable P e ctr ++ x)%list
            | None => None
            end
        | _, _ => None
        end
    end.

  Lemma split_at : forall (done pre t post : list N),
    (done ++ t = pre ++ post)%list -> blen done <= blen pre -> exists mid, pre = (done ++ mid)%list /\ t = (mid ++ post)%list.
  Proof.
    induction done as [|c done IH]; intros pre t post H Hl.
    - exists pre. split; [reflexivity|exact H].
    - destruct pre as [|c' pre].
      + cbn [blen] in Hl. pose proof (cplen_pos c). lia.
      + cbn [app] in H. inversion H as [[Hc Hr]]. subst c'. cbn [blen] in Hl.
        destruct (IH pre t post Hr ltac:(lia)) as (mid & -> & ->). exists mid. split; reflexivity.
  Qed.

  Lemma weave_tweave : forall todo done t ctr,
    Forall (fun e => bnd (done ++ t) (e_pos e)) todo ->
    weave P (utf8_encode t) (blen done) todo ctr = option_map utf8_encode (tweave t (blen done) todo ctr).
  Proof.
    induction todo as [|e r IH]; intros done t ctr Hb; cbn [weave tweave]; [reflexivity|].
    inversion Hb as [|? ? He Hr]; subst.
    destruct (N.ltb_spec (e_pos e) (blen done)) as [Hlt|Hge]; [reflexivity|].
    destruct He as (pre & post & Hc & Hl).
    destruct (split_at done pre t post Hc ltac:(lia)) as (mid & -> & ->).
    rewrite blen_app in Hl. replace (e_pos e - blen done) with (blen mid) by lia.
    rewrite take_bytes_app, drop_bytes_app, utf8_encode_app.
    rewrite <- (blength_encode mid), btake_app_exact, bdrop_app_exact.
    replace (e_pos e) with (blen (done ++ mid)) by (rewrite blen_app; lia).
    rewrite IH by (rewrite <- app_assoc; exact Hr).
    destruct (tweave post (blen (done ++ mid)) r (ctr + 1)) as [x|]; cbn [option_map]; [|reflexivity].
    rewrite !utf8_encode_app. reflexivity.
  Qed.

  Lemma tweave_chars : forall todo done t ctr x,
    Forall (fun e => bnd (done ++ t) (e_pos e)) todo ->
    tweave t (blen done) todo ctr = Some x ->
    forall c, In c x -> In c t \/ exists e id, In e todo /\ In c (insertable P e id).
  Proof.
    induction todo as [|e r IH]; intros done t ctr x Hb H c Hin; cbn [tweave] in H.
    - inversion H; subst. left. exact Hin.
    - inversion Hb as [|? ? He Hr]; subst.
      destruct (N.ltb_spec (e_pos e) (blen done)) as [Hlt|Hge]; [discriminate|].
      destruct He as (pre & post & Hc & Hl).
      destruct (split_at done pre t post Hc ltac:(lia)) as (mid & -> & ->).
      rewrite blen_app in Hl. replace (e_pos e - blen done) with (blen mid) in H by lia.
      rewrite take_bytes_app, drop_bytes_app in H.
      replace (e_pos e) with (blen (done ++ mid)) in H by (rewrite blen_app; lia).
      destruct (tweave post (blen (done ++ mid)) r (ctr + 1)) as [x'|] eqn:Et; [|discriminate].
      inversion H; subst x. apply in_app_or in Hin. destruct Hin as [Hin|Hin].
      + left. apply in_or_app. left. exact Hin.
      + apply in_app_or in Hin. destruct Hin as [Hin|Hin].
        * right. exists e, ctr. split; [left; reflexivity|exact Hin].
        * destruct (IH (done ++ mid)%list post (ctr + 1) x' ltac:(rewrite <- app_assoc; exact Hr) Et c Hin) as [H1|(e' & id & H1 & H2)].
          -- left. apply in_or_app. right. exact H1.
          -- right. exists e', id. split; [right; exact H1|exact H2].
  Qed.
End TextWeave.

(* the generated grammar satisfies the conditions of the boundary theorem *)
Lemma the_gok : grammar_ok the_params "file"%string RNormal false
                  (ESeq ESoi (ESeq (ERep (EChoice r_log_macro (EChoice r_other_name EAny))) EEoi)).
Proof.
  unfold grammar_ok. cbn [p_file the_params p_ws p_comment]. unfold g_file, r_file.
  split; [reflexivity|]. split; [reflexivity|]. split; [vm_compute; reflexivity|]. split; vm_compute; reflexivity.
Qed.
Lemma the_fo : first_ok the_first (p_file the_params) = true.
Proof. vm_compute. reflexivity. Qed.

Lemma find_boundaries cfg t es : find cfg t = Done es -> Forall (fun e => bnd t (e_pos e)) es.
Proof. exact (entries_bnd the_params _ _ _ _ the_gok the_fo cfg t es). Qed.

(* the line and column every entry carries are the line and column of its byte offset *)
Theorem find_line_col cfg t es :
  find cfg t = Done es -> Forall (fun e => line_col t (e_pos e) = Some (e_line e, e_col e)) es.
Proof. exact (entries_line_col the_params _ _ _ _ the_gok the_fo cfg t es). Qed.

Lemma fmt_ok_ascii e id c : fmt_ok the_params e -> In c (insertable the_params e id) -> c < 128.
Proof.
  intros [[Hp Hs]|[Hp Hs]] Hin.
  - rewrite (default_token_insertable e id Hp Hs) in Hin. unfold default_token in Hin.
    apply in_app_or in Hin. destruct Hin as [Hin|Hin].
    + cbn in Hin. repeat (destruct Hin as [<-|Hin]; [lia|]). contradiction.
    + apply in_app_or in Hin. destruct Hin as [Hin|Hin]; [exact (dec_ascii id c Hin)|].
      cbn in Hin. repeat (destruct Hin as [<-|Hin]; [lia|]). contradiction.
  - assert (Hi : exists s, insertable the_params e id = (ref_eq ++ dec id ++ s)%list /\ (s = [44; 32] \/ s = [59; 32])).
    { destruct Hs as [Hs|Hs]; eexists; (split; [apply insertable_new; [exact Hp|exact Hs]|]); [left|right]; reflexivity. }
    destruct Hi as (s & Hi & Hs'). rewrite Hi in Hin.
    apply in_app_or in Hin. destruct Hin as [Hin|Hin].
    + cbn in Hin. repeat (destruct Hin as [<-|Hin]; [lia|]). contradiction.
    + apply in_app_or in Hin. destruct Hin as [Hin|Hin]; [exact (dec_ascii id c Hin)|].
      destruct Hs' as [-> | ->]; cbn in Hin; repeat (destruct Hin as [<-|Hin]; [lia|]); contradiction.
Qed.

(* EVERY readable file, whatever it contains: after an edit run -- every tree, configuration, lock state, fault
   oracle and stop point -- it is byte-for-byte unchanged, or its bytes are the UTF-8 encoding of the old text with
   one reference inserted at the character position of each entry that lacks one (`tweave`), and they are valid
   UTF-8: the file decodes to exactly that text. *)
Theorem file_after_edit_text rc files lk o j b t :
  files <> [] -> nth_error files j = Some b -> utf8_decode b = Some t -> o_rfail2 o j = false ->
  let new := nth_error (w_src (apply_effs (mkWorld files [] lk)
                                  (ro_effs (run_edit the_params find c_START_REFERENCE_ID rc (Some files) lk o)))) j in
  new = Some b \/
  exists es c0 t',
    find (rc_cfg rc) t = Done es /\
    tweave the_params t 0 (filter missing_insert es) c0 = Some t' /\
    new = Some (utf8_encode t') /\ utf8_decode (utf8_encode t') = Some t'.
Proof.
  intros Hne Hj Hd Hrf. cbv zeta.
  destruct (edit_final_content the_params find c_START_REFERENCE_ID rc files lk o j b Hne Hj)
    as [Hlen [Hsame|(c & Hc & Hokk)]].
  - left. exact Hsame.
  - right. destruct Hokk as (b' & es & c0 & _ & Hn & Hfe & Htodo & Hw).
    rewrite PeanoNat.Nat.sub_0_r in Hn. assert (b' = b) by congruence. subst b'.
    rewrite Hrf in Hfe. unfold file_entries in Hfe. rewrite Hd in Hfe.
    destruct (find (rc_cfg rc) t) as [es'| |] eqn:Ef; try discriminate. inversion Hfe; subst es'.
    pose proof (find_boundaries _ _ _ Ef) as Hb.
    assert (Hbt : Forall (fun e => bnd ([] ++ t) (e_pos e)) (filter missing_insert es)).
    { rewrite Forall_forall in Hb |- *. intros e He. apply filter_In in He. cbn [app]. apply Hb. tauto. }
    rewrite (decode_is_encode _ _ Hd) in Hw.
    pose proof (weave_tweave the_params (filter missing_insert es) [] t c0 Hbt) as Hwt. cbn [blen] in Hwt.
    rewrite Hwt in Hw.
    destruct (tweave the_params t 0 (filter missing_insert es) c0) as [t'|] eqn:Et; cbn [option_map] in Hw; [|discriminate].
    inversion Hw; subst c. exists es, c0, t'. repeat split; try assumption.
    apply encode_decode. apply forallb_forall. intros ch Hch.
    destruct (tweave_chars the_params _ [] t c0 t' Hbt Et ch Hch) as [H1|(e & id & H1 & H2)].
    + pose proof (decode_scalars _ _ Hd) as Hsc. rewrite forallb_forall in Hsc. exact (Hsc ch H1).
    + apply scalar_ascii. apply (fmt_ok_ascii e id ch); [|exact H2].
      pose proof (entries_formats the_params _ _ _ Ef) as Hf. rewrite Forall_forall in Hf. apply Hf.
      apply filter_In in H1. tauto.
Qed.
