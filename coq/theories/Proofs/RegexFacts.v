(* RegexFacts.v -- what the translated LOG_REF_PATTERN and the documented regex accept,
   for ALL strings, proved on the backtracking matcher of Model/Regex.v. *)
From Coq Require Import List NArith Bool Lia.
From Breadlog Require Import Model.Peg Model.Text Model.Regex Model.Glue Model.Tables.
From Breadlog Require Import Gen.Regexes Gen.Consts.
From Breadlog Require Import Proofs.DecimalFacts.
Import ListNotations.
Open Scope N_scope.

Arguments N.add : simpl never.
Arguments N.mul : simpl never.
Arguments N.sub : simpl never.
Arguments N.ltb : simpl never.
Arguments N.leb : simpl never.
Arguments N.eqb : simpl never.

(* up to mx leading members of the class *)
Fixpoint span_class (rs : list (N * N)) (mx : N) (t : text) : text * text :=
  match t with
  | c :: r => if (0 <? mx) && in_ranges rs c
              then let '(a, b) := span_class rs (mx - 1) r in (c :: a, b)
              else ([], t)
  | [] => ([], [])
  end.

Lemma span_class_app rs mx t : fst (span_class rs mx t) ++ snd (span_class rs mx t) = t.
Proof.
  revert mx; induction t as [|c r IH]; intros mx; cbn [span_class]; [reflexivity|].
  destruct ((0 <? mx) && in_ranges rs c); [|reflexivity].
  specialize (IH (mx - 1)). destruct (span_class rs (mx - 1) r) as [a b]. cbn in *. now rewrite IH.
Qed.

Lemma span_class_all rs mx t : forallb (in_ranges rs) (fst (span_class rs mx t)) = true.
Proof.
  revert mx; induction t as [|c r IH]; intros mx; cbn [span_class]; [reflexivity|].
  destruct (0 <? mx); cbn [andb]; [|reflexivity].
  destruct (in_ranges rs c) eqn:Hc; [|reflexivity].
  specialize (IH (mx - 1)). destruct (span_class rs (mx - 1) r) as [a b]. cbn in *. now rewrite Hc, IH.
Qed.

Lemma span_class_len rs mx t : tlen (fst (span_class rs mx t)) <= mx.
Proof.
  revert mx; induction t as [|c r IH]; intros mx; cbn [span_class]; [cbn; lia|].
  destruct (N.ltb_spec 0 mx); cbn [andb]; [|cbn; lia].
  destruct (in_ranges rs c); [|cbn; lia].
  specialize (IH (mx - 1)). destruct (span_class rs (mx - 1) r) as [a b]. cbn [fst tlen] in *. lia.
Qed.

(* the span stops because the bound is reached or the next character is outside the class *)
Lemma span_class_stop rs mx t :
  tlen (fst (span_class rs mx t)) = mx \/
  match snd (span_class rs mx t) with [] => True | c :: _ => in_ranges rs c = false end.
Proof.
  revert mx; induction t as [|c r IH]; intros mx; cbn [span_class]; [right; exact I|].
  destruct (N.ltb_spec 0 mx); cbn [andb].
  - destruct (in_ranges rs c) eqn:Hc; [|right; exact Hc].
    specialize (IH (mx - 1)). destruct (span_class rs (mx - 1) r) as [a b]. cbn [fst snd tlen] in *.
    destruct IH as [IH|IH]; [left; lia|right; exact IH].
  - left. cbn. lia.
Qed.

Lemma span_class_exact rs ds rest mx :
  forallb (in_ranges rs) ds = true -> tlen ds <= mx ->
  match rest with [] => True | c :: _ => in_ranges rs c = false end ->
  span_class rs mx (ds ++ rest) = (ds, rest).
Proof.
  revert mx; induction ds as [|d ds IH]; intros mx Hall Hlen Hrest.
  - cbn [app]. destruct rest as [|c r]; [reflexivity|]. cbn [span_class]. rewrite Hrest.
    now rewrite andb_false_r.
  - cbn [forallb] in Hall. apply andb_true_iff in Hall as [Hd Hall].
    cbn [tlen] in Hlen. cbn [app span_class]. rewrite Hd.
    destruct (N.ltb_spec 0 mx); [|lia]. cbn [andb].
    rewrite (IH (mx - 1)); [reflexivity|assumption|lia|assumption].
Qed.

(* greedy bounded repetition of a class, when the continuation fails in front of a class member *)
Lemma rep_class_greedy rs k mn mx :
  (forall s c r, rrem s = c :: r -> in_ranges rs c = true -> k s = None) ->
  forall t fuel n idx cs,
    (length t < length fuel)%nat -> n <= mx ->
    rep_m (m (RClass rs)) k mn (Some mx) true fuel n (mkR t idx cs) =
    let '(ds, r) := span_class rs (mx - n) t in
    if mn <=? n + tlen ds then k (mkR r (idx + tlen ds) cs) else None.
Proof.
  intros Hk t. induction t as [|c t IH]; intros fuel n idx cs Hfuel Hn.
  - destruct fuel as [|x f]; [cbn in Hfuel; lia|].
    cbn [rep_m span_class tlen m rrem]. rewrite !N.add_0_r.
    destruct (n <? mx); reflexivity.
  - destruct fuel as [|x f]; [cbn in Hfuel; lia|].
    cbn [rep_m span_class m rrem ridx rcaps].
    destruct (N.ltb_spec n mx) as [Hlt|Hge].
    + destruct (N.ltb_spec 0 (mx - n)); [|lia]. cbn [andb].
      destruct (in_ranges rs c) eqn:Hc.
      * destruct (N.ltb_spec idx (idx + 1)); [|lia].
        rewrite IH; [|cbn in Hfuel; lia|lia].
        replace (mx - (n + 1)) with (mx - n - 1) by lia.
        destruct (span_class rs (mx - n - 1) t) as [ds r].
        cbn [tlen].
        replace (n + 1 + tlen ds) with (n + (1 + tlen ds)) by lia.
        replace (idx + 1 + tlen ds) with (idx + (1 + tlen ds)) by lia.
        destruct (mn <=? n + (1 + tlen ds)) eqn:Hmn.
        -- destruct (k (mkR r (idx + (1 + tlen ds)) cs)) eqn:Hres; [reflexivity|].
           (* backtracking to fewer iterations fails: the next character is in the class *)
           destruct (mn <=? n); [|reflexivity].
           apply (Hk (mkR (c :: t) idx cs) c t); [reflexivity|exact Hc].
        -- destruct (mn <=? n) eqn:Hmn'; [|reflexivity].
           apply (Hk (mkR (c :: t) idx cs) c t); [reflexivity|exact Hc].
      * cbn [tlen]. rewrite !N.add_0_r. reflexivity.
    + destruct (N.ltb_spec 0 (mx - n)); [lia|]. cbn [andb tlen]. rewrite !N.add_0_r. reflexivity.
Qed.

(* ---- the reference pattern ---------------------------------------------------------- *)

Definition ref_prefix : text := [91; 114; 101; 102; 58; 32].     (* "[ref: " *)
Definition digit_class : list (N * N) := [(48, 57)].

Lemma in_digit_class c : in_ranges digit_class c = is_ascii_digit c.
Proof.
  unfold digit_class, in_ranges, is_ascii_digit.
  destruct (N.ltb_spec c 48), (N.leb_spec 48 c), (N.leb_spec c 57); try reflexivity; lia.
Qed.

(* what LOG_REF_PATTERN + parse::<u32> compute, as a plain function *)
Definition spec_extract (s : text) : option N :=
  match strip_prefix ref_prefix s with
  | None => None
  | Some t =>
      let '(ds, r) := span_class digit_class 10 t in
      match ds, r with
      | _ :: _, 93 :: _ => parse_u32 ds
      | _, _ => None
      end
  end.

Lemma strip_prefix_app p t r : strip_prefix p t = Some r -> t = p ++ r.
Proof.
  revert t; induction p as [|c p IH]; intros t H; cbn in H.
  - now injection H as <-.
  - destruct t as [|d t]; [discriminate|]. destruct (N.eqb_spec c d); [|discriminate].
    subst. cbn. f_equal. now apply IH.
Qed.

Lemma strip_prefix_refl p r : strip_prefix p (p ++ r) = Some r.
Proof. induction p as [|c p IH]; cbn; [reflexivity|]. now rewrite N.eqb_refl. Qed.

Lemma skipn_N_app p r : skipn_N (tlen p) (p ++ r) = r.
Proof.
  induction p as [|c p IH]; cbn [tlen app].
  - destruct r; reflexivity.
  - cbn [skipn_N]. destruct (N.eqb_spec (1 + tlen p) 0); [lia|].
    replace (1 + tlen p - 1) with (tlen p) by lia. exact IH.
Qed.

Lemma firstn_N_app p r : firstn_N (tlen p) (p ++ r) = p.
Proof.
  induction p as [|c p IH]; cbn [tlen app].
  - destruct r; reflexivity.
  - cbn [firstn_N]. destruct (N.eqb_spec (1 + tlen p) 0); [lia|].
    replace (1 + tlen p - 1) with (tlen p) by lia. now rewrite IH.
Qed.

Lemma search_anchored_fail r t : forall idx, 0 < idx -> search_from (RCat RStart r) t idx = None.
Proof.
  induction t as [|c t IH]; intros idx Hidx; cbn [search_from m ridx].
  - destruct (N.eqb_spec idx 0); [lia|reflexivity].
  - destruct (N.eqb_spec idx 0); [lia|]. apply IH. lia.
Qed.

Lemma search_from_anchored r t :
  search_from (RCat RStart r) t 0 =
  m (RCat RStart r) (fun st => Some (set_cap (rcaps st) 0 (0, ridx st))) (mkR t 0 []).
Proof.
  destruct t as [|c t]; cbn [search_from];
    destruct (m (RCat RStart r) _ _); try reflexivity.
  apply search_anchored_fail. lia.
Qed.

Lemma m_cat a b k s : m (RCat a b) k s = m a (m b k) s.
Proof. reflexivity. Qed.
Lemma m_start k s : m RStart k s = if ridx s =? 0 then k s else None.
Proof. reflexivity. Qed.
Lemma m_lit l k s :
  m (RLit l) k s = match strip_prefix l (rrem s) with
                   | Some t => k (mkR t (ridx s + tlen l) (rcaps s))
                   | None => None
                   end.
Proof. reflexivity. Qed.
Lemma m_cap i a k s :
  m (RCap i a) k s =
  m a (fun s' => k (mkR (rrem s') (ridx s') (set_cap (rcaps s') i (ridx s, ridx s')))) s.
Proof. reflexivity. Qed.
Lemma m_rep mn mx g a k s :
  m (RRep mn mx g a) k s = rep_m (m a) k mn mx g (0 :: rrem s) 0 s.
Proof. reflexivity. Qed.

Lemma lit93_on c r k idx cs :
  m (RLit [93]) k (mkR (c :: r) idx cs) =
  if 93 =? c then k (mkR r (idx + 1) cs) else None.
Proof. rewrite m_lit. cbn [rrem strip_prefix ridx rcaps tlen]. destruct (93 =? c); reflexivity. Qed.

Theorem extract_reference_spec s : extract_reference the_params s = spec_extract s.
Proof.
  unfold extract_reference, captures, spec_extract. cbn [p_ref_re the_params].
  unfold re_LOG_REF_PATTERN. rewrite search_from_anchored.
  rewrite m_cat, m_start. cbn [ridx]. change (0 =? 0) with true. cbv iota.
  rewrite m_cat, m_lit. cbn [rrem ridx rcaps].
  fold ref_prefix.
  destruct (strip_prefix ref_prefix s) as [t|] eqn:Hpre; [|reflexivity].
  apply strip_prefix_app in Hpre.
  change (0 + tlen ref_prefix) with 6.
  rewrite m_cat, m_cap, m_rep. cbn [rrem ridx rcaps]. fold digit_class.
  rewrite rep_class_greedy.
  - change (10 - 0) with 10.
    pose proof (span_class_app digit_class 10 t) as Happ.
    destruct (span_class digit_class 10 t) as [ds r]. cbn [fst snd] in *.
    rewrite N.add_0_l.
    destruct ds as [|d ds].
    + cbn [tlen]. change (1 <=? 0) with false. cbv iota. reflexivity.
    + destruct (N.leb_spec 1 (tlen (d :: ds))) as [_|Hbad]; [|cbn [tlen] in Hbad; lia].
      cbn [rrem ridx rcaps].
      destruct r as [|c r]; [reflexivity|].
      rewrite lit93_on.
      destruct (N.eqb_spec 93 c) as [<-|Hne].
      * cbn [set_cap get_cap rcaps ridx]. change (0 =? 1) with false. change (1 =? 0) with false.
        change (1 =? 1) with true. cbv iota.
        assert (Hg : forall v w : N * N, get_cap [(1, v); (0, w)] 1 = Some v) by reflexivity.
        rewrite ?Hg.
        unfold cap_text. cbn [fst snd].
        replace (6 + tlen (d :: ds) - 6) with (tlen (d :: ds)) by lia.
        rewrite Hpre. change 6 with (tlen ref_prefix).
        rewrite skipn_N_app. rewrite <- Happ. rewrite firstn_N_app. reflexivity.
      * destruct c as [|p]; [reflexivity|].
        do 7 (destruct p as [p|p|]; try reflexivity). contradiction Hne; reflexivity.
  - (* the continuation (the closing bracket) fails in front of a digit *)
    intros st c r Hrem Hc. destruct st as [rm ix cp0]. cbn [rrem ridx rcaps] in *. subst rm.
    rewrite lit93_on.
    destruct (N.eqb_spec 93 c) as [<-|]; [discriminate Hc|reflexivity].
  - cbn [length]. lia.
  - lia.
Qed.

(* ---- the property-level characterisation --------------------------------------------- *)

Definition valid_ref_prefix (s : text) (n : N) : Prop :=
  exists ds rest,
    s = ref_prefix ++ ds ++ [93] ++ rest /\
    ds <> [] /\ tlen ds <= 10 /\ forallb is_ascii_digit ds = true /\
    digits_value ds 0 = Some n /\ n <= u32_max.

Lemma forallb_digit_class ds :
  forallb (in_ranges digit_class) ds = forallb is_ascii_digit ds.
Proof. induction ds as [|d ds IH]; cbn [forallb]; [reflexivity|]. now rewrite in_digit_class, IH. Qed.

Lemma parse_u32_digits ds n :
  ds <> [] -> forallb is_ascii_digit ds = true ->
  (parse_u32 ds = Some n <-> digits_value ds 0 = Some n /\ n <= u32_max).
Proof.
  intros Hne Hall. destruct ds as [|d ds]; [contradiction|].
  assert (Hd : d <> 43).
  { cbn [forallb] in Hall. apply andb_true_iff in Hall as [Hd _].
    unfold is_ascii_digit in Hd. apply andb_true_iff in Hd as [Ha Hb]. apply N.leb_le in Ha, Hb. lia. }
  rewrite parse_u32_nonplus by assumption.
  destruct (digits_value (d :: ds) 0) as [v|].
  - destruct (N.leb_spec v u32_max); split.
    + intros [= <-]. split; [reflexivity|assumption].
    + intros [[= <-] _]. reflexivity.
    + discriminate.
    + intros [[= <-] Hle]. lia.
  - split; [discriminate|intros [H _]; discriminate].
Qed.

Theorem extract_reference_iff s n :
  extract_reference the_params s = Some n <-> valid_ref_prefix s n.
Proof.
  rewrite extract_reference_spec. unfold spec_extract, valid_ref_prefix. split.
  - destruct (strip_prefix ref_prefix s) as [t|] eqn:Hpre; [|discriminate].
    apply strip_prefix_app in Hpre.
    pose proof (span_class_app digit_class 10 t) as Happ.
    pose proof (span_class_len digit_class 10 t) as Hlen.
    pose proof (span_class_all digit_class 10 t) as Hall.
    destruct (span_class digit_class 10 t) as [ds r]. cbn [fst snd] in *.
    rewrite forallb_digit_class in Hall.
    destruct ds as [|d ds]; [discriminate|].
    destruct r as [|c r]; [discriminate|].
    destruct (N.eqb_spec c 93) as [->|Hne].
    + intros Hp. apply parse_u32_digits in Hp as [Hv Hle]; [|discriminate|assumption].
      exists (d :: ds), r. repeat split; try assumption; try discriminate.
      rewrite Hpre, <- Happ. reflexivity.
    + intros H. exfalso. destruct c as [|p]; [discriminate|].
      do 7 (destruct p as [p|p|]; try discriminate). contradiction Hne; reflexivity.
  - intros (ds & rest & -> & Hne & Hlen & Hall & Hv & Hle).
    rewrite strip_prefix_refl.
    rewrite (span_class_exact digit_class ds ([93] ++ rest) 10).
    + destruct ds as [|d ds]; [contradiction|]. cbn [app].
      apply parse_u32_digits; [discriminate|assumption|split; assumption].
    + now rewrite forallb_digit_class.
    + assumption.
    + reflexivity.
Qed.

(* the token Breadlog inserts into a message literal *)
Definition default_token (n : N) : text := fst fmt_default_ref ++ dec n ++ snd fmt_default_ref.

Lemma tlen_length t : tlen t = N.of_nat (length t).
Proof. induction t as [|c t IH]; [reflexivity|]. cbn [tlen length]. rewrite IH. lia. Qed.

Theorem extract_reference_token n rest :
  n <= u32_max -> extract_reference the_params (default_token n ++ rest) = Some n.
Proof.
  intros Hle. apply extract_reference_iff. unfold valid_ref_prefix.
  destruct (dec_spec n) as (Hne & Hall & Hval).
  exists (dec n), ([32] ++ rest). repeat split; try assumption.
  - unfold default_token, fmt_default_ref. cbn [fst snd]. fold ref_prefix.
    rewrite <- !app_assoc. reflexivity.
  - rewrite tlen_length. pose proof (dec_u32_length n Hle). lia.
Qed.

(* the documented (unanchored) regex finds the token at the start and captures dec n *)
Theorem documented_regex_token n rest :
  n <= u32_max ->
  exists c se, captures re_documented (default_token n ++ rest) = Some c
               /\ get_cap c 1 = Some se
               /\ cap_text (default_token n ++ rest) se = dec n
               /\ get_cap c 0 = Some (0, 6 + tlen (dec n) + 1).
Proof.
  intros Hle.
  destruct (dec_spec n) as (Hne & Hall & Hval).
  pose proof (dec_u32_length n Hle) as Hlen.
  unfold captures, re_documented.
  assert (Hs : default_token n ++ rest = ref_prefix ++ dec n ++ [93] ++ [32] ++ rest).
  { unfold default_token, fmt_default_ref. cbn [fst snd]. fold ref_prefix.
    rewrite <- !app_assoc. reflexivity. }
  rewrite Hs.
  remember (ref_prefix ++ dec n ++ [93] ++ [32] ++ rest) as s eqn:Es.
  assert (Hm : m (RCat (RLit [91; 114; 101; 102; 58; 32])
                  (RCat (RCap 1 (RRep 1 (Some 10) true (RClass [(48, 57)]))) (RLit [93])))
                 (fun st => Some (set_cap (rcaps st) 0 (0, ridx st))) (mkR s 0 [])
               = Some [(1, (6, 6 + tlen (dec n))); (0, (0, 6 + tlen (dec n) + 1))]).
  { rewrite m_cat, m_lit. cbn [rrem ridx rcaps]. fold ref_prefix. rewrite Es, strip_prefix_refl.
    change (0 + tlen ref_prefix) with 6.
    rewrite m_cat, m_cap, m_rep. cbn [rrem ridx rcaps]. fold digit_class.
    rewrite rep_class_greedy.
    - change (10 - 0) with 10.
      rewrite (span_class_exact digit_class (dec n) ([93] ++ [32] ++ rest) 10);
        [|now rewrite forallb_digit_class|rewrite tlen_length; lia|reflexivity].
      rewrite N.add_0_l.
      destruct (N.leb_spec 1 (tlen (dec n))) as [_|Hbad]; [|rewrite tlen_length in Hbad; lia].
      cbn [app rrem ridx rcaps]. rewrite lit93_on. change (93 =? 93) with true. cbv iota.
      cbn [rcaps ridx set_cap]. change (1 =? 0) with false. cbv iota. cbn [set_cap]. reflexivity.
    - intros st c r Hrem Hc. destruct st as [rm ix cp0]. cbn [rrem ridx rcaps] in *. subst rm.
      rewrite lit93_on. destruct (N.eqb_spec 93 c) as [<-|]; [discriminate Hc|reflexivity].
    - cbn [length]. lia.
    - lia. }
  exists [(1, (6, 6 + tlen (dec n))); (0, (0, 6 + tlen (dec n) + 1))], (6, 6 + tlen (dec n)).
  repeat split.
  - destruct s as [|c0 s0]; cbn [search_from]; rewrite Hm; reflexivity.
  - unfold cap_text. cbn [fst snd]. replace (6 + tlen (dec n) - 6) with (tlen (dec n)) by lia.
    rewrite Es. change 6 with (tlen ref_prefix). rewrite skipn_N_app, firstn_N_app. reflexivity.
Qed.

(* The same for EVERY accepted prefix, not only the rendering of a number: whatever 1..10 ASCII
   digits stand between the prefix and the bracket (leading zeros included), the documented
   regex matches at offset 0 and its group 1 is exactly those digits. *)
Theorem documented_regex_digits ds rest :
  ds <> [] -> tlen ds <= 10 -> forallb is_ascii_digit ds = true ->
  exists c, captures re_documented (ref_prefix ++ ds ++ [93] ++ rest) = Some c
            /\ get_cap c 1 = Some (6, 6 + tlen ds)
            /\ cap_text (ref_prefix ++ ds ++ [93] ++ rest) (6, 6 + tlen ds) = ds
            /\ get_cap c 0 = Some (0, 6 + tlen ds + 1).
Proof.
  intros Hne Hlen Hall.
  assert (Hpos : 1 <= tlen ds).
  { destruct ds as [|d ds']; [contradiction|]. cbn [tlen]. lia. }
  unfold captures, re_documented.
  remember (ref_prefix ++ ds ++ [93] ++ rest) as s eqn:Es.
  assert (Hm : m (RCat (RLit [91; 114; 101; 102; 58; 32])
                  (RCat (RCap 1 (RRep 1 (Some 10) true (RClass [(48, 57)]))) (RLit [93])))
                 (fun st => Some (set_cap (rcaps st) 0 (0, ridx st))) (mkR s 0 [])
               = Some [(1, (6, 6 + tlen ds)); (0, (0, 6 + tlen ds + 1))]).
  { rewrite m_cat, m_lit. cbn [rrem ridx rcaps]. fold ref_prefix. rewrite Es, strip_prefix_refl.
    change (0 + tlen ref_prefix) with 6.
    rewrite m_cat, m_cap, m_rep. cbn [rrem ridx rcaps]. fold digit_class.
    rewrite rep_class_greedy.
    - change (10 - 0) with 10.
      rewrite (span_class_exact digit_class ds ([93] ++ rest) 10);
        [|now rewrite forallb_digit_class|assumption|reflexivity].
      rewrite N.add_0_l.
      destruct (N.leb_spec 1 (tlen ds)) as [_|Hbad]; [|lia].
      cbn [app rrem ridx rcaps]. rewrite lit93_on. change (93 =? 93) with true. cbv iota.
      cbn [rcaps ridx set_cap]. change (1 =? 0) with false. cbv iota. cbn [set_cap]. reflexivity.
    - intros st c r Hrem Hc. destruct st as [rm ix cp0]. cbn [rrem ridx rcaps] in *. subst rm.
      rewrite lit93_on. destruct (N.eqb_spec 93 c) as [<-|]; [discriminate Hc|reflexivity].
    - cbn [length]. lia.
    - lia. }
  exists [(1, (6, 6 + tlen ds)); (0, (0, 6 + tlen ds + 1))].
  repeat split.
  - destruct s as [|c0 s0]; cbn [search_from]; rewrite Hm; reflexivity.
  - unfold cap_text. cbn [fst snd]. replace (6 + tlen ds - 6) with (tlen ds) by lia.
    rewrite Es. change 6 with (tlen ref_prefix). rewrite skipn_N_app, firstn_N_app. reflexivity.
Qed.

(* Agreement of the two readers on every message: whenever Breadlog treats a message as
   referenced with number n, the documented regex matches it at offset 0 and parsing its
   group 1 as a u32 gives the same n. *)
Theorem documented_regex_agrees s n :
  extract_reference the_params s = Some n ->
  exists c se, captures re_documented s = Some c
               /\ get_cap c 1 = Some se
               /\ parse_u32 (cap_text s se) = Some n
               /\ exists e, get_cap c 0 = Some (0, e).
Proof.
  intros H. apply extract_reference_iff in H.
  destruct H as (ds & rest & -> & Hne & Hlen & Hall & Hval & Hle).
  destruct (documented_regex_digits ds rest Hne Hlen Hall) as (c & Hc & H1 & Ht & H0).
  exists c, (6, 6 + tlen ds). repeat split; try assumption.
  - rewrite Ht. apply parse_u32_digits; [assumption|assumption|split; assumption].
  - eexists; exact H0.
Qed.

(* ---- the converse: a documented-regex match AT OFFSET 0 is a reference for Breadlog ------ *)

(* the matcher only ever answers through its continuation *)
Lemma rep_m_result ma k mn mx g :
  (forall k' s c, ma k' s = Some c -> exists s', k' s' = Some c) ->
  forall fuel n s c, rep_m ma k mn mx g fuel n s = Some c -> exists s', k s' = Some c.
Proof.
  intros Hma. induction fuel as [|f0 fuel IH]; intros n s c H.
  - cbn [rep_m] in H. destruct g.
    + destruct (mn <=? n); [eexists; exact H|discriminate].
    + destruct (mn <=? n); [|discriminate]. destruct (k s) eqn:Hk; [|discriminate].
      exists s. congruence.
  - cbn [rep_m] in H.
    assert (Hmore : forall c',
      (if match mx with Some x => n <? x | None => true end
       then ma (fun s' => if ridx s <? ridx s' then rep_m ma k mn mx g fuel (n + 1) s' else None) s
       else None) = Some c' -> exists s', k s' = Some c').
    { intros c' Hc'. destruct (match mx with Some x => n <? x | None => true end); [|discriminate].
      apply Hma in Hc' as (s1 & Hs1). destruct (ridx s <? ridx s1); [|discriminate].
      eapply IH; exact Hs1. }
    assert (Hstop : forall c', (if mn <=? n then k s else None) = Some c' -> exists s', k s' = Some c').
    { intros c' Hc'. destruct (mn <=? n); [eexists; exact Hc'|discriminate]. }
    destruct g.
    + destruct (if match mx with Some x => n <? x | None => true end then _ else None) as [c1|] eqn:E1.
      * injection H as <-. apply Hmore. reflexivity.
      * apply Hstop. exact H.
    + destruct (if mn <=? n then k s else None) as [c1|] eqn:E1.
      * injection H as <-. apply Hstop. reflexivity.
      * apply Hmore. exact H.
Qed.

Lemma m_result r : forall k s c, m r k s = Some c -> exists s', k s' = Some c.
Proof.
  induction r as [|l|rs| | |mn mx g a IH|i a IH|a IHa b IHb|a IHa b IHb]; intros k s c H; cbn [m] in H.
  - eexists; exact H.
  - destruct (strip_prefix l (rrem s)); [eexists; exact H|discriminate].
  - destruct (rrem s) as [|c0 t]; [discriminate|]. destruct (in_ranges rs c0); [eexists; exact H|discriminate].
  - destruct (ridx s =? 0); [eexists; exact H|discriminate].
  - destruct (rrem s); [eexists; exact H|discriminate].
  - eapply rep_m_result; [exact IH|exact H].
  - apply IH in H as (s1 & H1). eexists; exact H1.
  - apply IHa in H as (s1 & H1). apply IHb in H1. exact H1.
  - destruct (m a k s) as [c1|] eqn:E.
    + injection H as <-. eapply IHa; exact E.
    + eapply IHb; exact H.
Qed.

Lemma get_set_cap0 cs v : get_cap (set_cap cs 0 v) 0 = Some v.
Proof.
  induction cs as [|[j w] cs IH]; cbn [set_cap get_cap].
  - reflexivity.
  - destruct (j =? 0) eqn:E; cbn [get_cap]; [reflexivity|rewrite E; exact IH].
Qed.

(* group 0 of a match found by the search from idx starts at or after idx *)
Lemma search_from_start r : forall t idx c,
  search_from r t idx = Some c -> exists i e, get_cap c 0 = Some (i, e) /\ idx <= i.
Proof.
  induction t as [|c0 t IH]; intros idx c H; cbn [search_from] in H.
  - destruct (m r _ _) as [c1|] eqn:E; [|discriminate]. injection H as <-.
    apply m_result in E as (s1 & E). injection E as <-.
    exists idx, (ridx s1). split; [apply get_set_cap0|lia].
  - destruct (m r _ _) as [c1|] eqn:E.
    + injection H as <-. apply m_result in E as (s1 & E). injection E as <-.
      exists idx, (ridx s1). split; [apply get_set_cap0|lia].
    + apply IH in H as (i & e & Hg & Hi). exists i, e. split; [exact Hg|lia].
Qed.

(* an unanchored match whose group 0 starts at 0 is the anchored match *)
Lemma captures_at_zero r t c e :
  captures r t = Some c -> get_cap c 0 = Some (0, e) ->
  captures (RCat RStart r) t = Some c.
Proof.
  unfold captures. intros H H0. rewrite search_from_anchored, m_cat, m_start.
  cbn [ridx]. change (0 =? 0) with true. cbv iota.
  destruct t as [|c0 t]; cbn [search_from] in H.
  - destruct (m r _ _) as [c1|]; [exact H|discriminate].
  - destruct (m r _ _) as [c1|]; [exact H|].
    apply search_from_start in H as (i & e' & Hg & Hi). rewrite Hg in H0. injection H0 as -> _. lia.
Qed.

Theorem documented_regex_converse s c se e n :
  captures re_documented s = Some c -> get_cap c 0 = Some (0, e) ->
  get_cap c 1 = Some se -> parse_u32 (cap_text s se) = Some n ->
  extract_reference the_params s = Some n.
Proof.
  intros Hc H0 H1 Hp. unfold extract_reference. cbn [p_ref_re the_params].
  change re_LOG_REF_PATTERN with (RCat RStart re_documented).
  rewrite (captures_at_zero _ _ _ _ Hc H0), H1. exact Hp.
Qed.

(* ref-like text elsewhere: when the first match of the documented regex starts after offset 0
   (or there is none), the message is not referenced for Breadlog *)
Theorem later_match_not_reference s :
  match captures re_documented s with
  | None => True
  | Some c => exists i e, get_cap c 0 = Some (i, e) /\ 0 < i
  end ->
  extract_reference the_params s = None.
Proof.
  intros H. destruct (extract_reference the_params s) as [n|] eqn:E; [|reflexivity].
  apply documented_regex_agrees in E as (c & se & Hc & _ & _ & e0 & H0).
  rewrite Hc in H. destruct H as (i & e & Hg & Hi). rewrite Hg in H0. injection H0 as -> _. lia.
Qed.

(* Regex::captures is LEFTMOST for every regex of the fragment: no start position before the
   reported one has a match. *)
Theorem search_from_leftmost r : forall t idx c i e j,
  search_from r t idx = Some c -> get_cap c 0 = Some (i, e) -> idx <= j < i ->
  m r (fun s => Some (set_cap (rcaps s) 0 (j, ridx s))) (mkR (skipn_N (j - idx) t) j []) = None.
Proof.
  induction t as [|c0 t IH]; intros idx c i e j H Hg Hj; cbn [search_from] in H.
  - destruct (m r _ _) as [c1|] eqn:E; [|discriminate]. injection H as <-.
    apply m_result in E as (s1 & E). injection E as <-.
    rewrite get_set_cap0 in Hg. injection Hg as <- _. lia.
  - destruct (m r _ _) as [c1|] eqn:E.
    + injection H as <-. apply m_result in E as (s1 & E). injection E as <-.
      rewrite get_set_cap0 in Hg. injection Hg as <- _. lia.
    + destruct (N.eq_dec j idx) as [->|Hne].
      * rewrite N.sub_diag. cbn [skipn_N]. change (0 =? 0) with true. cbv iota. exact E.
      * cbn [skipn_N]. destruct (N.eqb_spec (j - idx) 0) as [H0|_]; [lia|].
        replace (j - idx - 1) with (j - (idx + 1)) by lia.
        eapply IH; [exact H|exact Hg|lia].
Qed.
