(* RewriteFacts.v -- what InsertReferencesProcessor::map (Model/Driver.v: insert_loop,
   insert_map) writes: the specification function `weave`, and the proof that the loop
   produces it, for every byte string, entry list, counter value and injected fault. *)
From Coq Require Import List NArith Bool Lia.
From Breadlog Require Import Model.Peg Model.Text Model.Regex Model.Glue Model.Utf8 Model.Driver.
From Breadlog Require Import Proofs.BytesFacts.
Import ListNotations.
Open Scope N_scope.

Definition payload (e : eff) : list N := match e with EWriteTmp _ bs => bs | _ => [] end.
Definition written (es : list eff) : list N := flat_map payload es.

Definition is_write (f : nat) (e : eff) : Prop := exists bs, e = EWriteTmp f bs.

Lemma written_app a b : written (a ++ b) = written a ++ written b.
Proof. unfold written. apply flat_map_app. Qed.

Section Rewrite.
  Variable P : params.

  (* ids handed out to a list of entries, starting from ctr *)
  Fixpoint ids_of (todo : list entry) (ctr : N) : list (N * N) :=
    match todo with
    | [] => []
    | e :: r => (e_pos e, ctr) :: ids_of r (ctr + 1)
    end.

  (* SPECIFICATION of the new content from the cursor on.  rest = the original bytes from the
     cursor; positions are absolute byte offsets. *)
  Fixpoint weave (rest : list N) (cursor : N) (todo : list entry) (ctr : N) : option (list N) :=
    match todo with
    | [] => Some rest
    | e :: r =>
        if e_pos e <? cursor then None else
        match btake (e_pos e - cursor) rest, bdrop (e_pos e - cursor) rest with
        | Some chunk, Some rest' =>
            match weave rest' (e_pos e) r (ctr + 1) with
            | Some x => Some (chunk ++ utf8_encode (insertable P e ctr) ++ x)
            | None => None
            end
        | _, _ => None
        end
    end.

  Definition lenN {A} (l : list A) : N := N.of_nat (length l).

  Lemma lenN_cons {A} (x : A) l : lenN (x :: l) = 1 + lenN l.
  Proof. unfold lenN. cbn [length]. lia. Qed.

  Lemma ids_of_length todo : forall ctr, length (ids_of todo ctr) = length todo.
  Proof. induction todo; intros; cbn; auto. Qed.

  Variable f : nat.
  Variable b : list N.
  Variable flt : fault.

  Lemma fail_res_inv ctr effs_rev r :
    fail_res ctr effs_rev f = IRes r ->
    ir_failure r = true /\ ir_renamed r = false /\ ir_ids r = [] /\ ir_ctr r = ctr /\
    ir_count r = 0 /\ ir_effs r = rev effs_rev ++ [EUnlinkTmp f].
  Proof. unfold fail_res. intros H. inversion H; subst. cbn. repeat split; reflexivity. Qed.

  Definition loop_post (todo : list entry) (cursor ctr created : N) (effs_rev : list eff)
             (ids_rev : list (N * N)) (rest : list N) (r : ires) : Prop :=
    exists writes,
      Forall (is_write f) writes /\
      ctr <= ir_ctr r /\ ir_ctr r <= ctr + lenN todo /\
      (ctr <= u32max -> ir_ctr r <= u32max) /\
      (ir_renamed r = true ->
         ir_failure r = false /\
         ir_effs r = rev effs_rev ++ writes ++ [ERename f] /\
         weave rest cursor todo ctr = Some (written writes) /\
         ir_ctr r = ctr + lenN todo /\ ir_count r = created + lenN todo /\
         ir_ids r = rev ids_rev ++ ids_of todo ctr) /\
      (ir_renamed r = false ->
         ir_failure r = true /\ ir_ids r = [] /\
         ir_effs r = rev effs_rev ++ writes ++ [EUnlinkTmp f] /\
         (flt <> FRename -> ir_count r = 0)).

  Lemma loop_post_fail todo cursor ctr ctr' created effs_rev ids_rev rest r writes :
    Forall (is_write f) writes ->
    ctr <= ctr' -> ctr' <= ctr + lenN todo -> (ctr <= u32max -> ctr' <= u32max) ->
    fail_res ctr' (rev writes ++ effs_rev) f = IRes r ->
    loop_post todo cursor ctr created effs_rev ids_rev rest r.
  Proof.
    intros Hw H1 H2 H3 H. apply fail_res_inv in H. destruct H as (Hf & Hr & Hi & Hc & Hcnt & He).
    exists writes. split; [exact Hw|]. rewrite Hc. split; [exact H1|]. split; [exact H2|]. split; [exact H3|].
    split; intros Hx; [rewrite Hr in Hx; discriminate|].
    split; [exact Hf|]. split; [exact Hi|]. split; [|intros _; exact Hcnt].
    rewrite He. rewrite rev_app_distr, rev_involutive, <- app_assoc. reflexivity.
  Qed.

  Ltac finish_final :=
    cbn [ir_ctr ir_renamed ir_failure ir_effs ir_ids ir_count lenN length N.of_nat];
    (split; [lia|]); (split; [lia|]); (split; [lia|]); split; intros Hx; try discriminate;
    cbn [rev]; rewrite <- ?app_assoc; cbn [app weave written flat_map payload ids_of];
    rewrite ?app_nil_r; repeat split; try reflexivity; try lia; try congruence.

  Lemma insert_loop_spec : forall todo cursor ctr w created effs_rev ids_rev rest r,
    bdrop cursor b = Some rest ->
    insert_loop P f b todo cursor ctr flt w created effs_rev ids_rev = IRes r ->
    loop_post todo cursor ctr created effs_rev ids_rev rest r.
  Proof.
    induction todo as [|e todo IH]; intros cursor ctr w created effs_rev ids_rev rest r Hrest H.
    - (* tail, flush, rename *)
      cbn [insert_loop] in H.
      destruct (bdrop_some_le _ _ _ Hrest) as [Hle Hlen].
      destruct (N.ltb_spec cursor (blength b)) as [Hlt|Hge].
      + rewrite (bslice_via_rest b cursor (blength b) rest Hrest) in H by lia.
        rewrite <- Hlen, btake_all in H. cbn [andb] in H.
        destruct (is_fwrite flt w) eqn:Ew.
        { apply (loop_post_fail [] cursor ctr ctr created effs_rev ids_rev rest r []);
            [constructor | lia | lia | lia | exact H]. }
        destruct (is_fwrite flt (S w)) eqn:Ew2.
        { apply (loop_post_fail [] cursor ctr ctr created effs_rev ids_rev rest r [EWriteTmp f rest]);
            [repeat constructor; eexists; reflexivity | lia | lia | lia | exact H]. }
        destruct flt eqn:Eflt; inversion H; subst r; clear H;
          exists [EWriteTmp f rest]; (split; [repeat constructor; eexists; reflexivity|]);
          finish_final.
      + cbn [andb] in H.
        destruct (is_fwrite flt w) eqn:Ew.
        { apply (loop_post_fail [] cursor ctr ctr created effs_rev ids_rev rest r []);
            [constructor | lia | lia | lia | exact H]. }
        assert (rest = []) as ->.
        { destruct rest; [reflexivity|]. cbn [blength] in Hlen. lia. }
        destruct flt eqn:Eflt; inversion H; subst r; clear H;
          exists []; (split; [constructor|]); finish_final.
    - cbn [insert_loop] in H.
      destruct (N.ltb_spec (e_pos e) cursor) as [Hlt|Hge].
      { apply (loop_post_fail (e :: todo) cursor ctr ctr created effs_rev ids_rev rest r []);
          [constructor | lia | rewrite lenN_cons; lia | lia | exact H]. }
      rewrite (bslice_via_rest b cursor (e_pos e) rest Hrest Hge) in H.
      destruct (btake (e_pos e - cursor) rest) as [chunk|] eqn:Echunk; [|discriminate].
      destruct (is_fwrite flt w) eqn:Ew.
      { apply (loop_post_fail (e :: todo) cursor ctr ctr created effs_rev ids_rev rest r []);
          [constructor | lia | rewrite lenN_cons; lia | lia | exact H]. }
      destruct (N.leb_spec u32max ctr) as [Hov|Hnov].
      { apply (loop_post_fail (e :: todo) cursor ctr ctr created effs_rev ids_rev rest r [EWriteTmp f chunk]);
          [repeat constructor; eexists; reflexivity | lia | rewrite lenN_cons; lia | lia | exact H]. }
      destruct (is_fwrite flt (S w)) eqn:Ew2.
      { apply (loop_post_fail (e :: todo) cursor ctr (ctr + 1) created effs_rev ids_rev rest r [EWriteTmp f chunk]);
          [repeat constructor; eexists; reflexivity | lia | rewrite lenN_cons; lia | lia | exact H]. }
      (* the recursive call *)
      destruct (bdrop_le_some rest (e_pos e - cursor) (btake_some_le _ _ _ Echunk)) as [rest' Hrest'].
      assert (Hrest2 : bdrop (e_pos e) b = Some rest').
      { replace (e_pos e) with (cursor + (e_pos e - cursor)) by lia.
        rewrite (bdrop_add b cursor (e_pos e - cursor) rest Hrest). exact Hrest'. }
      specialize (IH _ _ _ _ _ _ _ _ Hrest2 H).
      destruct IH as (writes & Hw & Hc1 & Hc2 & Hc3 & Hren & Hnoren).
      exists (EWriteTmp f chunk :: EWriteTmp f (utf8_encode (insertable P e ctr)) :: writes).
      split; [repeat constructor; try (eexists; reflexivity); exact Hw|].
      rewrite lenN_cons. split; [lia|]. split; [lia|]. split; [lia|]. split; intros Hx.
      + destruct (Hren Hx) as (Hf & He & Hwv & Hctr & Hcnt & Hids).
        split; [exact Hf|]. split.
        { rewrite He. cbn [rev]. rewrite <- !app_assoc. reflexivity. }
        split.
        { cbn [weave]. destruct (N.ltb_spec (e_pos e) cursor); [lia|].
          rewrite Echunk, Hrest', Hwv. cbn [written flat_map payload]. reflexivity. }
        split; [lia|]. split; [lia|].
        rewrite Hids. cbn [rev ids_of]. rewrite <- app_assoc. reflexivity.
      + destruct (Hnoren Hx) as (Hf & Hids & He & Hcnt).
        split; [exact Hf|]. split; [exact Hids|]. split; [|exact Hcnt].
        rewrite He. cbn [rev]. rewrite <- !app_assoc. reflexivity.
  Qed.

  (* insert_map: nothing to do, creation failure, or the loop from offset 0 *)
  Lemma insert_map_spec es ctr r :
    insert_map P f b es ctr flt = IRes r ->
    (filter missing_insert es = [] /\ r = mkIres false 0 ctr [] [] false) \/
    (filter missing_insert es <> [] /\ flt = FCreate /\ r = mkIres true 0 ctr [] [] false) \/
    (filter missing_insert es <> [] /\ flt <> FCreate /\
     loop_post (filter missing_insert es) 0 ctr 0 [ECreateTmp f] [] b r).
  Proof.
    unfold insert_map. intros H.
    destruct (filter missing_insert es) as [|e0 t0] eqn:Et.
    - left. inversion H. split; reflexivity.
    - right. destruct flt eqn:Ef.
      + right. split; [discriminate|]. split; [discriminate|].
        rewrite <- Ef in H. eapply insert_loop_spec; [apply bdrop_0 | exact H].
      + left. inversion H. repeat split; try reflexivity. discriminate.
      + right. split; [discriminate|]. split; [discriminate|].
        rewrite <- Ef in H. eapply insert_loop_spec; [apply bdrop_0 | exact H].
      + right. split; [discriminate|]. split; [discriminate|].
        rewrite <- Ef in H. eapply insert_loop_spec; [apply bdrop_0 | exact H].
  Qed.
End Rewrite.

(* ---- what `weave` means: the new content is the original cut into chunks with one token
   after each of the first m chunks; deleting the tokens gives the original back ---- *)
Section Weave.
  Variable P : params.

  Fixpoint zip_new (chunks toks : list (list N)) (last : list N) : list N :=
    match chunks, toks with
    | c :: cs, t :: ts => c ++ t ++ zip_new cs ts last
    | _, _ => last
    end.

  (* absolute offset at which the k-th token stands in the ORIGINAL *)
  Fixpoint offsets (cursor : N) (chunks : list (list N)) : list N :=
    match chunks with
    | [] => []
    | c :: cs => (cursor + blength c) :: offsets (cursor + blength c) cs
    end.

  Fixpoint tokens (todo : list entry) (ctr : N) : list (list N) :=
    match todo with
    | [] => []
    | e :: r => utf8_encode (insertable P e ctr) :: tokens r (ctr + 1)
    end.

  Theorem weave_decompose : forall todo rest cursor ctr out,
    weave P rest cursor todo ctr = Some out ->
    exists chunks last,
      length chunks = length todo /\
      out = zip_new chunks (tokens todo ctr) last /\
      rest = concat chunks ++ last /\
      map e_pos todo = offsets cursor chunks.
  Proof.
    induction todo as [|e todo IH]; intros rest cursor ctr out H.
    - cbn in H. inversion H; subst. exists [], out. repeat split; reflexivity.
    - cbn [weave] in H.
      destruct (N.ltb_spec (e_pos e) cursor) as [|Hge]; [discriminate|].
      destruct (btake (e_pos e - cursor) rest) as [chunk|] eqn:Ec; [|discriminate].
      destruct (bdrop (e_pos e - cursor) rest) as [rest'|] eqn:Ed; [|discriminate].
      destruct (weave P rest' (e_pos e) todo (ctr + 1)) as [x|] eqn:Ew; [|discriminate].
      inversion H; subst out; clear H.
      destruct (IH _ _ _ _ Ew) as (chunks & last & Hl & Hout & Hrest & Hoff).
      destruct (btake_bdrop_app _ _ _ _ Ec Ed) as [Hsplit Hlen].
      exists (chunk :: chunks), last.
      split; [cbn; lia|]. split; [cbn [zip_new tokens]; rewrite Hout; reflexivity|].
      split; [cbn [concat]; rewrite <- app_assoc, <- Hrest; exact Hsplit|].
      cbn [map offsets]. rewrite Hlen. replace (cursor + (e_pos e - cursor)) with (e_pos e) by lia.
      rewrite Hoff. reflexivity.
  Qed.
End Weave.

(* ---- one file of the insert pass, summarised ---- *)
Section FileSummary.
  Variable P : params.

  Definition file_renamed (i : nat) (b : list N) (es : list entry) (ctr : N) (r : ires) : Prop :=
    let todo := filter missing_insert es in
    ir_renamed r = true /\ ir_failure r = false /\ todo <> [] /\
    exists writes,
      Forall (is_write i) writes /\
      ir_effs r = (ECreateTmp i :: writes) ++ [ERename i] /\
      weave P b 0 todo ctr = Some (written writes) /\
      ir_ids r = ids_of todo ctr /\
      ir_ctr r = ctr + lenN todo /\ ir_count r = lenN todo.

  Definition file_not_renamed (i : nat) (es : list entry) (ctr : N) (r : ires) : Prop :=
    ir_renamed r = false /\ ir_ids r = [] /\
    (ir_effs r = [] \/
     exists writes, Forall (is_write i) writes /\
                    ir_effs r = (ECreateTmp i :: writes) ++ [EUnlinkTmp i]) /\
    (ir_failure r = false ->
     filter missing_insert es = [] /\ ir_count r = 0 /\ ir_ctr r = ctr /\ ir_effs r = []).

  Lemma file_count_zero i b es ctr flt r :
    insert_map P i b es ctr flt = IRes r -> ir_renamed r = false -> flt <> FRename -> ir_count r = 0.
  Proof.
    intros H Hr Hf. apply insert_map_spec in H.
    destruct H as [[Ht ->]|[(Ht & Hf' & ->)|(Ht & Hf' & Hpost)]]; [reflexivity|reflexivity|].
    destruct Hpost as (writes & _ & _ & _ & _ & _ & Hnoren).
    destruct (Hnoren Hr) as (_ & _ & _ & Hc). exact (Hc Hf).
  Qed.

  Lemma file_summary i b es ctr flt r :
    insert_map P i b es ctr flt = IRes r ->
    ctr <= ir_ctr r /\ (ctr <= u32max -> ir_ctr r <= u32max) /\
    ir_ctr r <= ctr + lenN (filter missing_insert es) /\
    (file_renamed i b es ctr r \/ file_not_renamed i es ctr r).
  Proof.
    intros H. apply insert_map_spec in H.
    destruct H as [[Ht ->]|[(Ht & Hf & ->)|(Ht & Hf & Hpost)]].
    - cbn. split; [lia|]. split; [auto|]. split; [lia|]. right.
      unfold file_not_renamed. cbn. repeat split; auto.
    - cbn. split; [lia|]. split; [auto|]. split; [lia|]. right.
      unfold file_not_renamed. cbn. repeat split; auto. discriminate.
    - destruct Hpost as (writes & Hw & Hc1 & Hc2 & Hc3 & Hren & Hnoren).
      split; [exact Hc1|]. split; [exact Hc3|]. split; [exact Hc2|].
      destruct (ir_renamed r) eqn:Er.
      + left. destruct (Hren eq_refl) as (Hfl & He & Hwv & Hctr & Hcnt & Hids).
        unfold file_renamed. rewrite Er. repeat split; auto.
        exists writes. cbn [rev app] in *. repeat split; auto.
      + right. destruct (Hnoren eq_refl) as (Hfl & Hids & He & _).
        unfold file_not_renamed. rewrite Er. split; [reflexivity|]. split; [exact Hids|].
        split.
        * right. exists writes. split; [exact Hw|]. exact He.
        * rewrite Hfl. discriminate.
  Qed.
End FileSummary.
