(* CheckFacts.v -- check mode (Model/Driver.v: count_map, pass_count, run_check): what it reports
   and when it fails (C05), stop requests (C18). *)
From Coq Require Import List Arith NArith Bool Lia.
From Breadlog Require Import Model.Peg Model.Text Model.Regex Model.Glue Model.Utf8 Model.Driver.
From Breadlog Require Import Proofs.RewriteFacts Proofs.DriverFacts Proofs.AllocFacts.
Import ListNotations.
Open Scope N_scope.

Definition is_missing_report (r : report) : bool :=
  match r with RMissing _ _ _ => true | RUnusable _ _ _ => false end.

Definition missing_reports (f : nat) (es : list entry) : list report :=
  map (fun e => RMissing f (e_line e) (e_col e)) (filter missing_insert es).

Lemma count_map_spec f : forall es acc_rev n,
  let r := count_map f es acc_rev n in
  snd r = n + lenN (filter missing_insert es) /\
  filter is_missing_report (fst r) =
    filter is_missing_report (rev acc_rev) ++ missing_reports f es.
Proof.
  induction es as [|e es IH]; intros acc_rev n; cbn [count_map].
  - cbn. unfold missing_reports. cbn. rewrite app_nil_r. split; [unfold lenN; cbn; lia|reflexivity].
  - unfold missing_reports in *. cbn [filter].
    destruct (exists_ref e) eqn:Ex; cbn [negb andb].
    + assert (Hm : missing_insert e = false) by (unfold missing_insert; rewrite Ex; reflexivity).
      rewrite Hm. apply IH.
    + destruct (usable e) eqn:Eu; cbn [negb].
      * assert (Hm : missing_insert e = true) by (unfold missing_insert; rewrite Ex, Eu; reflexivity).
        rewrite Hm.
        destruct (IH (RMissing f (e_line e) (e_col e) :: acc_rev) (n + 1)) as [H1 H2].
        split; [rewrite H1, lenN_cons; lia|].
        rewrite H2. cbn [rev map]. rewrite filter_app. cbn [filter is_missing_report].
        rewrite <- app_assoc. reflexivity.
      * assert (Hm : missing_insert e = false) by (unfold missing_insert; rewrite Ex, Eu; reflexivity).
        rewrite Hm.
        destruct (IH (RUnusable f (e_line e) (e_col e) :: acc_rev) n) as [H1 H2].
        split; [exact H1|]. rewrite H2. cbn [rev]. rewrite filter_app. cbn [filter is_missing_report].
        rewrite app_nil_r. reflexivity.
Qed.

Section Check.
  Variable finder : config -> text -> outcome (list entry).
  Variable cfg : config.
  Variable rfail : nat -> bool.

  (* what a complete, uninterrupted check pass must report, file by file *)
  Fixpoint expected_missing (files : list (list N)) (i : nat) : list report :=
    match files with
    | [] => []
    | b :: r =>
        match file_entries finder cfg (rfail i) b with
        | FEntries es => missing_reports i es ++ expected_missing r (S i)
        | _ => expected_missing r (S i)
        end
    end.

  Lemma pass_count_ok stop : forall files i reps total reps' total',
    pass_count finder cfg stop rfail files i reps total = POk (reps', total') ->
    total' = total + lenN (expected_missing files i) /\
    filter is_missing_report reps' = filter is_missing_report reps ++ expected_missing files i.
  Proof.
    induction files as [|b files IH]; intros i reps total reps' total' H; cbn [pass_count] in H.
    - destruct (stops stop i); [discriminate|]. inversion H; subst. cbn. rewrite app_nil_r.
      split; [unfold lenN; cbn; lia|reflexivity].
    - destruct (stops stop i); [discriminate|]. cbn [expected_missing].
      destruct (file_entries finder cfg (rfail i) b) as [| | |es] eqn:Efe; try discriminate.
      + apply (IH _ _ _ _ _ H).
      + destruct (count_map i es [] 0) as [rs n] eqn:Ecm.
        pose proof (count_map_spec i es [] 0) as Hs. rewrite Ecm in Hs. cbn [fst snd rev] in Hs.
        destruct Hs as [Hn Hr]. cbn [filter app] in Hr.
        destruct (IH _ _ _ _ _ H) as [H1 H2]. split.
        * rewrite H1, Hn. unfold lenN, missing_reports in *. rewrite app_length, map_length. lia.
        * rewrite H2, filter_app, Hr, <- app_assoc. reflexivity.
  Qed.

  (* a stop request seen at any poll ends the pass without a verdict *)
  Lemma pass_count_stop stop k : forall files i reps total,
    stop = Some k -> (k <= i + length files)%nat ->
    pres_ok (pass_count finder cfg stop rfail files i reps total) = false.
  Proof.
    induction files as [|b files IH]; intros i reps total Hs Hk; cbn [pass_count].
    - cbn in Hk. unfold stops. rewrite Hs. destruct (Nat.leb_spec k i); [reflexivity|lia].
    - destruct (stops stop i) eqn:Est; [reflexivity|].
      cbn [length] in Hk.
      destruct (file_entries finder cfg (rfail i) b); try reflexivity.
      + apply IH; [exact Hs|lia].
      + destruct (count_map i es [] 0). apply IH; [exact Hs|lia].
  Qed.
End Check.

Section CheckRun.
  Variable finder : config -> text -> outcome (list entry).

  (* C05: the verdict of an uninterrupted, non-panicking check is exact *)
  Theorem check_verdict rc files o :
    files <> [] ->
    let out := run_check finder rc (Some files) o in
    ro_exit out <> XPanic -> ro_exit out <> XHang -> o_stop2 o = None ->
    let expected := expected_missing finder (rc_cfg rc) (o_rfail2 o) files 0 in
    filter is_missing_report (ro_reports out) = expected /\
    ro_total out = Some (lenN expected) /\
    (ro_exit out = XErr <-> expected <> []) /\ (ro_exit out = XOk <-> expected = []).
  Proof.
    intros Hne. cbv zeta. unfold run_check. destruct files as [|b0 fs] eqn:Ef; [congruence|].
    rewrite <- Ef.
    destruct (pass_count finder (rc_cfg rc) (o_stop2 o) (o_rfail2 o) files 0 [] 0) as [[r t]|[r t]|[r t]|[r t]] eqn:Ep;
      cbn [ro_exit ro_reports ro_total]; intros Hnp Hnh Hst; try congruence.
    - (* PStop without a stop request is impossible *)
      exfalso. rewrite Hst in Ep. clear - Ep. revert Ep. generalize 0%nat, (@nil report), 0.
      induction files as [|b files IH]; intros i reps total H; cbn [pass_count stops] in H; [discriminate|].
      destruct (file_entries finder (rc_cfg rc) (o_rfail2 o i) b); try discriminate; eauto.
      destruct (count_map i es [] 0). eauto.
    - destruct (pass_count_ok finder (rc_cfg rc) (o_rfail2 o) (o_stop2 o) files 0 [] 0 r t Ep) as [Ht Hr].
      cbn [filter app] in Hr. rewrite N.add_0_l in Ht. rewrite Hr, Ht.
      split; [reflexivity|]. split; [reflexivity|].
      set (ex := expected_missing finder (rc_cfg rc) (o_rfail2 o) files 0).
      destruct ex as [|x ex']; unfold lenN; cbn [length N.of_nat].
      + cbn. split; split; intros H; try congruence; try reflexivity.
      + rewrite (proj2 (N.ltb_lt 0 _)) by lia. split; split; intros H; try congruence; try discriminate; reflexivity.
  Qed.

  (* C18 (check mode): a stop request seen at any poll of the pass makes the check fail *)
  Theorem check_stop_fails rc files o k :
    files <> [] -> o_stop2 o = Some k -> (k <= length files)%nat ->
    ro_exit (run_check finder rc (Some files) o) <> XOk.
  Proof.
    intros Hne Hs Hk. unfold run_check. destruct files as [|b0 fs] eqn:Ef; [congruence|]. rewrite <- Ef in *.
    pose proof (pass_count_stop finder (rc_cfg rc) (o_rfail2 o) (o_stop2 o) k files 0 [] 0 Hs Hk) as Hp.
    destruct (pass_count _ _ _ _ _ _ _ _) as [[r t]|[r t]|[r t]|[r t]]; cbn in Hp |- *; try discriminate.
  Qed.
End CheckRun.

(* ---- stop requests and configuration switches in edit mode (C18, C16) ---- *)
Section EditStop.
  Variable P : params.
  Variable finder : config -> text -> outcome (list entry).
  Variable start_id : N.

  Lemma pass_insert_stop cfg stop rfail flt k : forall files i st,
    stop = Some k -> (k <= i + length files)%nat ->
    pres_ok (pass_insert P finder cfg stop rfail flt files i st) = false.
  Proof.
    induction files as [|b files IH]; intros i st Hs Hk; cbn [pass_insert].
    - cbn in Hk. unfold stops. rewrite Hs. destruct (Nat.leb_spec k i); [reflexivity|lia].
    - destruct (stops stop i) eqn:Est; [reflexivity|]. cbn [length] in Hk.
      destruct (file_entries finder cfg (rfail i) b); try reflexivity.
      + apply IH; [exact Hs|lia].
      + destruct (insert_map P i b es (is_ctr st) (flt i)); [reflexivity|]. apply IH; [exact Hs|lia].
  Qed.

  (* an edit run that sees a stop request during its insert pass does not report success;
     it can only exit 0 if it never needed that pass (nothing was missing) *)
  Theorem edit_stop_fails rc files lk o k :
    o_stop2 o = Some k -> (k <= length files)%nat ->
    let out := run_edit P finder start_id rc (Some files) lk o in
    ro_exit out = XOk -> ro_effs out = [] /\ ro_total out = None /\ ro_ids out = [].
  Proof.
    intros Hs Hk. cbv zeta. unfold run_edit. destruct files as [|b0 fs] eqn:Ef; [discriminate|].
    rewrite <- Ef in *.
    assert (Hp : forall st, pres_ok (pass_insert P finder (rc_cfg rc) (o_stop2 o) (o_rfail2 o) (o_fault o) files 0 st) = false).
    { intros st. apply (pass_insert_stop (rc_cfg rc) (o_stop2 o) (o_rfail2 o) (o_fault o) k files 0 st Hs Hk). }
    destruct (cached_id rc lk) as [id|].
    - specialize (Hp (mkIst (N.max id start_id) false 0 [] [])).
      destruct (pass_insert _ _ _ _ _ _ _ _ _); cbn in Hp |- *; try discriminate.
    - destruct (pass_nextid _ _ _ _ _ _ _) as [a|a|a|rs]; try discriminate.
      destruct (nextid_reduce start_id rs) as [next miss].
      destruct (miss =? 0); [intros _; repeat split; reflexivity|].
      specialize (Hp (mkIst next false 0 [] [])).
      destruct (pass_insert _ _ _ _ _ _ _ _ _); cbn in Hp |- *; try discriminate.
  Qed.

  (* a stop request during the first pass: failure, nothing touched *)
  Theorem edit_stop_first_pass rc files lk o k :
    files <> [] -> cached_id rc lk = None -> o_stop1 o = Some k -> (k <= length files)%nat ->
    let out := run_edit P finder start_id rc (Some files) lk o in
    ro_exit out <> XOk /\ ro_effs out = [].
  Proof.
    intros Hne Hc Hs Hk. cbv zeta. unfold run_edit. destruct files as [|b0 fs] eqn:Ef; [congruence|].
    rewrite <- Ef in *. rewrite Hc.
    assert (Hp : forall acc, pres_ok (pass_nextid finder (rc_cfg rc) (o_stop1 o) (o_rfail1 o) files 0 acc) = false).
    { assert (G : forall fl i acc, (k <= i + length fl)%nat ->
                pres_ok (pass_nextid finder (rc_cfg rc) (o_stop1 o) (o_rfail1 o) fl i acc) = false).
      { induction fl as [|b fl IH]; intros i acc Hki; cbn [pass_nextid].
        - cbn in Hki. unfold stops. rewrite Hs. destruct (Nat.leb_spec k i); [reflexivity|lia].
        - destruct (stops (o_stop1 o) i); [reflexivity|]. cbn [length] in Hki.
          destruct (file_entries finder (rc_cfg rc) (o_rfail1 o i) b); try reflexivity; apply IH; lia. }
      intros acc. apply G. lia. }
    specialize (Hp []).
    destruct (pass_nextid _ _ _ _ _ _ _); cbn in Hp |- *; try discriminate; split; try reflexivity; discriminate.
  Qed.

  (* C16: with the cache disabled neither mode performs a lock operation, and the lock is not
     consulted; a lock that cannot be parsed is ignored in favour of scanning *)
  Theorem no_cache_no_lock_ops rc disc lk o :
    rc_use_cache rc = false ->
    let out := run_edit P finder start_id rc disc lk o in
    cached_id rc lk = None /\
    Forall (fun e => e <> ELockTrunc /\ forall n, e <> ELockWrite n) (ro_effs out) /\
    run_edit P finder start_id rc disc lk o = run_edit P finder start_id rc disc LAbsent o.
  Proof.
    intros Huc. cbv zeta.
    assert (Hc : forall l, cached_id rc l = None) by (intros l; unfold cached_id; rewrite Huc; reflexivity).
    split; [apply Hc|]. split.
    - unfold run_edit. destruct disc as [[|b0 fs]|]; try constructor. rewrite Hc.
      assert (Hl : forall id, lock_effs rc o id = []) by (intros; unfold lock_effs; rewrite Huc; reflexivity).
      set (files := b0 :: fs).
      assert (Hgo : forall st s, Forall (fun e => e <> ELockTrunc /\ forall n, e <> ELockWrite n) (is_effs st) ->
                 Forall (fun e => e <> ELockTrunc /\ forall n, e <> ELockWrite n)
                   (is_effs (pres_state (pass_insert P finder (rc_cfg rc) (o_stop2 o) (o_rfail2 o) (o_fault o) files s st)))).
      { induction files as [|b fl IH]; intros st s Hst; cbn [pass_insert].
        - destruct (stops (o_stop2 o) s); exact Hst.
        - destruct (stops (o_stop2 o) s); [exact Hst|].
          destruct (file_entries finder (rc_cfg rc) (o_rfail2 o s) b) as [| | |es]; try exact Hst; [apply IH; exact Hst|].
          destruct (insert_map P s b es (is_ctr st) (o_fault o s)) as [|r] eqn:Eim; [exact Hst|].
          apply IH. cbn [is_effs]. apply Forall_app. split; [exact Hst|].
          destruct (file_summary P s b es (is_ctr st) (o_fault o s) r Eim) as (_ & _ & _ & [Hr|Hn]).
          + destruct Hr as (_ & _ & _ & ws & Hw & -> & _).
            apply Forall_app. split; [constructor; [split; [discriminate|intros; discriminate]|]|constructor; [split; [discriminate|intros; discriminate]|constructor]].
            eapply Forall_impl; [|exact Hw]. intros e [bs ->]. split; [discriminate|intros; discriminate].
          + destruct Hn as (_ & _ & [->|(ws & Hw & ->)] & _); [constructor|].
            apply Forall_app. split; [constructor; [split; [discriminate|intros; discriminate]|]|constructor; [split; [discriminate|intros; discriminate]|constructor]].
            eapply Forall_impl; [|exact Hw]. intros e [bs ->]. split; [discriminate|intros; discriminate]. }
      destruct (pass_nextid _ _ _ _ _ _ _) as [a|a|a|rs]; try constructor.
      destruct (nextid_reduce start_id rs) as [next miss]. destruct (miss =? 0); [constructor|].
      specialize (Hgo (mkIst next false 0 [] []) 0%nat (Forall_nil _)).
      destruct (pass_insert _ _ _ _ _ _ _ _ _) as [st|st|st|st]; cbn [pres_state] in Hgo; cbn [ro_effs];
        rewrite ?Hl, ?app_nil_r; exact Hgo.
    - unfold run_edit. rewrite !Hc. reflexivity.
  Qed.

  Theorem corrupt_lock_is_ignored rc disc o :
    run_edit P finder start_id rc disc LCorrupt o =
    run_edit P finder start_id rc disc LAbsent o.
  Proof. unfold run_edit, cached_id. destruct (rc_use_cache rc); reflexivity. Qed.

  (* no in-scope file, or discovery failed: non-zero exit, nothing changed, both modes *)
  Theorem nothing_to_scan_fails rc lk o :
    (forall disc, disc = None \/ disc = Some [] ->
       ro_exit (run_edit P finder start_id rc disc lk o) = XErr /\
       ro_effs (run_edit P finder start_id rc disc lk o) = [] /\
       ro_exit (run_check finder rc disc o) = XErr /\
       ro_effs (run_check finder rc disc o) = []).
  Proof. intros disc [->| ->]; repeat split; reflexivity. Qed.
End EditStop.

(* a complete tree has nothing to report *)
Lemma expected_missing_complete finder cfg rfail : forall files i,
  (forall k b es, nth_error files k = Some b ->
     file_entries finder cfg (rfail (i + k)%nat) b = FEntries es -> filter missing_insert es = []) ->
  expected_missing finder cfg rfail files i = [].
Proof.
  induction files as [|b files IH]; intros i H; [reflexivity|]. cbn [expected_missing].
  assert (H' : forall k b0 es, nth_error files k = Some b0 ->
             file_entries finder cfg (rfail (S i + k)%nat) b0 = FEntries es -> filter missing_insert es = []).
  { intros k b0 es Hn Hf. apply (H (S k) b0 es Hn). replace (i + S k)%nat with (S i + k)%nat by lia. exact Hf. }
  destruct (file_entries finder cfg (rfail i) b) as [| | |es] eqn:E; try (apply IH; exact H').
  unfold missing_reports. rewrite (H 0%nat b es eq_refl) by (rewrite Nat.add_0_r; exact E).
  cbn. apply IH. exact H'.
Qed.
