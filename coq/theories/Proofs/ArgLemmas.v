(* ArgLemmas.v -- rule lemmas for the argument rules of the GENERATED grammar in their non-atomic
   context (implicit skip between all elements): rust_identifier, kvp_key, kvp_value, one key-value,
   kvp_args, target_arg. *)
From Coq Require Import List Arith NArith Bool Lia String.
From Breadlog Require Import Model.Peg Model.Text Model.Regex Model.Glue Model.Tables.
From Breadlog Require Import Gen.Grammar.
From Breadlog Require Import Proofs.PegFacts Proofs.TokenFacts Proofs.GlueFacts Proofs.RuleLemmas Proofs.GlueSpec
     Proofs.StatementLemmas.
Import ListNotations.
Open Scope N_scope.

Arguments run : simpl never.

(* ---- layout as a value ---- *)
Definition lay := (list N * list (cmt * list N))%type.
Definition render_lay (l : lay) : list N := (fst l ++ render_groups (snd l))%list.
Definition lay_ok (l : lay) (tail : list N) : Prop :=
  forallb is_ws_char (fst l) = true /\ groups_ok (snd l) tail.
Definition no_lay : lay := ([], []).

Lemma skip_lay l tail p :
  lay_ok l tail -> code_ahead tail ->
  SK (mkIn (render_lay l ++ tail)%list p) = Some (mkIn tail (p + blen (render_lay l))).
Proof.
  intros [Hw Hg] Hc. unfold render_lay. rewrite <- app_assoc, blen_app, N.add_assoc.
  apply skip_layout; assumption.
Qed.

Lemma code_ahead_nil' : code_ahead [].
Proof. split; exact I. Qed.

(* ---- a character class repeated in a non-atomic context: c (skip c)* ---- *)
Section ClassLoop.
  Variable e : expr.
  Variable P : N -> bool.
  Hypothesis e_run : forall c t p,
    run Utab SK e NonAtomic false (mkIn (c :: t) p) = if P c then Ok (mkIn t (p + cplen c)) [] else Fail.
  Hypothesis e_eof : forall p, run Utab SK e NonAtomic false (mkIn [] p) = Fail.
  Hypothesis P_code : forall c t, P c = true -> code_ahead (c :: t).

  Definition stops (tail : list N) : Prop := match tail with [] => True | d :: _ => P d = false end.

  Lemma e_miss tail p : stops tail -> run Utab SK e NonAtomic false (mkIn tail p) = Fail.
  Proof. destruct tail as [|d t]; intros H; [apply e_eof|]. rewrite e_run. cbn in H. rewrite H. reflexivity. Qed.

  Lemma class_loop : forall cs l tail p fuel acc,
    forallb P cs = true -> lay_ok l tail -> code_ahead tail -> stops tail ->
    (List.length (cs ++ render_lay l ++ tail) < List.length fuel)%nat ->
    rep_loop (rep_step Utab SK e NonAtomic false) fuel (mkIn (cs ++ render_lay l ++ tail)%list p) acc
    = Ok (mkIn (render_lay l ++ tail)%list (p + blen cs)) acc.
  Proof.
    induction cs as [|c cs IH]; intros l tail p fuel acc Hcs Hl Hc Hst Hlen.
    - cbn [app blen]. destruct fuel as [|x fuel]; [cbn in Hlen; lia|]. cbn [rep_loop]. unfold rep_step. cbn [do_skip].
      rewrite (skip_lay l tail p Hl Hc). rewrite (e_miss tail _ Hst). rewrite N.add_0_r. reflexivity.
    - cbn [forallb] in Hcs. apply andb_true_iff in Hcs. destruct Hcs as [Hp Hcs].
      destruct fuel as [|x fuel]; [cbn in Hlen; lia|]. cbn [rep_loop app]. unfold rep_step at 1. cbn [do_skip].
      rewrite (skip_none _ _ (P_code c _ Hp)). rewrite e_run, Hp. cbn [pos]. pose proof (cplen_pos c).
      destruct (N.ltb_spec p (p + cplen c)) as [_|]; [|lia]. rewrite app_nil_r.
      rewrite IH; [|exact Hcs|exact Hl|exact Hc|exact Hst|cbn [List.length app] in Hlen; lia].
      cbn [blen]. rewrite N.add_assoc. reflexivity.
  Qed.

  (* after a first element: the sequence's skip, then e* -- where it ends depends on whether
     anything was repeated (pest keeps the skipped layout when the repetition matches nothing) *)
  Definition rep_end (cs : list N) (l : lay) (p : N) : N :=
    match cs with [] => p + blen (render_lay l) | _ => p + blen cs end.
  Definition rep_rest (cs : list N) (l : lay) (tail : list N) : list N :=
    match cs with [] => tail | _ => (render_lay l ++ tail)%list end.

  Lemma skip_then_rep cs l tail p :
    forallb P cs = true -> lay_ok l tail -> code_ahead tail -> stops tail ->
    match SK (mkIn (cs ++ render_lay l ++ tail)%list p) with
    | None => Diverge
    | Some j => run Utab SK (ERep e) NonAtomic false j
    end = Ok (mkIn (rep_rest cs l tail) (rep_end cs l p)) [].
  Proof.
    intros Hcs Hl Hc Hst. destruct cs as [|c cs]; cbn [app rep_end rep_rest].
    - rewrite (skip_lay l tail p Hl Hc). rewrite run_rep, (e_miss tail _ Hst). reflexivity.
    - cbn [forallb] in Hcs. apply andb_true_iff in Hcs. destruct Hcs as [Hp Hcs].
      rewrite (skip_none _ _ (P_code c _ Hp)). rewrite run_rep, e_run, Hp. cbn [pos Peg.rest]. pose proof (cplen_pos c).
      destruct (N.ltb_spec p (p + cplen c)) as [_|]; [|lia].
      rewrite class_loop; [|exact Hcs|exact Hl|exact Hc|exact Hst|cbn [List.length]; lia].
      cbn [blen]. rewrite N.add_assoc. reflexivity.
  Qed.
End ClassLoop.

(* ---- the two instances: XID_CONTINUE and ASCII digits ---- *)
Lemma cont_run c t p :
  run Utab SK (EClass XidContinue) NonAtomic false (mkIn (c :: t) p)
  = if Utab XidContinue c then Ok (mkIn t (p + cplen c)) [] else Fail.
Proof. reflexivity. Qed.
Lemma cont_eof p : run Utab SK (EClass XidContinue) NonAtomic false (mkIn [] p) = Fail.
Proof. reflexivity. Qed.

Lemma cont_code c t : Utab XidContinue c = true -> code_ahead (c :: t).
Proof.
  intros H.
  assert (Hws : is_ws_char c = false).
  { destruct (is_ws_char c) eqn:E; [|reflexivity]. exfalso.
    assert (Hall : forallb (fun c => negb (Utab XidContinue c)) ws_chars = true) by (vm_compute; reflexivity).
    rewrite forallb_forall in Hall. unfold is_ws_char in E. apply existsb_exists in E.
    destruct E as (x & Hin & Hx). apply N.eqb_eq in Hx. subst x. specialize (Hall c Hin). rewrite H in Hall. discriminate. }
  assert (Hsl : c <> 47) by (intros ->; vm_compute in H; discriminate).
  split; [exact Hws|]. cbn. destruct c as [|pc]; [exact I|]. revert Hsl. clear.
  do 6 (destruct pc as [pc|pc|]; try (intros; exact I)); congruence.
Qed.

Definition is_digit (c : N) : bool := (48 <=? c) && (c <=? 57).

Lemma digit_run c t p :
  run Utab SK (ERange 48 57) NonAtomic false (mkIn (c :: t) p)
  = if is_digit c then Ok (mkIn t (p + cplen c)) [] else Fail.
Proof. reflexivity. Qed.
Lemma digit_eof p : run Utab SK (ERange 48 57) NonAtomic false (mkIn [] p) = Fail.
Proof. reflexivity. Qed.

Lemma digit_code c t : is_digit c = true -> code_ahead (c :: t).
Proof.
  unfold is_digit. intros H. apply andb_true_iff in H. destruct H as [H1 H2].
  apply N.leb_le in H1. apply N.leb_le in H2.
  assert (Hws : is_ws_char c = false).
  { unfold is_ws_char, ws_chars. cbn [existsb].
    repeat match goal with |- context [N.eqb c ?k] => destruct (N.eqb_spec c k); [lia|] end. reflexivity. }
  split; [exact Hws|]. cbn. destruct c as [|pc]; [exact I|].
  assert (Hsl : N.pos pc <> 47) by lia. revert Hsl. clear.
  do 6 (destruct pc as [pc|pc|]; try (intros; exact I)); congruence.
Qed.

(* ---- rust_identifier and kvp_key ---- *)
Record ident := mkId { i0 : N; ics : list N }.
Definition render_ident (i : ident) : list N := i0 i :: ics i.
Definition ident_ok (i : ident) : bool := name_start_ok (i0 i) && forallb (Utab XidContinue) (ics i).
Notation cstops := (stops (Utab XidContinue)).
Notation dstops := (stops is_digit).

Lemma first_char_na c0 t p :
  name_start_ok c0 = true ->
  run Utab SK (EChoice (EClass XidStart) (EStr [95])) NonAtomic false (mkIn (c0 :: t) p)
  = Ok (mkIn t (p + cplen c0)) [].
Proof.
  intros H0. rewrite run_choice.
  change (run Utab SK (EClass XidStart) NonAtomic false (mkIn (c0 :: t) p))
    with (if Utab XidStart c0 then Ok (mkIn t (p + cplen c0)) [] else Fail).
  unfold name_start_ok in H0. destruct (Utab XidStart c0); [reflexivity|].
  cbn [orb] in H0. apply N.eqb_eq in H0. subst c0. reflexivity.
Qed.

Lemma first_char_na_miss c t p :
  name_start_ok c = false ->
  run Utab SK (EChoice (EClass XidStart) (EStr [95])) NonAtomic false (mkIn (c :: t) p) = Fail.
Proof.
  intros H0. rewrite run_choice.
  change (run Utab SK (EClass XidStart) NonAtomic false (mkIn (c :: t) p))
    with (if Utab XidStart c then Ok (mkIn t (p + cplen c)) [] else Fail).
  unfold name_start_ok in H0. apply orb_false_iff in H0. destruct H0 as [H1 H2]. rewrite H1.
  rewrite run_str. cbn [Peg.rest strip_prefix]. rewrite N.eqb_sym, H2. reflexivity.
Qed.

Definition id_end (i : ident) (l : lay) (p : N) : N := rep_end (ics i) l (p + cplen (i0 i)).
Definition id_rest (i : ident) (l : lay) (tail : list N) : list N := rep_rest (ics i) l tail.

Lemma rust_identifier_spec i l tail p :
  ident_ok i = true -> lay_ok l tail -> code_ahead tail -> cstops tail ->
  run Utab SK r_rust_identifier NonAtomic false (mkIn (render_ident i ++ render_lay l ++ tail)%list p)
  = Ok (mkIn (id_rest i l tail) (id_end i l p)) [Node "rust_identifier" p (id_end i l p) []].
Proof.
  intros Hi Hl Hc Hst. unfold ident_ok in Hi. apply andb_true_iff in Hi. destruct Hi as [H0 Hcs].
  unfold r_rust_identifier. rewrite run_rule. cbn [inner_atomicity]. rewrite run_seq.
  unfold render_ident. cbn [app]. rewrite (first_char_na (i0 i) _ p H0). cbn [do_skip].
  pose proof (skip_then_rep (EClass XidContinue) (Utab XidContinue) cont_run cont_eof cont_code
                (ics i) l tail (p + cplen (i0 i)) Hcs Hl Hc Hst) as H.
  destruct (SK (mkIn (ics i ++ render_lay l ++ tail)%list (p + cplen (i0 i)))) as [j|]; [|discriminate].
  rewrite H. cbn [emits negb andb app pos]. reflexivity.
Qed.

Lemma rust_identifier_miss c t p :
  name_start_ok c = false -> run Utab SK r_rust_identifier NonAtomic false (mkIn (c :: t) p) = Fail.
Proof.
  intros H. unfold r_rust_identifier. rewrite run_rule. cbn [inner_atomicity]. rewrite run_seq.
  rewrite (first_char_na_miss c t p H). reflexivity.
Qed.

Lemma kvp_key_spec i l tail p :
  ident_ok i = true -> lay_ok l tail -> code_ahead tail -> cstops tail ->
  run Utab SK r_kvp_key NonAtomic false (mkIn (render_ident i ++ render_lay l ++ tail)%list p)
  = Ok (mkIn (id_rest i l tail) (id_end i l p))
       [Node "kvp_key" p (id_end i l p) [Node "rust_identifier" p (id_end i l p) []]].
Proof.
  intros Hi Hl Hc Hst. unfold r_kvp_key. rewrite run_rule. cbn [inner_atomicity].
  rewrite (rust_identifier_spec i l tail p Hi Hl Hc Hst). cbn [emits negb andb pos]. reflexivity.
Qed.

Lemma kvp_key_miss c t p :
  name_start_ok c = false -> run Utab SK r_kvp_key NonAtomic false (mkIn (c :: t) p) = Fail.
Proof.
  intros H. unfold r_kvp_key. rewrite run_rule. cbn [inner_atomicity]. rewrite (rust_identifier_miss c t p H). reflexivity.
Qed.

(* the skip after an identifier / digit run: in both cases it arrives at the tail *)
Lemma skip_after_rep cs l tail p0 :
  lay_ok l tail -> code_ahead tail ->
  SK (mkIn (rep_rest cs l tail) (rep_end cs l p0))
  = Some (mkIn tail (p0 + blen cs + blen (render_lay l))).
Proof.
  intros Hl Hc. destruct cs as [|c cs]; cbn [rep_rest rep_end].
  - rewrite (skip_none _ _ Hc). cbn [blen]. rewrite N.add_0_r. reflexivity.
  - rewrite (skip_lay l tail _ Hl Hc). reflexivity.
Qed.

(* ---- kvp_value: a first element (digits, identifier or string literal), then any number of further
        elements (a string literal followed by any character, or any character but "," and ";"),
        with any layout between them, up to "," or ";" ---- *)
Inductive vfirst := VDigits (d0 : N) (ds : list N) | VIdent (i : ident) | VStr (us : list munit).
Inductive vtail := TChar (c : N) | TStr (us : list munit) (l : lay) (c : N).
Record kvalue := mkVal { v_first : vfirst; v_tl : list (lay * vtail) }.

Definition render_first (f : vfirst) : list N :=
  match f with
  | VDigits d0 ds => d0 :: ds
  | VIdent i => render_ident i
  | VStr us => (34 :: render_msg us ++ [34])%list
  end.
Definition render_vtail (t : vtail) : list N :=
  match t with
  | TChar c => [c]
  | TStr us l c => (34 :: render_msg us ++ 34 :: render_lay l ++ [c])%list
  end.
Fixpoint render_tl (tl : list (lay * vtail)) : list N :=
  match tl with [] => [] | (l, t) :: r => (render_lay l ++ render_vtail t ++ render_tl r)%list end.
Definition render_value (v : kvalue) : list N := (render_first (v_first v) ++ render_tl (v_tl v))%list.

Definition first_ok (f : vfirst) : bool :=
  match f with
  | VDigits d0 ds => is_digit d0 && forallb is_digit ds
  | VIdent i => ident_ok i
  | VStr us => forallb munit_ok us
  end.

(* a value ends before "," or ";" *)
Definition vstops (tail : list N) : Prop := exists t, tail = 44 :: t \/ tail = 59 :: t.

Lemma vstops_code tail : vstops tail -> code_ahead tail.
Proof. intros (t & [->| ->]); split; reflexivity. Qed.
Lemma vstops_cstops tail : vstops tail -> cstops tail.
Proof. intros (t & [->| ->]); vm_compute; reflexivity. Qed.
Lemma vstops_dstops tail : vstops tail -> dstops tail.
Proof. intros (t & [->| ->]); vm_compute; reflexivity. Qed.

Definition tail_item : expr :=
  ESeq (EChoice r_string_literal (ENeg (EChoice (EStr [44]) (EStr [59])))) EAny.

Lemma tail_item_miss tail p : vstops tail -> run Utab SK tail_item NonAtomic false (mkIn tail p) = Fail.
Proof. intros (t & [->| ->]); reflexivity. Qed.

(* one further element, with what follows it *)
Definition vtail_ok (t : vtail) (rest : list N) : Prop :=
  match t with
  | TChar c => c <> 44 /\ c <> 59 /\ c <> 34 /\ code_ahead (c :: rest)
  | TStr us l c => forallb munit_ok us = true /\ lay_ok l (c :: rest) /\ code_ahead (c :: rest)
  end.

Definition vtail_nodes (t : vtail) (p : N) : list ptree :=
  match t with
  | TChar _ => []
  | TStr us _ _ => [Node "string_literal" p (p + 1 + blen (render_msg us) + 1)
                         [Node "string_value" (p + 1) (p + 1 + blen (render_msg us)) []]]
  end.

Lemma string_literal_miss c t p a :
  c <> 34 -> run Utab SK r_string_literal a false (mkIn (c :: t) p) = Fail.
Proof.
  intros H. unfold r_string_literal. rewrite run_rule. cbn [inner_atomicity]. rewrite run_seq, run_str.
  cbn [Peg.rest strip_prefix]. destruct (N.eqb_spec 34 c); [congruence|reflexivity].
Qed.

Lemma vtail_code t rest : vtail_ok t rest -> code_ahead (render_vtail t ++ rest)%list.
Proof.
  destruct t as [c|us l c]; cbn [vtail_ok render_vtail app].
  - tauto.
  - intros _. split; reflexivity.
Qed.

Lemma tail_item_hit t rest p :
  vtail_ok t rest ->
  run Utab SK tail_item NonAtomic false (mkIn (render_vtail t ++ rest)%list p)
  = Ok (mkIn rest (p + blen (render_vtail t))) (vtail_nodes t p).
Proof.
  destruct t as [c|us l c]; cbn [vtail_ok render_vtail vtail_nodes app]; unfold tail_item.
  - intros (H44 & H59 & H34 & Hc). rewrite run_seq, run_choice, (string_literal_miss c rest p NonAtomic H34).
    rewrite run_neg, run_choice, !run_str. cbn [Peg.rest strip_prefix].
    destruct (N.eqb_spec 44 c) as [E|_]; [exfalso; apply H44; symmetry; exact E|].
    destruct (N.eqb_spec 59 c) as [E|_]; [exfalso; apply H59; symmetry; exact E|].
    cbn [do_skip]. rewrite (skip_none _ _ Hc). rewrite run_any. cbn [Peg.rest pos blen app].
    rewrite N.add_0_r. reflexivity.
  - intros (Hus & Hl & Hc). rewrite run_seq, run_choice. rewrite <- !app_assoc. cbn [app]. rewrite <- !app_assoc. cbn [app].
    rewrite (string_literal_spec SK NonAtomic us (render_lay l ++ c :: rest)%list p Hus).
    cbn [do_skip]. rewrite (skip_lay l _ _ Hl Hc). rewrite run_any. cbn [Peg.rest pos app].
    f_equal. f_equal.
    repeat (rewrite blen_app || (progress cbn [blen])).
    change (cplen 34) with 1. lia.
Qed.

Fixpoint tl_ok (tl : list (lay * vtail)) (rest : list N) : Prop :=
  match tl with
  | [] => True
  | (l, t) :: r => lay_ok l (render_vtail t ++ render_tl r ++ rest)%list /\
                   vtail_ok t (render_tl r ++ rest)%list /\ tl_ok r rest
  end.

Fixpoint tl_nodes (tl : list (lay * vtail)) (p : N) : list ptree :=
  match tl with
  | [] => []
  | (l, t) :: r =>
      let p1 := p + blen (render_lay l) in
      (vtail_nodes t p1 ++ tl_nodes r (p1 + blen (render_vtail t)))%list
  end.

Lemma blen_vtail_pos t : 1 <= blen (render_vtail t).
Proof. destruct t as [c|us l c]; cbn [render_vtail blen]; [pose proof (cplen_pos c)|]; cbn [cplen N.ltb N.compare Pos.compare Pos.compare_cont]; lia. Qed.
Lemma length_vtail_pos t : (1 <= List.length (render_vtail t))%nat.
Proof. destruct t as [c|us l c]; cbn [render_vtail List.length]; lia. Qed.

Lemma tl_loop : forall tl lv after p fuel acc,
  tl_ok tl (render_lay lv ++ after)%list -> lay_ok lv after -> vstops after ->
  (List.length (render_tl tl ++ render_lay lv ++ after) < List.length fuel)%nat ->
  rep_loop (rep_step Utab SK tail_item NonAtomic false) fuel (mkIn (render_tl tl ++ render_lay lv ++ after)%list p) acc
  = Ok (mkIn (render_lay lv ++ after)%list (p + blen (render_tl tl))) (acc ++ tl_nodes tl p)%list.
Proof.
  induction tl as [|[l t] r IH]; intros lv after p fuel acc Hok Hlv Hst Hlen.
  - cbn [render_tl app blen tl_nodes] in *. destruct fuel as [|x fuel]; [cbn in Hlen; lia|]. cbn [rep_loop].
    unfold rep_step. cbn [do_skip]. rewrite (skip_lay lv after p Hlv (vstops_code after Hst)).
    rewrite (tail_item_miss after _ Hst). rewrite N.add_0_r, app_nil_r. reflexivity.
  - cbn [render_tl tl_ok] in *. destruct Hok as (Hl & Ht & Hr).
    destruct fuel as [|x fuel]; [cbn in Hlen; lia|]. cbn [rep_loop]. unfold rep_step at 1. cbn [do_skip].
    rewrite <- !app_assoc.
    assert (Hca : code_ahead (render_vtail t ++ render_tl r ++ render_lay lv ++ after)%list) by (apply vtail_code; exact Ht).
    rewrite (skip_lay l _ p Hl Hca). rewrite (tail_item_hit t _ _ Ht). cbn [pos].
    pose proof (blen_vtail_pos t) as Hb.
    destruct (N.ltb_spec p (p + blen (render_lay l) + blen (render_vtail t))) as [_|]; [|lia].
    rewrite IH; [|exact Hr|exact Hlv|exact Hst|repeat rewrite app_length in Hlen; repeat rewrite app_length;
                  pose proof (length_vtail_pos t); cbn [List.length] in Hlen; lia].
    cbn [tl_nodes]. f_equal; [f_equal; rewrite !blen_app; lia|]. rewrite app_assoc. reflexivity.
Qed.

Definition value_ok (v : kvalue) (lv : lay) (after : list N) : Prop :=
  first_ok (v_first v) = true /\ tl_ok (v_tl v) (render_lay lv ++ after)%list /\
  (* what follows the first element (after its layout) does not continue it *)
  match v_tl v with
  | [] => True
  | (l, t) :: r =>
      let nxt := (render_vtail t ++ render_tl r ++ render_lay lv ++ after)%list in
      match v_first v with VDigits _ _ => dstops nxt | VIdent _ => cstops nxt | VStr _ => True end
  end.

(* the nodes inside the value node, the end of its span (it keeps the layout before the delimiter
   when nothing follows the first element) and the text of its span *)
Definition first_kids (f : vfirst) (l : lay) (p : N) : list ptree :=
  match f with
  | VDigits _ _ => []
  | VIdent i => [Node "rust_identifier" p (id_end i l p) []]
  | VStr us => [Node "string_literal" p (p + 1 + blen (render_msg us) + 1)
                     [Node "string_value" (p + 1) (p + 1 + blen (render_msg us)) []]]
  end.
Definition lead_lay (v : kvalue) (lv : lay) : lay := match v_tl v with [] => lv | (l, _) :: _ => l end.
Definition value_kids (v : kvalue) (lv : lay) (p : N) : list ptree :=
  (first_kids (v_first v) (lead_lay v lv) p ++ tl_nodes (v_tl v) (p + blen (render_first (v_first v))))%list.
Definition value_span (v : kvalue) (lv : lay) : list N :=
  match v_tl v with [] => (render_value v ++ render_lay lv)%list | _ => render_value v end.
Definition value_end (v : kvalue) (lv : lay) (p : N) : N := p + blen (value_span v lv).

Lemma digit_not_name_start c : is_digit c = true -> name_start_ok c = false.
Proof.
  unfold is_digit. intros H. apply andb_true_iff in H. destruct H as [H1 H2].
  apply N.leb_le in H1. apply N.leb_le in H2.
  assert (Hc : c = 48 \/ c = 49 \/ c = 50 \/ c = 51 \/ c = 52 \/ c = 53 \/ c = 54 \/ c = 55 \/ c = 56 \/ c = 57) by lia.
  repeat (destruct Hc as [->|Hc]; [vm_compute; reflexivity|]). subst c. vm_compute. reflexivity.
Qed.

(* the first element: where it ends and that the skip after it reaches what follows its layout *)
Lemma value_first_spec f l nxt p :
  first_ok f = true -> lay_ok l nxt -> code_ahead nxt ->
  match f with VDigits _ _ => dstops nxt | VIdent _ => cstops nxt | VStr _ => True end ->
  exists rst1 p1,
    run Utab SK (EChoice r_rust_identifier (EChoice r_string_literal (ESeq (ERange 48 57) (ERep (ERange 48 57)))))
        NonAtomic false (mkIn (render_first f ++ render_lay l ++ nxt)%list p)
    = Ok (mkIn rst1 p1) (first_kids f l p) /\
    SK (mkIn rst1 p1) = Some (mkIn nxt (p + blen (render_first f) + blen (render_lay l))).
Proof.
  intros Hv Hl Hc Hst. destruct f as [d0 ds|i|us]; cbn [first_ok render_first first_kids] in *.
  - apply andb_true_iff in Hv. destruct Hv as [Hd0 Hds].
    rewrite run_choice. cbn [app]. rewrite (rust_identifier_miss d0 _ p (digit_not_name_start d0 Hd0)).
    rewrite run_choice. rewrite string_literal_miss by (intros ->; discriminate).
    rewrite run_seq, digit_run, Hd0. cbn [do_skip].
    pose proof (skip_then_rep (ERange 48 57) is_digit digit_run digit_eof digit_code
                  ds l nxt (p + cplen d0) Hds Hl Hc Hst) as H.
    destruct (SK (mkIn (ds ++ render_lay l ++ nxt)%list (p + cplen d0))) as [j|]; [|discriminate].
    rewrite H. cbn [app]. eexists. eexists. split; [reflexivity|].
    rewrite (skip_after_rep ds l nxt (p + cplen d0) Hl Hc). cbn [blen]. f_equal. f_equal. lia.
  - rewrite run_choice. rewrite (rust_identifier_spec i l nxt p Hv Hl Hc Hst).
    eexists. eexists. split; [reflexivity|]. unfold id_rest, id_end.
    rewrite (skip_after_rep (ics i) l nxt (p + cplen (i0 i)) Hl Hc). cbn [render_ident blen]. f_equal. f_equal. lia.
  - rewrite run_choice. cbn [app]. rewrite (rust_identifier_miss 34 _ p) by (vm_compute; reflexivity).
    rewrite run_choice. rewrite <- app_assoc. cbn [app].
    rewrite (string_literal_spec SK NonAtomic us (render_lay l ++ nxt)%list p Hv).
    eexists. eexists. split; [reflexivity|]. rewrite (skip_lay l nxt _ Hl Hc).
    cbn [blen]. rewrite blen_app. cbn [blen cplen N.ltb N.compare Pos.compare Pos.compare_cont]. f_equal. f_equal. lia.
Qed.

Lemma kvp_value_spec v lv after p :
  value_ok v lv after -> lay_ok lv after -> vstops after ->
  run Utab SK r_kvp_value NonAtomic false (mkIn (render_value v ++ render_lay lv ++ after)%list p)
  = Ok (mkIn (match v_tl v with [] => after | _ => (render_lay lv ++ after)%list end) (value_end v lv p))
       [Node "kvp_value" p (value_end v lv p) (value_kids v lv p)].
Proof.
  intros (Hf & Htl & Hnx) Hlv Hst. pose proof (vstops_code after Hst) as Hc.
  unfold r_kvp_value. rewrite run_rule. cbn [inner_atomicity]. fold tail_item. rewrite run_seq.
  unfold render_value, value_kids, value_end, value_span, lead_lay, render_value.
  destruct v as [f tl]. cbn [v_first v_tl] in *. destruct tl as [|[l t] r].
  - (* nothing follows the first element: the span keeps the layout before the delimiter *)
    cbn [render_tl app tl_nodes]. rewrite app_nil_r.
    assert (Hs : match f with VDigits _ _ => dstops after | VIdent _ => cstops after | VStr _ => True end)
      by (destruct f; [apply vstops_dstops|apply vstops_cstops|]; auto).
    destruct (value_first_spec f lv after p Hf Hlv Hc Hs) as (rst1 & p1 & Hrun & Hsk).
    rewrite Hrun. cbn [do_skip]. rewrite Hsk. rewrite run_rep, (tail_item_miss after _ Hst).
    cbn [emits negb andb app pos]. rewrite !app_nil_r. rewrite blen_app.
    replace (p + blen (render_first f) + blen (render_lay lv)) with (p + (blen (render_first f) + blen (render_lay lv))) by lia.
    reflexivity.
  - cbn [render_tl tl_ok tl_nodes] in *. destruct Htl as (Hl & Ht & Hr).
    set (nxt := (render_vtail t ++ render_tl r ++ render_lay lv ++ after)%list) in *.
    assert (Htext : ((render_first f ++ render_lay l ++ render_vtail t ++ render_tl r) ++ render_lay lv ++ after)%list
                    = (render_first f ++ render_lay l ++ nxt)%list).
    { unfold nxt. rewrite <- !app_assoc. reflexivity. }
    rewrite Htext.
    assert (Hl' : lay_ok l nxt) by (unfold nxt; exact Hl).
    assert (Hcn : code_ahead nxt) by (unfold nxt; apply vtail_code; exact Ht).
    destruct (value_first_spec f l nxt p Hf Hl' Hcn Hnx) as (rst1 & p1 & Hrun & Hsk).
    rewrite Hrun. cbn [do_skip]. rewrite Hsk. rewrite run_rep. unfold nxt at 1.
    rewrite (tail_item_hit t _ _ Ht). cbn [pos Peg.rest].
    pose proof (blen_vtail_pos t) as Hb.
    destruct (N.ltb_spec (p + blen (render_first f) + blen (render_lay l))
                         (p + blen (render_first f) + blen (render_lay l) + blen (render_vtail t))) as [_|]; [|lia].
    rewrite tl_loop; [|exact Hr|exact Hlv|exact Hst|cbn [List.length]; lia].
    cbn [emits negb andb app pos].
    assert (He : p + blen (render_first f) + blen (render_lay l) + blen (render_vtail t) + blen (render_tl r)
                 = p + blen (render_first f ++ render_lay l ++ render_vtail t ++ render_tl r)%list)
      by (rewrite !blen_app; lia).
    rewrite He. reflexivity.
Qed.

(* ---- one key-value:  key [: modifier] [= value] [,]  ---- *)
Definition mod_words : list (list N) :=
  [[63]; [100; 101; 98; 117; 103]; [37]; [100; 105; 115; 112; 108; 97; 121]; [101; 114; 114];
   [115; 118; 97; 108]; [115; 101; 114; 100; 101]].          (* ? debug % display err sval serde *)
Record kmod := mkMod { m_l1 : lay; m_word : list N; m_l2 : lay }.
Record kvcore := mkKv { k_key : ident; k_l1 : lay; k_mod : option kmod;
                        k_val : option (lay * kvalue * lay); k_comma : bool }.

Definition render_mod (o : option kmod) : list N :=
  match o with
  | Some m => (58 :: render_lay (m_l1 m) ++ m_word m ++ render_lay (m_l2 m))%list
  | None => []
  end.
Definition render_val (o : option (lay * kvalue * lay)) : list N :=
  match o with
  | Some (le, v, lv) => (61 :: render_lay le ++ render_value v ++ render_lay lv)%list
  | None => []
  end.
Definition render_comma (b : bool) : list N := if b then [44] else [].
Definition render_core (k : kvcore) : list N :=
  (render_ident (k_key k) ++ render_lay (k_l1 k) ++ render_mod (k_mod k) ++ render_val (k_val k)
   ++ render_comma (k_comma k))%list.

Definition mod_choice : expr :=
  EChoice (EStr [63]) (EChoice (EStr [100; 101; 98; 117; 103]) (EChoice (EStr [37])
    (EChoice (EStr [100; 105; 115; 112; 108; 97; 121]) (EChoice (EStr [101; 114; 114])
      (EChoice (EStr [115; 118; 97; 108]) (EStr [115; 101; 114; 100; 101])))))).

(* the silent rule kvp_modifiers, as the translator inlines it at its uses *)
Definition r_kvp_modifiers : expr := ESeq (EStr [58]) mod_choice.

Definition kv_body : expr :=
  ESeq r_kvp_key (ESeq (EOpt r_kvp_modifiers) (ESeq (EOpt (ESeq (EStr [61]) r_kvp_value)) (EOpt (EStr [44])))).

Lemma first_code_ahead f t : first_ok f = true -> code_ahead (render_first f ++ t)%list.
Proof.
  destruct f as [d0 ds|i|us]; cbn [first_ok render_first app]; intros H.
  - apply andb_true_iff in H. apply digit_code. tauto.
  - unfold ident_ok in H. apply andb_true_iff in H. unfold render_ident. cbn [app].
    apply (name_start_not_layout _ (proj1 H)).
  - split; reflexivity.
Qed.

Lemma value_code_ahead v lv after t : value_ok v lv after -> code_ahead (render_value v ++ t)%list.
Proof. intros (Hf & _). unfold render_value. rewrite <- app_assoc. apply first_code_ahead. exact Hf. Qed.

(* what follows the (optional) comma; after the value and after the modifier comes "=" "," or ";" *)
Definition core_ok (k : kvcore) (tail : list N) : Prop :=
  let after := (render_comma (k_comma k) ++ tail)%list in
  let vpart := (render_val (k_val k) ++ after)%list in
  ident_ok (k_key k) = true /\
  (k_comma k = false -> exists t, tail = 59 :: t) /\
  lay_ok (k_l1 k) (render_mod (k_mod k) ++ vpart)%list /\
  match k_mod k with
  | Some m => lay_ok (m_l1 m) (m_word m ++ render_lay (m_l2 m) ++ vpart)%list /\ In (m_word m) mod_words /\
              lay_ok (m_l2 m) vpart
  | None => True
  end /\
  match k_val k with
  | Some (le, v, lv) =>
      lay_ok le (render_value v ++ render_lay lv ++ after)%list /\ value_ok v lv after /\ lay_ok lv after
  | None => True
  end.

Definition core_pair (k : kvcore) (p : N) : ptree * option ptree :=
  let pk := id_end (k_key k) (k_l1 k) p in
  (Node "kvp_key" p pk [Node "rust_identifier" p pk []],
   match k_val k with
   | Some (le, v, lv) =>
       let pv := p + blen (render_ident (k_key k)) + blen (render_lay (k_l1 k)) + blen (render_mod (k_mod k))
                 + 1 + blen (render_lay le) in
       Some (Node "kvp_value" pv (value_end v lv pv) (value_kids v lv pv))
   | None => None
   end).

Lemma after_vstops k tail : (k_comma k = false -> exists t, tail = 59 :: t) -> vstops (render_comma (k_comma k) ++ tail)%list.
Proof.
  intros H. destruct (k_comma k); cbn [render_comma app].
  - exists tail. left. reflexivity.
  - destruct (H eq_refl) as [t ->]. exists t. right. reflexivity.
Qed.

Lemma modifiers_miss c t p : c <> 58 -> run Utab SK r_kvp_modifiers NonAtomic false (mkIn (c :: t) p) = Fail.
Proof.
  intros H. unfold r_kvp_modifiers. rewrite run_seq, run_str.
  cbn [Peg.rest strip_prefix]. destruct (N.eqb_spec 58 c); [congruence|reflexivity].
Qed.

Lemma mod_word_hit w t p :
  In w mod_words -> run Utab SK mod_choice NonAtomic false (mkIn (w ++ t)%list p) = Ok (mkIn t (p + blen w)) [].
Proof.
  intros H. unfold mod_words in H. cbn [In] in H.
  repeat (destruct H as [<-|H]; [reflexivity|]). contradiction.
Qed.

Lemma mod_word_code w t : In w mod_words -> code_ahead (w ++ t)%list.
Proof.
  intros H. unfold mod_words in H. cbn [In] in H.
  repeat (destruct H as [<-|H]; [split; reflexivity|]). contradiction.
Qed.

Lemma modifiers_hit m rest p :
  lay_ok (m_l1 m) (m_word m ++ render_lay (m_l2 m) ++ rest)%list -> In (m_word m) mod_words ->
  run Utab SK r_kvp_modifiers NonAtomic false (mkIn (render_mod (Some m) ++ rest)%list p)
  = Ok (mkIn (render_lay (m_l2 m) ++ rest)%list (p + 1 + blen (render_lay (m_l1 m)) + blen (m_word m))) [].
Proof.
  intros Hl1 Hw. unfold r_kvp_modifiers.
  cbn [render_mod app]. rewrite run_seq, run_str. cbn [Peg.rest strip_prefix N.eqb Pos.eqb pos do_skip].
  rewrite <- !app_assoc.
  rewrite (skip_lay (m_l1 m) _ _ Hl1 (mod_word_code _ _ Hw)). rewrite (mod_word_hit _ _ _ Hw).
  cbn [emits negb andb app blen cplen N.ltb N.compare Pos.compare Pos.compare_cont].
  replace (p + (1 + 0) + blen (render_lay (m_l1 m)) + blen (m_word m)) with (p + 1 + blen (render_lay (m_l1 m)) + blen (m_word m)) by lia.
  reflexivity.
Qed.

Lemma blen_render_mod o :
  blen (render_mod o) = match o with Some m => 1 + blen (render_lay (m_l1 m)) + blen (m_word m) + blen (render_lay (m_l2 m)) | None => 0 end.
Proof.
  destruct o as [m|]; cbn [render_mod blen]; [|reflexivity]. rewrite !blen_app.
  cbn [cplen N.ltb N.compare Pos.compare Pos.compare_cont]. lia.
Qed.

Lemma kv_core_spec k tail p :
  core_ok k tail ->
  run Utab SK kv_body NonAtomic false (mkIn (render_core k ++ tail)%list p)
  = Ok (mkIn tail (p + blen (render_core k))) (kv_nodes [core_pair k p]).
Proof.
  intros (Hi & Hlast & Hl1 & Hmod & Hval). pose proof (after_vstops k tail Hlast) as Hafter.
  set (after := (render_comma (k_comma k) ++ tail)%list) in *.
  pose proof (vstops_code after Hafter) as Hca.
  set (vpart := (render_val (k_val k) ++ after)%list) in *.
  set (rest1 := (render_mod (k_mod k) ++ vpart)%list) in *.
  assert (Htext : (render_core k ++ tail)%list = (render_ident (k_key k) ++ render_lay (k_l1 k) ++ rest1)%list).
  { unfold render_core, rest1, vpart, after. rewrite <- !app_assoc. reflexivity. }
  (* the head of vpart is "=" "," or ";" ; the head of rest1 may also be ":" *)
  assert (Hv : exists c t, vpart = c :: t /\ (c = 61 \/ c = 44 \/ c = 59)).
  { unfold vpart. destruct (k_val k) as [[[le v] lv]|]; cbn [render_val app].
    - eexists. eexists. split; [reflexivity|]. tauto.
    - destruct Hafter as (t & [->| ->]); eexists; eexists; (split; [reflexivity|]); tauto. }
  destruct Hv as (cv & tv & Hvp & Hcv).
  assert (Hcv_code : code_ahead vpart) by (rewrite Hvp; destruct Hcv as [->|[->| ->]]; split; reflexivity).
  assert (Hh : exists c t, rest1 = c :: t /\ (c = 58 \/ c = 61 \/ c = 44 \/ c = 59)).
  { unfold rest1. destruct (k_mod k) as [m|]; cbn [render_mod app].
    - eexists. eexists. split; [reflexivity|]. tauto.
    - rewrite Hvp. eexists. eexists. split; [reflexivity|]. tauto. }
  destruct Hh as (c1 & t1 & Hr1 & Hc1).
  assert (Hcr : code_ahead rest1) by (rewrite Hr1; destruct Hc1 as [->|[->|[->| ->]]]; split; reflexivity).
  assert (Hsr : cstops rest1) by (rewrite Hr1; destruct Hc1 as [->|[->|[->| ->]]]; vm_compute; reflexivity).
  rewrite Htext. unfold kv_body. rewrite run_seq.
  rewrite (kvp_key_spec (k_key k) (k_l1 k) rest1 p Hi Hl1 Hcr Hsr). cbn [do_skip].
  unfold id_rest, id_end. rewrite (skip_after_rep (ics (k_key k)) (k_l1 k) rest1 _ Hl1 Hcr).
  fold (id_end (k_key k) (k_l1 k) p).
  set (p1 := p + cplen (i0 (k_key k)) + blen (ics (k_key k)) + blen (render_lay (k_l1 k))).
  assert (Hp1 : p1 = p + blen (render_ident (k_key k)) + blen (render_lay (k_l1 k))).
  { unfold p1, render_ident. cbn [blen]. lia. }
  rewrite run_seq, run_opt.
  (* the optional modifier: afterwards at vpart, position p2 *)
  set (p2 := p1 + blen (render_mod (k_mod k))).
  assert (Hmods : match match run Utab SK r_kvp_modifiers NonAtomic false (mkIn rest1 p1) with
                        | Fail => Ok (mkIn rest1 p1) []
                        | r => r
                        end with
                  | Ok i1 t1 => match do_skip SK NonAtomic i1 with
                                | None => Diverge
                                | Some i1' => Ok i1' t1
                                end
                  | r => r
                  end = Ok (mkIn vpart p2) []).
  { unfold rest1, p2. destruct (k_mod k) as [m|] eqn:Em.
    - destruct Hmod as (Hm1 & Hw & Hm2). rewrite (modifiers_hit m vpart p1 Hm1 Hw). cbn [do_skip].
      rewrite (skip_lay (m_l2 m) vpart _ Hm2 Hcv_code). rewrite blen_render_mod. f_equal. f_equal. lia.
    - cbn [render_mod app blen]. rewrite Hvp. rewrite modifiers_miss by (destruct Hcv as [->|[->| ->]]; discriminate).
      cbn [do_skip]. rewrite <- Hvp. rewrite (skip_none _ _ Hcv_code). rewrite N.add_0_r. reflexivity. }
  destruct (match run Utab SK r_kvp_modifiers NonAtomic false (mkIn rest1 p1) with
            | Fail => Ok (mkIn rest1 p1) []
            | r => r
            end) as [| |im tm]; try discriminate.
  destruct (do_skip SK NonAtomic im) as [im'|]; [|discriminate]. inversion Hmods; subst im' tm. clear Hmods.
  rewrite run_seq, run_opt, run_seq, run_str.
  unfold vpart at 1 2 3. unfold core_pair.
  assert (Hp2 : p2 = p + blen (render_ident (k_key k)) + blen (render_lay (k_l1 k)) + blen (render_mod (k_mod k)))
    by (unfold p2; lia).
  destruct (k_val k) as [[[le v] lv]|] eqn:Ev; cbn [render_val app Peg.rest strip_prefix pos].
  - destruct Hval as (Hle & Hvok & Hlv).
    rewrite N.eqb_refl. cbn [do_skip blen cplen N.ltb N.compare Pos.compare Pos.compare_cont].
    rewrite <- !app_assoc. rewrite (skip_lay le _ _ Hle (value_code_ahead v lv after _ Hvok)).
    rewrite (kvp_value_spec v lv after _ Hvok Hlv Hafter). cbn [do_skip app].
    replace (p2 + (1 + 0) + blen (render_lay le)) with
        (p + blen (render_ident (k_key k)) + blen (render_lay (k_l1 k)) + blen (render_mod (k_mod k)) + 1 + blen (render_lay le)) by lia.
    set (pv := p + blen (render_ident (k_key k)) + blen (render_lay (k_l1 k)) + blen (render_mod (k_mod k)) + 1 + blen (render_lay le)).
    (* the skip after the value arrives at `after` in both cases *)
    assert (Hsk : SK (mkIn (match v_tl v with [] => after | _ => (render_lay lv ++ after)%list end) (value_end v lv pv))
                  = Some (mkIn after (pv + blen (render_value v) + blen (render_lay lv)))).
    { unfold value_end, value_span. destruct (v_tl v).
      - rewrite (skip_none _ _ Hca). rewrite blen_app, N.add_assoc. reflexivity.
      - rewrite (skip_lay lv after _ Hlv Hca). reflexivity. }
    rewrite Hsk. rewrite run_opt, run_str. unfold after at 1 2. cbn [Peg.rest pos].
    destruct (k_comma k) eqn:Ec; cbn [render_comma app strip_prefix].
    + rewrite N.eqb_refl. cbn [kv_nodes app blen cplen N.ltb N.compare Pos.compare Pos.compare_cont].
      f_equal. f_equal. unfold pv, render_core. rewrite Ev, Ec. cbn [render_val render_comma].
      repeat (rewrite blen_app || (progress cbn [blen])). cbn [cplen N.ltb N.compare Pos.compare Pos.compare_cont]. lia.
    + destruct (Hlast eq_refl) as [t ->]. cbn [strip_prefix N.eqb Pos.eqb kv_nodes app].
      f_equal. f_equal. unfold pv, render_core. rewrite Ev, Ec. cbn [render_val render_comma].
      repeat (rewrite blen_app || (progress cbn [blen])). cbn [cplen N.ltb N.compare Pos.compare Pos.compare_cont]. lia.
  - (* no value: "=" does not follow *)
    assert (Hne : match after with [] => True | c :: _ => c <> 61 end)
      by (destruct Hafter as (t & [->| ->]); discriminate).
    destruct after as [|ca ta] eqn:Ea; [destruct Hafter as (t & [H|H]); discriminate|].
    destruct (N.eqb_spec 61 ca) as [E61|_]; [exfalso; apply Hne; symmetry; exact E61|]. cbn [do_skip].
    rewrite (skip_none _ _ Hca). rewrite run_opt, run_str. cbn [Peg.rest pos strip_prefix].
    unfold after in Ea.
    destruct (k_comma k) eqn:Ec; cbn [render_comma app] in Ea.
    + inversion Ea; subst ca ta. rewrite N.eqb_refl. cbn [kv_nodes app blen cplen N.ltb N.compare Pos.compare Pos.compare_cont].
      f_equal. f_equal. unfold render_core. rewrite Ev, Ec. cbn [render_val render_comma].
      repeat (rewrite blen_app || (progress cbn [blen])). cbn [cplen N.ltb N.compare Pos.compare Pos.compare_cont]. lia.
    + destruct (Hlast eq_refl) as [t Ht]. rewrite Ht in Ea. inversion Ea; subst ca ta.
      cbn [N.eqb Pos.eqb kv_nodes app]. rewrite Ht.
      f_equal. f_equal. unfold render_core. rewrite Ev, Ec. cbn [render_val render_comma].
      repeat (rewrite blen_app || (progress cbn [blen])). lia.
Qed.

(* ---- kvp_args:  kv (layout kv)* layout ";"  ---- *)
Fixpoint render_more (more : list (lay * kvcore)) (lsemi : lay) (tail : list N) : list N :=
  match more with
  | [] => (render_lay lsemi ++ 59 :: tail)%list
  | (ld, k) :: r => (render_lay ld ++ render_core k ++ render_more r lsemi tail)%list
  end.

Lemma ident_head i : ident_ok i = true -> forall t, code_ahead (render_ident i ++ t)%list.
Proof.
  intros H t. unfold ident_ok in H. apply andb_true_iff in H. unfold render_ident. cbn [app].
  apply (name_start_not_layout _ (proj1 H)).
Qed.

Lemma render_core_head k t : (render_core k ++ t)%list = (render_ident (k_key k) ++ (render_lay (k_l1 k) ++ render_mod (k_mod k) ++ render_val (k_val k) ++ render_comma (k_comma k)) ++ t)%list.
Proof. unfold render_core. rewrite <- !app_assoc. reflexivity. Qed.

Fixpoint more_ok (more : list (lay * kvcore)) (lsemi : lay) (tail : list N) : Prop :=
  match more with
  | [] => lay_ok lsemi (59 :: tail)
  | (ld, k) :: r =>
      lay_ok ld (render_core k ++ render_more r lsemi tail)%list /\
      core_ok k (render_more r lsemi tail) /\ more_ok r lsemi tail
  end.

Fixpoint more_pairs (more : list (lay * kvcore)) (p : N) : list (ptree * option ptree) :=
  match more with
  | [] => []
  | (ld, k) :: r =>
      let p1 := p + blen (render_lay ld) in
      core_pair k p1 :: more_pairs r (p1 + blen (render_core k))
  end.

Fixpoint span_more (more : list (lay * kvcore)) : N :=
  match more with
  | [] => 0
  | (ld, k) :: r => blen (render_lay ld) + blen (render_core k) + span_more r
  end.

Lemma kv_nodes_app a b : kv_nodes (a ++ b) = (kv_nodes a ++ kv_nodes b)%list.
Proof.
  induction a as [|[k [v|]] a IH]; cbn [app kv_nodes]; [reflexivity| |]; rewrite IH; reflexivity.
Qed.

Lemma semicolon_code t : code_ahead (59 :: t).
Proof. split; reflexivity. Qed.

Lemma kv_body_miss_semicolon t p : run Utab SK kv_body NonAtomic false (mkIn (59 :: t) p) = Fail.
Proof. unfold kv_body. rewrite run_seq. rewrite kvp_key_miss by (vm_compute; reflexivity). reflexivity. Qed.

Lemma blen_core_pos k : 1 <= blen (render_core k).
Proof. unfold render_core, render_ident. cbn [app blen]. pose proof (cplen_pos (i0 (k_key k))). lia. Qed.
Lemma length_core_pos k : (1 <= List.length (render_core k))%nat.
Proof. unfold render_core, render_ident. cbn [app List.length]. lia. Qed.

Lemma more_loop : forall more lsemi tail p fuel acc,
  more_ok more lsemi tail ->
  (List.length (render_more more lsemi tail) < List.length fuel)%nat ->
  rep_loop (rep_step Utab SK kv_body NonAtomic false) fuel (mkIn (render_more more lsemi tail) p) acc
  = Ok (mkIn (render_lay lsemi ++ 59 :: tail)%list (p + span_more more)) (acc ++ kv_nodes (more_pairs more p))%list.
Proof.
  induction more as [|[ld k] r IH]; intros lsemi tail p fuel acc Hok Hlen.
  - cbn [render_more more_ok] in *. destruct fuel as [|x fuel]; [cbn in Hlen; lia|]. cbn [rep_loop]. unfold rep_step. cbn [do_skip].
    rewrite (skip_lay lsemi _ p Hok (semicolon_code tail)). rewrite kv_body_miss_semicolon.
    cbn [span_more more_pairs kv_nodes]. rewrite N.add_0_r, app_nil_r. reflexivity.
  - cbn [render_more more_ok] in *. destruct Hok as (Hld & Hk & Hr).
    destruct fuel as [|x fuel]; [cbn in Hlen; lia|]. cbn [rep_loop]. unfold rep_step at 1. cbn [do_skip].
    assert (Hca : code_ahead (render_core k ++ render_more r lsemi tail)%list).
    { rewrite render_core_head. apply ident_head. exact (proj1 Hk). }
    rewrite (skip_lay ld _ p Hld Hca). rewrite (kv_core_spec k _ _ Hk). cbn [pos].
    pose proof (blen_core_pos k) as Hb.
    destruct (N.ltb_spec p (p + blen (render_lay ld) + blen (render_core k))) as [_|]; [|lia].
    rewrite IH; [|exact Hr|rewrite !app_length in Hlen; pose proof (length_core_pos k); cbn [List.length] in Hlen; lia].
    cbn [span_more more_pairs]. f_equal; [f_equal; lia|].
    rewrite <- app_assoc. f_equal. change (core_pair k (p + blen (render_lay ld)) :: more_pairs r (p + blen (render_lay ld) + blen (render_core k)))
      with ([core_pair k (p + blen (render_lay ld))] ++ more_pairs r (p + blen (render_lay ld) + blen (render_core k)))%list.
    rewrite kv_nodes_app. reflexivity.
Qed.

Definition render_kvs (k1 : kvcore) (more : list (lay * kvcore)) (lsemi : lay) (tail : list N) : list N :=
  (render_core k1 ++ render_more more lsemi tail)%list.
Definition kvs_ok (k1 : kvcore) (more : list (lay * kvcore)) (lsemi : lay) (tail : list N) : Prop :=
  core_ok k1 (render_more more lsemi tail) /\ more_ok more lsemi tail.
Definition kvs_pairs (k1 : kvcore) (more : list (lay * kvcore)) (p : N) : list (ptree * option ptree) :=
  core_pair k1 p :: more_pairs more (p + blen (render_core k1)).
(* the end of the kvp_args node: just after the ";" *)
Definition kvs_end (k1 : kvcore) (more : list (lay * kvcore)) (lsemi : lay) (p : N) : N :=
  p + blen (render_core k1) + span_more more + blen (render_lay lsemi) + 1.

Lemma blen_render_more more lsemi tail :
  blen (render_more more lsemi tail) = span_more more + blen (render_lay lsemi) + 1 + blen tail.
Proof.
  induction more as [|[ld k] r IH]; cbn [render_more span_more].
  - rewrite blen_app. cbn [blen cplen N.ltb N.compare Pos.compare Pos.compare_cont]. lia.
  - rewrite !blen_app, IH. lia.
Qed.

Lemma kvp_args_spec k1 more lsemi tail p :
  kvs_ok k1 more lsemi tail ->
  run Utab SK r_kvp_args NonAtomic false (mkIn (render_kvs k1 more lsemi tail) p)
  = Ok (mkIn tail (kvs_end k1 more lsemi p))
       [Node "kvp_args" p (kvs_end k1 more lsemi p) (kv_nodes (kvs_pairs k1 more p))].
Proof.
  intros [Hk1 Hmore].
  change r_kvp_args with (ERule "kvp_args" RNormal false (ESeq (ESeq kv_body (ERep kv_body)) (EStr [59]))).
  rewrite run_rule. cbn [inner_atomicity].
  rewrite run_seq, run_seq. unfold render_kvs. rewrite (kv_core_spec k1 _ p Hk1). cbn [do_skip].
  set (p1 := p + blen (render_core k1)).
  assert (Hls : lay_ok lsemi (59 :: tail)).
  { clear - Hmore. induction more as [|[ld k] r IH]; cbn [more_ok] in Hmore; [exact Hmore|apply IH; tauto]. }
  destruct more as [|[ld k] r].
  - (* a single key-value *)
    cbn [render_more more_ok] in *. rewrite (skip_lay lsemi _ p1 Hmore (semicolon_code tail)).
    rewrite run_rep, kv_body_miss_semicolon.
    (* the repetition matched nothing: the state stays after the layout *)
    cbn [do_skip]. rewrite (skip_none _ _ (semicolon_code tail)). rewrite run_str.
    cbn [Peg.rest strip_prefix N.eqb Pos.eqb pos blen cplen N.ltb N.compare Pos.compare Pos.compare_cont app emits negb andb].
    rewrite !app_nil_r. unfold kvs_end, kvs_pairs. cbn [span_more more_pairs]. fold p1.
    replace (p1 + 0 + blen (render_lay lsemi) + 1) with (p1 + blen (render_lay lsemi) + (1 + 0)) by lia.
    reflexivity.
  - cbn [render_more more_ok] in *. destruct Hmore as (Hld & Hk & Hr).
    assert (Hca : code_ahead (render_core k ++ render_more r lsemi tail)%list).
    { rewrite render_core_head. apply ident_head. exact (proj1 Hk). }
    rewrite (skip_lay ld _ p1 Hld Hca). rewrite run_rep. rewrite (kv_core_spec k _ _ Hk). cbn [pos Peg.rest].
    pose proof (blen_core_pos k) as Hb.
    destruct (N.ltb_spec (p1 + blen (render_lay ld)) (p1 + blen (render_lay ld) + blen (render_core k))) as [_|]; [|lia].
    rewrite more_loop; [|exact Hr|cbn [List.length]; lia].
    cbn [do_skip]. rewrite (skip_lay lsemi _ _ Hls (semicolon_code tail)). rewrite run_str.
    cbn [Peg.rest strip_prefix N.eqb Pos.eqb pos blen cplen N.ltb N.compare Pos.compare Pos.compare_cont].
    rewrite !app_nil_r. cbn [emits negb andb pos]. unfold kvs_pairs. fold p1. cbn [more_pairs span_more kvs_end].
    replace (p1 + blen (render_lay ld) + blen (render_core k) + span_more r + blen (render_lay lsemi) + (1 + 0))
      with (kvs_end k1 ((ld, k) :: r) lsemi p) by (unfold kvs_end, p1; cbn [span_more]; lia).
    f_equal. f_equal. f_equal.
    change (core_pair k1 p :: core_pair k (p1 + blen (render_lay ld)) :: more_pairs r (p1 + blen (render_lay ld) + blen (render_core k)))
      with ([core_pair k1 p] ++ [core_pair k (p1 + blen (render_lay ld))] ++ more_pairs r (p1 + blen (render_lay ld) + blen (render_core k)))%list.
    rewrite !kv_nodes_app. reflexivity.
Qed.

(* ---- target_arg:  target: layout "text" layout ,  ---- *)
Definition target_word : list N := [116; 97; 114; 103; 101; 116; 58].
Record targ := mkTarg { t_l1 : lay; t_us : list munit; t_l2 : lay }.
Definition render_targ (t : targ) : list N :=
  (target_word ++ render_lay (t_l1 t) ++ 34 :: render_msg (t_us t) ++ 34 :: render_lay (t_l2 t) ++ [44])%list.
Definition targ_ok (t : targ) (tail : list N) : Prop :=
  lay_ok (t_l1 t) (34 :: render_msg (t_us t) ++ 34 :: render_lay (t_l2 t) ++ 44 :: tail)%list /\
  forallb munit_ok (t_us t) = true /\ lay_ok (t_l2 t) (44 :: tail).
Definition targ_node (t : targ) (p : N) : ptree :=
  let q := p + 7 + blen (render_lay (t_l1 t)) in
  let e := q + 1 + blen (render_msg (t_us t)) + 1 in
  Node "target_arg" p (e + blen (render_lay (t_l2 t)) + 1)
    [Node "string_literal" q e [Node "string_value" (q + 1) (q + 1 + blen (render_msg (t_us t))) []]].

Lemma comma_code t : code_ahead (44 :: t).
Proof. split; reflexivity. Qed.

Lemma strip_prefix_app_same s t : strip_prefix s (s ++ t)%list = Some t.
Proof. induction s as [|c s IH]; cbn [strip_prefix app]; [reflexivity|]. rewrite N.eqb_refl. exact IH. Qed.

Lemma target_arg_spec t tail p :
  targ_ok t tail ->
  run Utab SK r_target_arg NonAtomic false (mkIn (render_targ t ++ tail)%list p)
  = Ok (mkIn tail (p + blen (render_targ t))) [targ_node t p].
Proof.
  intros (Hl1 & Hus & Hl2). unfold r_target_arg. rewrite run_rule. cbn [inner_atomicity]. fold target_word.
  rewrite run_seq, run_str. unfold render_targ. rewrite <- !app_assoc. cbn [Peg.rest]. rewrite strip_prefix_app_same.
  cbn [do_skip pos]. change (blen target_word) with 7.
  cbn [app]. rewrite <- !app_assoc. cbn [app]. rewrite <- !app_assoc. cbn [app].
  rewrite (skip_lay (t_l1 t) _ _ Hl1 (quote_ahead _)). rewrite run_seq.
  rewrite (string_literal_spec SK NonAtomic (t_us t) _ _ Hus). cbn [do_skip].
  rewrite (skip_lay (t_l2 t) _ _ Hl2 (comma_code tail)). rewrite run_str.
  cbn [Peg.rest strip_prefix N.eqb Pos.eqb pos blen cplen N.ltb N.compare Pos.compare Pos.compare_cont app emits negb andb].
  unfold targ_node. rewrite ?app_nil_r.
  assert (Hb : p + blen (target_word ++ render_lay (t_l1 t) ++ 34 :: render_msg (t_us t) ++ 34 :: render_lay (t_l2 t) ++ [44])
               = p + 7 + blen (render_lay (t_l1 t)) + 1 + blen (render_msg (t_us t)) + 1 + blen (render_lay (t_l2 t)) + (1 + 0)).
  { rewrite !blen_app. change (blen target_word) with 7. cbn [blen]. rewrite !blen_app. cbn [blen]. rewrite !blen_app.
    cbn [blen cplen N.ltb N.compare Pos.compare Pos.compare_cont]. lia. }
  rewrite Hb.
  replace (p + 7 + blen (render_lay (t_l1 t)) + 1 + blen (render_msg (t_us t)) + 1 + blen (render_lay (t_l2 t)) + 1)
    with (p + 7 + blen (render_lay (t_l1 t)) + 1 + blen (render_msg (t_us t)) + 1 + blen (render_lay (t_l2 t)) + (1 + 0)) by lia.
  reflexivity.
Qed.

Lemma target_arg_miss t p :
  strip_prefix target_word t = None -> run Utab SK r_target_arg NonAtomic false (mkIn t p) = Fail.
Proof.
  intros H. unfold r_target_arg. rewrite run_rule. cbn [inner_atomicity]. fold target_word.
  rewrite run_seq, run_str. cbn [Peg.rest]. rewrite H. reflexivity.
Qed.

(* ---- macro_args in general:  ( layout [target layout] [key-values ; layout] "message"  ---- *)
Record sargs := mkArgs {
  a_l0 : lay;                                                  (* after the bracket *)
  a_targ : option (targ * lay);                                (* target argument, layout after its comma *)
  a_kvs : option (kvcore * list (lay * kvcore) * lay * lay);   (* key-values, layout before ";", layout after it *)
  a_msg : list munit }.

Definition render_kvpart (o : option (kvcore * list (lay * kvcore) * lay * lay)) (tail : list N) : list N :=
  match o with
  | Some (k1, more, lsemi, lafter) => render_kvs k1 more lsemi (render_lay lafter ++ tail)%list
  | None => tail
  end.
Definition render_targpart (o : option (targ * lay)) (tail : list N) : list N :=
  match o with
  | Some (t, lt) => (render_targ t ++ render_lay lt ++ tail)%list
  | None => tail
  end.
Definition msg_lit (us : list munit) (rst : list N) : list N := (34 :: render_msg us ++ 34 :: rst)%list.
(* the text from the bracket to the closing quote of the message, followed by rst *)
Definition render_args (a : sargs) (rst : list N) : list N :=
  (40 :: render_lay (a_l0 a) ++ render_targpart (a_targ a) (render_kvpart (a_kvs a) (msg_lit (a_msg a) rst)))%list.

Definition kvpart_ok (o : option (kvcore * list (lay * kvcore) * lay * lay)) (tail : list N) : Prop :=
  match o with
  | Some (k1, more, lsemi, lafter) =>
      kvs_ok k1 more lsemi (render_lay lafter ++ tail)%list /\ lay_ok lafter tail
  | None => True
  end.

Definition args_ok (a : sargs) (rst : list N) : Prop :=
  let m := msg_lit (a_msg a) rst in
  let kvtext := render_kvpart (a_kvs a) m in
  forallb munit_ok (a_msg a) = true /\
  kvpart_ok (a_kvs a) m /\
  match a_targ a with
  | Some (t, lt) => lay_ok (a_l0 a) (render_targ t ++ render_lay lt ++ kvtext)%list /\
                    targ_ok t (render_lay lt ++ kvtext)%list /\ lay_ok lt kvtext
  | None => lay_ok (a_l0 a) kvtext /\ strip_prefix target_word kvtext = None
  end.

(* positions *)
Definition targpart_len (o : option (targ * lay)) : N :=
  match o with Some (t, lt) => blen (render_targ t) + blen (render_lay lt) | None => 0 end.
Definition kvpart_len (o : option (kvcore * list (lay * kvcore) * lay * lay)) : N :=
  match o with
  | Some (k1, more, lsemi, lafter) => blen (render_core k1) + span_more more + blen (render_lay lsemi) + 1 + blen (render_lay lafter)
  | None => 0
  end.

Definition args_kids (a : sargs) (p : N) : list ptree :=
  let pt := p + 1 + blen (render_lay (a_l0 a)) in          (* start of the target / key-values / message *)
  let pk := pt + targpart_len (a_targ a) in
  let q := pk + kvpart_len (a_kvs a) in                      (* the opening quote of the message *)
  let e := q + 1 + blen (render_msg (a_msg a)) + 1 in
  (match a_targ a with Some (t, _) => [targ_node t pt] | None => [] end ++
   match a_kvs a with
   | Some (k1, more, lsemi, _) => [Node "kvp_args" pk (kvs_end k1 more lsemi pk) (kv_nodes (kvs_pairs k1 more pk))]
   | None => []
   end ++
   [Node "string_literal" q e [Node "string_value" (q + 1) (q + 1 + blen (render_msg (a_msg a))) []]])%list.

Definition args_end (a : sargs) (p : N) : N :=
  p + 1 + blen (render_lay (a_l0 a)) + targpart_len (a_targ a) + kvpart_len (a_kvs a) + 1 + blen (render_msg (a_msg a)) + 1.

Lemma kvtext_code a rst : args_ok a rst -> code_ahead (render_kvpart (a_kvs a) (msg_lit (a_msg a) rst)).
Proof.
  intros (_ & Hk & _). destruct (a_kvs a) as [[[[k1 more] lsemi] lafter]|]; cbn [render_kvpart kvpart_ok] in *.
  - unfold render_kvs. rewrite render_core_head. apply ident_head. exact (proj1 (proj1 (proj1 Hk))).
  - apply quote_ahead.
Qed.

Lemma macro_args_gen a rst p :
  args_ok a rst ->
  run Utab SK r_macro_args NonAtomic false (mkIn (render_args a rst) p)
  = Ok (mkIn rst (args_end a p)) [Node "macro_args" p (args_end a p) (args_kids a p)].
Proof.
  intros Hok. pose proof (kvtext_code a rst Hok) as Hkc. destruct Hok as (Hus & Hk & Ht).
  set (m := msg_lit (a_msg a) rst) in *. set (kvtext := render_kvpart (a_kvs a) m) in *.
  unfold r_macro_args. rewrite run_rule. cbn [inner_atomicity].
  unfold render_args. fold m. fold kvtext.
  rewrite run_seq, run_str. cbn [Peg.rest strip_prefix N.eqb Pos.eqb pos blen cplen N.ltb N.compare Pos.compare Pos.compare_cont do_skip].
  replace (p + (1 + 0)) with (p + 1) by lia.
  set (pt := p + 1 + blen (render_lay (a_l0 a))).
  (* after the optional target: at kvtext, position pk *)
  assert (Htarg : exists tn,
            tn = match a_targ a with Some (t, _) => [targ_node t pt] | None => [] end /\
            match SK (mkIn (render_lay (a_l0 a) ++ render_targpart (a_targ a) kvtext)%list (p + 1)) with
            | None => Diverge
            | Some j => match run Utab SK (EOpt r_target_arg) NonAtomic false j with
                        | Ok i1 t1 => match do_skip SK NonAtomic i1 with
                                      | None => Diverge
                                      | Some i1' => Ok i1' t1
                                      end
                        | r => r
                        end
            end = Ok (mkIn kvtext (pt + targpart_len (a_targ a))) tn).
  { eexists. split; [reflexivity|]. destruct (a_targ a) as [[t lt]|]; cbn [render_targpart targpart_len].
    - destruct Ht as (Hl0 & Htg & Hlt).
      assert (Hca : code_ahead (render_targ t ++ render_lay lt ++ kvtext)%list) by (split; reflexivity).
      rewrite (skip_lay (a_l0 a) _ _ Hl0 Hca). rewrite run_opt, (target_arg_spec t _ _ Htg). cbn [do_skip].
      rewrite (skip_lay lt _ _ Hlt Hkc). fold pt. f_equal. f_equal. lia.
    - destruct Ht as (Hl0 & Hnt). rewrite (skip_lay (a_l0 a) _ _ Hl0 Hkc). rewrite run_opt, (target_arg_miss _ _ Hnt).
      cbn [do_skip]. rewrite (skip_none _ _ Hkc). fold pt. rewrite N.add_0_r. reflexivity. }
  destruct Htarg as (tn & Htn & Htarg).
  set (pk := pt + targpart_len (a_targ a)) in *.
  (* after the optional key-values: at the message, position q *)
  assert (Hkv : exists kn,
            kn = match a_kvs a with
                 | Some (k1, more, lsemi, _) => [Node "kvp_args" pk (kvs_end k1 more lsemi pk) (kv_nodes (kvs_pairs k1 more pk))]
                 | None => []
                 end /\
            match run Utab SK (EOpt r_kvp_args) NonAtomic false (mkIn kvtext pk) with
            | Ok i1 t1 => match do_skip SK NonAtomic i1 with
                          | None => Diverge
                          | Some i1' => Ok i1' t1
                          end
            | r => r
            end = Ok (mkIn m (pk + kvpart_len (a_kvs a))) kn).
  { eexists. split; [reflexivity|]. unfold kvtext. destruct (a_kvs a) as [[[[k1 more] lsemi] lafter]|]; cbn [render_kvpart kvpart_len kvpart_ok] in *.
    - destruct Hk as (Hkvs & Hla). rewrite run_opt, (kvp_args_spec k1 more lsemi _ pk Hkvs). cbn [do_skip].
      rewrite (skip_lay lafter _ _ Hla (quote_ahead _)). f_equal. f_equal. unfold kvs_end. lia.
    - unfold m, msg_lit. rewrite run_opt, kvp_args_miss_quote. cbn [do_skip]. rewrite (skip_none _ _ (quote_ahead _)).
      rewrite N.add_0_r. reflexivity. }
  destruct Hkv as (kn & Hkn & Hkv).
  set (q := pk + kvpart_len (a_kvs a)) in *.
  (* assemble *)
  destruct (SK (mkIn (render_lay (a_l0 a) ++ render_targpart (a_targ a) kvtext)%list (p + 1))) as [j|]; [|discriminate].
  rewrite run_seq.
  destruct (run Utab SK (EOpt r_target_arg) NonAtomic false j) as [| |i1 t1]; try discriminate.
  destruct (do_skip SK NonAtomic i1) as [i1'|]; [|discriminate]. inversion Htarg; subst i1' t1. clear Htarg.
  rewrite run_seq.
  destruct (run Utab SK (EOpt r_kvp_args) NonAtomic false (mkIn kvtext pk)) as [| |i2 t2]; try discriminate.
  destruct (do_skip SK NonAtomic i2) as [i2'|]; [|discriminate]. inversion Hkv; subst i2' t2. clear Hkv.
  unfold m, msg_lit. rewrite (string_literal_spec SK NonAtomic (a_msg a) rst q Hus).
  cbn [emits negb andb app pos]. unfold args_kids, args_end. fold pt. fold pk. fold q.
  rewrite <- Htn, <- Hkn. reflexivity.
Qed.

(* the argument text does not depend on what follows it *)
Lemma render_more_app more lsemi t r : render_more more lsemi (t ++ r) = (render_more more lsemi t ++ r)%list.
Proof.
  induction more as [|[ld k] m IH]; cbn [render_more].
  - rewrite <- app_assoc. reflexivity.
  - rewrite IH, <- !app_assoc. reflexivity.
Qed.

Lemma render_kvpart_app o t r : render_kvpart o (t ++ r) = (render_kvpart o t ++ r)%list.
Proof.
  destruct o as [[[[k1 more] lsemi] lafter]|]; cbn [render_kvpart]; [|reflexivity].
  unfold render_kvs. rewrite app_assoc, render_more_app, <- !app_assoc. reflexivity.
Qed.

Lemma render_targpart_app o t r : render_targpart o (t ++ r) = (render_targpart o t ++ r)%list.
Proof. destruct o as [[tg lt]|]; cbn [render_targpart]; [rewrite <- !app_assoc|]; reflexivity. Qed.

Lemma render_args_app a r : render_args a r = (render_args a [] ++ r)%list.
Proof.
  unfold render_args. cbn [app]. f_equal. rewrite <- app_assoc. f_equal.
  rewrite <- render_targpart_app, <- render_kvpart_app. unfold msg_lit. cbn [app]. rewrite <- app_assoc. reflexivity.
Qed.

Lemma blen_render_args a :
  blen (render_args a []) = 1 + blen (render_lay (a_l0 a)) + targpart_len (a_targ a) + kvpart_len (a_kvs a) + 1 + blen (render_msg (a_msg a)) + 1.
Proof.
  unfold render_args. cbn [blen]. rewrite blen_app.
  assert (Hm : blen (msg_lit (a_msg a) []) = 1 + blen (render_msg (a_msg a)) + 1).
  { unfold msg_lit. cbn [blen]. rewrite blen_app. cbn [blen cplen N.ltb N.compare Pos.compare Pos.compare_cont]. lia. }
  assert (Hk : forall t, blen (render_kvpart (a_kvs a) t) = kvpart_len (a_kvs a) + blen t).
  { intros t. destruct (a_kvs a) as [[[[k1 more] lsemi] lafter]|]; cbn [render_kvpart kvpart_len]; [|lia].
    unfold render_kvs. rewrite blen_app, blen_render_more, blen_app. lia. }
  assert (Ht : forall t, blen (render_targpart (a_targ a) t) = targpart_len (a_targ a) + blen t).
  { intros t. destruct (a_targ a) as [[tg lt]|]; cbn [render_targpart targpart_len]; [|lia]. rewrite !blen_app. lia. }
  rewrite Ht, Hk, Hm. cbn [cplen N.ltb N.compare Pos.compare Pos.compare_cont]. lia.
Qed.

(* ---- a bracket whose first argument is an identifier that no key-value list and no message can
        begin: name!( ident layout c ...  with c none of  = : , ;  and no identifier character ---- *)
Lemma str_miss' k c t p : k <> c -> run Utab SK (EStr [k]) NonAtomic false (mkIn (c :: t) p) = Fail.
Proof. intros H. rewrite run_str. cbn [Peg.rest strip_prefix]. destruct (N.eqb_spec k c); [congruence|reflexivity]. Qed.

Lemma macro_args_tail_fail_ident i l c t p :
  ident_ok i = true -> lay_ok l (c :: t) -> code_ahead (c :: t) ->
  Utab XidContinue c = false -> name_start_ok c = false -> c <> 61 -> c <> 58 -> c <> 44 -> c <> 59 ->
  strip_prefix target_word (render_ident i ++ render_lay l ++ c :: t)%list = None ->
  run Utab SK (ESeq (EOpt r_target_arg) (ESeq (EOpt r_kvp_args) r_string_literal)) NonAtomic false
      (mkIn (render_ident i ++ render_lay l ++ c :: t)%list p) = Fail.
Proof.
  intros Hi Hl Hc Hcont Hns H61 H58 H44 H59 Htw.
  assert (Hca : code_ahead (render_ident i ++ render_lay l ++ c :: t)%list) by (apply ident_head; exact Hi).
  rewrite run_seq, run_opt, (target_arg_miss _ _ Htw). cbn [do_skip]. rewrite (skip_none _ _ Hca).
  rewrite run_seq, run_opt.
  assert (Hkv : run Utab SK r_kvp_args NonAtomic false (mkIn (render_ident i ++ render_lay l ++ c :: t)%list p) = Fail).
  { change r_kvp_args with (ERule "kvp_args" RNormal false (ESeq (ESeq kv_body (ERep kv_body)) (EStr [59]))). rewrite run_rule. cbn [inner_atomicity]. rewrite run_seq, run_seq.
    unfold kv_body at 1. rewrite run_seq.
    assert (Hst : cstops (c :: t)) by exact Hcont.
    rewrite (kvp_key_spec i l (c :: t) p Hi Hl Hc Hst). cbn [do_skip].
    unfold id_rest, id_end. rewrite (skip_after_rep (ics i) l (c :: t) _ Hl Hc).
    rewrite run_seq, run_opt, (modifiers_miss c t _ H58). cbn [do_skip]. rewrite (skip_none _ _ Hc).
    rewrite run_seq, run_opt, run_seq, (str_miss' 61 c t _) by (intros E; apply H61; symmetry; exact E).
    cbn [do_skip]. rewrite (skip_none _ _ Hc). rewrite run_opt, (str_miss' 44 c t _) by (intros E; apply H44; symmetry; exact E).
    cbn [do_skip app]. rewrite (skip_none _ _ Hc).
    (* no further key-value starts at c, and c is not the terminating ";" *)
    rewrite run_rep. unfold kv_body. rewrite run_seq.
    rewrite (kvp_key_miss c t _ Hns). cbn [do_skip]. rewrite (skip_none _ _ Hc).
    rewrite (str_miss' 59 c t _) by (intros E; apply H59; symmetry; exact E). reflexivity. }
  rewrite Hkv. cbn [do_skip]. rewrite (skip_none _ _ Hca).
  unfold render_ident. cbn [app]. rewrite string_literal_miss; [reflexivity|].
  intros E. unfold ident_ok in Hi. apply andb_true_iff in Hi. destruct Hi as [H0 _]. rewrite E in H0. vm_compute in H0. discriminate.
Qed.
