(* StatementLemmas.v -- rule lemmas for the statement-level rules of the GENERATED grammar
   (string_value, string_literal, macro_name, macro_args, log_macro, file), and the theorem they
   add up to: a log statement in simple canonical form at the beginning of a file, after ANY
   layout, with ANY message text and whatever follows it, is found, and its reference is placed at
   the first character of the message. *)
From Coq Require Import List Arith NArith Bool Lia String.
From Breadlog Require Import Model.Peg Model.Text Model.Regex Model.Glue Model.Tables.
From Breadlog Require Import Gen.Grammar.
From Breadlog Require Import Proofs.PegFacts Proofs.TokenFacts Proofs.GlueFacts Proofs.RuleLemmas Proofs.GlueSpec.
Import ListNotations.
Open Scope N_scope.

Arguments run : simpl never.

Notation SK := (skipf Utab g_whitespace g_comment).

(* ---- the file rule always succeeds and yields one `file` node ---- *)
Definition file_item : expr := EChoice r_log_macro (EChoice r_other_name EAny).

Lemma grammar_wf_skip : wf_skip g_whitespace g_comment = true.
Proof. vm_compute. reflexivity. Qed.

Lemma sk_total j : SK j <> None.
Proof. apply skipf_total. exact grammar_wf_skip. Qed.

Lemma file_item_wf : wf file_item = true.
Proof. vm_compute. reflexivity. Qed.

Lemma file_item_fail j : run Utab SK file_item NonAtomic false j = Fail -> rest j = [].
Proof.
  unfold file_item. rewrite !run_choice. intros H.
  destruct (run Utab SK r_log_macro NonAtomic false j); try discriminate.
  destruct (run Utab SK r_other_name NonAtomic false j); try discriminate.
  rewrite run_any in H. destruct (rest j); [reflexivity|discriminate].
Qed.

Lemma rep_loop_exhausts : forall fuel j acc i' t,
  rep_loop (rep_step Utab SK file_item NonAtomic false) fuel j acc = Ok i' t ->
  (exists j', SK i' = Some j' /\ rest j' = []) /\ exists more, t = (acc ++ more)%list.
Proof.
  induction fuel as [|x fuel IH]; intros j acc i' t H; cbn [rep_loop] in H; [discriminate|].
  destruct (rep_step Utab SK file_item NonAtomic false j) as [| |j1 t1] eqn:Es.
  - inversion H; subst. split; [|exists []; rewrite app_nil_r; reflexivity].
    unfold rep_step in Es. cbn [do_skip] in Es. destruct (SK i') as [j'|] eqn:Ek; [|discriminate].
    exists j'. split; [reflexivity|apply file_item_fail; exact Es].
  - discriminate.
  - destruct (pos j <? pos j1); [|discriminate].
    destruct (IH _ _ _ _ H) as [He (more & ->)]. split; [exact He|].
    exists (t1 ++ more)%list. rewrite app_assoc. reflexivity.
Qed.

Lemma rep_items_exhaust i i' t :
  run Utab SK (ERep file_item) NonAtomic false i = Ok i' t -> exists j', SK i' = Some j' /\ rest j' = [].
Proof.
  rewrite run_rep. destruct (run Utab SK file_item NonAtomic false i) as [| |i1 t1] eqn:E1.
  - intros H. inversion H; subst. apply file_item_fail in E1.
    destruct i' as [r p]. cbn in E1. subst r. exists (mkIn [] p). split; [apply skip_at_eof|reflexivity].
  - discriminate.
  - destruct (pos i <? pos i1); [|discriminate]. intros H. apply rep_loop_exhausts in H. tauto.
Qed.

Theorem parse_file_shape code :
  exists i kids, parse_file code = Ok i [Node "file" 0 (pos i) kids].
Proof.
  unfold parse_file, parse, g_file, r_file. rewrite run_rule. cbn [inner_atomicity].
  rewrite run_seq, run_soi. cbn [pos N.eqb do_skip].
  destruct (SK (mkIn code 0)) as [i1|] eqn:E1; [|exfalso; eapply sk_total; eauto].
  rewrite run_seq. fold file_item.
  pose proof (no_diverge Utab SK (skipf_adv Utab g_whitespace g_comment) sk_total (ERep file_item) NonAtomic false i1
                ltac:(vm_compute; reflexivity)) as Hnd.
  pose proof (nofail_spec Utab SK sk_total (ERep file_item) NonAtomic false i1 eq_refl ltac:(vm_compute; reflexivity)) as Hnf.
  destruct (run Utab SK (ERep file_item) NonAtomic false i1) as [| |i2 t2] eqn:E2; try congruence.
  destruct (rep_items_exhaust _ _ _ E2) as (i3 & E3 & Hr). cbn [do_skip]. rewrite E3, run_eoi. rewrite Hr.
  cbn [emits negb andb]. eexists. eexists. reflexivity.
Qed.

(* ---- string_value / string_literal: any text made of ordinary characters and escape pairs ---- *)
Inductive munit := MChar (c : N) | MEsc (c : N).     (* MEsc c stands for backslash followed by c *)

Definition munit_ok (u : munit) : bool :=
  match u with MChar c => negb (c =? 34) && negb (c =? 92) | MEsc _ => true end.

Definition render_unit (u : munit) : list N := match u with MChar c => [c] | MEsc c => [92; c] end.
Fixpoint render_msg (us : list munit) : list N :=
  match us with [] => [] | u :: r => (render_unit u ++ render_msg r)%list end.

Definition sv_body : expr := EChoice (ESeq (EStr [92]) EAny) (ESeq (ENeg (EStr [34])) EAny).

Lemma sv_step_hit sk u rst p :
  munit_ok u = true ->
  rep_step Utab sk sv_body Atomic false (mkIn (render_unit u ++ rst)%list p)
  = Ok (mkIn rst (p + blen (render_unit u))) [].
Proof.
  intros Hu. unfold rep_step, sv_body. cbn [do_skip]. rewrite run_choice, run_seq, run_str.
  destruct u as [c|c]; cbn [render_unit app Peg.rest strip_prefix].
  - cbn [munit_ok] in Hu. apply andb_true_iff in Hu. destruct Hu as [H1 H2]. apply negb_true_iff in H1, H2.
    rewrite (N.eqb_sym 92 c), H2. rewrite run_seq, run_neg, run_str. cbn [Peg.rest strip_prefix].
    rewrite (N.eqb_sym 34 c), H1. cbn [do_skip]. rewrite run_any. cbn [Peg.rest pos blen]. rewrite N.add_0_r. reflexivity.
  - replace (92 =? 92) with true by reflexivity. cbn [do_skip pos]. rewrite run_any. cbn [Peg.rest pos blen app].
    f_equal. f_equal. cbn [cplen N.ltb N.compare Pos.compare Pos.compare_cont]. lia.
Qed.

Lemma sv_step_miss sk rst p : rep_step Utab sk sv_body Atomic false (mkIn (34 :: rst) p) = Fail.
Proof. reflexivity. Qed.

Lemma render_unit_len u : 1 <= blen (render_unit u) /\ (1 <= List.length (render_unit u))%nat.
Proof. destruct u; cbn [render_unit blen List.length]; pose proof (cplen_pos c); split; lia. Qed.

Lemma sv_loop sk : forall us rst p fuel acc,
  forallb munit_ok us = true -> (List.length (render_msg us ++ 34%N :: rst) < List.length fuel)%nat ->
  rep_loop (rep_step Utab sk sv_body Atomic false) fuel (mkIn (render_msg us ++ 34 :: rst)%list p) acc
  = Ok (mkIn (34 :: rst) (p + blen (render_msg us))) acc.
Proof.
  induction us as [|u us IH]; intros rst p fuel acc Hok Hlen.
  - cbn [render_msg app blen]. destruct fuel as [|x fuel]; [cbn in Hlen; lia|]. cbn [rep_loop].
    rewrite sv_step_miss. rewrite N.add_0_r. reflexivity.
  - cbn [forallb] in Hok. apply andb_true_iff in Hok. destruct Hok as [Hu Hok].
    destruct fuel as [|x fuel]; [cbn in Hlen; lia|]. cbn [rep_loop render_msg]. rewrite <- app_assoc.
    rewrite sv_step_hit by exact Hu. cbn [pos]. destruct (render_unit_len u) as [Hb Hl].
    destruct (N.ltb_spec p (p + blen (render_unit u))) as [_|]; [|lia].
    rewrite app_nil_r. rewrite IH; [|exact Hok|].
    + rewrite blen_app. f_equal. f_equal. lia.
    + cbn [render_msg] in Hlen. rewrite <- app_assoc, app_length in Hlen. cbn [List.length] in Hlen. lia.
Qed.

Lemma string_value_spec sk a us rst p :
  forallb munit_ok us = true -> a <> Atomic ->
  run Utab sk r_string_value a false (mkIn (render_msg us ++ 34 :: rst)%list p)
  = Ok (mkIn (34 :: rst) (p + blen (render_msg us))) [Node "string_value" p (p + blen (render_msg us)) []].
Proof.
  intros Hok Ha. unfold r_string_value. rewrite run_rule. cbn [inner_atomicity]. fold sv_body. rewrite run_rep.
  assert (Hinner : run Utab sk (ERep sv_body) Atomic false (mkIn (render_msg us ++ 34 :: rst)%list p)
                   = Ok (mkIn (34 :: rst) (p + blen (render_msg us))) []).
  { rewrite run_rep. destruct us as [|u us].
    - cbn [render_msg app]. pose proof (sv_step_miss sk rst p) as Hm. unfold rep_step in Hm. cbn [do_skip] in Hm.
      rewrite Hm. cbn [blen]. rewrite N.add_0_r. reflexivity.
    - cbn [forallb] in Hok. apply andb_true_iff in Hok. destruct Hok as [Hu Hok].
      cbn [render_msg]. rewrite <- app_assoc.
      pose proof (sv_step_hit sk u (render_msg us ++ 34 :: rst)%list p Hu) as Hh. unfold rep_step in Hh. cbn [do_skip] in Hh.
      rewrite Hh. cbn [pos Peg.rest]. destruct (render_unit_len u) as [Hb Hl].
      destruct (N.ltb_spec p (p + blen (render_unit u))) as [_|]; [|lia].
      rewrite sv_loop; [|exact Hok|cbn [List.length]; lia].
      rewrite blen_app. f_equal. f_equal. lia. }
  rewrite run_rep in Hinner. rewrite Hinner. cbn [pos].
  destruct a; [congruence|reflexivity|reflexivity].
Qed.

Lemma string_literal_spec sk a us rst p :
  forallb munit_ok us = true ->
  run Utab sk r_string_literal a false (mkIn (34 :: render_msg us ++ 34 :: rst)%list p)
  = Ok (mkIn rst (p + 1 + blen (render_msg us) + 1))
       [Node "string_literal" p (p + 1 + blen (render_msg us) + 1)
             [Node "string_value" (p + 1) (p + 1 + blen (render_msg us)) []]].
Proof.
  intros Hok. unfold r_string_literal. rewrite run_rule. cbn [inner_atomicity].
  rewrite run_seq, run_str. cbn [Peg.rest strip_prefix N.eqb Pos.eqb pos do_skip blen cplen N.ltb N.compare Pos.compare Pos.compare_cont].
  replace (p + (1 + 0)) with (p + 1) by lia.
  rewrite run_seq. rewrite string_value_spec by (try exact Hok; discriminate).
  cbn [do_skip]. rewrite run_seq, run_neg, run_str. cbn [Peg.rest strip_prefix N.eqb Pos.eqb do_skip].
  rewrite run_str. cbn [Peg.rest strip_prefix N.eqb Pos.eqb pos blen cplen N.ltb N.compare Pos.compare Pos.compare_cont app].
  replace (p + 1 + blen (render_msg us) + (1 + 0)) with (p + 1 + blen (render_msg us) + 1) by lia.
  cbn [emits negb andb]. reflexivity.
Qed.

(* ---- macro_name: a simple (unqualified) name ---- *)
Definition name_start_ok (c : N) : bool := Utab XidStart c || (c =? 95).
Definition no_sep_ahead (t : list N) : Prop := strip_prefix [58; 58] t = None.
Definition name_end (t : list N) : Prop :=
  match t with [] => True | d :: _ => Utab XidContinue d = false end /\ no_sep_ahead t.

Lemma colon_not_continue : Utab XidContinue 58 = false.
Proof. vm_compute. reflexivity. Qed.

Lemma continue_not_colon d : Utab XidContinue d = true -> (58 =? d) = false.
Proof. intros H. destruct (N.eqb_spec 58 d) as [<-|]; [rewrite colon_not_continue in H; discriminate|reflexivity]. Qed.

Lemma no_sep_strip t : no_sep_ahead t -> strip_prefix [58; 58] t = None.
Proof. intros H. exact H. Qed.

Lemma no_sep_continue d t : Utab XidContinue d = true -> no_sep_ahead (d :: t).
Proof. intros H. unfold no_sep_ahead. cbn [strip_prefix]. rewrite (continue_not_colon d H). reflexivity. Qed.

Definition cont_body : expr := ESeq (EClass XidContinue) (EOpt (EStr [58; 58])).

Lemma cont_step_hit sk d t p :
  Utab XidContinue d = true -> no_sep_ahead t ->
  rep_step Utab sk cont_body Atomic false (mkIn (d :: t) p) = Ok (mkIn t (p + cplen d)) [].
Proof.
  intros Hd Ht. unfold rep_step, cont_body. cbn [do_skip]. rewrite run_seq.
  change (run Utab sk (EClass XidContinue) Atomic false (mkIn (d :: t) p))
    with (if Utab XidContinue d then Ok (mkIn t (p + cplen d)) [] else Fail).
  rewrite Hd. cbn [do_skip]. rewrite run_opt, run_str. cbn [Peg.rest]. rewrite (no_sep_strip t Ht). reflexivity.
Qed.

Lemma cont_step_miss sk t p :
  match t with [] => True | d :: _ => Utab XidContinue d = false end ->
  rep_step Utab sk cont_body Atomic false (mkIn t p) = Fail.
Proof.
  intros H. unfold rep_step, cont_body. cbn [do_skip]. rewrite run_seq. destruct t as [|d t]; [reflexivity|].
  change (run Utab sk (EClass XidContinue) Atomic false (mkIn (d :: t) p))
    with (if Utab XidContinue d then Ok (mkIn t (p + cplen d)) [] else Fail).
  rewrite H. reflexivity.
Qed.

Lemma cont_loop sk : forall cs rst p fuel acc,
  forallb (Utab XidContinue) cs = true -> name_end rst ->
  (List.length (cs ++ rst) < List.length fuel)%nat ->
  rep_loop (rep_step Utab sk cont_body Atomic false) fuel (mkIn (cs ++ rst)%list p) acc
  = Ok (mkIn rst (p + blen cs)) acc.
Proof.
  induction cs as [|d cs IH]; intros rst p fuel acc Hcs [He Hs] Hlen.
  - cbn [app blen]. destruct fuel as [|x fuel]; [cbn in Hlen; lia|]. cbn [rep_loop].
    rewrite cont_step_miss by exact He. rewrite N.add_0_r. reflexivity.
  - cbn [forallb] in Hcs. apply andb_true_iff in Hcs. destruct Hcs as [Hd Hcs].
    destruct fuel as [|x fuel]; [cbn in Hlen; lia|]. cbn [rep_loop app].
    rewrite cont_step_hit; [|exact Hd|].
    2:{ destruct cs as [|d2 cs2]; [exact Hs|]. cbn [forallb] in Hcs. apply andb_true_iff in Hcs.
        apply no_sep_continue. tauto. }
    cbn [pos]. pose proof (cplen_pos d). destruct (N.ltb_spec p (p + cplen d)) as [_|]; [|lia].
    rewrite app_nil_r. rewrite IH; [|exact Hcs|split; assumption|cbn [List.length app] in Hlen; lia].
    cbn [blen]. rewrite N.add_assoc. reflexivity.
Qed.

Lemma macro_name_spec sk a c0 cs rst p :
  name_start_ok c0 = true -> forallb (Utab XidContinue) cs = true -> name_end rst -> a <> Atomic ->
  run Utab sk r_macro_name a false (mkIn (c0 :: cs ++ rst)%list p)
  = Ok (mkIn rst (p + blen (c0 :: cs))) [Node "macro_name" p (p + blen (c0 :: cs)) []].
Proof.
  intros H0 Hcs Hend Ha. unfold r_macro_name. rewrite run_rule. cbn [inner_atomicity].
  rewrite run_seq, run_choice.
  assert (Hfirst : match run Utab sk (EClass XidStart) Atomic false (mkIn (c0 :: cs ++ rst)%list p) with
                   | Fail => run Utab sk (EStr [95]) Atomic false (mkIn (c0 :: cs ++ rst)%list p)
                   | r => r
                   end = Ok (mkIn (cs ++ rst)%list (p + cplen c0)) []).
  { change (run Utab sk (EClass XidStart) Atomic false (mkIn (c0 :: cs ++ rst)%list p))
      with (if Utab XidStart c0 then Ok (mkIn (cs ++ rst)%list (p + cplen c0)) [] else Fail).
    unfold name_start_ok in H0. destruct (Utab XidStart c0); [reflexivity|].
    cbn [orb] in H0. apply N.eqb_eq in H0. subst c0. reflexivity. }
  rewrite Hfirst. cbn [do_skip]. rewrite run_seq, run_opt, run_str. cbn [Peg.rest].
  assert (Hns : no_sep_ahead (cs ++ rst)%list).
  { destruct cs as [|d cs2]; [exact (proj2 Hend)|]. cbn [forallb] in Hcs. apply andb_true_iff in Hcs.
    apply no_sep_continue. tauto. }
  rewrite (no_sep_strip _ Hns). cbn [do_skip]. fold cont_body. rewrite run_rep.
  destruct cs as [|d cs2].
  - cbn [app]. pose proof (cont_step_miss sk rst (p + cplen c0) (proj1 Hend)) as Hm.
    unfold rep_step in Hm. cbn [do_skip] in Hm. rewrite Hm. cbn [pos app blen]. rewrite N.add_0_r.
    destruct a; [congruence|reflexivity|reflexivity].
  - cbn [forallb] in Hcs. apply andb_true_iff in Hcs. destruct Hcs as [Hd Hcs2].
    assert (Hns2 : no_sep_ahead (cs2 ++ rst)%list).
    { destruct cs2 as [|d3 cs3]; [exact (proj2 Hend)|]. cbn [forallb] in Hcs2. apply andb_true_iff in Hcs2.
      apply no_sep_continue. tauto. }
    cbn [app]. pose proof (cont_step_hit sk d (cs2 ++ rst)%list (p + cplen c0) Hd Hns2) as Hh.
    unfold rep_step in Hh. cbn [do_skip] in Hh. rewrite Hh. cbn [pos Peg.rest]. pose proof (cplen_pos d).
    destruct (N.ltb_spec (p + cplen c0) (p + cplen c0 + cplen d)) as [_|]; [|lia].
    rewrite cont_loop; [|exact Hcs2|exact Hend|cbn [List.length]; lia].
    cbn [pos app blen]. 
    replace (p + cplen c0 + cplen d + blen cs2) with (p + (cplen c0 + (cplen d + blen cs2))) by lia.
    destruct a; [congruence|reflexivity|reflexivity].
Qed.

(* ---- macro_args / log_macro: no target, no key-values; any layout after the bracket ---- *)
Lemma skip_none t p : code_ahead t -> SK (mkIn t p) = Some (mkIn t p).
Proof.
  intros H. pose proof (skip_layout [] [] t p eq_refl I H) as Hs. cbn [app render_groups blen] in Hs.
  rewrite !N.add_0_r in Hs. exact Hs.
Qed.

Lemma quote_ahead t : code_ahead (34 :: t).
Proof. split; reflexivity. Qed.

Lemma target_arg_miss_quote t p : run Utab SK r_target_arg NonAtomic false (mkIn (34 :: t) p) = Fail.
Proof. reflexivity. Qed.

Lemma kvp_args_miss_quote t p : run Utab SK r_kvp_args NonAtomic false (mkIn (34 :: t) p) = Fail.
Proof. reflexivity. Qed.

Lemma macro_args_spec ws1 gs1 us rst p :
  forallb is_ws_char ws1 = true -> groups_ok gs1 (34 :: render_msg us ++ 34 :: rst)%list ->
  forallb munit_ok us = true ->
  let lay := (ws1 ++ render_groups gs1)%list in
  let q := p + 1 + blen lay in
  run Utab SK r_macro_args NonAtomic false (mkIn (40 :: lay ++ 34 :: render_msg us ++ 34 :: rst)%list p)
  = Ok (mkIn rst (q + 1 + blen (render_msg us) + 1))
       [Node "macro_args" p (q + 1 + blen (render_msg us) + 1)
          [Node "string_literal" q (q + 1 + blen (render_msg us) + 1)
             [Node "string_value" (q + 1) (q + 1 + blen (render_msg us)) []]]].
Proof.
  intros Hws Hgs Hus lay q. unfold r_macro_args. rewrite run_rule. cbn [inner_atomicity].
  rewrite run_seq, run_str. cbn [Peg.rest strip_prefix N.eqb Pos.eqb pos blen cplen N.ltb N.compare Pos.compare Pos.compare_cont].
  replace (p + (1 + 0)) with (p + 1) by lia. cbn [do_skip].
  unfold lay. rewrite <- app_assoc.
  rewrite (skip_layout ws1 gs1 (34 :: render_msg us ++ 34 :: rst)%list (p + 1) Hws Hgs (quote_ahead _)).
  replace (p + 1 + blen ws1 + blen (render_groups gs1)) with q by (unfold q, lay; rewrite blen_app; lia).
  rewrite run_seq, run_opt, target_arg_miss_quote. cbn [do_skip].
  rewrite (skip_none _ q (quote_ahead _)).
  rewrite run_seq, run_opt, kvp_args_miss_quote. cbn [do_skip].
  rewrite (skip_none _ q (quote_ahead _)).
  rewrite string_literal_spec by exact Hus. cbn [emits negb andb app pos]. reflexivity.
Qed.

Lemma bang_ahead t : code_ahead (33 :: t).
Proof. split; reflexivity. Qed.
Lemma paren_ahead t : code_ahead (40 :: t).
Proof. split; reflexivity. Qed.
Lemma bang_name_end t : name_end (33 :: t).
Proof. split; reflexivity. Qed.

Lemma log_macro_spec c0 cs ws1 gs1 us rst p :
  name_start_ok c0 = true -> forallb (Utab XidContinue) cs = true ->
  forallb is_ws_char ws1 = true -> groups_ok gs1 (34 :: render_msg us ++ 34 :: rst)%list ->
  forallb munit_ok us = true ->
  let nm := c0 :: cs in
  let lay := (ws1 ++ render_groups gs1)%list in
  let a0 := p + blen nm + 1 in               (* the opening bracket *)
  let q := a0 + 1 + blen lay in              (* the opening quote *)
  let e := q + 1 + blen (render_msg us) + 1 in
  run Utab SK r_log_macro NonAtomic false
      (mkIn (nm ++ 33 :: 40 :: lay ++ 34 :: render_msg us ++ 34 :: rst)%list p)
  = Ok (mkIn rst e)
       [Node "log_macro" p e
          [Node "macro_name" p (p + blen nm) [];
           Node "macro_args" a0 e
             [Node "string_literal" q e [Node "string_value" (q + 1) (q + 1 + blen (render_msg us)) []]]]].
Proof.
  intros H0 Hcs Hws Hgs Hus nm lay a0 q e. unfold r_log_macro. rewrite run_rule. cbn [inner_atomicity].
  rewrite run_seq. unfold nm. cbn [app].
  rewrite (macro_name_spec SK NonAtomic c0 cs _ p H0 Hcs (bang_name_end _)) by discriminate.
  cbn [do_skip]. rewrite (skip_none _ _ (bang_ahead _)).
  rewrite run_seq, run_str. cbn [Peg.rest strip_prefix N.eqb Pos.eqb pos do_skip].
  replace (p + blen (c0 :: cs) + blen [33]) with a0
    by (unfold a0, nm; cbn [blen cplen N.ltb N.compare Pos.compare Pos.compare_cont]; lia).
  rewrite (skip_none _ _ (paren_ahead _)).
  pose proof (macro_args_spec ws1 gs1 us rst a0 Hws Hgs Hus) as Hm. cbv zeta in Hm. fold lay in Hm.
  fold q in Hm. fold e in Hm. rewrite Hm. cbn [emits negb andb app pos]. reflexivity.
Qed.

(* ---- the first statement of a file ---- *)
Lemma name_start_not_layout c0 : name_start_ok c0 = true -> code_ahead (c0 :: nil) /\ forall t, code_ahead (c0 :: t).
Proof.
  intros H.
  assert (Hws : is_ws_char c0 = false).
  { destruct (is_ws_char c0) eqn:E; [|reflexivity]. exfalso.
    assert (Hall : forallb (fun c => negb (name_start_ok c)) ws_chars = true) by (vm_compute; reflexivity).
    rewrite forallb_forall in Hall. unfold is_ws_char in E. apply existsb_exists in E.
    destruct E as (x & Hin & Hx). apply N.eqb_eq in Hx. subst x. specialize (Hall c0 Hin). rewrite H in Hall. discriminate. }
  assert (Hsl : c0 <> 47).
  { intros ->. vm_compute in H. discriminate. }
  assert (G : forall t, code_ahead (c0 :: t)).
  { intros t. split; [exact Hws|]. cbn. destruct c0 as [|pc]; [exact I|]. revert Hsl. clear.
    do 6 (destruct pc as [pc|pc|]; try (intros; exact I)); congruence. }
  split; apply G.
Qed.

Lemma rep_first_item i1 i1' lm i2 t2 :
  run Utab SK file_item NonAtomic false i1 = Ok i1' [lm] -> pos i1 < pos i1' ->
  run Utab SK (ERep file_item) NonAtomic false i1 = Ok i2 t2 ->
  (exists j', SK i2 = Some j' /\ rest j' = []) /\ exists more, t2 = lm :: more.
Proof.
  intros H1 Hlt. rewrite run_rep, H1. rewrite (proj2 (N.ltb_lt _ _) Hlt). intros H.
  apply rep_loop_exhausts in H. destruct H as [He (more & ->)]. split; [exact He|]. exists more. reflexivity.
Qed.

Lemma file_first_statement code i1 i1' lm :
  SK (mkIn code 0) = Some i1 ->
  run Utab SK file_item NonAtomic false i1 = Ok i1' [lm] -> pos i1 < pos i1' ->
  exists i more, parse_file code = Ok i [Node "file" 0 (pos i) (lm :: more)].
Proof.
  intros Hsk Hitem Hlt. unfold parse_file, parse, g_file, r_file. rewrite run_rule. cbn [inner_atomicity].
  rewrite run_seq, run_soi. cbn [pos N.eqb do_skip]. rewrite Hsk. rewrite run_seq. fold file_item.
  pose proof (no_diverge Utab SK (skipf_adv Utab g_whitespace g_comment) sk_total (ERep file_item) NonAtomic false i1
                ltac:(vm_compute; reflexivity)) as Hnd.
  pose proof (nofail_spec Utab SK sk_total (ERep file_item) NonAtomic false i1 eq_refl ltac:(vm_compute; reflexivity)) as Hnf.
  destruct (run Utab SK (ERep file_item) NonAtomic false i1) as [| |i2 t2] eqn:E2; try congruence.
  destruct (rep_first_item _ _ _ _ _ Hitem Hlt E2) as ((i3 & E3 & Hr) & more & ->).
  cbn [do_skip]. rewrite E3, run_eoi, Hr. cbn [emits negb andb app]. eexists. eexists. reflexivity.
Qed.

Lemma collect_prefix P cfg code : forall founds acc es,
  collect P cfg code founds acc = Done es -> exists es', es = (rev acc ++ es')%list.
Proof.
  induction founds as [|f founds IH]; intros acc es H; cbn [collect] in H.
  - inversion H; subst. exists []. rewrite app_nil_r. reflexivity.
  - destruct (is_rule f "log_macro").
    + destruct (one_macro P cfg code f) as [|e|]; try discriminate.
      * eapply IH; eauto.
      * destruct (IH _ _ H) as [es' ->]. cbn [rev]. rewrite <- app_assoc. eexists. reflexivity.
    + destruct (is_rule f "EOI" || is_rule f "other_name"); [eapply IH; eauto|discriminate].
Qed.

Lemma str_slice_mid pre mid post :
  str_slice (pre ++ mid ++ post)%list (blen pre) (blen pre + blen mid) = Some mid.
Proof.
  unfold str_slice. destruct (N.ltb_spec (blen pre + blen mid) (blen pre)); [lia|].
  rewrite drop_bytes_app. replace (blen pre + blen mid - blen pre) with (blen mid) by lia.
  apply take_bytes_app.
Qed.

Lemma line_col_prefix pre post : line_col (pre ++ post)%list (blen pre) = Some (line_col_go pre 1 1).
Proof. unfold line_col. rewrite take_bytes_app. reflexivity. Qed.

(* THE STATEMENT THEOREM (message style).  A file that begins with ANY layout (whitespace, comments
   with arbitrary text), then a statement  name!( <any layout> "<any message>" ...  whose name is a
   configured macro name and which is not under an ignore directive, and then ANYTHING: the finder
   returns that statement's entry first -- at the first character of the message literal's value,
   with the line and column of that place and the reference read from the message text. *)
Theorem first_statement_found cfg ws0 gs0 c0 cs ws1 gs1 us rst :
  let nm := c0 :: cs in
  let lay := (ws1 ++ render_groups gs1)%list in
  let msg := render_msg us in
  let stmt_tail := (nm ++ 33 :: 40 :: lay ++ 34 :: msg ++ 34 :: rst)%list in
  let before_name := (ws0 ++ render_groups gs0)%list in
  let code := (before_name ++ stmt_tail)%list in
  let before_msg := (before_name ++ nm ++ 33 :: 40 :: lay ++ [34])%list in
  forallb is_ws_char ws0 = true -> groups_ok gs0 stmt_tail ->
  name_start_ok c0 = true -> forallb (Utab XidContinue) cs = true ->
  forallb is_ws_char ws1 = true -> groups_ok gs1 (34 :: msg ++ 34 :: rst)%list ->
  forallb munit_ok us = true ->
  cfg_structured cfg = false -> macro_of_interest nm cfg = true ->
  directive_check the_params (p_ignore the_params) code (blen before_name) (p_comment_re the_params) = Some false ->
  exists es',
    find cfg code =
    Done (mkEntry (blen before_msg) (fst (line_col_go before_msg 1 1)) (snd (line_col_go before_msg 1 1))
                  (extract_reference the_params msg) (short_name nm) KString None None :: es').
Proof.
  intros nm lay msg stmt_tail before_name code before_msg Hws0 Hgs0 H0 Hcs Hws1 Hgs1 Hus Hst Hint Hdir.
  set (p0 := blen before_name).
  (* the skip before the statement *)
  assert (Hsk : SK (mkIn code 0) = Some (mkIn stmt_tail p0)).
  { unfold code, before_name. rewrite <- app_assoc.
    rewrite (skip_layout ws0 gs0 stmt_tail 0 Hws0 Hgs0 (proj2 (name_start_not_layout c0 H0) _)).
    unfold p0, before_name. rewrite blen_app. rewrite N.add_0_l. reflexivity. }
  (* the statement itself *)
  pose proof (log_macro_spec c0 cs ws1 gs1 us rst p0 H0 Hcs Hws1 Hgs1 Hus) as Hlm. cbv zeta in Hlm.
  fold nm in Hlm. fold lay in Hlm. fold msg in Hlm.
  set (a0 := p0 + blen nm + 1) in *. set (q := a0 + 1 + blen lay) in *. set (e := q + 1 + blen msg + 1) in *.
  set (lm := Node "log_macro" p0 e
               [Node "macro_name" p0 (p0 + blen nm) [];
                Node "macro_args" a0 e [Node "string_literal" q e [Node "string_value" (q + 1) (q + 1 + blen msg) []]]]) in *.
  assert (Hitem : run Utab SK file_item NonAtomic false (mkIn stmt_tail p0) = Ok (mkIn rst e) [lm]).
  { unfold file_item. rewrite run_choice. unfold stmt_tail. rewrite Hlm. reflexivity. }
  assert (Hlt : pos (mkIn stmt_tail p0) < pos (mkIn rst e)).
  { cbn [pos]. unfold e, q, a0. lia. }
  destruct (file_first_statement code _ _ lm Hsk Hitem Hlt) as (i & more & Hparse).
  (* the glue on the first node *)
  assert (Hq : q + 1 = blen before_msg).
  { unfold q, a0, p0, before_msg. rewrite !blen_app. cbn [blen cplen N.ltb N.compare Pos.compare Pos.compare_cont].
    rewrite !blen_app. cbn [blen cplen N.ltb N.compare Pos.compare Pos.compare_cont]. lia. }
  assert (Hcode_msg : code = (before_msg ++ msg ++ 34 :: rst)%list).
  { unfold code, stmt_tail, before_msg. rewrite <- !app_assoc. cbn [app]. rewrite <- !app_assoc. reflexivity. }
  assert (Hname : str_slice code p0 (p0 + blen nm) = Some nm).
  { unfold code, stmt_tail, p0. apply str_slice_mid. }
  assert (Hone : one_macro the_params cfg code lm =
                 Emit (mkEntry (blen before_msg) (fst (line_col_go before_msg 1 1)) (snd (line_col_go before_msg 1 1))
                               (extract_reference the_params msg) (short_name nm) KString None None)).
  { unfold lm.
    change [Node "string_literal" q e [Node "string_value" (q + 1) (q + 1 + blen msg) []]]
      with (canon_args None [] 0 0 q e (Node "string_value" (q + 1) (q + 1 + blen msg) [])).
    rewrite (one_macro_message_canon the_params cfg code p0 e p0 (p0 + blen nm) [] a0 e None [] 0 0 q e
               (Node "string_value" (q + 1) (q + 1 + blen msg) []) nm (or_introl Hst) Hdir Hname Hint I (Forall_nil _)).
    cbn [node_start node_end]. rewrite Hq.
    rewrite Hcode_msg at 1. rewrite line_col_prefix.
    rewrite Hcode_msg. rewrite (str_slice_mid before_msg msg (34 :: rst)).
    destruct (line_col_go before_msg 1 1) as [l c]. reflexivity. }
  (* the whole finder *)
  assert (Hgok : grammar_ok the_params "file" RNormal false
                   (ESeq ESoi (ESeq (ERep (EChoice r_log_macro (EChoice r_other_name EAny))) EEoi))).
  { unfold grammar_ok. cbn [p_file the_params p_ws p_comment]. unfold g_file, r_file.
    split; [reflexivity|]. split; [reflexivity|]. split; [vm_compute; reflexivity|]. split; vm_compute; reflexivity. }
  destruct (entries_total the_params _ _ _ _ Hgok cfg code) as (es & Hes & _).
  unfold find. rewrite Hes. unfold entries in Hes. cbn [p_U p_ws p_comment p_file the_params] in Hes.
  unfold parse_file in Hparse. rewrite Hparse in Hes. cbn [node_kids collect] in Hes.
  replace (is_rule lm "log_macro") with true in Hes by reflexivity. rewrite Hone in Hes.
  destruct (collect_prefix _ _ _ _ _ _ Hes) as [es' ->]. cbn [rev app]. exists es'. reflexivity.
Qed.
