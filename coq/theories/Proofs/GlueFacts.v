(* GlueFacts.v -- the glue (Model/Glue.v: rust_log_ref_finder::find and the directive scan) never
   panics and never hangs, for every configuration and every text, provided the grammar is well
   formed (checked by computation on the generated grammar in Properties/C17.v):
   every slice it takes is delimited by node positions, which are char boundaries (TokenFacts),
   and the unreachable!() arm is unreachable because only log_macro / other_name / EOI tokens can
   appear directly under `file`. *)
From Coq Require Import List Arith NArith Bool Lia String.
From Breadlog Require Import Model.Peg Model.Text Model.Regex Model.Glue.
From Breadlog Require Import Proofs.PegFacts Proofs.TokenFacts.
Import ListNotations.
Open Scope N_scope.

(* ---- slices at char boundaries never panic ---- *)
Lemma take_bytes_app : forall pre post, take_bytes (pre ++ post) (blen pre) = Some pre.
Proof.
  induction pre as [|c pre IH]; intros post.
  - cbn. destruct post; reflexivity.
  - cbn [app blen take_bytes]. pose proof (cplen_pos c).
    destruct (N.eqb_spec (cplen c + blen pre) 0); [lia|].
    destruct (N.leb_spec (cplen c) (cplen c + blen pre)); [|lia].
    replace (cplen c + blen pre - cplen c) with (blen pre) by lia. rewrite IH. reflexivity.
Qed.

Lemma drop_bytes_app : forall pre post, drop_bytes (pre ++ post) (blen pre) = Some post.
Proof.
  induction pre as [|c pre IH]; intros post.
  - cbn. destruct post; reflexivity.
  - cbn [app blen drop_bytes]. pose proof (cplen_pos c).
    destruct (N.eqb_spec (cplen c + blen pre) 0); [lia|].
    destruct (N.leb_spec (cplen c) (cplen c + blen pre)); [|lia].
    replace (cplen c + blen pre - cplen c) with (blen pre) by lia. apply IH.
Qed.

Lemma take_bytes_bnd code p : bnd code p -> exists pre, take_bytes code p = Some pre.
Proof. intros (pre & post & -> & <-). exists pre. apply take_bytes_app. Qed.

Lemma drop_bytes_bnd code p : bnd code p ->
  exists pre post, code = pre ++ post /\ blen pre = p /\ drop_bytes code p = Some post.
Proof. intros (pre & post & -> & <-). exists pre, post. repeat split. apply drop_bytes_app. Qed.

(* two boundaries in order: the second splits the remainder of the first *)
Lemma bnd_split code a b : bnd code a -> bnd code b -> a <= b ->
  exists pre mid post, code = pre ++ mid ++ post /\ blen pre = a /\ blen (pre ++ mid) = b.
Proof.
  intros (p1 & q1 & E1 & L1) (p2 & q2 & E2 & L2) Hle. subst code.
  revert p2 q2 a b E2 L1 L2 Hle. induction p1 as [|c p1 IH]; intros p2 q2 a b E2 L1 L2 Hle.
  - cbn in *. subst a. exists [], p2, q2. cbn. repeat split; auto.
  - destruct p2 as [|d p2].
    + cbn in L2. subst b. cbn [blen] in L1. pose proof (cplen_pos c). lia.
    + cbn [app] in E2. inversion E2 as [[Hcd Hrest]]. subst d.
      cbn [blen] in L1, L2.
      destruct (IH p2 q2 (a - cplen c) (b - cplen c) Hrest ltac:(lia) ltac:(lia) ltac:(lia))
        as (pre & mid & post & E & La & Lb).
      exists (c :: pre), mid, post. cbn [app blen]. rewrite <- E.
      repeat split; try lia.
Qed.

Lemma str_slice_bnd code a b : bnd code a -> bnd code b -> a <= b -> exists t, str_slice code a b = Some t.
Proof.
  intros Ha Hb Hle. destruct (bnd_split code a b Ha Hb Hle) as (pre & mid & post & -> & La & Lb).
  unfold str_slice. destruct (N.ltb_spec b a); [lia|].
  rewrite <- La. rewrite drop_bytes_app.
  rewrite blen_app in Lb. replace (b - blen pre) with (blen mid) by lia.
  rewrite take_bytes_app. eauto.
Qed.

Lemma line_col_bnd code p : bnd code p -> exists lc, line_col code p = Some lc.
Proof. intros H. destruct (take_bytes_bnd code p H) as [pre Hp]. unfold line_col. rewrite Hp. eauto. Qed.

Section Glue.
  Variable P : params.
  Variable code : list N.
  Variable strict : string -> bool.

  Definition ok (t : ptree) : Prop := tree_ok code strict t /\ node_start t <= node_end t.

  Lemma forest_in_Forall : forall l lo hi, forest_in (tree_ok code strict) lo hi l -> Forall ok l.
  Proof.
    induction l as [|k l IH]; intros lo hi H; [constructor|].
    cbn in H. destruct H as (_ & H2 & H3 & H4). constructor; [split; assumption|eapply IH; eauto].
  Qed.

  Lemma ok_bnd t : ok t -> bnd code (node_start t) /\ bnd code (node_end t) /\ node_start t <= node_end t.
  Proof. destruct t as [r s e kids]. intros [[(Hs & He & _) _] Hle]. cbn in *. auto. Qed.

  Lemma ok_kids t : ok t -> Forall ok (node_kids t).
  Proof. destruct t as [r s e kids]. intros [[_ Hk] _]. cbn. eapply forest_in_Forall; eauto. Qed.

  Lemma directive_check_ok d t re : ok t -> directive_check P d code (node_start t) re <> None.
  Proof.
    intros Hok. destruct (ok_bnd t Hok) as (Hs & _ & _).
    destruct (drop_bytes_bnd code _ Hs) as (pre & post & Hc & Hl & Hd).
    unfold directive_check, first_char_len. rewrite Hd.
    destruct post as [|c post].
    - rewrite N.add_0_r. rewrite Hc, <- Hl. rewrite take_bytes_app. discriminate.
    - replace (node_start t + cplen c) with (blen (pre ++ [c])) by (rewrite blen_app; cbn; lia).
      rewrite Hc. replace (pre ++ c :: post) with ((pre ++ [c]) ++ post) by (rewrite <- app_assoc; reflexivity).
      rewrite take_bytes_app. discriminate.
  Qed.

  Definition kv_ok (kv : ptree * option ptree) : Prop :=
    ok (fst kv) /\ match snd kv with Some v => ok v | None => True end.

  Lemma kvp_spans_ok : forall kids acc, Forall ok kids -> Forall kv_ok acc -> Forall kv_ok (kvp_spans kids acc).
  Proof.
    induction kids as [|k kids IH]; intros acc Hk Ha; cbn [kvp_spans].
    - apply Forall_rev. exact Ha.
    - inversion Hk as [|? ? Hk1 Hk2]; subst.
      destruct (is_rule k "kvp_key").
      + apply IH; [exact Hk2|]. constructor; [split; [exact Hk1|exact I]|exact Ha].
      + destruct (is_rule k "kvp_value"); [|apply IH; assumption].
        destruct acc as [|[key v] acc]; [apply IH; assumption|].
        apply IH; [exact Hk2|]. inversion Ha as [|? ? [Hkey _] Ha2]; subst.
        constructor; [split; [exact Hkey|exact Hk1]|exact Ha2].
  Qed.

  Definition scan_ok (sc : args_scan) : Prop :=
    match sc_msg sc with Some v => ok v | None => True end /\
    Forall kv_ok (sc_kvs sc) /\
    match sc_after_target sc with Some p => bnd code p | None => True end.

  Lemma scan_args_ok : forall kids st, Forall ok kids -> scan_ok st -> scan_ok (scan_args kids st).
  Proof.
    induction kids as [|k kids IH]; intros st Hk Hst; cbn [scan_args]; [exact Hst|].
    inversion Hk as [|? ? Hk1 Hk2]; subst.
    set (st1 := if sc_target st && match sc_after_target st with None => true | Some _ => false end
                then mkScan (sc_msg st) (sc_kvs st) (sc_target st) (Some (node_start k)) else st).
    assert (Hst1 : scan_ok st1).
    { unfold st1. destruct (sc_target st && _); [|exact Hst].
      destruct Hst as (A & B & _). repeat split; auto. cbn. apply (ok_bnd k Hk1). }
    destruct (is_rule k "target_arg").
    { apply IH; [exact Hk2|]. destruct Hst1 as (A & B & Cc). repeat split; auto. }
    destruct (is_rule k "string_literal").
    { pose proof (ok_kids k Hk1) as Hkk. destruct (node_kids k) as [|v vs]; [apply IH; assumption|].
      apply IH; [exact Hk2|]. inversion Hkk as [|? ? Hv _]; subst. destruct Hst1 as (A & B & Cc).
      split; [exact Hv|]. split; [exact B|exact Cc]. }
    destruct (is_rule k "kvp_args"); [|apply IH; assumption].
    apply IH; [exact Hk2|]. destruct Hst1 as (A & B & Cc). repeat split; auto. cbn.
    apply Forall_app. split; [exact B|]. apply kvp_spans_ok; [apply ok_kids; exact Hk1|constructor].
  Qed.

  Lemma find_ref_kv_ok : forall kvs, Forall kv_ok kvs ->
    (find_ref_kv P code kvs = Done None) \/ (exists vs, find_ref_kv P code kvs = Done (Some vs) /\ ok vs).
  Proof.
    induction kvs as [|[k v] kvs IH]; intros H; cbn [find_ref_kv]; [left; reflexivity|].
    inversion H as [|? ? [Hk Hv] H2]; subst. cbn [fst snd] in *.
    destruct (ok_bnd k Hk) as (A & B & Cc).
    destruct (str_slice_bnd code _ _ A B Cc) as [kt ->].
    destruct (text_eqb kt (p_ref_key P)); [|apply IH; exact H2].
    destruct v as [vs|]; [right; exists vs; split; [reflexivity|exact Hv]|apply IH; exact H2].
  Qed.

  Lemma one_macro_no_panic cfg found : ok found -> one_macro P cfg code found <> StepPanic.
  Proof.
    intros Hok. unfold one_macro. pose proof (ok_kids found Hok) as Hkids.
    destruct (node_kids found) as [|name_rule inner]; [discriminate|].
    inversion Hkids as [|? ? Hn Hinner]; subst.
    destruct (negb (is_rule name_rule "macro_name")); [discriminate|].
    pose proof (directive_check_ok (p_ignore P) name_rule (p_comment_re P) Hn) as Hd.
    destruct (directive_check P (p_ignore P) code (node_start name_rule) (p_comment_re P)) as [[|]|]; [discriminate| |congruence].
    destruct (ok_bnd name_rule Hn) as (A & B & Cc).
    destruct (str_slice_bnd code _ _ A B Cc) as [name ->].
    destruct (negb (macro_of_interest name cfg)); [discriminate|].
    destruct inner as [|args rest]; [discriminate|]. inversion Hinner as [|? ? Ha _]; subst.
    destruct (negb (is_rule args "macro_args")); [discriminate|].
    pose proof (scan_args_ok (node_kids args) (mkScan None [] false None) (ok_kids args Ha)
                  ltac:(repeat split; cbn; auto)) as (Hmsg & Hkvs & Hat).
    set (sc := scan_args (node_kids args) (mkScan None [] false None)) in *.
    assert (Hnk : (if cfg_structured cfg
                   then directive_check P (p_no_kvp P) code (node_start args) (p_comment_re P)
                   else Some true) <> None).
    { destruct (cfg_structured cfg); [apply directive_check_ok; exact Ha|discriminate]. }
    destruct (if cfg_structured cfg then _ else _) as [nk|]; [|congruence].
    destruct (cfg_structured cfg && negb nk).
    - destruct (find_ref_kv_ok (sc_kvs sc) Hkvs) as [->|(vs & -> & Hvs)].
      + destruct (sc_after_target sc) as [p|].
        * destruct (line_col_bnd code p Hat) as [[l c] ->]. discriminate.
        * destruct (ok_bnd args Ha) as (A2 & _ & _).
          destruct (line_col_bnd code _ A2) as [[l c] ->]. discriminate.
      + destruct (ok_bnd vs Hvs) as (A2 & B2 & C2).
        destruct (line_col_bnd code _ A2) as [[l c] ->].
        destruct (str_slice_bnd code _ _ A2 B2 C2) as [vt ->]. discriminate.
    - destruct (sc_msg sc) as [sv|]; [|discriminate].
      destruct (ok_bnd sv Hmsg) as (A2 & B2 & C2).
      destruct (line_col_bnd code _ A2) as [[l c] ->].
      destruct (str_slice_bnd code _ _ A2 B2 C2) as [body ->]. discriminate.
  Qed.

  Lemma ok_strict t : ok t -> strict (node_rule t) = true -> node_start t < node_end t.
  Proof. destruct t as [r s e kids]. intros [[(_ & _ & Hs) _] _] H. cbn in *. auto. Qed.

  (* every entry position is a byte offset inside the text *)
  Lemma one_macro_pos cfg found e :
    strict "macro_args" = true -> ok found -> one_macro P cfg code found = Emit e -> e_pos e <= blen code.
  Proof.
    intros Hstrict Hok. unfold one_macro. pose proof (ok_kids found Hok) as Hkids.
    destruct (node_kids found) as [|name_rule inner]; [discriminate|].
    inversion Hkids as [|? ? Hn Hinner]; subst.
    destruct (negb (is_rule name_rule "macro_name")); [discriminate|].
    destruct (directive_check P (p_ignore P) code (node_start name_rule) (p_comment_re P)) as [[|]|]; try discriminate.
    destruct (str_slice code (node_start name_rule) (node_end name_rule)) as [name|]; [|discriminate].
    destruct (negb (macro_of_interest name cfg)); [discriminate|].
    destruct inner as [|args rest]; [discriminate|]. inversion Hinner as [|? ? Ha _]; subst.
    destruct (is_rule args "macro_args") eqn:Eargs; cbn [negb]; [|discriminate].
    pose proof (scan_args_ok (node_kids args) (mkScan None [] false None) (ok_kids args Ha)
                  ltac:(repeat split; cbn; auto)) as (Hmsg & Hkvs & Hat).
    set (sc := scan_args (node_kids args) (mkScan None [] false None)) in *.
    destruct (if cfg_structured cfg then _ else _) as [nk|]; [|discriminate].
    destruct (cfg_structured cfg && negb nk).
    - destruct (find_ref_kv_ok (sc_kvs sc) Hkvs) as [->|(vs & -> & Hvs)].
      + destruct (sc_after_target sc) as [p|].
        * destruct (line_col code p) as [[l c]|]; [|discriminate]. intros H. inversion H; subst. cbn [e_pos].
          apply bnd_le_len. exact Hat.
        * destruct (line_col code (node_start args)) as [[l c]|]; [|discriminate]. intros H. inversion H; subst.
          cbn [e_pos]. destruct (ok_bnd args Ha) as (_ & Be & _).
          assert (Hlt : node_start args < node_end args).
          { apply ok_strict; [exact Ha|]. unfold is_rule in Eargs. apply String.eqb_eq in Eargs. rewrite Eargs. exact Hstrict. }
          pose proof (bnd_le_len _ _ Be). lia.
      + destruct (ok_bnd vs Hvs) as (A2 & _ & _).
        destruct (line_col code (node_start vs)) as [[l c]|]; [|discriminate].
        destruct (str_slice code (node_start vs) (node_end vs)); [|discriminate].
        intros H. inversion H; subst. cbn [e_pos]. apply bnd_le_len. exact A2.
    - destruct (sc_msg sc) as [sv|]; [|discriminate].
      destruct (ok_bnd sv Hmsg) as (A2 & _ & _).
      destruct (line_col code (node_start sv)) as [[l c]|]; [|discriminate].
      destruct (str_slice code (node_start sv) (node_end sv)); [|discriminate].
      intros H. inversion H; subst. cbn [e_pos]. apply bnd_le_len. exact A2.
  Qed.

  Lemma collect_pos cfg : forall founds acc es,
    strict "macro_args" = true -> Forall ok founds ->
    Forall (fun e => e_pos e <= blen code) acc ->
    collect P cfg code founds acc = Done es -> Forall (fun e => e_pos e <= blen code) es.
  Proof.
    induction founds as [|f founds IH]; intros acc es Hs Hok Hacc H; cbn [collect] in H.
    - inversion H; subst. apply Forall_rev. exact Hacc.
    - inversion Hok as [|? ? Hf Hok2]; subst.
      destruct (is_rule f "log_macro").
      + destruct (one_macro P cfg code f) as [|e|] eqn:Eom; try discriminate.
        * eapply IH; eauto.
        * eapply IH; [exact Hs|exact Hok2| |exact H]. constructor; [|exact Hacc].
          eapply one_macro_pos; eauto.
      + destruct (is_rule f "EOI" || is_rule f "other_name"); [|discriminate]. eapply IH; eauto.
  Qed.

  Definition top_ok (allowed : list string) (f : ptree) : Prop := In (node_rule f) allowed.

  Lemma collect_no_panic cfg : forall founds acc,
    Forall ok founds ->
    Forall (fun f => is_rule f "log_macro" || is_rule f "EOI" || is_rule f "other_name" = true) founds ->
    exists es, collect P cfg code founds acc = Done es.
  Proof.
    induction founds as [|f founds IH]; intros acc Hok Hnames; cbn [collect]; [eauto|].
    inversion Hok as [|? ? Hf Hok2]; subst. inversion Hnames as [|? ? Hn Hn2]; subst.
    destruct (is_rule f "log_macro") eqn:E1.
    - pose proof (one_macro_no_panic cfg f Hf) as Hnp.
      destruct (one_macro P cfg code f); [apply IH; assumption|apply IH; assumption|congruence].
    - cbn [orb] in Hn. rewrite Hn. apply IH; assumption.
  Qed.
End Glue.

(* ---- every entry position is a CHARACTER BOUNDARY of the text (not only inside it): node spans are, and the one
   position that is not a node position -- directly after the bracket of macro_args -- follows a one-byte
   character because the rule's body begins with that literal (TokenFacts.run_first) ---- *)
Section GlueBnd.
  Variable P : params.
  Variable code : list N.
  Variable strict : string -> bool.
  Variable first : string -> option N.
  Hypothesis first_args : first "macro_args" = Some 40.

  Lemma first_kids t : tree_first code first t -> Forall (tree_first code first) (node_kids t).
  Proof.
    destruct t as [r s e kids]. intros H. apply (proj1 (tree_first_unfold code first r s e kids)) in H. destruct H as [_ H]. cbn [node_kids].
    induction kids as [|k kids IH]; [constructor|]. cbn [all_first] in H. destruct H as [Hk H]. constructor; auto.
  Qed.

  Lemma after_bracket args :
    is_rule args "macro_args" = true -> tree_first code first args -> bnd code (node_start args + 1).
  Proof.
    destruct args as [r s e kids]. unfold is_rule. cbn [node_rule node_start]. intros Hr H.
    apply String.eqb_eq in Hr. subst r. apply (proj1 (tree_first_unfold code first _ s e kids)) in H. destruct H as [H _].
    unfold node_first in H. rewrite first_args in H. destruct H as (pre & post & Hc & Hl).
    exists (pre ++ [40])%list, post. split; [rewrite <- app_assoc; exact Hc|].
    rewrite blen_app. cbn [blen]. change (cplen 40) with 1. lia.
  Qed.

  Lemma one_macro_bnd cfg found e :
    ok code strict found -> tree_first code first found ->
    one_macro P cfg code found = Emit e -> bnd code (e_pos e).
  Proof.
    intros Hok Hfirst. unfold one_macro. pose proof (ok_kids code strict found Hok) as Hkids.
    pose proof (first_kids found Hfirst) as Hfk.
    destruct (node_kids found) as [|name_rule inner]; [discriminate|].
    inversion Hkids as [|? ? Hn Hinner]; subst. inversion Hfk as [|? ? _ Hfinner]; subst.
    destruct (negb (is_rule name_rule "macro_name")); [discriminate|].
    destruct (directive_check P (p_ignore P) code (node_start name_rule) (p_comment_re P)) as [[|]|]; try discriminate.
    destruct (str_slice code (node_start name_rule) (node_end name_rule)) as [name|]; [|discriminate].
    destruct (negb (macro_of_interest name cfg)); [discriminate|].
    destruct inner as [|args rest]; [discriminate|]. inversion Hinner as [|? ? Ha _]; subst.
    inversion Hfinner as [|? ? Hfa _]; subst.
    destruct (is_rule args "macro_args") eqn:Eargs; cbn [negb]; [|discriminate].
    pose proof (scan_args_ok code strict (node_kids args) (mkScan None [] false None) (ok_kids code strict args Ha)
                  ltac:(repeat split; cbn; auto)) as (Hmsg & Hkvs & Hat).
    set (sc := scan_args (node_kids args) (mkScan None [] false None)) in *.
    destruct (if cfg_structured cfg then _ else _) as [nk|]; [|discriminate].
    destruct (cfg_structured cfg && negb nk).
    - destruct (find_ref_kv_ok P code strict (sc_kvs sc) Hkvs) as [->|(vs & -> & Hvs)].
      + destruct (sc_after_target sc) as [p|].
        * destruct (line_col code p) as [[l c]|]; [|discriminate]. intros H. inversion H; subst. cbn [e_pos]. exact Hat.
        * destruct (line_col code (node_start args)) as [[l c]|]; [|discriminate]. intros H. inversion H; subst.
          cbn [e_pos]. apply after_bracket; assumption.
      + destruct (ok_bnd code strict vs Hvs) as (A2 & _ & _).
        destruct (line_col code (node_start vs)) as [[l c]|]; [|discriminate].
        destruct (str_slice code (node_start vs) (node_end vs)); [|discriminate].
        intros H. inversion H; subst. cbn [e_pos]. exact A2.
    - destruct (sc_msg sc) as [sv|]; [|discriminate].
      destruct (ok_bnd code strict sv Hmsg) as (A2 & _ & _).
      destruct (line_col code (node_start sv)) as [[l c]|]; [|discriminate].
      destruct (str_slice code (node_start sv) (node_end sv)); [|discriminate].
      intros H. inversion H; subst. cbn [e_pos]. exact A2.
  Qed.

  Lemma collect_bnd cfg : forall founds acc es,
    Forall (ok code strict) founds -> Forall (tree_first code first) founds ->
    Forall (fun e => bnd code (e_pos e)) acc ->
    collect P cfg code founds acc = Done es -> Forall (fun e => bnd code (e_pos e)) es.
  Proof.
    induction founds as [|f founds IH]; intros acc es Hok Hfi Hacc H; cbn [collect] in H.
    - inversion H; subst. apply Forall_rev. exact Hacc.
    - inversion Hok as [|? ? Hf Hok2]; subst. inversion Hfi as [|? ? Hff Hfi2]; subst.
      destruct (is_rule f "log_macro").
      + destruct (one_macro P cfg code f) as [|e|] eqn:Eom; try discriminate.
        * eapply IH; eauto.
        * eapply IH; [exact Hok2|exact Hfi2| |exact H]. constructor; [|exact Hacc].
          eapply one_macro_bnd; eauto.
      + destruct (is_rule f "EOI" || is_rule f "other_name"); [|discriminate]. eapply IH; eauto.
  Qed.
End GlueBnd.

(* ---- the line and column an entry carries ARE the line and column (pest's Position::line_col) of its byte
   offset: what --check reports is the place where an edit run inserts ---- *)
Lemma lcg_cons x r l c :
  line_col_go (x :: r) l c =
  if x =? 13 then match r with
                  | [] => line_col_go r l (c + 1)
                  | y :: r' => if y =? 10 then line_col_go r' (l + 1) 1 else line_col_go r l (c + 1)
                  end
  else if x =? 10 then line_col_go r (l + 1) 1 else line_col_go r l (c + 1).
Proof.
  destruct x as [|p]; [reflexivity|].
  do 4 (destruct p as [p|p|]; try reflexivity).
  destruct r as [|y r']; [reflexivity|]. destruct y as [|q]; [reflexivity|].
  do 4 (destruct q as [q|q|]; try reflexivity).
Qed.

Lemma line_col_go_snoc40 : forall n (pre : list N) l c, (List.length pre <= n)%nat ->
  line_col_go (pre ++ [40])%list l c = (fst (line_col_go pre l c), snd (line_col_go pre l c) + 1).
Proof.
  induction n as [|n IH]; intros pre l c Hn.
  - destruct pre; [reflexivity|cbn [List.length] in Hn; lia].
  - destruct pre as [|x pre]; [reflexivity|]. cbn [List.length] in Hn. cbn [app]. rewrite !lcg_cons.
    destruct (x =? 13).
    + destruct pre as [|y pre']; [reflexivity|]. cbn [app]. cbn [List.length] in Hn.
      destruct (y =? 10).
      * apply IH. lia.
      * apply (IH (y :: pre')). cbn [List.length]. lia.
    + destruct (x =? 10); apply IH; lia.
Qed.

Section GlueLineCol.
  Variable P : params.
  Variable code : list N.
  Variable strict : string -> bool.
  Variable first : string -> option N.
  Hypothesis first_args : first "macro_args" = Some 40.

  Lemma line_col_after_bracket args l c :
    is_rule args "macro_args" = true -> tree_first code first args ->
    line_col code (node_start args) = Some (l, c) -> line_col code (node_start args + 1) = Some (l, c + 1).
  Proof.
    destruct args as [r s e kids]. unfold is_rule. cbn [node_rule node_start]. intros Hr H Hlc.
    apply String.eqb_eq in Hr. subst r. apply (proj1 (tree_first_unfold code first _ s e kids)) in H. destruct H as [H _].
    unfold node_first in H. rewrite first_args in H. destruct H as (pre & post & Hc & Hl).
    unfold line_col in *. subst code. rewrite <- Hl in *. rewrite take_bytes_app in Hlc.
    replace (blen pre + 1) with (blen (pre ++ [40])%list) by (rewrite blen_app; cbn [blen]; change (cplen 40) with 1; lia).
    replace (pre ++ 40 :: post)%list with ((pre ++ [40]) ++ post)%list by (rewrite <- app_assoc; reflexivity).
    rewrite take_bytes_app. rewrite (line_col_go_snoc40 (List.length pre) pre 1 1 (le_n _)).
    inversion Hlc as [Hlc']. rewrite Hlc'. reflexivity.
  Qed.

  Lemma one_macro_line_col cfg found e :
    tree_first code first found ->
    one_macro P cfg code found = Emit e -> line_col code (e_pos e) = Some (e_line e, e_col e).
  Proof.
    intros Hfirst. unfold one_macro.
    pose proof (first_kids code first found Hfirst) as Hfk.
    destruct (node_kids found) as [|name_rule inner]; [discriminate|].
    inversion Hfk as [|? ? _ Hfinner]; subst.
    destruct (negb (is_rule name_rule "macro_name")); [discriminate|].
    destruct (directive_check P (p_ignore P) code (node_start name_rule) (p_comment_re P)) as [[|]|]; try discriminate.
    destruct (str_slice code (node_start name_rule) (node_end name_rule)) as [name|]; [|discriminate].
    destruct (negb (macro_of_interest name cfg)); [discriminate|].
    destruct inner as [|args rest]; [discriminate|]. inversion Hfinner as [|? ? Hfa _]; subst.
    destruct (is_rule args "macro_args") eqn:Eargs; cbn [negb]; [|discriminate].
    set (sc := scan_args (node_kids args) (mkScan None [] false None)).
    destruct (if cfg_structured cfg then _ else _) as [nk|]; [|discriminate].
    destruct (cfg_structured cfg && negb nk).
    - destruct (find_ref_kv P code (sc_kvs sc)) as [[vs|]| |]; try discriminate.
      + destruct (line_col code (node_start vs)) as [[l c]|] eqn:Elc; [|discriminate].
        destruct (str_slice code (node_start vs) (node_end vs)); [|discriminate].
        intros H. inversion H; subst. cbn [e_pos e_line e_col]. exact Elc.
      + destruct (sc_after_target sc) as [p|].
        * destruct (line_col code p) as [[l c]|] eqn:Elc; [|discriminate]. intros H. inversion H; subst.
          cbn [e_pos e_line e_col]. exact Elc.
        * destruct (line_col code (node_start args)) as [[l c]|] eqn:Elc; [|discriminate]. intros H. inversion H; subst.
          cbn [e_pos e_line e_col]. apply line_col_after_bracket; assumption.
    - destruct (sc_msg sc) as [sv|]; [|discriminate].
      destruct (line_col code (node_start sv)) as [[l c]|] eqn:Elc; [|discriminate].
      destruct (str_slice code (node_start sv) (node_end sv)); [|discriminate].
      intros H. inversion H; subst. cbn [e_pos e_line e_col]. exact Elc.
  Qed.

  Lemma collect_line_col cfg : forall founds acc es,
    Forall (tree_first code first) founds ->
    Forall (fun e => line_col code (e_pos e) = Some (e_line e, e_col e)) acc ->
    collect P cfg code founds acc = Done es ->
    Forall (fun e => line_col code (e_pos e) = Some (e_line e, e_col e)) es.
  Proof.
    induction founds as [|f founds IH]; intros acc es Hfi Hacc H; cbn [collect] in H.
    - inversion H; subst. apply Forall_rev. exact Hacc.
    - inversion Hfi as [|? ? Hff Hfi2]; subst.
      destruct (is_rule f "log_macro").
      + destruct (one_macro P cfg code f) as [|e|] eqn:Eom; try discriminate.
        * eapply IH; eauto.
        * eapply IH; [exact Hfi2| |exact H]. constructor; [|exact Hacc].
          eapply one_macro_line_col; eauto.
      + destruct (is_rule f "EOI" || is_rule f "other_name"); [|discriminate]. eapply IH; eauto.
  Qed.
End GlueLineCol.

(* ---- what an entry can ask to have inserted: the default token, or the key-value prefix with one of the two
   suffixes ---- *)
Section GlueFormats.
  Variable P : params.

  Definition fmt_ok (e : entry) : Prop :=
    (e_prefix e = None /\ e_suffix e = None) \/
    (e_prefix e = Some (fst (p_fmt_prefix P) ++ p_ref_key P ++ snd (p_fmt_prefix P))%list /\
     (e_suffix e = Some (nth 0 (p_suffixes P) []) \/ e_suffix e = Some (nth 1 (p_suffixes P) []))).

  Lemma one_macro_formats cfg code found e : one_macro P cfg code found = Emit e -> fmt_ok e.
  Proof.
    unfold one_macro.
    destruct (node_kids found) as [|name_rule inner]; [discriminate|].
    destruct (negb (is_rule name_rule "macro_name")); [discriminate|].
    destruct (directive_check P (p_ignore P) code (node_start name_rule) (p_comment_re P)) as [[|]|]; try discriminate.
    destruct (str_slice code (node_start name_rule) (node_end name_rule)) as [name|]; [|discriminate].
    destruct (negb (macro_of_interest name cfg)); [discriminate|].
    destruct inner as [|args rest]; [discriminate|].
    destruct (negb (is_rule args "macro_args")); [discriminate|].
    set (sc := scan_args (node_kids args) (mkScan None [] false None)).
    destruct (if cfg_structured cfg then _ else _) as [nk|]; [|discriminate].
    destruct (cfg_structured cfg && negb nk).
    - destruct (find_ref_kv P code (sc_kvs sc)) as [[vs|]| |]; try discriminate.
      + destruct (line_col code (node_start vs)) as [[l c]|]; [|discriminate].
        destruct (str_slice code (node_start vs) (node_end vs)); [|discriminate].
        intros H. inversion H; subst. left. split; reflexivity.
      + destruct (match sc_after_target sc with Some p => _ | None => _ end) as [[[ipos l] c]|]; [|discriminate].
        intros H. inversion H; subst. right. cbn [e_prefix e_suffix]. split; [reflexivity|].
        destruct (sc_kvs sc); [right|left]; reflexivity.
    - destruct (sc_msg sc) as [sv|]; [|discriminate].
      destruct (line_col code (node_start sv)) as [[l c]|]; [|discriminate].
      destruct (str_slice code (node_start sv) (node_end sv)); [|discriminate].
      intros H. inversion H; subst. left. split; reflexivity.
  Qed.

  Lemma collect_formats cfg code : forall founds acc es,
    Forall fmt_ok acc -> collect P cfg code founds acc = Done es -> Forall fmt_ok es.
  Proof.
    induction founds as [|f founds IH]; intros acc es Hacc H; cbn [collect] in H.
    - inversion H; subst. apply Forall_rev. exact Hacc.
    - destruct (is_rule f "log_macro").
      + destruct (one_macro P cfg code f) as [|e|] eqn:Eom; try discriminate.
        * eapply IH; eauto.
        * eapply IH; [|exact H]. constructor; [eapply one_macro_formats; eauto|exact Hacc].
      + destruct (is_rule f "EOI" || is_rule f "other_name"); [|discriminate]. eapply IH; eauto.
  Qed.

  Lemma entries_formats cfg code es : entries P cfg code = Done es -> Forall fmt_ok es.
  Proof.
    unfold entries. destruct (parse _ _ _ _ code) as [| |i' [|top toks]]; try discriminate;
      try (intros H; inversion H; constructor).
    apply collect_formats. constructor.
  Qed.
End GlueFormats.

(* ---- the finder as a whole ---- *)
Section Finder.
  Variable P : params.

  (* conditions on the (generated) grammar, all decidable by computation *)
  Definition grammar_ok (name : string) (ty : rule_ty) (impl : bool) (body : expr) : Prop :=
    p_file P = ERule name ty impl body /\
    emits ty (match ty with RCompound => Compound | RNonAtomic => NonAtomic | _ => NonAtomic end) false = true /\
    wf_grammar (p_ws P) (p_comment P) (p_file P) = true /\
    strict_ok (fun r => String.eqb r "macro_args") (p_file P) = true /\
    forallb (fun n => String.eqb n "log_macro" || String.eqb n "EOI" || String.eqb n "other_name")
            (top_names body (inner_atomicity ty impl NonAtomic) false) = true.

  Theorem entries_total name ty impl body :
    grammar_ok name ty impl body ->
    forall cfg code, exists es, entries P cfg code = Done es /\ Forall (fun e => e_pos e <= blen code) es.
  Proof.
    intros (Hfile & Hemit & Hwf & Hstrict & Hnames) cfg code. unfold entries.
    set (strict := fun r => String.eqb r "macro_args").
    pose proof (parse_terminates (p_U P) (p_ws P) (p_comment P) (p_file P) Hwf code) as Hnd.
    destruct (parse (p_U P) (p_ws P) (p_comment P) (p_file P) code) as [| |i' toks] eqn:Ep;
      [exists []; split; [reflexivity|constructor]|congruence|].
    unfold parse in Ep.
    pose proof (run_tokens code strict (p_U P) (skipf (p_U P) (p_ws P) (p_comment P))
                  (skipf_adv (p_U P) (p_ws P) (p_comment P)) _ _ _ _ _ _ Hstrict (suffix_init code) Ep) as Htok.
    rewrite Hfile in Ep.
    destruct (rule_node_shape (p_U P) (skipf (p_U P) (p_ws P) (p_comment P)) name ty impl body NonAtomic false
                _ _ _ ltac:(destruct ty; exact Hemit) Ep) as (kids & -> & Hkn).
    cbn [node_kids].
    cbn [forest_in] in Htok. destruct Htok as (_ & Hle & Htree & _).
    assert (Hok : ok code strict (Node name (pos {| rest := code; pos := 0 |}) (pos i') kids)) by (split; assumption).
    pose proof (ok_kids code strict _ Hok) as Hkids. cbn [node_kids] in Hkids.
    assert (Hdone : exists es, collect P cfg code kids [] = Done es).
    2:{ destruct Hdone as [es Hes]. exists es. split; [exact Hes|].
        eapply (collect_pos P code strict cfg kids [] es eq_refl Hkids); [constructor|exact Hes]. }
    apply (collect_no_panic P code strict cfg kids [] Hkids).
    rewrite forallb_forall in Hnames. unfold named_in in Hkn. rewrite Forall_forall in Hkn |- *.
    intros f Hf. specialize (Hnames _ (Hkn f Hf)). unfold is_rule.
    destruct (String.eqb (node_rule f) "log_macro"), (String.eqb (node_rule f) "EOI"),
             (String.eqb (node_rule f) "other_name"); cbn in *; congruence.
  Qed.
  (* the only rule whose first character the glue relies on *)
  Definition the_first (r : string) : option N := if String.eqb r "macro_args" then Some 40 else None.

  Theorem entries_bnd name ty impl body :
    grammar_ok name ty impl body -> first_ok the_first (p_file P) = true ->
    forall cfg code es, entries P cfg code = Done es -> Forall (fun e => bnd code (e_pos e)) es.
  Proof.
    intros (Hfile & Hemit & Hwf & Hstrict & Hnames) Hfirst cfg code es. unfold entries.
    set (strict := fun r => String.eqb r "macro_args").
    destruct (parse (p_U P) (p_ws P) (p_comment P) (p_file P) code) as [| |i' toks] eqn:Ep;
      [intros H; inversion H; constructor|discriminate|].
    unfold parse in Ep.
    pose proof (run_tokens code strict (p_U P) (skipf (p_U P) (p_ws P) (p_comment P))
                  (skipf_adv (p_U P) (p_ws P) (p_comment P)) _ _ _ _ _ _ Hstrict (suffix_init code) Ep) as Htok.
    assert (Heoi : forall c, the_first "EOI" = Some c -> False) by (intros c Hc; discriminate).
    pose proof (run_first code the_first Heoi (p_U P) (skipf (p_U P) (p_ws P) (p_comment P))
                  (skipf_adv (p_U P) (p_ws P) (p_comment P)) _ _ _ _ _ _ Hfirst (suffix_init code) Ep) as Hfi.
    rewrite Hfile in Ep.
    destruct (rule_node_shape (p_U P) (skipf (p_U P) (p_ws P) (p_comment P)) name ty impl body NonAtomic false
                _ _ _ ltac:(destruct ty; exact Hemit) Ep) as (kids & -> & Hkn).
    cbn [node_kids].
    cbn [forest_in] in Htok. destruct Htok as (_ & Hle & Htree & _).
    assert (Hok : ok code strict (Node name (pos {| rest := code; pos := 0 |}) (pos i') kids)) by (split; assumption).
    pose proof (ok_kids code strict _ Hok) as Hkids. cbn [node_kids] in Hkids.
    cbn [all_first] in Hfi. destruct Hfi as [Hft _].
    pose proof (first_kids code the_first _ Hft) as Hfk. cbn [node_kids] in Hfk.
    intros H. eapply (collect_bnd P code strict the_first eq_refl cfg kids [] es Hkids Hfk); [constructor|exact H].
  Qed.

  Theorem entries_line_col name ty impl body :
    grammar_ok name ty impl body -> first_ok the_first (p_file P) = true ->
    forall cfg code es, entries P cfg code = Done es ->
    Forall (fun e => line_col code (e_pos e) = Some (e_line e, e_col e)) es.
  Proof.
    intros (Hfile & Hemit & Hwf & Hstrict & Hnames) Hfirst cfg code es. unfold entries.
    destruct (parse (p_U P) (p_ws P) (p_comment P) (p_file P) code) as [| |i' toks] eqn:Ep;
      [intros H; inversion H; constructor|discriminate|].
    unfold parse in Ep.
    assert (Heoi : forall c, the_first "EOI" = Some c -> False) by (intros c Hc; discriminate).
    pose proof (run_first code the_first Heoi (p_U P) (skipf (p_U P) (p_ws P) (p_comment P))
                  (skipf_adv (p_U P) (p_ws P) (p_comment P)) _ _ _ _ _ _ Hfirst (suffix_init code) Ep) as Hfi.
    rewrite Hfile in Ep.
    destruct (rule_node_shape (p_U P) (skipf (p_U P) (p_ws P) (p_comment P)) name ty impl body NonAtomic false
                _ _ _ ltac:(destruct ty; exact Hemit) Ep) as (kids & -> & Hkn).
    cbn [node_kids]. cbn [all_first] in Hfi. destruct Hfi as [Hft _].
    pose proof (first_kids code the_first _ Hft) as Hfk. cbn [node_kids] in Hfk.
    intros H. eapply (collect_line_col P code the_first eq_refl cfg kids [] es Hfk); [constructor|exact H].
  Qed.
End Finder.
