(* RoundTrip.v -- what Breadlog writes is what it reads back (token level, C06 / C13). *)
From Coq Require Import List NArith Bool Lia.
From Breadlog Require Import Model.Peg Model.Text Model.Regex Model.Glue Model.Tables.
From Breadlog Require Import Gen.Unicode.
From Breadlog Require Import Proofs.DecimalFacts.
Import ListNotations.
Open Scope N_scope.

Section Trim.
  Variable is_ws : N -> bool.

  Lemma trim_start_nonws c t : is_ws c = false -> trim_start is_ws (c :: t) = c :: t.
  Proof. intros H. cbn. rewrite H. reflexivity. Qed.

  Lemma trim_start_ws_prefix : forall w t, forallb is_ws w = true -> trim_start is_ws (w ++ t) = trim_start is_ws t.
  Proof.
    induction w as [|c w IH]; intros t H; [reflexivity|].
    cbn in H. apply andb_true_iff in H. destruct H as [Hc Hw]. cbn. rewrite Hc. apply IH. exact Hw.
  Qed.

  (* a text that starts and ends with non-blank characters, followed by blanks *)
  Lemma trim_core_ws (core w : list N) first last mid :
    core = first :: mid ++ [last] \/ (core = [first] /\ last = first) ->
    is_ws first = false -> is_ws last = false -> forallb is_ws w = true ->
    trim is_ws (core ++ w) = core.
  Proof.
    intros Hcore Hf Hl Hw. unfold trim.
    assert (Hs : trim_start is_ws (core ++ w) = core ++ w).
    { destruct Hcore as [->|[-> _]]; cbn; rewrite Hf; reflexivity. }
    rewrite Hs, rev_app_distr.
    rewrite trim_start_ws_prefix by (rewrite forallb_forall in *; intros x Hx; apply Hw; apply in_rev; exact Hx).
    destruct Hcore as [->|[-> ->]].
    - replace (rev (first :: mid ++ [last])) with (last :: rev mid ++ [first])
        by (cbn [rev]; rewrite rev_app_distr; cbn [rev app]; reflexivity).
      rewrite trim_start_nonws by exact Hl.
      cbn [rev]. rewrite rev_app_distr. cbn [rev app]. rewrite rev_involutive. reflexivity.
    - cbn. rewrite Hf. reflexivity.
  Qed.
End Trim.

Lemma digit_not_ws c : is_ascii_digit c = true -> is_ws_tab c = false.
Proof.
  unfold is_ascii_digit. intros H. apply andb_true_iff in H. destruct H as [H1 H2].
  apply N.leb_le in H1, H2.
  assert (Hfin : forallb (fun d => negb (is_ws_tab (48 + d))) [0;1;2;3;4;5;6;7;8;9] = true) by (vm_compute; reflexivity).
  rewrite forallb_forall in Hfin. specialize (Hfin (c - 48)).
  replace (48 + (c - 48)) with c in Hfin by lia. apply negb_true_iff. apply Hfin.
  assert (c - 48 < 10) by lia. remember (c - 48) as d.
  destruct d as [|p]; [left; reflexivity|].
  do 9 (destruct p as [p|p|]; try (cbn; tauto); try lia).
Qed.

Lemma nonempty_first_last (t : list N) : t <> [] ->
  exists first last mid, (t = first :: mid ++ [last] \/ (t = [first] /\ last = first)) /\ In first t /\ In last t.
Proof.
  destruct t as [|a t]; [congruence|]. intros _.
  destruct t as [|b t'].
  - exists a, a, []. split; [right; split; reflexivity|split; left; reflexivity].
  - destruct (exists_last (l := b :: t') ltac:(discriminate)) as (mid & last & Heq).
    exists a, last, mid. rewrite Heq. split; [left; reflexivity|]. split; [left; reflexivity|].
    right. apply in_or_app. right. left. reflexivity.
Qed.

(* structured style: the value `N` that Breadlog writes after `ref = `, followed by any blanks up
   to the delimiter, is read back as N *)
Theorem structured_value_roundtrip (n : N) (w : list N) :
  n <= u32_max -> forallb is_ws_tab w = true ->
  parse_u32 (trim is_ws_tab (dec n ++ w)) = Some n.
Proof.
  intros Hn Hw.
  pose proof (dec_u32_length n Hn) as [Hlen _].
  assert (Hne : dec n <> []) by (destruct (dec n); [cbn in Hlen; lia|discriminate]).
  destruct (nonempty_first_last (dec n) Hne) as (first & last & mid & Hshape & Hf & Hl).
  destruct (dec_spec n) as (_ & Hdig & _).
  rewrite forallb_forall in Hdig.
  rewrite (trim_core_ws is_ws_tab (dec n) w first last mid Hshape
             (digit_not_ws _ (Hdig _ Hf)) (digit_not_ws _ (Hdig _ Hl)) Hw).
  apply parse_u32_dec. exact Hn.
Qed.

(* ... and so is the value followed by blanks AND comments: the value's span runs up to the delimiter,
   the text from the first comment opener on is dropped before it is trimmed and parsed *)
Lemma cut_comment_no_slash t : forallb (fun c => negb (c =? 47)) t = true -> cut_comment t = t.
Proof.
  induction t as [|c t IH]; cbn [forallb cut_comment]; [reflexivity|]. intros H. apply andb_true_iff in H.
  destruct H as [Hc Ht]. destruct (c =? 47); [discriminate|]. cbn [andb]. rewrite IH by exact Ht. reflexivity.
Qed.

Lemma cut_comment_app a g :
  forallb (fun c => negb (c =? 47)) a = true ->
  (g = [] \/ exists x, g = 47 :: 42 :: x \/ g = 47 :: 47 :: x) ->
  cut_comment (a ++ g) = a.
Proof.
  intros Ha Hg. induction a as [|c a IH]; cbn [app forallb cut_comment] in *.
  - destruct Hg as [->|(x & [->| ->])]; reflexivity.
  - apply andb_true_iff in Ha. destruct Ha as [Hc Ha]. destruct (c =? 47); [discriminate|]. cbn [andb].
    rewrite IH by exact Ha. reflexivity.
Qed.

Lemma ws_no_slash w : forallb is_ws_tab w = true -> forallb (fun c => negb (c =? 47)) w = true.
Proof.
  induction w as [|c w IH]; cbn [forallb]; [reflexivity|]. intros H. apply andb_true_iff in H. destruct H as [Hc Hw].
  rewrite IH by exact Hw. destruct (N.eqb_spec c 47) as [->|]; [vm_compute in Hc; discriminate|reflexivity].
Qed.

Lemma dec_no_slash n : forallb (fun c => negb (c =? 47)) (dec n) = true.
Proof.
  destruct (dec_spec n) as (_ & Hdig & _). rewrite forallb_forall in *. intros c Hc. specialize (Hdig c Hc).
  destruct (N.eqb_spec c 47) as [->|]; [vm_compute in Hdig; discriminate|reflexivity].
Qed.

Theorem ref_value_with_layout (n : N) (w g : list N) :
  n <= u32_max -> forallb is_ws_tab w = true ->
  (g = [] \/ exists x, g = 47 :: 42 :: x \/ g = 47 :: 47 :: x) ->
  ref_value the_params (dec n ++ w ++ g) = Some n.
Proof.
  intros Hn Hw Hg. unfold ref_value. rewrite app_assoc. rewrite cut_comment_app; [|rewrite forallb_app, dec_no_slash, (ws_no_slash w Hw); reflexivity|exact Hg].
  exact (structured_value_roundtrip n w Hn Hw).
Qed.
