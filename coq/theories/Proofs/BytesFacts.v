(* BytesFacts.v -- facts about bdrop / btake / bslice / blength (Model/Utf8.v). *)
From Coq Require Import List NArith Bool Lia.
From Breadlog Require Import Model.Peg Model.Utf8.
Import ListNotations.
Open Scope N_scope.

Lemma blength_app (a b : list N) : blength (a ++ b) = blength a + blength b.
Proof. induction a as [|x a IH]; cbn [app blength]; [lia | rewrite IH; lia]. Qed.

Lemma bdrop_0 (b : list N) : bdrop 0 b = Some b.
Proof. destruct b; reflexivity. Qed.

Lemma btake_0 (b : list N) : btake 0 b = Some [].
Proof. destruct b; reflexivity. Qed.

Lemma bdrop_cons (n : N) (x : N) (r : list N) :
  0 < n -> bdrop n (x :: r) = bdrop (n - 1) r.
Proof. intros H. cbn [bdrop]. destruct (N.eqb_spec n 0); [lia | reflexivity]. Qed.

Lemma btake_cons (n : N) (x : N) (r : list N) :
  0 < n -> btake n (x :: r) = match btake (n - 1) r with Some p => Some (x :: p) | None => None end.
Proof. intros H. cbn [btake]. destruct (N.eqb_spec n 0); [lia | reflexivity]. Qed.

Lemma bdrop_nil (n : N) : bdrop n [] = if n =? 0 then Some [] else None.
Proof. reflexivity. Qed.

(* splitting: take and drop recompose the list *)
Lemma btake_bdrop_app (b : list N) : forall n p r,
  btake n b = Some p -> bdrop n b = Some r -> b = p ++ r /\ blength p = n.
Proof.
  induction b as [|x b IH]; intros n p r Ht Hd.
  - cbn in Ht, Hd. destruct (N.eqb_spec n 0); [|discriminate].
    inversion Ht; inversion Hd; subst. split; reflexivity.
  - destruct (N.eqb_spec n 0) as [->|Hn].
    + rewrite btake_0 in Ht. rewrite bdrop_0 in Hd. inversion Ht; inversion Hd; subst.
      split; reflexivity.
    + rewrite btake_cons in Ht by lia. rewrite bdrop_cons in Hd by lia.
      destruct (btake (n - 1) b) as [p'|] eqn:Ep; [|discriminate]. inversion Ht; subst.
      destruct (IH _ _ _ Ep Hd) as [-> Hl]. split; [reflexivity|]. cbn [blength]. lia.
Qed.

Lemma bdrop_some_le (b : list N) : forall n r, bdrop n b = Some r -> n <= blength b /\ blength r = blength b - n.
Proof.
  induction b as [|x b IH]; intros n r H.
  - cbn in H. destruct (N.eqb_spec n 0); [|discriminate]. inversion H; subst. cbn. lia.
  - destruct (N.eqb_spec n 0) as [->|Hn].
    + rewrite bdrop_0 in H. inversion H; subst. cbn [blength]. lia.
    + rewrite bdrop_cons in H by lia. destruct (IH _ _ H). cbn [blength]. lia.
Qed.

Lemma bdrop_le_some (b : list N) : forall n, n <= blength b -> exists r, bdrop n b = Some r.
Proof.
  induction b as [|x b IH]; intros n H.
  - cbn in H. assert (n = 0) by lia. subst. exists []. reflexivity.
  - destruct (N.eqb_spec n 0) as [->|Hn].
    + exists (x :: b). apply bdrop_0.
    + cbn [blength] in H. destruct (IH (n - 1)) as [r Hr]; [lia|]. exists r.
      rewrite bdrop_cons by lia. exact Hr.
Qed.

Lemma btake_le_some (b : list N) : forall n, n <= blength b -> exists p, btake n b = Some p.
Proof.
  induction b as [|x b IH]; intros n H.
  - cbn in H. assert (n = 0) by lia. subst. exists []. reflexivity.
  - destruct (N.eqb_spec n 0) as [->|Hn].
    + exists []. apply btake_0.
    + cbn [blength] in H. destruct (IH (n - 1)) as [p Hp]; [lia|]. exists (x :: p).
      rewrite btake_cons by lia. rewrite Hp. reflexivity.
Qed.

Lemma btake_all (b : list N) : btake (blength b) b = Some b.
Proof.
  induction b as [|x b IH]; [reflexivity|].
  cbn [blength]. rewrite btake_cons by lia. replace (1 + blength b - 1) with (blength b) by lia.
  rewrite IH. reflexivity.
Qed.

Lemma bdrop_add (b : list N) : forall n k r, bdrop n b = Some r -> bdrop (n + k) b = bdrop k r.
Proof.
  induction b as [|x b IH]; intros n k r H.
  - cbn in H. destruct (N.eqb_spec n 0); [|discriminate]. inversion H; subst. reflexivity.
  - destruct (N.eqb_spec n 0) as [->|Hn].
    + rewrite bdrop_0 in H. inversion H; subst. reflexivity.
    + rewrite bdrop_cons in H by lia. rewrite bdrop_cons by lia.
      replace (n + k - 1) with ((n - 1) + k) by lia. apply IH. exact H.
Qed.

Lemma bslice_via_rest (b : list N) (a c : N) (r : list N) :
  bdrop a b = Some r -> a <= c -> bslice b a c = btake (c - a) r.
Proof.
  intros H Hle. unfold bslice. destruct (N.ltb_spec c a); [lia|]. rewrite H. reflexivity.
Qed.

Lemma btake_some_le (b : list N) : forall n p, btake n b = Some p -> n <= blength b.
Proof.
  induction b as [|x b IH]; intros n p H.
  - cbn in H. destruct (N.eqb_spec n 0); [subst; cbn; lia | discriminate].
  - destruct (N.eqb_spec n 0) as [->|Hn0]; [cbn; lia|].
    rewrite btake_cons in H by lia.
    destruct (btake (n - 1) b) eqn:E; [|discriminate].
    specialize (IH _ _ E). cbn [blength]. lia.
Qed.
