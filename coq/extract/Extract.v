(* Extraction of the executable model for the correspondence check.  Only the standard
   ExtrOcamlBasic / ExtrOcamlString directives are used (bool, option, unit, list, prod,
   sumbool, sumor -> OCaml's own; ascii -> char; string -> char list); N and positive stay
   the extracted inductive types.  No Extract Constant, no directive of our own. *)
From Coq Require Import Extraction ExtrOcamlBasic ExtrOcamlString.
From Breadlog Require Import Model.Peg Model.Text Model.Regex Model.Glue Model.Tables Model.Utf8 Model.Driver Model.Finder Model.Lock.
From Breadlog Require Import Gen.Consts Gen.Regexes.
Extraction Language OCaml.
Extraction "model.ml"
  Tables.parse_file Tables.find Tables.the_params
  Glue.extract_reference Glue.directive_check Glue.usable Glue.insertable
  Text.line_col Text.dec Text.parse_u32 Regex.captures Regex.get_cap Regexes.re_documented
  Driver.run_edit Driver.run_check Driver.apply_effs Driver.crash_world Consts.c_START_REFERENCE_ID
  Utf8.utf8_decode Utf8.utf8_encode Finder.find_files Finder.effective_source_dir Finder.lock_path Finder.resolve
  Lock.lock_read Lock.lock_text.
