//! Line-protocol client of the guarded verification hooks of /repo.
//!
//! stdin: one command per line, fields separated by TAB, texts hex-encoded UTF-8.
//!   tree <hex>
//!   entries <0|1 structured> <macros: mod=name,mod=name> <hex>
//!   extract <hex>
//!   directive <pos> <hexpattern> <hex>
//!   linecol <pos> <hex>
//!   context <check 0|1> <hexdir> <hexyaml>
//!   unicode
//!   docregex <hexpattern> <hex>   (the regex crate itself on the documented pattern; code-point indices)
//! stdout: one answer line per command (same leading word), `PANIC` when the
//! implementation panicked.

use breadlog::verif_hooks as hooks;
use std::io::{BufRead, Write};

fn unhex(s: &str) -> Option<String>
{
    let b = s.as_bytes();
    if b.len() % 2 != 0
    {
        return None;
    }
    let mut out = Vec::with_capacity(b.len() / 2);
    for i in (0..b.len()).step_by(2)
    {
        let h = (b[i] as char).to_digit(16)?;
        let l = (b[i + 1] as char).to_digit(16)?;
        out.push((h * 16 + l) as u8);
    }
    String::from_utf8(out).ok()
}

fn hex(s: &str) -> String
{
    s.bytes().map(|b| format!("{:02x}", b)).collect()
}

fn config_yaml(structured: bool, macros: &str) -> String
{
    let mut y = String::from("source_dir: /nonexistent\nrust:\n");
    y.push_str(&format!("  structured: {}\n", structured));
    y.push_str("  log_macros:\n");
    for m in macros.split(',').filter(|m| !m.is_empty())
    {
        let mut it = m.splitn(2, '=');
        let module = it.next().unwrap_or("");
        let name = it.next().unwrap_or("");
        y.push_str(&format!("    - module: \"{}\"\n      name: \"{}\"\n", module, name));
    }
    if macros.is_empty()
    {
        y = y.replace("  log_macros:\n", "  log_macros: []\n");
    }
    y
}

fn handle(line: &str) -> String
{
    let f: Vec<&str> = line.split('\t').collect();
    match f[0]
    {
        "tree" =>
        {
            let code = unhex(f[1]).expect("hex");
            match hooks::pair_tree(&code)
            {
                None => "tree FAIL".to_string(),
                Some(t) => format!("tree {}", t),
            }
        },
        "entries" =>
        {
            let structured = f[1] == "1";
            let cfg = hooks::config_from_yaml(&config_yaml(structured, f[2]), "/nonexistent")
                .expect("config");
            let code = unhex(f[3]).expect("hex");
            let es = hooks::entries(&code, &cfg, 7);
            let mut out = format!("entries {}", es.len());
            for e in es
            {
                out.push_str(&format!(
                    " ; {} {} {} {} {} {} {} {}",
                    e.character,
                    e.line,
                    e.column,
                    e.reference.map_or("none".to_string(), |r| r.to_string()),
                    e.kind,
                    if e.usable { 1 } else { 0 },
                    hex(&e.insertable_probe),
                    hex(&e.macro_name),
                ));
            }
            out
        },
        "docregex" =>
        {
            let pat = unhex(f[1]).expect("hex");
            let s = unhex(f[2]).expect("hex");
            let re = regex::Regex::new(&pat).expect("pattern");
            let cp = |off: usize| s[..off].chars().count();
            match re.captures(&s)
            {
                None => "docregex none".to_string(),
                Some(c) =>
                {
                    let g0 = c.get(0).unwrap();
                    match c.get(1)
                    {
                        Some(g1) => format!("docregex {} {} {} {}", cp(g0.start()), cp(g0.end()), cp(g1.start()), cp(g1.end())),
                        None => format!("docregex {} {} - -", cp(g0.start()), cp(g0.end())),
                    }
                },
            }
        },
        "extract" =>
        {
            let s = unhex(f[1]).expect("hex");
            match hooks::extract_reference(&s)
            {
                None => "extract none".to_string(),
                Some(n) => format!("extract {}", n),
            }
        },
        "directive" =>
        {
            let pos: usize = f[1].parse().expect("pos");
            let pat = unhex(f[2]).expect("hex");
            let code = unhex(f[3]).expect("hex");
            let (a, b) = hooks::directives(&code, pos, &pat);
            format!("directive {} {}", a as u8, b as u8)
        },
        "linecol" =>
        {
            let pos: usize = f[1].parse().expect("pos");
            let code = unhex(f[2]).expect("hex");
            match hooks::line_col(&code, pos)
            {
                None => "linecol none".to_string(),
                Some((l, c)) => format!("linecol {} {}", l, c),
            }
        },
        "context" =>
        {
            let check = f[1] == "1";
            let dir = unhex(f[2]).expect("hex");
            let yaml = unhex(f[3]).expect("hex");
            match hooks::context_fields(&yaml, &dir, check)
            {
                Err(_) => "context ERR".to_string(),
                Ok((src, cache, structured, exts, cached)) => format!(
                    "context {} {} {} {} {}",
                    hex(&src),
                    cache as u8,
                    structured as u8,
                    exts.iter().map(|e| hex(e)).collect::<Vec<_>>().join(","),
                    cached.map_or("none".to_string(), |c| c.to_string())
                ),
            }
        },
        "unicode" =>
        {
            let mut out = String::from("unicode");
            for name in ["XID_START", "XID_CONTINUE", "WHITE_SPACE"]
            {
                out.push_str(&format!(" {}=", name));
                let rs: Vec<String> = hooks::unicode_class_ranges(name)
                    .iter()
                    .map(|(a, b)| format!("{}-{}", a, b))
                    .collect();
                out.push_str(&rs.join(","));
            }
            out.push_str(" LOWER=");
            let ls: Vec<String> = hooks::lowercase_table()
                .iter()
                .map(|(c, l)| {
                    format!(
                        "{}:{}",
                        c,
                        l.iter().map(|x| x.to_string()).collect::<Vec<_>>().join("+")
                    )
                })
                .collect();
            out.push_str(&ls.join(","));
            out
        },
        _ => "ERR unknown command".to_string(),
    }
}

fn main()
{
    std::panic::set_hook(Box::new(|_| {}));
    let stdin = std::io::stdin();
    let stdout = std::io::stdout();
    let mut out = std::io::BufWriter::new(stdout.lock());
    for line in stdin.lock().lines()
    {
        let line = match line
        {
            Ok(l) => l,
            Err(_) => break,
        };
        if line.is_empty()
        {
            continue;
        }
        let word = line.split('\t').next().unwrap_or("").to_string();
        let res = std::panic::catch_unwind(|| handle(&line));
        match res
        {
            Ok(s) => writeln!(out, "{}", s).unwrap(),
            Err(_) => writeln!(out, "{} PANIC", word).unwrap(),
        }
    }
    out.flush().unwrap();
}
