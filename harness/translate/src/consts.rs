//! Constants, serde defaults, format pieces and signal registration -> Gallina
//! (`Gen/Consts.v`).  Everything is located with syn in non-test code.

use crate::refuse;
use crate::regexes::{is_test_mod, lazy_statics, parse_file, rust_files};
use syn::visit::Visit;

fn cps(s: &str) -> String
{
    let items: Vec<String> = s.chars().map(|c| format!("{}", c as u32)).collect();
    format!("[{}]", items.join("; "))
}

fn lit_to_gallina(l: &syn::Lit) -> Option<(String, &'static str)>
{
    match l
    {
        syn::Lit::Str(s) => Some((cps(&s.value()), "list N")),
        syn::Lit::Int(i) => Some((i.base10_digits().to_string(), "N")),
        syn::Lit::Bool(b) => Some((format!("{}", b.value), "bool")),
        _ => None,
    }
}

#[derive(Default)]
struct V
{
    file: String,
    fn_stack: Vec<String>,
    struct_name: Option<String>,
    consts: Vec<(String, String, &'static str)>,
    default_fns: Vec<(String, String, &'static str)>,
    serde_fields: Vec<(String, String, String)>,
    formats: Vec<(String, String)>,       // (enclosing fn, literal)
    assigns: Vec<(String, String, String)>, // (enclosing fn, variable, literal)
    registers: Vec<String>,
    lock_fields: Vec<(String, String)>,   // fields of struct Cache: (name, type)
    lock_struct_attrs: Vec<String>,       // serde attributes on struct Cache or its fields
}

fn signal_expr(e: &syn::Expr) -> String
{
    match e
    {
        syn::Expr::Binary(b) =>
        {
            let op = match b.op
            {
                syn::BinOp::BitOr(_) => "N.lor",
                syn::BinOp::BitAnd(_) => "N.land",
                syn::BinOp::Add(_) => "N.add",
                _ => refuse("operator in signal registration not modelled"),
            };
            format!("({} {} {})", op, signal_expr(&b.left), signal_expr(&b.right))
        },
        syn::Expr::Paren(p) => signal_expr(&p.expr),
        syn::Expr::Path(p) =>
        {
            let name = p.path.segments.last().unwrap().ident.to_string();
            // Linux x86-64 values, as in signal_hook::consts (re-exported from libc)
            let v = match name.as_str()
            {
                "SIGHUP" => 1,
                "SIGINT" => 2,
                "SIGQUIT" => 3,
                "SIGABRT" => 6,
                "SIGUSR1" => 10,
                "SIGUSR2" => 12,
                "SIGPIPE" => 13,
                "SIGALRM" => 14,
                "SIGTERM" => 15,
                _ => refuse(&format!("signal name {} not known to the translator", name)),
            };
            format!("{}", v)
        },
        syn::Expr::Lit(syn::ExprLit {
            lit: syn::Lit::Int(i),
            ..
        }) => i.base10_digits().to_string(),
        _ => refuse("signal registration argument not understood"),
    }
}

fn string_like(e: &syn::Expr) -> Option<String>
{
    // "lit", "lit".to_string(), String::from("lit"), format!("lit", ..), Some(<those>)
    match e
    {
        syn::Expr::Lit(syn::ExprLit {
            lit: syn::Lit::Str(s),
            ..
        }) => Some(s.value()),
        syn::Expr::MethodCall(mc)
            if mc.method == "to_string" || mc.method == "to_owned" || mc.method == "into" =>
        {
            string_like(&mc.receiver)
        },
        syn::Expr::Call(c) =>
        {
            let f = match &*c.func
            {
                syn::Expr::Path(p) => p
                    .path
                    .segments
                    .iter()
                    .map(|s| s.ident.to_string())
                    .collect::<Vec<_>>()
                    .join("::"),
                _ => return None,
            };
            if (f == "Some" || f == "String::from") && c.args.len() == 1
            {
                string_like(&c.args[0])
            }
            else
            {
                None
            }
        },
        syn::Expr::Macro(m) if m.mac.path.is_ident("format") => format_literal(&m.mac),
        _ => None,
    }
}

fn format_literal(m: &syn::Macro) -> Option<String>
{
    use syn::parse::Parser;
    let parser = syn::punctuated::Punctuated::<syn::Expr, syn::Token![,]>::parse_terminated;
    let args = parser.parse2(m.tokens.clone()).ok()?;
    match args.first()?
    {
        syn::Expr::Lit(syn::ExprLit {
            lit: syn::Lit::Str(s),
            ..
        }) => Some(s.value()),
        _ => None,
    }
}

impl<'ast> Visit<'ast> for V
{
    fn visit_item_mod(&mut self, m: &'ast syn::ItemMod)
    {
        if is_test_mod(m)
        {
            return;
        }
        syn::visit::visit_item_mod(self, m);
    }

    fn visit_item_const(&mut self, c: &'ast syn::ItemConst)
    {
        if let syn::Expr::Lit(l) = &*c.expr
        {
            if let Some((g, ty)) = lit_to_gallina(&l.lit)
            {
                self.consts.push((c.ident.to_string(), g, ty));
            }
        }
    }

    fn visit_impl_item_const(&mut self, c: &'ast syn::ImplItemConst)
    {
        if let syn::Expr::Lit(l) = &c.expr
        {
            if let Some((g, ty)) = lit_to_gallina(&l.lit)
            {
                self.consts.push((c.ident.to_string(), g, ty));
            }
        }
    }

    fn visit_item_struct(&mut self, s: &'ast syn::ItemStruct)
    {
        if s.ident == "Cache"
        {
            for a in &s.attrs
            {
                if a.path().is_ident("serde")
                {
                    self.lock_struct_attrs.push("struct".to_string());
                }
            }
            for f in s.fields.iter()
            {
                let ty = match &f.ty
                {
                    syn::Type::Path(p) => p.path.segments.last().map(|x| x.ident.to_string()).unwrap_or_default(),
                    _ => String::new(),
                };
                self.lock_fields.push((f.ident.as_ref().map(|i| i.to_string()).unwrap_or_default(), ty));
                for a in &f.attrs
                {
                    if a.path().is_ident("serde")
                    {
                        self.lock_struct_attrs.push("field".to_string());
                    }
                }
            }
        }
        for f in s.fields.iter()
        {
            for a in &f.attrs
            {
                if a.path().is_ident("serde")
                {
                    let toks = a
                        .meta
                        .require_list()
                        .map(|l| l.tokens.to_string())
                        .unwrap_or_default();
                    let toks = toks.replace(' ', "");
                    if toks.starts_with("default")
                    {
                        let func = toks
                            .strip_prefix("default=\"")
                            .and_then(|r| r.strip_suffix('"'))
                            .unwrap_or("")
                            .to_string();
                        self.serde_fields.push((
                            s.ident.to_string(),
                            f.ident.as_ref().map(|i| i.to_string()).unwrap_or_default(),
                            func,
                        ));
                    }
                }
            }
        }
    }

    fn visit_item_fn(&mut self, f: &'ast syn::ItemFn)
    {
        let name = f.sig.ident.to_string();
        if name.starts_with("default_") && f.block.stmts.len() == 1
        {
            if let syn::Stmt::Expr(e, None) = &f.block.stmts[0]
            {
                match e
                {
                    syn::Expr::Lit(l) =>
                    {
                        if let Some((g, ty)) = lit_to_gallina(&l.lit)
                        {
                            self.default_fns.push((name.clone(), g, ty));
                        }
                    },
                    syn::Expr::Macro(m) if m.mac.path.is_ident("vec") =>
                    {
                        use syn::parse::Parser;
                        let parser =
                            syn::punctuated::Punctuated::<syn::Expr, syn::Token![,]>::parse_terminated;
                        let args = parser
                            .parse2(m.mac.tokens.clone())
                            .unwrap_or_else(|_| refuse("vec! in a serde default not understood"));
                        let items: Vec<String> = args
                            .iter()
                            .map(|a| {
                                cps(&string_like(a).unwrap_or_else(|| {
                                    refuse("vec! element in a serde default is not a string")
                                }))
                            })
                            .collect();
                        self.default_fns.push((
                            name.clone(),
                            format!("[{}]", items.join("; ")),
                            "list (list N)",
                        ));
                    },
                    _ => refuse(&format!("serde default function {} not understood", name)),
                }
            }
        }
        self.fn_stack.push(name);
        syn::visit::visit_item_fn(self, f);
        self.fn_stack.pop();
    }

    fn visit_impl_item_fn(&mut self, f: &'ast syn::ImplItemFn)
    {
        self.fn_stack.push(f.sig.ident.to_string());
        syn::visit::visit_impl_item_fn(self, f);
        self.fn_stack.pop();
    }

    fn visit_expr_macro(&mut self, m: &'ast syn::ExprMacro)
    {
        if m.mac.path.is_ident("format")
        {
            if let Some(l) = format_literal(&m.mac)
            {
                self.formats
                    .push((self.fn_stack.last().cloned().unwrap_or_default(), l));
            }
        }
        syn::visit::visit_expr_macro(self, m);
    }

    fn visit_expr_assign(&mut self, a: &'ast syn::ExprAssign)
    {
        if let syn::Expr::Path(p) = &*a.left
        {
            if let Some(id) = p.path.get_ident()
            {
                if let Some(s) = string_like(&a.right)
                {
                    self.assigns.push((
                        self.fn_stack.last().cloned().unwrap_or_default(),
                        id.to_string(),
                        s,
                    ));
                }
            }
        }
        syn::visit::visit_expr_assign(self, a);
    }

    fn visit_expr_call(&mut self, c: &'ast syn::ExprCall)
    {
        if let syn::Expr::Path(p) = &*c.func
        {
            let segs: Vec<String> = p.path.segments.iter().map(|s| s.ident.to_string()).collect();
            if segs.len() >= 2
                && segs[segs.len() - 1] == "register"
                && segs[segs.len() - 2] == "flag"
                && !c.args.is_empty()
            {
                self.registers.push(signal_expr(&c.args[0]));
            }
        }
        syn::visit::visit_expr_call(self, c);
    }
}

fn split_placeholder(lit: &str) -> (String, String)
{
    let parts: Vec<&str> = lit.split("{}").collect();
    if parts.len() != 2 || lit.contains("{{") || lit.contains("}}") || parts.iter().any(|p| p.contains('{') || p.contains('}'))
    {
        refuse(&format!("format literal {:?} is not <text>{{}}<text>", lit));
    }
    (parts[0].to_string(), parts[1].to_string())
}

pub fn translate(repo: &str) -> String
{
    let mut v = V::default();
    for f in rust_files(repo)
    {
        let ast = parse_file(&f);
        v.file = f.clone();
        v.visit_file(&ast);
    }
    let mut out = String::new();
    out.push_str("(* GENERATED by /verif/harness/translate from /repo/src (syn).  Do not edit. *)\n");
    out.push_str("From Coq Require Import List NArith String.\n");
    out.push_str("Import ListNotations.\nOpen Scope N_scope.\n\n");

    let need = [
        "START_REFERENCE_ID",
        "IGNORE_DIRECTIVE_TEXT",
        "NO_KVP_DIRECTIVE_TEXT",
        "CACHE_FILENAME",
        "INIT_ERR_CODE",
        "CODE_GEN_ERR_CODE",
    ];
    for n in need
    {
        if v.consts.iter().filter(|c| c.0 == n).count() != 1
        {
            refuse(&format!("constant {} not found exactly once", n));
        }
    }
    let mut seen = std::collections::BTreeSet::new();
    for (n, g, ty) in &v.consts
    {
        if !seen.insert(n.clone())
        {
            refuse(&format!("constant {} defined more than once", n));
        }
        out.push_str(&format!("Definition c_{} : {} := {}.\n", n, ty, g));
    }
    out.push('\n');

    // lazy_static strings (the `ref` key)
    let mut have_key = false;
    for ls in lazy_statics(repo)
    {
        if ls.ty.replace(' ', "") == "String"
        {
            let e = &ls.init;
            let s = string_like(e).unwrap_or_else(|| {
                refuse(&format!("String static {} is not a literal", ls.name))
            });
            out.push_str(&format!("Definition c_{} : list N := {}.\n", ls.name, cps(&s)));
            if ls.name == "REF_KVP_KEY"
            {
                have_key = true;
            }
        }
    }
    if !have_key
    {
        refuse("REF_KVP_KEY not found");
    }
    out.push('\n');

    for n in ["default_use_cache", "default_rust_structured", "default_rust_extensions"]
    {
        if v.default_fns.iter().filter(|c| c.0 == n).count() != 1
        {
            refuse(&format!("serde default function {} not found", n));
        }
    }
    for (n, g, ty) in &v.default_fns
    {
        out.push_str(&format!("Definition c_{} : {} := {}.\n", n, ty, g));
    }
    let fields: Vec<String> = v
        .serde_fields
        .iter()
        .map(|(s, f, d)| format!("(\"{}\", \"{}\", \"{}\")", s, f, d))
        .collect();
    out.push_str(&format!(
        "Definition serde_defaults : list (string * string * string) :=\n  [{}]%string.\n\n",
        fields.join("; ")
    ));

    // the lock file structure: exactly one u32 field, plain serde derive (no container / field attributes)
    if v.lock_fields.len() != 1 || v.lock_fields[0].1 != "u32" || !v.lock_struct_attrs.is_empty()
    {
        refuse(&format!(
            "struct Cache is not a single plain u32 field: fields {:?}, serde attributes {:?}",
            v.lock_fields, v.lock_struct_attrs
        ));
    }
    out.push_str(&format!(
        "(* the only field of the lock file structure (struct Cache, serialised by serde_yaml) *)\nDefinition c_lock_field : list N := {}.\n\n",
        cps(&v.lock_fields[0].0)
    ));

    // format pieces
    let default_fmt: Vec<&(String, String)> = v
        .formats
        .iter()
        .filter(|(f, l)| f == "insertable_reference_string" && l != "{}")
        .collect();
    if default_fmt.len() != 1
    {
        refuse("expected exactly one non-trivial format! in insertable_reference_string");
    }
    let (pre, post) = split_placeholder(&default_fmt[0].1);
    out.push_str(&format!(
        "Definition fmt_default_ref : list N * list N := ({}, {}).\n",
        cps(&pre),
        cps(&post)
    ));
    let bare: Vec<&(String, String)> = v
        .formats
        .iter()
        .filter(|(f, l)| f == "insertable_reference_string" && l == "{}")
        .collect();
    if bare.len() != 1
    {
        refuse("expected exactly one format!(\"{}\", id) in insertable_reference_string");
    }
    let prefixes: Vec<&(String, String, String)> = v
        .assigns
        .iter()
        .filter(|(f, var, _)| f == "find" && var == "insertion_prefix")
        .collect();
    if prefixes.len() != 1
    {
        refuse("expected exactly one assignment to insertion_prefix in find");
    }
    let (ppre, ppost) = split_placeholder(&prefixes[0].2);
    out.push_str(&format!(
        "Definition fmt_structured_prefix : list N * list N := ({}, {}).\n",
        cps(&ppre),
        cps(&ppost)
    ));
    let suffixes: Vec<String> = v
        .assigns
        .iter()
        .filter(|(f, var, _)| f == "find" && var == "insertion_suffix")
        .map(|(_, _, l)| cps(l))
        .collect();
    if suffixes.len() != 2
    {
        refuse("expected exactly two assignments to insertion_suffix in find");
    }
    out.push_str(&format!(
        "(* in source order: the first is used when other key-values exist *)\nDefinition structured_suffixes : list (list N) := [{}].\n\n",
        suffixes.join("; ")
    ));

    if v.registers.is_empty()
    {
        refuse("no signal_hook::flag::register call found");
    }
    out.push_str(&format!(
        "(* first argument of every signal_hook::flag::register call, Linux signal numbers *)\nDefinition registered_signals : list N := [{}].\n",
        v.registers.join("; ")
    ));
    out
}
