//! Constants, serde defaults, format pieces and signal registration -> Gallina
//! (`Gen/Consts.v`).  Everything is located with syn in non-test code.

use crate::refuse;
use crate::regexes::{is_test_mod, lazy_statics, parse_file, rust_files};
use syn::visit::Visit;

fn cps(s: &str) -> String
{
    let items: Vec<String> = s.chars().map(|c| format!("{}", c as u32)).collect();
    format!("[{}]", items.join("; "))
}

fn lit_to_gallina(l: &syn::Lit) -> Option<(String, &'static str)>
{
    match l
    {
        syn::Lit::Str(s) => Some((cps(&s.value()), "list N")),
        syn::Lit::Int(i) => Some((i.base10_digits().to_string(), "N")),
        syn::Lit::Bool(b) => Some((format!("{}", b.value), "bool")),
        _ => None,
    }
}

#[derive(Default)]
struct V
{
    file: String,
    fn_stack: Vec<String>,
    struct_name: Option<String>,
    consts: Vec<(String, String, &'static str, String)>, // (name, value, type, file)
    sig_fns: Vec<String>,                 // fns with signature (&self, u32) -> String
    single_u32_structs: Vec<(String, String, Vec<String>)>, // (struct, field, serde attrs) of structs with exactly one u32 field
    default_fns: Vec<(String, String, &'static str)>,
    serde_fields: Vec<(String, String, String)>,
    formats: Vec<(String, String)>,       // (enclosing fn, literal)
    assigns: Vec<(String, String, String)>, // (enclosing fn, variable, literal)
    registers: Vec<String>,
    sig_loops: Vec<(String, Vec<String>)>, // `for v in [SIGTERM, SIGINT]` bindings in scope
    sig_consts: Vec<(String, Vec<String>)>, // `const STOP: [c_int; 2] = [SIGTERM, SIGINT]` (pre-pass)
    prepass: bool,
    lock_fields: Vec<(String, String)>,   // fields of struct Cache: (name, type)
    lock_struct_attrs: Vec<String>,       // serde attributes on struct Cache or its fields
}

/// a signal name or number, without refusing: None when the expression is something else
fn signal_value(e: &syn::Expr) -> Option<String>
{
    match e
    {
        syn::Expr::Path(p) =>
        {
            let name = p.path.segments.last().unwrap().ident.to_string();
            match name.as_str()
            {
                "SIGHUP" | "SIGINT" | "SIGQUIT" | "SIGABRT" | "SIGUSR1" | "SIGUSR2" | "SIGPIPE" | "SIGALRM"
                | "SIGTERM" => Some(signal_expr(e)),
                _ => None,
            }
        },
        syn::Expr::Reference(r) => signal_value(&r.expr),
        syn::Expr::Unary(u) if matches!(u.op, syn::UnOp::Deref(_)) => signal_value(&u.expr),
        syn::Expr::Binary(_) | syn::Expr::Paren(_) | syn::Expr::Lit(_) => Some(signal_expr(e)),
        _ => None,
    }
}

/// the elements of `[a, b]`, `&[a, b]`, `[a, b].iter()`, `[a, b].into_iter()`, `vec![a, b]` when all are signals
fn signal_list(e: &syn::Expr) -> Option<Vec<String>>
{
    match e
    {
        syn::Expr::Array(a) => a.elems.iter().map(signal_value).collect(),
        syn::Expr::Reference(r) => signal_list(&r.expr),
        syn::Expr::Paren(p) => signal_list(&p.expr),
        syn::Expr::MethodCall(m) if m.method == "iter" || m.method == "into_iter" || m.method == "copied" || m.method == "cloned" =>
        {
            signal_list(&m.receiver)
        },
        syn::Expr::Macro(m) if m.mac.path.is_ident("vec") =>
        {
            use syn::parse::Parser;
            let parser = syn::punctuated::Punctuated::<syn::Expr, syn::Token![,]>::parse_terminated;
            parser.parse2(m.mac.tokens.clone()).ok()?.iter().map(signal_value).collect()
        },
        _ => None,
    }
}

fn signal_expr(e: &syn::Expr) -> String
{
    match e
    {
        syn::Expr::Binary(b) =>
        {
            let op = match b.op
            {
                syn::BinOp::BitOr(_) => "N.lor",
                syn::BinOp::BitAnd(_) => "N.land",
                syn::BinOp::Add(_) => "N.add",
                _ => refuse("operator in signal registration not modelled"),
            };
            format!("({} {} {})", op, signal_expr(&b.left), signal_expr(&b.right))
        },
        syn::Expr::Paren(p) => signal_expr(&p.expr),
        syn::Expr::Path(p) =>
        {
            let name = p.path.segments.last().unwrap().ident.to_string();
            // Linux x86-64 values, as in signal_hook::consts (re-exported from libc)
            let v = match name.as_str()
            {
                "SIGHUP" => 1,
                "SIGINT" => 2,
                "SIGQUIT" => 3,
                "SIGABRT" => 6,
                "SIGUSR1" => 10,
                "SIGUSR2" => 12,
                "SIGPIPE" => 13,
                "SIGALRM" => 14,
                "SIGTERM" => 15,
                _ => refuse(&format!("signal name {} not known to the translator", name)),
            };
            format!("{}", v)
        },
        syn::Expr::Lit(syn::ExprLit {
            lit: syn::Lit::Int(i),
            ..
        }) => i.base10_digits().to_string(),
        _ => refuse("signal registration argument not understood"),
    }
}

fn string_like(e: &syn::Expr) -> Option<String>
{
    // "lit", "lit".to_string(), String::from("lit"), format!("lit", ..), Some(<those>)
    match e
    {
        syn::Expr::Lit(syn::ExprLit {
            lit: syn::Lit::Str(s),
            ..
        }) => Some(s.value()),
        syn::Expr::MethodCall(mc)
            if mc.method == "to_string" || mc.method == "to_owned" || mc.method == "into" =>
        {
            string_like(&mc.receiver)
        },
        syn::Expr::Call(c) =>
        {
            let f = match &*c.func
            {
                syn::Expr::Path(p) => p
                    .path
                    .segments
                    .iter()
                    .map(|s| s.ident.to_string())
                    .collect::<Vec<_>>()
                    .join("::"),
                _ => return None,
            };
            if (f == "Some" || f == "String::from") && c.args.len() == 1
            {
                string_like(&c.args[0])
            }
            else
            {
                None
            }
        },
        syn::Expr::Macro(m) if m.mac.path.is_ident("format") => format_literal(&m.mac),
        _ => None,
    }
}

fn format_literal(m: &syn::Macro) -> Option<String>
{
    use syn::parse::Parser;
    let parser = syn::punctuated::Punctuated::<syn::Expr, syn::Token![,]>::parse_terminated;
    let args = parser.parse2(m.tokens.clone()).ok()?;
    match args.first()?
    {
        syn::Expr::Lit(syn::ExprLit {
            lit: syn::Lit::Str(s),
            ..
        }) => Some(s.value()),
        _ => None,
    }
}

impl<'ast> Visit<'ast> for V
{
    fn visit_item_mod(&mut self, m: &'ast syn::ItemMod)
    {
        if is_test_mod(m)
        {
            return;
        }
        syn::visit::visit_item_mod(self, m);
    }

    fn visit_item_const(&mut self, c: &'ast syn::ItemConst)
    {
        if self.prepass
        {
            if let Some(list) = signal_list(&c.expr)
            {
                self.sig_consts.push((c.ident.to_string(), list));
            }
            return;
        }
        if let syn::Expr::Lit(l) = &*c.expr
        {
            if let Some((g, ty)) = lit_to_gallina(&l.lit)
            {
                self.consts.push((c.ident.to_string(), g, ty, self.file.clone()));
            }
        }
    }

    fn visit_impl_item_const(&mut self, c: &'ast syn::ImplItemConst)
    {
        if let syn::Expr::Lit(l) = &c.expr
        {
            if let Some((g, ty)) = lit_to_gallina(&l.lit)
            {
                self.consts.push((c.ident.to_string(), g, ty, self.file.clone()));
            }
        }
    }

    fn visit_item_struct(&mut self, s: &'ast syn::ItemStruct)
    {
        {
            let fields: Vec<&syn::Field> = s.fields.iter().collect();
            if fields.len() == 1
            {
                let ty = match &fields[0].ty
                {
                    syn::Type::Path(p) => p.path.segments.last().map(|x| x.ident.to_string()).unwrap_or_default(),
                    _ => String::new(),
                };
                if ty == "u32"
                {
                    let mut attrs = Vec::new();
                    for a in &s.attrs
                    {
                        if a.path().is_ident("serde")
                        {
                            attrs.push("struct".to_string());
                        }
                    }
                    for a in &fields[0].attrs
                    {
                        if a.path().is_ident("serde")
                        {
                            attrs.push("field".to_string());
                        }
                    }
                    self.single_u32_structs.push((
                        s.ident.to_string(),
                        fields[0].ident.as_ref().map(|i| i.to_string()).unwrap_or_default(),
                        attrs,
                    ));
                }
            }
        }
        if s.ident == "Cache"
        {
            for a in &s.attrs
            {
                if a.path().is_ident("serde")
                {
                    self.lock_struct_attrs.push("struct".to_string());
                }
            }
            for f in s.fields.iter()
            {
                let ty = match &f.ty
                {
                    syn::Type::Path(p) => p.path.segments.last().map(|x| x.ident.to_string()).unwrap_or_default(),
                    _ => String::new(),
                };
                self.lock_fields.push((f.ident.as_ref().map(|i| i.to_string()).unwrap_or_default(), ty));
                for a in &f.attrs
                {
                    if a.path().is_ident("serde")
                    {
                        self.lock_struct_attrs.push("field".to_string());
                    }
                }
            }
        }
        for f in s.fields.iter()
        {
            for a in &f.attrs
            {
                if a.path().is_ident("serde")
                {
                    let toks = a
                        .meta
                        .require_list()
                        .map(|l| l.tokens.to_string())
                        .unwrap_or_default();
                    let toks = toks.replace(' ', "");
                    if toks.starts_with("default")
                    {
                        let func = toks
                            .strip_prefix("default=\"")
                            .and_then(|r| r.strip_suffix('"'))
                            .unwrap_or("")
                            .to_string();
                        self.serde_fields.push((
                            s.ident.to_string(),
                            f.ident.as_ref().map(|i| i.to_string()).unwrap_or_default(),
                            func,
                        ));
                    }
                }
            }
        }
    }

    fn visit_item_fn(&mut self, f: &'ast syn::ItemFn)
    {
        let name = f.sig.ident.to_string();
        if f.block.stmts.len() == 1 && f.sig.inputs.is_empty()
        {
            if let syn::Stmt::Expr(e, None) = &f.block.stmts[0]
            {
                match e
                {
                    syn::Expr::Lit(l) =>
                    {
                        if let Some((g, ty)) = lit_to_gallina(&l.lit)
                        {
                            self.default_fns.push((name.clone(), g, ty));
                        }
                    },
                    syn::Expr::Macro(m) if m.mac.path.is_ident("vec") =>
                    {
                        use syn::parse::Parser;
                        let parser =
                            syn::punctuated::Punctuated::<syn::Expr, syn::Token![,]>::parse_terminated;
                        if let Ok(args) = parser.parse2(m.mac.tokens.clone())
                        {
                            let items: Vec<Option<String>> =
                                args.iter().map(|a| string_like(a).map(|x| cps(&x))).collect();
                            if items.iter().all(|x| x.is_some())
                            {
                                let items: Vec<String> = items.into_iter().map(|x| x.unwrap()).collect();
                                self.default_fns.push((
                                    name.clone(),
                                    format!("[{}]", items.join("; ")),
                                    "list (list N)",
                                ));
                            }
                        }
                    },
                    _ => (),
                }
            }
        }
        self.fn_stack.push(name);
        syn::visit::visit_item_fn(self, f);
        self.fn_stack.pop();
    }

    fn visit_impl_item_fn(&mut self, f: &'ast syn::ImplItemFn)
    {
        {
            let ins: Vec<&syn::FnArg> = f.sig.inputs.iter().collect();
            let ret_string = match &f.sig.output
            {
                syn::ReturnType::Type(_, t) => match &**t
                {
                    syn::Type::Path(p) => p.path.segments.last().map_or(false, |x| x.ident == "String"),
                    _ => false,
                },
                _ => false,
            };
            if ins.len() == 2 && ret_string && matches!(ins[0], syn::FnArg::Receiver(_))
            {
                if let syn::FnArg::Typed(pt) = ins[1]
                {
                    if let syn::Type::Path(p) = &*pt.ty
                    {
                        if p.path.is_ident("u32")
                        {
                            self.sig_fns.push(f.sig.ident.to_string());
                        }
                    }
                }
            }
        }
        self.fn_stack.push(f.sig.ident.to_string());
        syn::visit::visit_impl_item_fn(self, f);
        self.fn_stack.pop();
    }

    fn visit_expr_macro(&mut self, m: &'ast syn::ExprMacro)
    {
        if m.mac.path.is_ident("format")
        {
            if let Some(l) = format_literal(&m.mac)
            {
                self.formats
                    .push((self.fn_stack.last().cloned().unwrap_or_default(), l));
            }
        }
        syn::visit::visit_expr_macro(self, m);
    }

    fn visit_expr_assign(&mut self, a: &'ast syn::ExprAssign)
    {
        // `x = <string-like>` and `s.x = <string-like>` (a field of a local struct): the variable is x
        let var = match &*a.left
        {
            syn::Expr::Path(p) => p.path.get_ident().map(|id| id.to_string()),
            syn::Expr::Field(f) => match &f.member
            {
                syn::Member::Named(id) => Some(id.to_string()),
                _ => None,
            },
            _ => None,
        };
        if let (Some(var), Some(s)) = (var, string_like(&a.right))
        {
            self.assigns.push((self.fn_stack.last().cloned().unwrap_or_default(), var, s));
        }
        syn::visit::visit_expr_assign(self, a);
    }

    fn visit_expr_for_loop(&mut self, f: &'ast syn::ExprForLoop)
    {
        let mut bound = false;
        if let syn::Pat::Ident(pi) = &*f.pat
        {
            let by_const = match &*f.expr
            {
                syn::Expr::Path(p) => p
                    .path
                    .segments
                    .last()
                    .and_then(|seg| self.sig_consts.iter().find(|c| seg.ident == c.0))
                    .map(|c| c.1.clone()),
                syn::Expr::Reference(r) => match &*r.expr
                {
                    syn::Expr::Path(p) => p
                        .path
                        .segments
                        .last()
                        .and_then(|seg| self.sig_consts.iter().find(|c| seg.ident == c.0))
                        .map(|c| c.1.clone()),
                    _ => None,
                },
                syn::Expr::MethodCall(m) => match &*m.receiver
                {
                    syn::Expr::Path(p) => p
                        .path
                        .segments
                        .last()
                        .and_then(|seg| self.sig_consts.iter().find(|c| seg.ident == c.0))
                        .map(|c| c.1.clone()),
                    _ => None,
                },
                _ => None,
            };
            if let Some(list) = signal_list(&f.expr).or(by_const)
            {
                self.sig_loops.push((pi.ident.to_string(), list));
                bound = true;
            }
        }
        syn::visit::visit_expr_for_loop(self, f);
        if bound
        {
            self.sig_loops.pop();
        }
    }

    fn visit_expr_call(&mut self, c: &'ast syn::ExprCall)
    {
        if let syn::Expr::Path(p) = &*c.func
        {
            let segs: Vec<String> = p.path.segments.iter().map(|s| s.ident.to_string()).collect();
            let qualified = segs.len() >= 2 && segs[segs.len() - 1] == "register" && segs[segs.len() - 2] == "flag";
            // `use signal_hook::flag::register; register(sig, flag)`: only when the first argument is a signal
            let bare = segs.len() == 1 && segs[0] == "register" && c.args.len() >= 2;
            if (qualified || bare) && !c.args.is_empty()
            {
                let mut arg = &c.args[0];
                while let syn::Expr::Unary(u) = arg
                {
                    arg = &u.expr;
                }
                let looped = match arg
                {
                    syn::Expr::Path(ap) => ap
                        .path
                        .get_ident()
                        .and_then(|id| self.sig_loops.iter().rev().find(|b| id == &b.0))
                        .map(|b| b.1.clone()),
                    _ => None,
                };
                if let Some(list) = looped
                {
                    self.registers.extend(list);
                }
                else if let Some(v) = signal_value(&c.args[0])
                {
                    self.registers.push(v);
                }
                else if qualified
                {
                    self.registers.push(signal_expr(&c.args[0]));
                }
            }
        }
        syn::visit::visit_expr_call(self, c);
    }
}

fn split_placeholder(lit: &str) -> (String, String)
{
    let parts: Vec<&str> = lit.split("{}").collect();
    if parts.len() != 2 || lit.contains("{{") || lit.contains("}}") || parts.iter().any(|p| p.contains('{') || p.contains('}'))
    {
        refuse(&format!("format literal {:?} is not <text>{{}}<text>", lit));
    }
    (parts[0].to_string(), parts[1].to_string())
}

/// The constants the model refers to, by ROLE: the name they have at the pinned commit, the file
/// they live in, their Gallina type, and their position among the constants of that type in that
/// file (source order) together with how many such constants the file has.  A constant is looked up
/// by name first; a renamed one is identified by position, provided the count still matches.
const ROLES: [(&str, &str, &str, usize, usize); 5] = [
    ("START_REFERENCE_ID", "codegen/generate.rs", "N", 0, 1),
    ("IGNORE_DIRECTIVE_TEXT", "parser/code_parser.rs", "list N", 0, 2),
    ("NO_KVP_DIRECTIVE_TEXT", "parser/code_parser.rs", "list N", 1, 2),
    ("CACHE_FILENAME", "config/context.rs", "list N", 0, 2),
    ("CACHE_EDIT_WARNING", "config/context.rs", "list N", 1, 2),
];

pub fn translate(repo: &str) -> String
{
    let mut v = V::default();
    v.prepass = true;
    for f in rust_files(repo)
    {
        let ast = parse_file(&f);
        v.file = f.clone();
        v.visit_file(&ast);
    }
    let sig_consts = std::mem::take(&mut v.sig_consts);
    let mut v = V::default();
    v.sig_consts = sig_consts;
    for f in rust_files(repo)
    {
        let ast = parse_file(&f);
        v.file = f.clone();
        v.visit_file(&ast);
    }
    let mut out = String::new();
    out.push_str("(* GENERATED by /verif/harness/translate from /repo/src (syn).  Do not edit. *)\n");
    out.push_str("From Coq Require Import List NArith String.\n");
    out.push_str("Import ListNotations.\nOpen Scope N_scope.\n\n");

    let mut seen = std::collections::BTreeSet::new();
    for (n, _, _, _) in &v.consts
    {
        if !seen.insert(n.clone())
        {
            refuse(&format!("constant {} defined more than once", n));
        }
    }
    let mut emitted = std::collections::BTreeSet::new();
    for (role, file, ty, ord, count) in ROLES
    {
        let by_name: Vec<&(String, String, &'static str, String)> =
            v.consts.iter().filter(|c| c.0 == role).collect();
        let c = if by_name.len() == 1
        {
            by_name[0]
        }
        else
        {
            let in_file: Vec<&(String, String, &'static str, String)> = v
                .consts
                .iter()
                .filter(|c| c.3.ends_with(file) && c.2 == ty)
                .collect();
            if in_file.len() != count
            {
                refuse(&format!(
                    "constant {} not found by name, and {} has {} constants of type {} where {} were expected",
                    role,
                    file,
                    in_file.len(),
                    ty,
                    count
                ));
            }
            out.push_str(&format!(
                "(* {} is called {} in the source now; identified by its position in {} *)\n",
                role, in_file[ord].0, file
            ));
            in_file[ord]
        };
        if c.2 != ty
        {
            refuse(&format!("constant {} has type {}, expected {}", role, c.2, ty));
        }
        out.push_str(&format!("Definition c_{} : {} := {}.\n", role, ty, c.1));
        emitted.insert(c.0.clone());
    }
    // every other literal constant, under its own name (not referred to by the model)
    for (n, g, ty, _) in &v.consts
    {
        if !emitted.contains(n) && !ROLES.iter().any(|r| r.0 == n)
        {
            out.push_str(&format!("Definition c_{} : {} := {}.\n", n, ty, g));
        }
    }
    out.push('\n');

    // lazy_static strings (the `ref` key): by name, else the only String static there is
    let strings: Vec<(String, String)> = lazy_statics(repo)
        .into_iter()
        .filter(|ls| ls.ty.replace(' ', "") == "String")
        .map(|ls| {
            let s = string_like(&ls.init).unwrap_or_else(|| {
                refuse(&format!("String static {} is not a literal", ls.name))
            });
            (ls.name, s)
        })
        .collect();
    let const_key: Vec<(String, String)> = v
        .consts
        .iter()
        .filter(|c| c.0 == "REF_KVP_KEY" && c.2 == "list N")
        .map(|c| (c.0.clone(), c.1.clone()))
        .collect();
    if strings.iter().all(|x| x.0 != "REF_KVP_KEY") && const_key.len() == 1
    {
        // the key as a plain `const REF_KVP_KEY: &str` (already emitted with the other constants? no: emitted here)
        out.push_str("(* REF_KVP_KEY is a const &str in the source now *)\n");
        // the constants loop above has already written Definition c_REF_KVP_KEY; nothing more to do
        out.push('\n');
    }
    else
    {
    let key = match strings.iter().find(|x| x.0 == "REF_KVP_KEY")
    {
        Some(k) => k,
        None =>
        {
            if strings.len() != 1
            {
                refuse("REF_KVP_KEY not found, and there is not exactly one String static");
            }
            out.push_str(&format!("(* REF_KVP_KEY is called {} in the source now *)\n", strings[0].0));
            &strings[0]
        },
    };
    out.push_str(&format!("Definition c_REF_KVP_KEY : list N := {}.\n", cps(&key.1)));
    for (n, s) in &strings
    {
        if n != &key.0
        {
            out.push_str(&format!("Definition c_{} : list N := {}.\n", n, cps(s)));
        }
    }
    out.push('\n');
    }

    // serde defaults, by YAML key: the function named in #[serde(default = "..")] of the field, whatever
    // the function and the struct are called
    let mut keys = Vec::new();
    for (key, canonical, ty) in [
        ("extensions", "default_rust_extensions", "list (list N)"),
        ("structured", "default_rust_structured", "bool"),
        ("use_cache", "default_use_cache", "bool"),
    ]
    {
        let fields: Vec<&(String, String, String)> = v.serde_fields.iter().filter(|f| f.1 == key).collect();
        if fields.len() != 1
        {
            refuse(&format!("expected exactly one field {} with a serde default", key));
        }
        let fns: Vec<&(String, String, &'static str)> =
            v.default_fns.iter().filter(|c| c.0 == fields[0].2).collect();
        if fns.len() != 1
        {
            refuse(&format!(
                "serde default function {} of field {} not found or not understood",
                fields[0].2, key
            ));
        }
        if fns[0].2 != ty
        {
            refuse(&format!("serde default of {} has type {}, expected {}", key, fns[0].2, ty));
        }
        out.push_str(&format!("Definition c_{} : {} := {}.\n", canonical, ty, fns[0].1));
    }
    for (_, f, _) in &v.serde_fields
    {
        keys.push(format!("\"{}\"", f));
    }
    keys.sort();
    out.push_str(&format!(
        "(* the YAML keys that have a serde default *)\nDefinition serde_default_keys : list string :=\n  [{}]%string.\n\n",
        keys.join("; ")
    ));

    // the lock file structure: exactly one u32 field, plain serde derive (no container / field attributes);
    // struct Cache, or -- renamed -- the only struct with exactly one u32 field
    let (lock_field, lock_attrs) = if v.lock_fields.len() == 1 && v.lock_fields[0].1 == "u32"
    {
        (v.lock_fields[0].0.clone(), v.lock_struct_attrs.clone())
    }
    else if v.lock_fields.is_empty() && v.single_u32_structs.len() == 1
    {
        out.push_str(&format!(
            "(* struct Cache is called {} in the source now *)\n",
            v.single_u32_structs[0].0
        ));
        (v.single_u32_structs[0].1.clone(), v.single_u32_structs[0].2.clone())
    }
    else
    {
        refuse(&format!(
            "struct Cache is not a single plain u32 field: fields {:?}; single-u32 structs {:?}",
            v.lock_fields, v.single_u32_structs
        ))
    };
    if !lock_attrs.is_empty()
    {
        refuse(&format!("the lock file struct carries serde attributes {:?}", lock_attrs));
    }
    out.push_str(&format!(
        "(* the only field of the lock file structure (struct Cache, serialised by serde_yaml) *)\nDefinition c_lock_field : list N := {}.\n\n",
        cps(&lock_field)
    ));

    // format pieces: the function insertable_reference_string, or -- renamed -- the only method (&self, u32) -> String.
    // Its format! literals are either placeholders only ("{}", "{}{}{}": the pieces come from the entry) or
    // the default token <text>{}<text>, of which there is exactly one.
    let irs = if v.formats.iter().any(|(f, _)| f == "insertable_reference_string")
    {
        "insertable_reference_string".to_string()
    }
    else
    {
        let cands: Vec<&String> = v
            .sig_fns
            .iter()
            .filter(|n| v.formats.iter().any(|(f, _)| &f == n))
            .collect();
        if cands.len() != 1
        {
            refuse("insertable_reference_string not found, and there is not exactly one method (&self, u32) -> String with a format!");
        }
        out.push_str(&format!(
            "(* insertable_reference_string is called {} in the source now *)\n",
            cands[0]
        ));
        cands[0].clone()
    };
    let in_irs: Vec<&(String, String)> = v.formats.iter().filter(|(f, _)| *f == irs).collect();
    let default_fmt: Vec<&&(String, String)> =
        in_irs.iter().filter(|(_, l)| !l.replace("{}", "").is_empty()).collect();
    if default_fmt.len() != 1
    {
        refuse("expected exactly one non-trivial format! in insertable_reference_string");
    }
    let (pre, post) = split_placeholder(&default_fmt[0].1);
    out.push_str(&format!(
        "Definition fmt_default_ref : list N * list N := ({}, {}).\n",
        cps(&pre),
        cps(&post)
    ));
    let bare = in_irs.iter().filter(|(_, l)| l.replace("{}", "").is_empty() && !l.is_empty()).count();
    if bare != 1
    {
        refuse("expected exactly one placeholder-only format! in insertable_reference_string");
    }

    // the key-value pieces: assignments of string-likes to locals of one function: one with a placeholder
    // (the prefix) and two without (the suffixes, in source order).  By name (find / insertion_prefix /
    // insertion_suffix), else the only function whose string-like assignments have that shape.
    let named_all: Vec<&(String, String, String)> = v
        .assigns
        .iter()
        .filter(|(_, var, _)| var == "insertion_prefix" || var == "insertion_suffix")
        .collect();
    // all in one function (find at the pinned commit, or a helper it was split into)
    let named: Vec<&(String, String, String)> =
        if named_all.iter().all(|a| a.0 == named_all[0].0) { named_all } else { Vec::new() };
    let (prefixes, suffixes): (Vec<String>, Vec<String>) = if named.len() == 3
    {
        (
            named.iter().filter(|a| a.1 == "insertion_prefix").map(|a| a.2.clone()).collect(),
            named.iter().filter(|a| a.1 == "insertion_suffix").map(|a| a.2.clone()).collect(),
        )
    }
    else
    {
        let mut fns: Vec<String> = v.assigns.iter().map(|a| a.0.clone()).collect();
        fns.sort();
        fns.dedup();
        let shaped: Vec<&String> = fns
            .iter()
            .filter(|f| {
                let a: Vec<&(String, String, String)> = v.assigns.iter().filter(|x| &x.0 == *f).collect();
                let with_ph: Vec<&&(String, String, String)> = a.iter().filter(|x| x.2.contains("{}")).collect();
                let without: Vec<&&(String, String, String)> = a.iter().filter(|x| !x.2.contains("{}")).collect();
                a.len() == 3
                    && with_ph.len() == 1
                    && without.len() == 2
                    && without[0].1 == without[1].1
                    && with_ph[0].1 != without[0].1
            })
            .collect();
        if shaped.len() != 1
        {
            refuse("expected one assignment to insertion_prefix and two to insertion_suffix in find (or one function of that shape)");
        }
        out.push_str(&format!(
            "(* the key-value pieces are assigned in {} now (find / insertion_prefix / insertion_suffix at the pinned commit) *)\n",
            shaped[0]
        ));
        let a: Vec<&(String, String, String)> = v.assigns.iter().filter(|x| &x.0 == shaped[0]).collect();
        (
            a.iter().filter(|x| x.2.contains("{}")).map(|x| x.2.clone()).collect(),
            a.iter().filter(|x| !x.2.contains("{}")).map(|x| x.2.clone()).collect(),
        )
    };
    if prefixes.len() != 1
    {
        refuse("expected exactly one assignment to insertion_prefix in find");
    }
    let (ppre, ppost) = split_placeholder(&prefixes[0]);
    out.push_str(&format!(
        "Definition fmt_structured_prefix : list N * list N := ({}, {}).\n",
        cps(&ppre),
        cps(&ppost)
    ));
    if suffixes.len() != 2
    {
        refuse("expected exactly two assignments to insertion_suffix in find");
    }
    let suffixes: Vec<String> = suffixes.iter().map(|l| cps(l)).collect();
    out.push_str(&format!(
        "(* in source order: the first is used when other key-values exist *)\nDefinition structured_suffixes : list (list N) := [{}].\n\n",
        suffixes.join("; ")
    ));

    if v.registers.is_empty()
    {
        refuse("no signal_hook::flag::register call found");
    }
    out.push_str(&format!(
        "(* first argument of every signal_hook::flag::register call, Linux signal numbers *)\nDefinition registered_signals : list N := [{}].\n",
        v.registers.join("; ")
    ));
    out
}
