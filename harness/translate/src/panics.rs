//! Panic-site inventory and function fingerprints of the non-test code.

use crate::regexes::{is_test_mod, parse_file, rust_files};
use quote::ToTokens;
use syn::visit::Visit;

#[derive(Default)]
struct P
{
    file: String,
    fn_stack: Vec<String>,
    sites: Vec<(String, String, String, String)>,
}

fn norm(ts: proc_macro2::TokenStream) -> String
{
    let s = ts.to_string();
    let s: String = s.split_whitespace().collect::<Vec<_>>().join(" ");
    if s.len() > 120
    {
        let mut cut = 120;
        while !s.is_char_boundary(cut)
        {
            cut -= 1;
        }
        format!("{}...", &s[..cut])
    }
    else
    {
        s
    }
}

impl P
{
    fn add(&mut self, kind: &str, snippet: String)
    {
        self.sites.push((
            self.file.clone(),
            self.fn_stack.last().cloned().unwrap_or_default(),
            kind.to_string(),
            snippet,
        ));
    }
}

impl<'ast> Visit<'ast> for P
{
    fn visit_item_mod(&mut self, m: &'ast syn::ItemMod)
    {
        if is_test_mod(m)
        {
            return;
        }
        syn::visit::visit_item_mod(self, m);
    }

    fn visit_item_fn(&mut self, f: &'ast syn::ItemFn)
    {
        if f.attrs.iter().any(|a| {
            a.path().is_ident("cfg")
                && a.meta
                    .require_list()
                    .map(|l| l.tokens.to_string().contains("breadlog_verif"))
                    .unwrap_or(false)
        })
        {
            return;
        }
        self.fn_stack.push(f.sig.ident.to_string());
        syn::visit::visit_item_fn(self, f);
        self.fn_stack.pop();
    }

    fn visit_impl_item_fn(&mut self, f: &'ast syn::ImplItemFn)
    {
        self.fn_stack.push(f.sig.ident.to_string());
        syn::visit::visit_impl_item_fn(self, f);
        self.fn_stack.pop();
    }

    fn visit_expr_method_call(&mut self, mc: &'ast syn::ExprMethodCall)
    {
        let m = mc.method.to_string();
        if m == "unwrap" || m == "expect"
        {
            self.add("unwrap", norm(mc.to_token_stream()));
        }
        syn::visit::visit_expr_method_call(self, mc);
    }

    fn visit_macro(&mut self, m: &'ast syn::Macro)
    {
        let name = m.path.segments.last().map(|s| s.ident.to_string()).unwrap_or_default();
        if ["panic", "unreachable", "assert", "assert_eq", "assert_ne", "todo", "unimplemented"]
            .contains(&name.as_str())
        {
            self.add("panic-macro", norm(m.to_token_stream()));
        }
        // look inside expression-like macro bodies (format!, error!, ...) for nested sites
        use syn::parse::Parser;
        let parser = syn::punctuated::Punctuated::<syn::Expr, syn::Token![,]>::parse_terminated;
        if let Ok(args) = parser.parse2(m.tokens.clone())
        {
            for a in args.iter()
            {
                self.visit_expr(a);
            }
        }
    }

    fn visit_expr_index(&mut self, i: &'ast syn::ExprIndex)
    {
        self.add("index", norm(i.to_token_stream()));
        syn::visit::visit_expr_index(self, i);
    }

    fn visit_expr_binary(&mut self, b: &'ast syn::ExprBinary)
    {
        use syn::BinOp::*;
        match b.op
        {
            Add(_) | Sub(_) | Mul(_) | Div(_) | Rem(_) | AddAssign(_) | SubAssign(_)
            | MulAssign(_) | DivAssign(_) | RemAssign(_) | Shl(_) | Shr(_) =>
            {
                self.add("arith", norm(b.to_token_stream()));
            },
            _ => (),
        }
        syn::visit::visit_expr_binary(self, b);
    }

    fn visit_expr_cast(&mut self, c: &'ast syn::ExprCast)
    {
        self.add("cast", norm(c.to_token_stream()));
        syn::visit::visit_expr_cast(self, c);
    }
}

fn json_str(s: &str) -> String
{
    let mut o = String::from("\"");
    for c in s.chars()
    {
        match c
        {
            '"' => o.push_str("\\\""),
            '\\' => o.push_str("\\\\"),
            '\n' => o.push_str("\\n"),
            c if (c as u32) < 0x20 => o.push_str(&format!("\\u{:04x}", c as u32)),
            c => o.push(c),
        }
    }
    o.push('"');
    o
}

pub fn inventory(repo: &str) -> String
{
    let mut all = Vec::new();
    for f in rust_files(repo)
    {
        if f.ends_with("verif_hooks.rs")
        {
            continue;
        }
        let ast = parse_file(&f);
        let mut p = P::default();
        p.file = f
            .strip_prefix(repo)
            .unwrap_or(&f)
            .trim_start_matches('/')
            .to_string();
        p.visit_file(&ast);
        all.extend(p.sites);
    }
    all.sort();
    let mut out = String::from("[\n");
    for (i, (file, func, kind, snip)) in all.iter().enumerate()
    {
        out.push_str(&format!(
            " {{\"file\": {}, \"fn\": {}, \"kind\": {}, \"code\": {}}}{}\n",
            json_str(file),
            json_str(func),
            json_str(kind),
            json_str(snip),
            if i + 1 < all.len() { "," } else { "" }
        ));
    }
    out.push_str("]\n");
    out
}

struct F
{
    file: String,
    out: Vec<(String, String, u64)>,
}

fn fnv(s: &str) -> u64
{
    let mut h: u64 = 0xcbf29ce484222325;
    for b in s.bytes()
    {
        h ^= b as u64;
        h = h.wrapping_mul(0x100000001b3);
    }
    h
}

impl<'ast> Visit<'ast> for F
{
    fn visit_item_mod(&mut self, m: &'ast syn::ItemMod)
    {
        if is_test_mod(m)
        {
            return;
        }
        syn::visit::visit_item_mod(self, m);
    }

    fn visit_item_fn(&mut self, f: &'ast syn::ItemFn)
    {
        self.out.push((
            self.file.clone(),
            f.sig.ident.to_string(),
            fnv(&f.to_token_stream().to_string()),
        ));
        syn::visit::visit_item_fn(self, f);
    }

    fn visit_impl_item_fn(&mut self, f: &'ast syn::ImplItemFn)
    {
        self.out.push((
            self.file.clone(),
            f.sig.ident.to_string(),
            fnv(&f.to_token_stream().to_string()),
        ));
        syn::visit::visit_impl_item_fn(self, f);
    }
}

pub fn fingerprints(repo: &str) -> String
{
    let mut out = String::from("{\n");
    let mut all = Vec::new();
    for f in rust_files(repo)
    {
        if f.ends_with("verif_hooks.rs")
        {
            continue;
        }
        let ast = parse_file(&f);
        let mut v = F {
            file: f
                .strip_prefix(repo)
                .unwrap_or(&f)
                .trim_start_matches('/')
                .to_string(),
            out: Vec::new(),
        };
        v.visit_file(&ast);
        all.extend(v.out);
    }
    all.sort();
    for (i, (file, func, h)) in all.iter().enumerate()
    {
        out.push_str(&format!(
            " {}: \"{:016x}\"{}\n",
            json_str(&format!("{}::{}#{}", file, func, i)),
            h,
            if i + 1 < all.len() { "," } else { "" }
        ));
    }
    out.push_str("}\n");
    out
}
