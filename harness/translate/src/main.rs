//! Translators from the declarative parts of /repo to Gallina.
//!
//!   translate grammar <file.pest>            -> Gen/Grammar.v on stdout
//!   translate regexes <repo>                 -> Gen/Regexes.v
//!   translate consts  <repo>                 -> Gen/Consts.v
//!   translate panics  <repo>                 -> panic-site inventory (JSON)
//!   translate fingerprints <repo>            -> token-stream hashes of hand-modelled functions
//!
//! The parsing is done by the very libraries the build of /repo uses
//! (pest_meta 2.7.12, regex-syntax 0.8.4) and by syn; this file only prints.
//! Anything it does not understand makes it exit non-zero with a message
//! starting with `TRANSLATOR-REFUSES:`.

mod consts;
mod grammar;
mod panics;
mod regexes;

pub fn refuse(msg: &str) -> !
{
    eprintln!("TRANSLATOR-REFUSES: {}", msg);
    std::process::exit(3);
}

fn main()
{
    let args: Vec<String> = std::env::args().collect();
    if args.len() < 3
    {
        eprintln!("usage: translate grammar|regexes|consts|panics|fingerprints <path>");
        std::process::exit(2);
    }
    let out = match args[1].as_str()
    {
        "grammar" => grammar::translate(&args[2]),
        "regexes" => regexes::translate(&args[2]),
        "consts" => consts::translate(&args[2]),
        "panics" => panics::inventory(&args[2]),
        "fingerprints" => panics::fingerprints(&args[2]),
        _ => refuse("unknown subcommand"),
    };
    print!("{}", out);
}
