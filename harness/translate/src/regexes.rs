//! Regex literals -> Gallina (`Gen/Regexes.v`).
//!
//! Every `lazy_static! { static ref NAME: Regex = Regex::new(<literal>)... }`
//! in non-test code is located with syn, its pattern parsed to HIR by
//! regex-syntax 0.8.4 (the parser the `regex` crate of Cargo.lock uses, with
//! the same default flags) and printed as a term of `Model.Regex.regex`.
//! The documented extraction regex is read from the user guide.

use crate::refuse;
use regex_syntax::hir::{Class, Hir, HirKind, Look};
use syn::parse::Parser;
use syn::visit::Visit;

pub struct LazyStatic
{
    pub name: String,
    pub ty: String,
    pub init: syn::Expr,
    pub file: String,
}

pub fn is_test_mod(m: &syn::ItemMod) -> bool
{
    if m.ident == "tests" || m.ident == "test"
    {
        return true;
    }
    m.attrs.iter().any(|a| {
        a.path().is_ident("cfg")
            && a.meta
                .require_list()
                .map(|l| l.tokens.to_string().contains("test"))
                .unwrap_or(false)
    })
}

pub fn rust_files(repo: &str) -> Vec<String>
{
    fn walk(dir: &std::path::Path, out: &mut Vec<String>)
    {
        let mut entries: Vec<_> = std::fs::read_dir(dir)
            .unwrap_or_else(|e| refuse(&format!("cannot list {}: {}", dir.display(), e)))
            .filter_map(|e| e.ok())
            .collect();
        entries.sort_by_key(|e| e.path());
        for e in entries
        {
            let p = e.path();
            if p.is_dir()
            {
                walk(&p, out);
            }
            else if p.extension().map_or(false, |x| x == "rs")
            {
                out.push(p.to_str().unwrap().to_string());
            }
        }
    }
    let mut out = Vec::new();
    walk(&std::path::Path::new(repo).join("src"), &mut out);
    out
}

pub fn parse_file(path: &str) -> syn::File
{
    let text = std::fs::read_to_string(path)
        .unwrap_or_else(|e| refuse(&format!("cannot read {}: {}", path, e)));
    syn::parse_file(&text).unwrap_or_else(|e| refuse(&format!("syn cannot parse {}: {}", path, e)))
}

struct LsVisitor
{
    found: Vec<LazyStatic>,
    file: String,
}

fn parse_lazy_static_body(tokens: proc_macro2::TokenStream) -> Option<Vec<(String, String, syn::Expr)>>
{
    let parser = |input: syn::parse::ParseStream| -> syn::Result<Vec<(String, String, syn::Expr)>> {
        let mut out = Vec::new();
        while !input.is_empty()
        {
            let _attrs = input.call(syn::Attribute::parse_outer)?;
            let _vis: syn::Visibility = input.parse()?;
            input.parse::<syn::Token![static]>()?;
            input.parse::<syn::Token![ref]>()?;
            let name: syn::Ident = input.parse()?;
            input.parse::<syn::Token![:]>()?;
            let ty: syn::Type = input.parse()?;
            input.parse::<syn::Token![=]>()?;
            let init: syn::Expr = input.parse()?;
            input.parse::<syn::Token![;]>()?;
            out.push((name.to_string(), quote::quote!(#ty).to_string(), init));
        }
        Ok(out)
    };
    parser.parse2(tokens).ok()
}

impl<'ast> Visit<'ast> for LsVisitor
{
    fn visit_item_mod(&mut self, m: &'ast syn::ItemMod)
    {
        if is_test_mod(m)
        {
            return;
        }
        syn::visit::visit_item_mod(self, m);
    }

    fn visit_expr_call(&mut self, c: &'ast syn::ExprCall)
    {
        // a plain Regex::new(<literal>) outside lazy_static! (LazyLock / OnceLock styles): kept without a name
        let e = syn::Expr::Call(c.clone());
        if regex_literal(&e).is_some()
        {
            self.found.push(LazyStatic {
                name: String::new(),
                ty: "Regex".to_string(),
                init: e,
                file: self.file.clone(),
            });
        }
        syn::visit::visit_expr_call(self, c);
    }

    fn visit_macro(&mut self, m: &'ast syn::Macro)
    {
        if m.path.segments.last().map_or(false, |s| s.ident == "lazy_static")
        {
            match parse_lazy_static_body(m.tokens.clone())
            {
                Some(items) =>
                {
                    for (name, ty, init) in items
                    {
                        self.found.push(LazyStatic {
                            name,
                            ty,
                            init,
                            file: self.file.clone(),
                        });
                    }
                },
                None => refuse(&format!("lazy_static! body in {} not understood", self.file)),
            }
        }
    }
}

pub fn lazy_statics(repo: &str) -> Vec<LazyStatic>
{
    let mut found = Vec::new();
    for f in rust_files(repo)
    {
        let ast = parse_file(&f);
        let mut v = LsVisitor {
            found: Vec::new(),
            file: f.clone(),
        };
        v.visit_file(&ast);
        found.extend(v.found);
    }
    found
}

/// `Regex::new(<string literal>)` possibly followed by `.unwrap()`.
fn regex_literal(e: &syn::Expr) -> Option<String>
{
    match e
    {
        syn::Expr::MethodCall(mc) if mc.method == "unwrap" || mc.method == "expect" =>
        {
            regex_literal(&mc.receiver)
        },
        syn::Expr::Call(c) =>
        {
            let f = quote::quote!(#c).to_string().replace(' ', "");
            if !f.starts_with("Regex::new(") && !f.starts_with("regex::Regex::new(")
            {
                return None;
            }
            if c.args.len() != 1
            {
                return None;
            }
            match &c.args[0]
            {
                syn::Expr::Lit(syn::ExprLit {
                    lit: syn::Lit::Str(s),
                    ..
                }) => Some(s.value()),
                _ => None,
            }
        },
        _ => None,
    }
}

fn cps(s: &str) -> String
{
    let items: Vec<String> = s.chars().map(|c| format!("{}", c as u32)).collect();
    format!("[{}]", items.join("; "))
}

fn hir(h: &Hir) -> String
{
    match h.kind()
    {
        HirKind::Empty => "REmpty".to_string(),
        HirKind::Literal(l) =>
        {
            let s = std::str::from_utf8(&l.0)
                .unwrap_or_else(|_| refuse("regex literal is not UTF-8"));
            format!("(RLit {})", cps(s))
        },
        HirKind::Class(Class::Unicode(c)) =>
        {
            let rs: Vec<String> = c
                .ranges()
                .iter()
                .map(|r| format!("({}, {})", r.start() as u32, r.end() as u32))
                .collect();
            format!("(RClass [{}])", rs.join("; "))
        },
        HirKind::Class(Class::Bytes(c)) =>
        {
            if !c.is_ascii()
            {
                refuse("byte class beyond ASCII in regex");
            }
            let rs: Vec<String> = c
                .ranges()
                .iter()
                .map(|r| format!("({}, {})", r.start() as u32, r.end() as u32))
                .collect();
            format!("(RClass [{}])", rs.join("; "))
        },
        HirKind::Look(Look::Start) => "RStart".to_string(),
        HirKind::Look(Look::End) => "REnd".to_string(),
        HirKind::Look(l) => refuse(&format!("regex look-around {:?} is not modelled", l)),
        HirKind::Repetition(r) =>
        {
            let max = match r.max
            {
                None => "None".to_string(),
                Some(m) => format!("(Some {})", m),
            };
            format!("(RRep {} {} {} {})", r.min, max, r.greedy, hir(&r.sub))
        },
        HirKind::Capture(c) => format!("(RCap {} {})", c.index, hir(&c.sub)),
        HirKind::Concat(v) =>
        {
            let mut it = v.iter().rev();
            let mut acc = hir(it.next().unwrap());
            for x in it
            {
                acc = format!("(RCat {} {})", hir(x), acc);
            }
            acc
        },
        HirKind::Alternation(v) =>
        {
            let mut it = v.iter().rev();
            let mut acc = hir(it.next().unwrap());
            for x in it
            {
                acc = format!("(RAlt {} {})", hir(x), acc);
            }
            acc
        },
    }
}

fn pattern_to_gallina(pat: &str) -> String
{
    let h = regex_syntax::Parser::new()
        .parse(pat)
        .unwrap_or_else(|e| refuse(&format!("regex-syntax rejects {:?}: {}", pat, e)));
    hir(&h)
}

/// The regex shown in the user guide for extracting references from log output.
fn documented_regex(repo: &str) -> String
{
    // the guide shows the pattern on a line of its own (inside a code block): a line that, trimmed and without
    // surrounding back-quotes, starts with `\[ref: ` and ends with `\]`.  Looked for in every text file under
    // docs/ and in the README, wherever the section lives; all occurrences must agree.
    fn walk(dir: &std::path::Path, out: &mut Vec<std::path::PathBuf>)
    {
        if let Ok(rd) = std::fs::read_dir(dir)
        {
            let mut entries: Vec<_> = rd.filter_map(|e| e.ok()).collect();
            entries.sort_by_key(|e| e.path());
            for e in entries
            {
                let p = e.path();
                if p.is_dir()
                {
                    walk(&p, out);
                }
                else if p.extension().map_or(false, |x| x == "rst" || x == "md" || x == "txt")
                {
                    out.push(p);
                }
            }
        }
    }
    let root = std::path::Path::new(repo);
    let mut files = Vec::new();
    walk(&root.join("docs"), &mut files);
    for n in ["README.md", "README.rst", "README"]
    {
        if root.join(n).is_file()
        {
            files.push(root.join(n));
        }
    }
    let mut found: Vec<String> = Vec::new();
    for f in files
    {
        if let Ok(text) = std::fs::read_to_string(&f)
        {
            for line in text.lines()
            {
                let t = line.trim().trim_matches('`').trim();
                if t.starts_with("\\[ref: ") && t.ends_with("\\]")
                {
                    found.push(t.to_string());
                }
            }
        }
    }
    found.dedup();
    match found.len()
    {
        1 => found.remove(0),
        0 => refuse("documented extraction regex not found under docs/ or in the README"),
        _ => refuse(&format!("the documentation shows different extraction regexes: {:?}", found)),
    }
}

pub fn translate(repo: &str) -> String
{
    let mut out = String::new();
    out.push_str("(* GENERATED by /verif/harness/translate from the Regex::new literals of /repo/src\n");
    out.push_str("   (regex-syntax 0.8.4 HIR) and from the user guide.  Do not edit. *)\n");
    out.push_str("From Coq Require Import List NArith.\n");
    out.push_str("From Breadlog Require Import Model.Regex.\n");
    out.push_str("Import ListNotations.\nOpen Scope N_scope.\n\n");
    // by ROLE: the name at the pinned commit and the file; a renamed static is identified as the only
    // Regex static of its file
    let statics: Vec<LazyStatic> = lazy_statics(repo).into_iter().filter(|ls| ls.ty.contains("Regex")).collect();
    let mut emitted = Vec::new();
    for (role, file) in [("LOG_REF_PATTERN", "parser/code_parser.rs"), ("RUST_COMMENT_PATTERN", "parser/rust_parser.rs")]
    {
        let by_name: Vec<&LazyStatic> = statics.iter().filter(|ls| ls.name == role).collect();
        let ls = if by_name.len() == 1
        {
            by_name[0]
        }
        else
        {
            let in_file: Vec<&LazyStatic> = statics.iter().filter(|ls| ls.file.ends_with(file)).collect();
            if in_file.len() != 1
            {
                refuse(&format!("regex static {} not found, and {} has {} Regex statics", role, file, in_file.len()));
            }
            out.push_str(&format!(
                "(* {} is {} in the source now *)\n",
                role,
                if in_file[0].name.is_empty() { "a plain Regex::new call".to_string() } else { format!("called {}", in_file[0].name) }
            ));
            in_file[0]
        };
        let pat = regex_literal(&ls.init).unwrap_or_else(|| {
            refuse(&format!(
                "initialiser of regex static {} in {} is not Regex::new(<literal>)",
                ls.name, ls.file
            ))
        });
        out.push_str(&format!("(* {} in {} : {:?} *)\n", role, ls.file, pat).replace("\"", "'"));
        out.push_str(&format!(
            "Definition re_{} : regex :=\n  {}.\n\n",
            role,
            pattern_to_gallina(&pat)
        ));
        emitted.push(ls.name.clone());
    }
    for ls in &statics
    {
        if emitted.contains(&ls.name) || ls.name.is_empty()
        {
            continue;
        }
        let pat = regex_literal(&ls.init).unwrap_or_else(|| {
            refuse(&format!(
                "initialiser of regex static {} in {} is not Regex::new(<literal>)",
                ls.name, ls.file
            ))
        });
        out.push_str(&format!("(* {} in {} : {:?} *)\n", ls.name, ls.file, pat).replace("\"", "'"));
        out.push_str(&format!(
            "Definition re_{} : regex :=\n  {}.\n\n",
            ls.name,
            pattern_to_gallina(&pat)
        ));
    }
    let doc = documented_regex(repo);
    out.push_str(&format!("(* documented extraction regex: {} *)\n", doc).replace("\"", "'"));
    out.push_str(&format!(
        "Definition re_documented : regex :=\n  {}.\n",
        pattern_to_gallina(&doc)
    ));
    out
}
