//! pest grammar -> Gallina (`Gen/Grammar.v`).
//!
//! `pest_meta::parse_and_optimize` is what `pest_derive` runs at build time;
//! the optimised rules are printed one Gallina constant per rule, in
//! dependency order, rule references being the earlier constants themselves.

use crate::refuse;
use pest_meta::ast::RuleType;
use pest_meta::optimizer::{OptimizedExpr, OptimizedRule};
use std::collections::{BTreeMap, BTreeSet};

fn cps(s: &str) -> String
{
    let items: Vec<String> = s.chars().map(|c| format!("{}", c as u32)).collect();
    format!("[{}]", items.join("; "))
}

fn one_cp(s: &str) -> u32
{
    let mut it = s.chars();
    let c = it.next().unwrap_or_else(|| refuse("empty range bound"));
    if it.next().is_some()
    {
        refuse("range bound longer than one character");
    }
    c as u32
}

fn range(a: char, b: char) -> String
{
    format!("(ERange {} {})", a as u32, b as u32)
}

fn builtin(name: &str) -> Option<String>
{
    Some(match name
    {
        "ANY" => "EAny".to_string(),
        "SOI" => "ESoi".to_string(),
        "EOI" => "EEoi".to_string(),
        "ASCII_DIGIT" => range('0', '9'),
        "ASCII_NONZERO_DIGIT" => range('1', '9'),
        "ASCII_BIN_DIGIT" => range('0', '1'),
        "ASCII_OCT_DIGIT" => range('0', '7'),
        "ASCII_HEX_DIGIT" => format!(
            "(EChoice {} (EChoice {} {}))",
            range('0', '9'),
            range('a', 'f'),
            range('A', 'F')
        ),
        "ASCII_ALPHA_LOWER" => range('a', 'z'),
        "ASCII_ALPHA_UPPER" => range('A', 'Z'),
        "ASCII_ALPHA" => format!("(EChoice {} {})", range('a', 'z'), range('A', 'Z')),
        "ASCII_ALPHANUMERIC" => format!(
            "(EChoice {} (EChoice {} {}))",
            range('a', 'z'),
            range('A', 'Z'),
            range('0', '9')
        ),
        "ASCII" => range('\x00', '\x7f'),
        "NEWLINE" => "(EChoice (EStr [10]) (EChoice (EStr [13; 10]) (EStr [13])))".to_string(),
        "XID_START" => "(EClass XidStart)".to_string(),
        "XID_CONTINUE" => "(EClass XidContinue)".to_string(),
        _ => return None,
    })
}

/// SILENT rules (`_{ .. }`) are inlined at their uses -- all of them except WHITESPACE and COMMENT, which pest
/// calls implicitly.  That preserves the meaning: a silent rule produces no pair and leaves the atomicity as it
/// is (in the model `run (ERule n RSilent false e) = run e`, lemma `silent_rule_transparent`), and it makes the
/// generated grammar independent of how a maintainer names, splits or factors such helper rules.
fn keeps_its_name(name: &str) -> bool
{
    name == "WHITESPACE" || name == "COMMENT"
}

type Inline<'a> = BTreeMap<String, &'a OptimizedExpr>;

fn expr(e: &OptimizedExpr, rules: &BTreeSet<String>, deps: &mut Vec<String>, inl: &Inline, stack: &mut Vec<String>) -> String
{
    match e
    {
        OptimizedExpr::Str(s) => format!("(EStr {})", cps(s)),
        OptimizedExpr::Insens(_) => refuse("case-insensitive string (^\"..\") is not modelled"),
        OptimizedExpr::Range(a, b) => format!("(ERange {} {})", one_cp(a), one_cp(b)),
        OptimizedExpr::Ident(name) =>
        {
            if let Some(body) = inl.get(name)
            {
                if stack.iter().any(|x| x == name)
                {
                    refuse(&format!("recursive silent helper rule {}", name));
                }
                stack.push(name.clone());
                let r = expr(body, rules, deps, inl, stack);
                stack.pop();
                r
            }
            else if rules.contains(name)
            {
                deps.push(name.clone());
                format!("r_{}", name)
            }
            else if let Some(b) = builtin(name)
            {
                b
            }
            else
            {
                refuse(&format!("built-in rule {} is not modelled", name))
            }
        },
        OptimizedExpr::PeekSlice(_, _) => refuse("stack operation PEEK[..]"),
        OptimizedExpr::PosPred(x) => format!("(EPos {})", expr(x, rules, deps, inl, stack)),
        OptimizedExpr::NegPred(x) => format!("(ENeg {})", expr(x, rules, deps, inl, stack)),
        OptimizedExpr::Seq(a, b) =>
        {
            format!("(ESeq {} {})", expr(a, rules, deps, inl, stack), expr(b, rules, deps, inl, stack))
        },
        OptimizedExpr::Choice(a, b) =>
        {
            format!("(EChoice {} {})", expr(a, rules, deps, inl, stack), expr(b, rules, deps, inl, stack))
        },
        OptimizedExpr::Opt(x) => format!("(EOpt {})", expr(x, rules, deps, inl, stack)),
        OptimizedExpr::Rep(x) => format!("(ERep {})", expr(x, rules, deps, inl, stack)),
        OptimizedExpr::Skip(strings) =>
        {
            let items: Vec<String> = strings.iter().map(|s| cps(s)).collect();
            format!("(ESkipUntil [{}])", items.join("; "))
        },
        OptimizedExpr::Push(_) => refuse("stack operation PUSH"),
        OptimizedExpr::RestoreOnErr(_) => refuse("stack operation (restore on error)"),
    }
}

pub fn translate(path: &str) -> String
{
    let text = std::fs::read_to_string(path)
        .unwrap_or_else(|e| refuse(&format!("cannot read {}: {}", path, e)));
    let (_defaults, rules) = match pest_meta::parse_and_optimize(&text)
    {
        Ok(r) => r,
        Err(errs) => refuse(&format!(
            "pest_meta rejects the grammar: {}",
            errs.iter()
                .map(|e| format!("{}", e))
                .collect::<Vec<_>>()
                .join(" / ")
        )),
    };
    let inl: Inline = rules
        .iter()
        .filter(|r| r.ty == RuleType::Silent && !keeps_its_name(&r.name))
        .map(|r| (r.name.clone(), &r.expr))
        .collect();
    let rules: Vec<OptimizedRule> = rules.iter().filter(|r| !inl.contains_key(&r.name)).cloned().collect();
    let names: BTreeSet<String> = rules.iter().map(|r| r.name.clone()).collect();
    let mut bodies: BTreeMap<String, (String, Vec<String>, &OptimizedRule)> = BTreeMap::new();
    for r in &rules
    {
        let mut deps = Vec::new();
        let mut stack = Vec::new();
        let body = expr(&r.expr, &names, &mut deps, &inl, &mut stack);
        bodies.insert(r.name.clone(), (body, deps, r));
    }
    // topological order (source order among ready rules), refusing recursion
    let mut done: Vec<String> = Vec::new();
    let mut done_set: BTreeSet<String> = BTreeSet::new();
    fn visit(
        n: &str,
        bodies: &BTreeMap<String, (String, Vec<String>, &OptimizedRule)>,
        stack: &mut Vec<String>,
        done: &mut Vec<String>,
        done_set: &mut BTreeSet<String>,
    )
    {
        if done_set.contains(n)
        {
            return;
        }
        if stack.iter().any(|s| s == n)
        {
            refuse(&format!("recursive rule {} (the model inlines rule references)", n));
        }
        stack.push(n.to_string());
        for d in &bodies[n].1
        {
            visit(d, bodies, stack, done, done_set);
        }
        stack.pop();
        done_set.insert(n.to_string());
        done.push(n.to_string());
    }
    for r in &rules
    {
        let mut stack = Vec::new();
        visit(&r.name, &bodies, &mut stack, &mut done, &mut done_set);
    }

    let mut out = String::new();
    out.push_str("(* GENERATED by /verif/harness/translate from src/parser/rust_grammar.pest\n");
    out.push_str("   (pest_meta 2.7.12 parse_and_optimize).  Do not edit. *)\n");
    out.push_str("From Coq Require Import List NArith String.\n");
    out.push_str("From Breadlog Require Import Model.Peg.\n");
    out.push_str("Import ListNotations.\nOpen Scope N_scope.\nOpen Scope string_scope.\n\n");
    for n in &done
    {
        let (body, _, r) = &bodies[n];
        let ty = match r.ty
        {
            RuleType::Normal => "RNormal",
            RuleType::Silent => "RSilent",
            RuleType::Atomic => "RAtomic",
            RuleType::CompoundAtomic => "RCompound",
            RuleType::NonAtomic => "RNonAtomic",
        };
        let implicit = n == "WHITESPACE" || n == "COMMENT";
        if implicit
        {
            // the skip machinery runs these with an identity skip; a non-atomic rule
            // inside them would re-enter the skip, which the model does not do
            let mut stack = vec![n.clone()];
            let mut seen = BTreeSet::new();
            while let Some(x) = stack.pop()
            {
                if !seen.insert(x.clone())
                {
                    continue;
                }
                let (_, deps, rr) = &bodies[&x];
                if rr.ty == RuleType::NonAtomic
                {
                    refuse("non-atomic rule reachable from WHITESPACE/COMMENT");
                }
                for d in deps
                {
                    stack.push(d.clone());
                }
            }
        }
        out.push_str(&format!(
            "Definition r_{} : expr :=\n  ERule \"{}\" {} {} {}.\n\n",
            n, n, ty, implicit, body
        ));
    }
    let opt = |n: &str| {
        if names.contains(n)
        {
            format!("(Some r_{})", n)
        }
        else
        {
            "None".to_string()
        }
    };
    out.push_str(&format!(
        "Definition g_whitespace : option expr := {}.\n",
        opt("WHITESPACE")
    ));
    out.push_str(&format!(
        "Definition g_comment : option expr := {}.\n",
        opt("COMMENT")
    ));
    if !names.contains("file")
    {
        refuse("no rule named file");
    }
    out.push_str("Definition g_file : expr := r_file.\n");
    let all: Vec<String> = done
        .iter()
        .map(|n| format!("(\"{}\", r_{})", n, n))
        .collect();
    out.push_str(&format!(
        "Definition g_rules : list (string * expr) :=\n  [{}].\n",
        all.join(";\n   ")
    ));
    out
}
