"""Registry of the properties that have a check, with the texts that go into MANIFEST.json.
`/verif/bin/mkmanifest` writes MANIFEST.json from this table (so the manifest never drifts)."""

DESIGN = "DESIGN.md"

# pid -> dict(text=..., note=..., technique=..., design_ref=...)
CLAIMED = {}

# pid -> reason (properties that are not claimed)
NOT_APPLICABLE = {}


def claim(pid, text, note, technique, design_ref):
    CLAIMED[pid] = dict(text=text, note=note, technique=technique, design_ref=design_ref)


COMMON_NOTE = (" Trusted: Coq 8.16.1 kernel + vm_compute; no axioms (Print Assumptions of every property theorem "
               "is checked to be 'Closed under the global context'); the translators (pest_meta / regex-syntax / syn "
               "front ends + my Gallina printers); the hand-written models in coq/theories/Model (tied to the code "
               "only by the correspondence run of this check); extraction (ExtrOcamlBasic + ExtrOcamlString only) "
               "and ocaml/driver.ml.")

claim("C12",
      "Machine-checked theorems, for ALL strings, about the regex literally translated from the source on every run "
      "(Gen/Regexes.v) and the translated token format: extract_reference s = Some n iff s = '[ref: ' ++ 1..10 ASCII "
      "digits ++ ']' ++ rest with value n <= 4294967295; the inserted token satisfies the rule and the documented "
      "unanchored regex captures dec n. Tie to the code: translators + bounded-exhaustive correspondence of "
      "extract_reference and find() (hook library) against the extracted model; the rule itself is also evaluated "
      "directly on the implementation as the violation search.",
      "regex crate leftmost-first semantics and str::parse::<u32> are modelled (Model/Regex.v, Text.parse_u32) and tied "
      "by correspondence, not proved against Rust." + COMMON_NOTE,
      "Coq proof over translated regex + differential correspondence (bounded exhaustive)",
      "DESIGN.md section 6, C12")
