"""Registry of the properties that have a check, with the texts that go into MANIFEST.json.
`/verif/bin/mkmanifest` writes MANIFEST.json from this table (so the manifest never drifts)."""

DESIGN = "DESIGN.md"

# pid -> dict(text=..., note=..., technique=..., design_ref=...)
CLAIMED = {}

# pid -> reason (properties that are not claimed)
NOT_APPLICABLE = {}


def claim(pid, text, note, technique, design_ref):
    CLAIMED[pid] = dict(text=text, note=note, technique=technique, design_ref=design_ref)


COMMON_NOTE = (" Trusted: Coq 8.16.1 kernel + vm_compute; no axioms (Print Assumptions of every property theorem "
               "is checked to be 'Closed under the global context'); the translators (pest_meta / regex-syntax / syn "
               "front ends + my Gallina printers); the hand-written models in coq/theories/Model (tied to the code "
               "only by the correspondence run of this check); extraction (ExtrOcamlBasic + ExtrOcamlString only) "
               "and ocaml/driver.ml.")

claim("C12",
      "Machine-checked theorems, for ALL strings, about the regex literally translated from the source on every run "
      "(Gen/Regexes.v) and the translated token format: extract_reference s = Some n iff s = '[ref: ' ++ 1..10 ASCII "
      "digits ++ ']' ++ rest with value n <= 4294967295; the inserted token satisfies the rule and the documented "
      "unanchored regex captures dec n; on EVERY message the documented regex (match at offset 0, group 1 parsed as u32) "
      "and extract_reference agree in both directions, and the reported match is leftmost. Tie to the code: translators + bounded-exhaustive correspondence of "
      "extract_reference and find() (hook library) against the extracted model; the rule itself is also evaluated "
      "directly on the implementation as the violation search; the documented regex is run by the regex crate itself "
      "and by the model on every campaign string (docregex).",
      "regex crate leftmost-first semantics and str::parse::<u32> are modelled (Model/Regex.v, Text.parse_u32) and tied "
      "by correspondence, not proved against Rust." + COMMON_NOTE,
      "Coq proof over translated regex + differential correspondence (bounded exhaustive)",
      "DESIGN.md section 6, C12")


claim("C01",
      "Theorem C01_ids_unique_in_range (Coq, closed under the global context), for EVERY tree, configuration, lock "
      "state, fault oracle and stop point of the driver model: the IDs written into files that reached the disk are "
      "pairwise different, lie in 1..4294967294 (the counter never wraps; START_REFERENCE_ID is the translated "
      "constant), and are above every reference of every recognised statement when the lock is absent/disabled/"
      "corrupt or ahead of the tree -- for ANY u32 the lock may record, 0 included (the hypothesis 1 <= L the proof once "
      "needed exposed a defect: a lock recording 0 wrote [ref: 0]; repaired, fix 4749d41); C01_exhaustion_fails: exit 0 "
      "implies every statement lacking a reference got "
      "an ID. The model (Model/Driver.v) is tied to the code by running the real binary and the extracted model on "
      "the same small-scope and random trees (exact comparison of exit, files, lock, count) and the predicate is "
      "evaluated directly on the files the binary produced.",
      "Driver, glue and pest runtime are hand models tied by correspondence only. Overflow of the usize/u32 "
      "missing-reference counters is ignored (needs 2^32 statements)." + COMMON_NOTE,
      "Coq proof (induction over the file list with the counter as state) + differential correspondence on the real binary",
      "DESIGN.md section 6, C01")

claim("C03",
      "Theorem C03_insert_only (Coq): for EVERY byte string as content of any file of any tree, every configuration, "
      "fault oracle and stop point, the file after the run is either byte-identical or is the original cut into "
      "chunks with exactly one token after each chunk, the tokens being those of the entries that lack a reference "
      "(in order, consecutive IDs, at their byte positions): deleting the tokens gives the original back. Proved "
      "over the rewriter loop of the driver model for any finder. C03_canonical_files: the same from the file's TEXT "
      "alone for every file of the canonical file language (composition with the parser specification theorem "
      "find_canonical of Proofs/FileSpec.v): the tokens stand at the offsets `expected` computes from the text. "
      "C03_canonical_rewritten: in either style the bytes written ARE the UTF-8 encoding of the canonical file with the "
      "same layout, names, arguments and other items whose statements without a reference now carry one (`[ref: N] ` "
      "at the start of the message; `ref = N` as first key-value) -- an equation between texts, via decode_is_encode "
      "and weave_items. C03_canonical_rewritten_text: that file is valid UTF-8 again and decodes to the rewritten text. "
      "C03_every_file_text (Proofs/ValidUtf8.v): for EVERY readable file, whatever it contains, the bytes written are "
      "the UTF-8 encoding of the old text with one reference inserted at the CHARACTER position of each entry lacking "
      "one (tweave), and decode to exactly that text -- entry offsets are character boundaries (entries_bnd), the "
      "strict decoder is the inverse of the encoder on scalar values (decode_iff), insertions are ASCII. "
      "Tie: real binary vs extracted model on the "
      "repository's Rust corpus, generated statements and a malformed/mutated stream; the predicate (token deletion "
      "restores the original; tokens only at statements lacking a reference) is evaluated directly on the bytes.",
      "What counts as a statement lacking a reference is the finder's answer (C10-C14 decide whether that is right)."
      + COMMON_NOTE,
      "Coq proof (loop invariant of the rewriter, weave/zip_new specification) + differential correspondence",
      "DESIGN.md section 6, C03")


claim("C04",
      "Theorem C04_check_readonly (Coq): for every tree, configuration, lock state, oracle and discovery outcome the "
      "effect list of a check run of the driver model is empty, so the world after it and at every crash point of it "
      "is the world before it. The weight is in the tie: the real binary runs --check under an LD_PRELOAD interposer "
      "that logs every libc call able to create, write, rename, truncate, chmod or remove (whole process, tracked "
      "and untracked paths) over small-scope/generated trees x lock states x cache x styles, failing configurations, "
      "and runs with a signal or an I/O fault at every operation; the observed mutating set must be empty and the "
      "project snapshot identical; the model's reports/exit are compared too.",
      "Direct syscalls bypassing libc would be invisible to the interposer (the snapshot comparison still applies); "
      "metadata (atime) is not compared." + COMMON_NOTE,
      "Coq proof (no effect constructor on the check path) + interposer trace of the real binary",
      "DESIGN.md section 6, C04")


claim("C07",
      "Theorem C07_crash_atomic (Coq): for EVERY tree, configuration, lock state, EVERY fault oracle (any file "
      "failing at temp creation, at any write or flush, or at the rename; read failures; stop at any poll; failing "
      "lock write) and EVERY kill point (any prefix of the effect list, the next write possibly partial): each "
      "source file holds its original bytes or exactly the content it has after the complete run (characterised by "
      "C03), and the number of files is unchanged. Proved by induction over per-file effect groups. Tie: for every "
      "tracked operation of real runs (trees with 1-3 files, one larger than the write buffer) the process is killed "
      "before/after it and the operation is failed with EIO/ENOSPC/EXDEV/EACCES; each file is compared byte for byte "
      "with {original, complete}; the physical trace must have every write before the rename; fault runs are "
      "compared with the model's prediction.",
      "rename(2) atomicity and durability across power loss are the kernel's; async-std buffering is abstracted as "
      "logical writes (the trace predicate checks the physical order)." + COMMON_NOTE,
      "Coq proof (effect-prefix induction) + kill/fault enumeration on the real binary",
      "DESIGN.md section 6, C07")

claim("C08",
      "Theorems C08_exit_zero_is_complete and C08_no_temp_left (Coq): for every tree and every combination of "
      "injected failures, exit 0 implies that every file the run could read holds its complete new content, the IDs "
      "listed are in those files and (absent a failed rename) the printed count equals the IDs written; no temporary "
      "file survives a run that ends by itself. Tie: single and double faults (incl. every rename failing with EXDEV) "
      "on the real binary, exit/files/lock/count compared with the model's candidates, predicate evaluated directly.",
      "Which logical write sees a physical write error depends on async-std's buffer; the correspondence accepts any "
      "of the model's candidate fault points for that file." + COMMON_NOTE,
      "Coq proof (events of the insert pass) + fault enumeration on the real binary",
      "DESIGN.md section 6, C08")


claim("C18",
      "Theorems (Coq): C18_both_signals_registered -- SIGINT (2) and SIGTERM (15) are each in the list of first "
      "arguments of signal_hook::flag::register translated from main.rs on every run (an OR of the two would be 15 "
      "only); C18_interrupted_check_never_passes, C18_interrupted_edit, C18_interrupted_first_pass -- for every tree "
      "and every poll index at which the stop flag is first seen, a check never exits 0 and an edit exits 0 only if "
      "its insert pass was never needed; with the stop point part of the oracle, C07 (files original or complete), "
      "C02_lock_covers_ids (lock above every ID written) and C08_no_temp_left cover interrupted runs. Tie: both "
      "signals raised before every tracked operation of real check and edit runs; how the process ended, exit "
      "status, files, lock compared with the model and judged directly.",
      "Signals are raised synchronously at libc-call boundaries by the interposer; delivery at arbitrary "
      "instructions, and signal-hook's handler, are outside the model." + COMMON_NOTE,
      "Coq proof over translated signal registration + stop-point oracle; signal injection at every operation of the real binary",
      "DESIGN.md section 6, C18")


claim("C05",
      "Theorems (Coq): C05_missing_predicates_agree (the three separately written 'lacks a reference' tests of the "
      "three processors coincide on every entry); C05_check_verdict (for every tree with an in-scope file, an "
      "uninterrupted non-panicking check reports exactly, file by file and in order, the line/column of the entries "
      "lacking a reference, totals their number, and exits non-zero iff there is one); C05_edit_count_is_exact "
      "(the number an edit run prints is the number of IDs it wrote); C05_canonical_check (composition with the parser "
      "specification theorem and C17: on a tree of canonical files --check reports exactly the line/column `expected` "
      "computes from each file's TEXT for the statements lacking a reference, and exits non-zero iff there is one; no "
      "panic hypothesis, no parse tree); C05_reported_place_is_insertion_place (for EVERY text and every entry the finder "
      "returns, the line/column it carries -- what --check prints -- are Text.line_col of its byte offset e_pos, where an "
      "edit run inserts: also for the one offset that is not a node position, directly after the bracket). "
      "The same filter selects what check reports "
      "and what edit rewrites (C03/C08). Tie: check and edit runs of the real binary on the same trees, the "
      "reported line/column converted to byte offsets independently (characters, CRLF, lone CR, tabs, multi-byte) "
      "and compared with the insertion offsets of the edit diff; both runs compared with the model.",
      "Line/column arithmetic is pest's (modelled by Text.line_col, tied by correspondence). With a failed rename the "
      "printed count includes the failed file's references (pinned by the unit tests; the run exits non-zero)."
      + COMMON_NOTE,
      "Coq proof (count_map/pass_count specification) + check-vs-edit differential on the real binary",
      "DESIGN.md section 6, C05")


claim("C16",
      "Theorems (Coq) on the driver model with the serde defaults translated from context.rs on every run: "
      "C16_defaults (use_cache defaults to true, structured to false, extensions to [rs], and the three fields carry "
      "those default functions); C16_no_cache_no_lock (use_cache false: the run is independent of the lock and "
      "performs no lock operation); C16_corrupt_lock_ignored (an unparsable lock behaves like an absent one: first "
      "pass over the code); C16_next_run_starts_from_lock; C16_lock_text_roundtrip (Model/Lock.v: the TEXT the tool writes "
      "-- translated CACHE_EDIT_WARNING + translated field name of struct Cache + decimal -- is read back as the same "
      "number, for every u32) and C16_lock_text_shapes (document start, CRLF, trailing comments, indentation; empty / "
      "comments only / above u32::MAX are corrupt); C16_nothing_to_scan (discovery error or no in-scope file: "
      "non-zero exit and no effect, both modes). Tie: a stream of lock texts classified by the real binary and by the "
      "extracted lock reader (the reader answers `outside the modelled subset` where it does not model serde_yaml), the "
      "written lock compared byte for byte with lock_text; the full product of present/omitted/explicit values x lock "
      "classes x modes x trees through the real binary compared with the model and judged directly, failing "
      "configurations, and the defaults read back through the hook library.",
      "YAML parsing is serde_yaml's: a configuration is its parsed field set; the lock reader of Model/Lock.v models it "
      "only on the line shapes a lock file has (anything else: RUnknown, excluded from the comparison and counted)." + COMMON_NOTE,
      "Coq proof over translated defaults + configuration product on the real binary",
      "DESIGN.md section 6, C16")


claim("C02",
      "Theorems C02_history_invariant / C02_partial_history_invariant (Coq, induction over the history; the 'ends by "
      "itself' hypothesis is discharged for every run by C17_edit_never_panics): over ANY finite history of developer "
      "edits (arbitrary new trees, lock kept) and runs -- each edit run with ANY injected I/O failure on any file and "
      "ANY stop point -- from a state where the lock is absent or ahead of everything written, no ID is ever written "
      "twice and the lock stays above every ID written, provided each edit run uses the lock, its lock write succeeds "
      "and it ends by itself. C02_lock_covers_ids is the one-run statement. The remaining cases of the property as "
      "written (kill, failing lock write) are FALSE of the faithful model: C02_lock_window_refuted exhibits the "
      "witness (known finding F14, replayed on the real binary on every run and reported as KNOWN-FINDING). Tie: "
      "random histories on the real binary with the ghost map kept by the harness; runs compared with the model.",
      "Partial: holds for runs that end by themselves with a successful lock write; kill / lock-write failure is the "
      "recorded finding F14 (see KNOWN_FINDINGS.txt)." + COMMON_NOTE,
      "Coq proof (history invariant by induction) + refutation witness + random histories on the real binary",
      "DESIGN.md section 6, C02")


claim("C17",
      "Theorems (Coq), for the grammar GENERATED from rust_grammar.pest on this run: C17_grammar_wf (no repetition "
      "body of the start rule, WHITESPACE or COMMENT can succeed without consuming; the implicit skip cannot fail) by "
      "computation; C17_parse_terminates (for ANY grammar with that property parsing ANY text terminates -- generic "
      "proof that the model's repetition loop never runs out of fuel); C17_finder_total: for EVERY text and "
      "configuration the finder returns normally -- unreachable!() is unreachable (only log_macro/other_name/EOI can "
      "stand under `file`: computed), every slice and line/column computation is at a char boundary (node spans are, "
      "for any grammar: TokenFacts), the directive scan slices at the end of the statement's first character; "
      "moreover every entry position lies inside the text and a decodable file has exactly blen(text) bytes "
      "(Utf8Facts.decode_length), so every byte slice of the rewriter is in range: C17_edit_never_panics / "
      "C17_check_never_panics -- for EVERY tree, configuration, lock state and oracle neither mode of the driver model "
      "ends in a panic or hang; C17_invalid_utf8_skipped. Tie: finder and model on a malformed stream "
      "(token soup, char/byte mutations, Unicode injection, edge shapes), both modes of the real binary on that "
      "stream, the corpus and large files (exit must be 0/1), unreadable file skipped, and measured size scaling.",
      "Run time is measured, not proved (termination is). Panics inside dependencies are outside the model."
      + COMMON_NOTE,
      "Coq proof (generic PEG termination + token-position invariants + computed grammar conditions) + malformed-input campaign",
      "DESIGN.md section 6, C17")


claim("C06",
      "Theorems (Coq): C06_complete_tree_is_fixpoint -- for EVERY tree in which no statement of any readable file "
      "lacks a reference, an uninterrupted edit run exits 0, writes no ID, changes no source byte and leaves the lock "
      "value as it is (proved on the driver for any finder; the finder's totality from C17 discharges the no-panic "
      "side condition); C06_check_passes_on_complete_tree; and the token-level round trips "
      "C06_message_token_roundtrip (the inserted token, whatever follows, is read back with its ID through the "
      "translated regex) and C06_structured_value_roundtrip (the digits written after `ref = `, followed by any "
      "blanks, parse back to the ID); at the statement level of the canonical file language (Proofs/FileSpec.v, from the "
      "text): C06_statement_token_roundtrip (a statement whose message begins with the token for id is read back, when "
      "reported at all, with exactly that id -- any layout, any surrounding file) and C06_statement_ref_roundtrip (a "
      "statement whose first key-value is the inserted `ref = id` is read back from that key-value with that id). NOT "
      "proved: that the BYTES an edit run writes are the rendering of such a statement list (UTF-8 round trip + chunk "
      "arithmetic at the level of items) and that the directive decision of every statement is unchanged by the inserted "
      "tokens; this link is decided by exploration: edit / check / second edit of the real binary on generated canonical trees, small-scope "
      "trees and the Rust corpus, with every inserted ID read back through the implementation's finder.",
      "Partial: the step from the bytes written to the statement-level theorems is explored, not proved." + COMMON_NOTE,
      "Coq proof (driver fixpoint + token round trips) + edit/check/edit campaign on the real binary",
      "DESIGN.md section 6, C06")


PARSER_NOTE = (" Coverage of the proof: the parser specification theorem (find_canonical, Proofs/FileSpec.v) holds for every "
               "file of the canonical file language (items_ok: purely syntactic); texts outside it -- values with , or ; "
               "inside brackets, bracketed macro calls whose first argument begins a key-value list without being a "
               "statement, several comments on a directive line, a comment opener inside an ordinary string literal "
               "(finding F12) -- are covered by the glue theorems on ANY parse tree of canonical shape and by the "
               "differential correspondence of the Peg.v/Glue.v model with the implementation plus the property-text "
               "oracle campaign.")

claim("C10",
      "Theorems (Coq): C10_layout_is_skipped -- for ANY layout (whitespace run, then any number of line/block "
      "comments with arbitrary text, each followed by whitespace) pest's implicit skip, as generated from the "
      "WHITESPACE and COMMENT rules of rust_grammar.pest on this run, consumes exactly the layout (proved by "
      "induction against the generated rule constants); C10_configured_names (a name counts iff it is a configured "
      "name, bare or qualified with exactly its module path); C10_message_entry (for ANY parse tree of canonical "
      "shape -- optional target, any number of key-values, message literal -- the entry is at the first character "
      "of the message value, reference read from the literal's text); C10_first_statement_found -- END TO END from "
      "TEXT, no parse tree in the hypotheses: for any layout, configured name (any XID_START/_ char + any XID_CONTINUE "
      "chars), `!(`, any layout, a string literal of any plain characters and backslash escapes, followed by ANYTHING, "
      "as first statement of a file in message style, the finder (generated grammar through Peg.v, then Glue.v) "
      "returns as first entry exactly the byte offset / line / column of the first character of the literal's value "
      "with the reference the literal holds; C10_canonical_files / C10_canonical_parse_tree (Proofs/FileSpec.v) -- the "
      "PARSER SPECIFICATION THEOREM for a canonical file language: any sequence of items (statement `name!( layout "
      "\"message\"` with simple or module-qualified name; a name that starts no bracketed macro call; any other "
      "character), each preceded by any layout, then a final layout (items_ok is purely syntactic): the parse tree "
      "and the finder's result are computed in closed form for every configuration and both styles -- one entry per "
      "statement with a configured name and no ignore directive, at the first character of the message value "
      "(message style) or directly after the bracket with prefix `ref = ` and suffix `; ` (structured style), nothing "
      "for anything else. Tie and violation search: files rendered from "
      "the canonical file language with an oracle computed from the property text alone, compared with the "
      "implementation's finder, the extracted model, and --check / edit of the real binary.",
      "Known finding F12 (comment opener inside an ordinary string literal hides following statements) is replayed "
      "and reported as KNOWN-FINDING." + PARSER_NOTE + COMMON_NOTE,
      "Coq proof (rule lemmas on the generated grammar + glue specification) + oracle-based differential campaign",
      "DESIGN.md section 6, C10")

claim("C11",
      "Theorems (Coq): C11_comment_only_file -- a file consisting only of comments and whitespace (ANY text inside "
      "the comments, commented-out statements included, also a line comment on the last line WITHOUT newline) yields "
      "no entry, for every configuration (proved against the generated grammar: the F8 defect would break this "
      "proof); C11_comments_are_skipped (anywhere in a file); C11_unconfigured_or_ignored_is_skipped (any name that "
      "is not configured, and any statement under an ignore directive, gives no entry whatever its arguments); "
      "C11_canonical_nothing_else / C11_canonical_only_statements (from the parser specification theorem of "
      "Proofs/FileSpec.v): on every file of the canonical file language, comments, names, paths, other characters and "
      "statements of unconfigured macros in any number and order yield no entry. "
      "Tie and violation search: decoys (comments of all styles, unconfigured names incl. prefix/suffix/other "
      "module path/other case, configured names without literal message, macro-like text in string literals) among "
      "real statements with the property-text oracle, and decoy-only trees through both modes of the real binary.",
      PARSER_NOTE + COMMON_NOTE,
      "Coq proof (comment/skip rule lemmas on the generated grammar + glue) + decoy campaign",
      "DESIGN.md section 6, C11")

claim("C13",
      "Theorems (Coq): C13_structured_entry -- for ANY parse tree of canonical shape with ANY number of key-values "
      "(not 0-3), in structured mode: the first key-value with key text `ref` that has a value is the reference "
      "position and its trimmed text parsed as u32 is the reference; otherwise the insertion point is after the "
      "target argument if present else after the bracket, and the token ends with `, ` when other key-values exist "
      "and `; ` when alone; C13_unusable_never_missing (a ref with a non-integer value is unusable: none of the three "
      "processors counts or edits it); C13_written_value_is_recognised (what Breadlog writes parses back). END TO END "
      "FROM THE TEXT (Proofs/ArgLemmas.v: rule lemmas for rust_identifier, kvp_key, kvp_value, kvp_args, target_arg, "
      "macro_args in their non-atomic context, against the generated grammar; Proofs/FileSpec.v): C13_canonical_files -- "
      "on every file of the canonical file language, whose statements may carry `target: \"t\",` and any number of "
      "key-values (identifier keys, optional `:` modifier; values = a digit run, identifier or string literal followed by "
      "any further characters other than `,` `;` and by string literals -- `u.name`, `x + 1` --) with any layout between all tokens, "
      "the finder returns exactly `expected`; C13_structured_statement spells it out (entry AT the value of the first "
      "`ref` key-value with a value, its trimmed text read as u32; else insertion after the target / the bracket with "
      "`, ` / `; `); C13_message_style_statement; C13_ref_key; C13_pieces. C13_canonical_rewritten + "
      "C13_inserted_key_value: after an edit run the bytes of a readable canonical file ARE the UTF-8 encoding of the "
      "canonical file in which every statement that lacked a reference has `ref = N` as its first key-value, directly "
      "after the bracket or the target argument, `,` when key-values follow and `;` when not (an equation between "
      "texts; the example is replayed on the binary). Tie: "
      "structured statements over the key-value grammar with the property-text oracle on finder, model and binary; "
      "unusable refs reported as such and left alone.",
      "The former finding F10b (a comment between the ref value and its delimiter made the reference unusable) is repaired "
      "(fix 4af6beb, theorem C13_ref_value_with_layout); its inputs are still replayed every run." + PARSER_NOTE + COMMON_NOTE,
      "Coq proof (rule lemmas for the argument rules on the generated grammar + glue specification; file-level parser specification theorem) + oracle-based differential campaign",
      "DESIGN.md section 6, C13")

claim("C14",
      "Theorems (Coq) on the directive scan: C14_blank_lines_are_skipped, C14_code_line_in_between (the nearest "
      "non-blank line decides alone; a non-comment line means no directive whatever stands above), "
      "C14_only_nearest_line_matters (lines further up are never looked at), C14_nothing_above; with "
      "C11_unconfigured_or_ignored_is_skipped (ignore => no entry) and C10_message_entry (no-kvp => message-style "
      "entry). Regex level, on the TRANSLATED comment regex with leftmost-first semantics, for ALL comment texts: "
      "C14_line_comment_directive / C14_block_comment_directive (when the nearest non-blank line is `//` body or "
      "`/*` body `*/`, the directive is in force iff body, lower-cased with the translated Unicode table and trimmed, "
      "IS the directive: every letter case and surrounding white space counts, nothing else does), "
      "C14_code_line_without_slash, C14_directives_apply, C14_trailing_line_comment_directive / "
      "C14_trailing_block_comment_directive (a comment AFTER slash-free code on that line is found by the unanchored regex "
      "and decides in the same way). EVERY LINE (Proofs/CommentSpec.v): search_spec -- a closed form of the backtracking "
      "matcher on the translated regex for every newline-free text -- gives C14_directive_scan_every_line (the nearest "
      "non-blank line decides by the body of the LEFTMOST comment the regex sees: after the first `//` followed by a "
      "character, or between `/*` and the LAST `*/` of the line) and C14_directive_decision (directive_check in closed "
      "form for every text of scalar values and every position; no hypothesis on line shapes). Exploration: "
      "generated files with directives / near-misses in every position relative to 1-3 statements, blank-line runs, "
      "indentation, both comment styles, CRLF, plus an enumerated set of placements, against the property-text oracle "
      "on finder, model (translated comment regex, generated Unicode tables) and binary.",
      PARSER_NOTE + COMMON_NOTE,
      "Coq proof (directive-scan lemmas + capture theorems on the translated comment regex) + enumerated/generated placement campaign",
      "DESIGN.md section 6, C14")


claim("C15",
      "Theorems (Coq) on the Finder model: C15_in_scope_files (the files handed to the driver are EXACTLY the "
      "regular files below the source directory, reached through directories only -- never through or as a symbolic "
      "link, never a directory -- whose name has a configured extension), C15_extension_exact, C15_lookalikes "
      "(.RS .rsx .rs.bak, no extension, hidden .rs, trailing dot are out; computed with the translated default "
      "extension list), C15_only_selected_files_change (driver), C15_relative_to_config_file / "
      "C15_absolute_source_dir / C15_lock_next_to_config (for EVERY working directory, with the translated lock "
      "file name). Path and walkdir semantics are a hand model; the tie is the layout campaign: directory layouts "
      "with look-alikes, *.rs directories, links inside/outside/dangling/upward x extension lists x source_dir and "
      "config path spellings x invocation directories x both modes through the real binary under the interposer; "
      "modified / reported / opened files compared with the independently computed scope and with the model.",
      "std::path::Path, walkdir and the kernel's path resolution are modelled, not verified." + COMMON_NOTE,
      "Coq proof (tree induction on the Finder model) + directory-layout campaign on the real binary",
      "DESIGN.md section 6, C15")


claim("C09",
      "PARTIAL. Theorems (Coq) about MODELS of format_args! and of the log macro arms: C09_token_has_no_brace (the "
      "inserted token, built from the translated format pieces, contains no brace for any number), "
      "C09_message_style_record (prefixing a format string with it yields the same record -- level, target, "
      "key-values -- with the token prefixed to the formatted message, and compiles iff the original did), "
      "C09_documented_regex_extracts (the documented regex, translated from the user guide, extracts exactly the "
      "assigned number), C09_structured_style_record (adding ref = N in front yields the same record plus that "
      "key-value). That rustc and the real log macros agree with these models is NOT proved: it is validated by "
      "compiling and running generated programs over the macro grammar before and after an edit by the real binary, "
      "in both styles, and comparing the record streams.",
      "rustc, macro_rules and the log crate are outside the proof; the evidence carries programs / records compared."
      + COMMON_NOTE,
      "Coq proof on a format-string / macro-arm model + translation validation with rustc and the log crate",
      "DESIGN.md section 6, C09")
