"""Registry of the properties that have a check, with the texts that go into MANIFEST.json.
`/verif/bin/mkmanifest` writes MANIFEST.json from this table (so the manifest never drifts)."""

DESIGN = "DESIGN.md"

# pid -> dict(text=..., note=..., technique=..., design_ref=...)
CLAIMED = {}

# pid -> reason (properties that are not claimed)
NOT_APPLICABLE = {}


def claim(pid, text, note, technique, design_ref):
    CLAIMED[pid] = dict(text=text, note=note, technique=technique, design_ref=design_ref)


COMMON_NOTE = (" Trusted: Coq 8.16.1 kernel + vm_compute; no axioms (Print Assumptions of every property theorem "
               "is checked to be 'Closed under the global context'); the translators (pest_meta / regex-syntax / syn "
               "front ends + my Gallina printers); the hand-written models in coq/theories/Model (tied to the code "
               "only by the correspondence run of this check); extraction (ExtrOcamlBasic + ExtrOcamlString only) "
               "and ocaml/driver.ml.")

claim("C12",
      "Machine-checked theorems, for ALL strings, about the regex literally translated from the source on every run "
      "(Gen/Regexes.v) and the translated token format: extract_reference s = Some n iff s = '[ref: ' ++ 1..10 ASCII "
      "digits ++ ']' ++ rest with value n <= 4294967295; the inserted token satisfies the rule and the documented "
      "unanchored regex captures dec n. Tie to the code: translators + bounded-exhaustive correspondence of "
      "extract_reference and find() (hook library) against the extracted model; the rule itself is also evaluated "
      "directly on the implementation as the violation search.",
      "regex crate leftmost-first semantics and str::parse::<u32> are modelled (Model/Regex.v, Text.parse_u32) and tied "
      "by correspondence, not proved against Rust." + COMMON_NOTE,
      "Coq proof over translated regex + differential correspondence (bounded exhaustive)",
      "DESIGN.md section 6, C12")


claim("C01",
      "Theorem C01_ids_unique_in_range (Coq, closed under the global context), for EVERY tree, configuration, lock "
      "state, fault oracle and stop point of the driver model: the IDs written into files that reached the disk are "
      "pairwise different, lie in 1..4294967294 (the counter never wraps; START_REFERENCE_ID is the translated "
      "constant), and are above every reference of every recognised statement when the lock is absent/disabled/"
      "corrupt or ahead of the tree; C01_exhaustion_fails: exit 0 implies every statement lacking a reference got "
      "an ID. The model (Model/Driver.v) is tied to the code by running the real binary and the extracted model on "
      "the same small-scope and random trees (exact comparison of exit, files, lock, count) and the predicate is "
      "evaluated directly on the files the binary produced.",
      "Driver, glue and pest runtime are hand models tied by correspondence only. Overflow of the usize/u32 "
      "missing-reference counters is ignored (needs 2^32 statements)." + COMMON_NOTE,
      "Coq proof (induction over the file list with the counter as state) + differential correspondence on the real binary",
      "DESIGN.md section 6, C01")

claim("C03",
      "Theorem C03_insert_only (Coq): for EVERY byte string as content of any file of any tree, every configuration, "
      "fault oracle and stop point, the file after the run is either byte-identical or is the original cut into "
      "chunks with exactly one token after each chunk, the tokens being those of the entries that lack a reference "
      "(in order, consecutive IDs, at their byte positions): deleting the tokens gives the original back. Proved "
      "over the rewriter loop of the driver model for any finder. Tie: real binary vs extracted model on the "
      "repository's Rust corpus, generated statements and a malformed/mutated stream; the predicate (token deletion "
      "restores the original; tokens only at statements lacking a reference) is evaluated directly on the bytes.",
      "What counts as a statement lacking a reference is the finder's answer (C10-C14 decide whether that is right)."
      + COMMON_NOTE,
      "Coq proof (loop invariant of the rewriter, weave/zip_new specification) + differential correspondence",
      "DESIGN.md section 6, C03")
